package props

import (
	"fmt"
	"go/ast"
	"go/constant"
	"go/token"
	"go/types"
	"sort"
	"strings"

	"golang.org/x/tools/go/ssa"

	"verif/checker/an"
)

func init() {
	register("C31", Prop{
		Pkgs: []string{"./gateway"},
		Explain: "Decided (structural necessary conditions of 'CAR/raw responses are verifiable and sufficient'): " +
			"O1 inside BlocksBackend.GetCAR every block consumer (the path resolver's fetcher factory and the link system's StorageReadOpener) reads through the recording wrapper nodeGetterToCarExporer built over the session getter and over the CAR writer created in the same function (never the bare getter); the CAR written to the pipe has the single root pathMetadata.LastSegment.RootCid() of bb.ResolvePath(ctx, p); the traversal starts from the CID/remainder returned by ResolveToLastNode on its nil edge, with the request's params and the wrapped link system; every exit closes the pipe with the error of the failing step (NewWritable, ResolveToLastNode, walk result); the wrapper returns a node only after it was written (trySendBlock nil edge) and writes key=block.Cid().KeyString(), data=block.RawData() of the same block; " +
			"O2 the dups parameter is used consistently: car.AllowDuplicatePuts(params.Duplicates.Bool()) for the writer and LinkVisitOnlyOnce = !params.Duplicates.Bool() for the dag-scope=all traversal, and Bool() is `== DuplicateBlocksIncluded`; " +
			"O3 dag-scope: buildCarParams accepts exactly the declared DagScope constants (default: error) and defaults to all; walkGatewaySimpleSelector distinguishes block and all explicitly (LoadRaw of the terminal link for block; ExploreAllRecursively for all) and treats the remaining scope as entity, where the UnixFS type switch has explicit File and HAMTShard cases (the two recursive entities) next to a default; " +
			"O4 raw blocks: BlocksBackend.GetBlock returns the RawData of the block fetched for lastSeg.RootCid() together with LastSegment=lastSeg; serveRawBlock serves exactly that file (or the empty identity block only on the isEmptyIdentityProbe edge) and derives ETag/headers from pathMetadata.LastSegment.RootCid(). " +
			"O5 entity-bytes (the CAR is the trace of what the UnixFS reader loads): every io.Copy/io.CopyN from the file is preceded on every path by Seek(from, io.SeekStart) on its nil edge, and no Seek(0, io.SeekEnd) length probe can reach a read without such a repositioning; both seeks use the same `from`, which is range.From or max(probedLength + range.From, 0); the bounded read copies exactly 1 + to - from bytes (linear form) with to = *range.To or probedLength + *range.To, the length coming from a successful probe (a not-yet-probed length is only used under its 'found' flag); " +
			"NOT decided: completeness of the CAR for a scope/byte range (ipld-prime traversal and go-unixfsnode at run time), hash verification of fetched blocks (C03/C05), CAR framing (go-car).",
		Assume:    []string{"blockservice returns blocks whose bytes hash to the requested CID (C03, C05)", "go-car storage.WritableCar.Put frames what it is given", "ipld-prime traversals load every block they visit through LinkSystem.StorageReadOpener"},
		Technique: "SSA rules: value provenance (R-FLOW), nil-edge dominance and must-follow (R-DOM/R-POST), sibling consistency (R-SIB), switch/constant tables from typed AST (R-EXH/R-CONST)",
		Run:       runC31,
	})
}

// c31AllocOf: every root of v is a MakeInterface/pointer of an Alloc of the
// named gateway type; returns those allocs.
func c31AllocsOf(v ssa.Value, typ string) ([]*ssa.Alloc, bool) {
	var out []*ssa.Alloc
	rs := an.Roots(v, nil)
	if len(rs) == 0 {
		return nil, false
	}
	for _, r := range rs {
		a, ok := r.(*ssa.Alloc)
		if !ok || !an.TypeIs(a.Type(), c30Gw, typ) {
			return nil, false
		}
		out = append(out, a)
	}
	return out, true
}

// c31CellStores: values stored (in any function of fns) into the local cell
// behind addr (Alloc or captured FreeVar).
func c31CellStores(fns []*ssa.Function, addr ssa.Value) []ssa.Value {
	cell := an.CellOf(addr)
	if cell == nil {
		return nil
	}
	var out []ssa.Value
	for _, f := range fns {
		an.Instrs(f, func(in ssa.Instruction) {
			if st, ok := in.(*ssa.Store); ok && an.CellOf(st.Addr) == cell {
				if _, isField := st.Addr.(*ssa.FieldAddr); !isField {
					out = append(out, st.Val)
				}
			}
		})
	}
	return out
}

// ---------------------------------------------------------------- roles (unexported identifiers are found by what they are)

type c31Roles struct {
	expT      *types.Named    // the recording getter: struct with a format.NodeGetter field and a storage.WritableCar field
	ngF, cwF  string          // those fields
	send      *ssa.Function   // its method that Put-s a block into the WritableCar
	consumers []*ssa.Function // package-local functions taking a format.NodeGetter (resolver factory, link-system opener)
	wk        *ssa.Function   // the scope traversal: parameters include cid.Cid, CarParams and *linking.LinkSystem, returns error
	bcp       *ssa.Function   // request -> (CarParams, error)
	srb       *ssa.Function   // serves a raw block: has a ResponseWriter parameter and invokes IPFSBackend.GetBlock
}

var c31R *c31Roles

const (
	c31FmtPkg  = "github.com/ipfs/go-ipld-format"
	c31CarStor = "github.com/ipld/go-car/v2/storage"
	c31Linking = "github.com/ipld/go-ipld-prime/linking"
)

func c31ConsumerIdx(g *ssa.Function) int {
	for i, q := range g.Params {
		if an.TypeIs(q.Type(), c31FmtPkg, "NodeGetter") {
			return i
		}
	}
	return -1
}

func c31Resolve(c *an.Ctx) *c31Roles {
	R := &c31Roles{}
	for _, n := range c.P.NamedTypes(c30Gw) {
		st, ok := n.Underlying().(*types.Struct)
		if !ok {
			continue
		}
		ng, cw := "", ""
		for i := 0; i < st.NumFields(); i++ {
			switch {
			case an.TypeIs(st.Field(i).Type(), c31FmtPkg, "NodeGetter"):
				ng = st.Field(i).Name()
			case an.TypeIs(st.Field(i).Type(), c31CarStor, "WritableCar"):
				cw = st.Field(i).Name()
			}
		}
		if ng != "" && cw != "" {
			R.expT, R.ngF, R.cwF = n, ng, cw
		}
	}
	if R.expT != nil {
		for _, m := range c.P.MethodsG(R.expT) {
			for _, cl := range an.AllCalls(m) {
				if cl.Common().IsInvoke() && cl.Common().Method.Name() == "Put" && len(m.Params) > 0 && an.LoadOfField(cl.Common().Value, m.Params[0], R.cwF) {
					R.send = m
				}
			}
		}
	}
	for _, f := range c.P.PkgFuncs(c30Gw) {
		if f.Parent() != nil {
			continue
		}
		sig := f.Signature
		if sig.Recv() == nil && c31ConsumerIdx(f) >= 0 {
			R.consumers = append(R.consumers, f)
		}
		hasCid, hasParams, hasLsys, hasRW := false, false, false, false
		for _, q := range f.Params {
			t := q.Type()
			switch {
			case an.TypeIs(t, c32Cid, "Cid"):
				hasCid = true
			case an.TypeIs(t, c30Gw, "CarParams"):
				hasParams = true
			case an.TypeIs(t, "net/http", "ResponseWriter"):
				hasRW = true
			}
			if pt, ok := t.(*types.Pointer); ok && an.TypeIs(pt.Elem(), c31Linking, "LinkSystem") {
				hasLsys = true
			}
		}
		rs := sig.Results()
		if hasCid && hasParams && hasLsys && rs.Len() == 1 && an.IsErrorType(rs.At(0).Type()) {
			R.wk = f
		}
		if rs.Len() == 2 && an.TypeIs(rs.At(0).Type(), c30Gw, "CarParams") && an.IsErrorType(rs.At(1).Type()) {
			R.bcp = f
		}
		if hasRW {
			// the raw-block handler: fetches with IPFSBackend.GetBlock and can also answer with a
			// synthetic block produced by a package-local call of the same result shape
			fetches, synth := false, false
			for _, cl := range an.AllCalls(f) {
				cc := cl.Common()
				if cc.IsInvoke() && cc.Method.Name() == "GetBlock" && an.TypeIs(cc.Value.Type(), c30Gw, "IPFSBackend") {
					fetches = true
				}
				if g := an.Callee(cl).Static; g != nil && g.Pkg == f.Pkg {
					if rs2 := cc.Signature().Results(); rs2.Len() == 2 && an.TypeIs(rs2.At(0).Type(), c30Gw, "ContentPathMetadata") && an.TypeIs(rs2.At(1).Type(), "files", "File") {
						synth = true
					}
				}
			}
			if fetches && synth {
				R.srb = f
			}
		}
	}
	c31R = R
	return R
}

func c31IsConsumerCall(cl ssa.CallInstruction) (int, bool) {
	g := an.Callee(cl).Static
	if g == nil || c31R == nil {
		return -1, false
	}
	for _, f := range c31R.consumers {
		if f == g {
			return c31ConsumerIdx(f), true
		}
	}
	return -1, false
}

func runC31(c *an.Ctx) {
	p := c.P
	if !c.Need(p.Pkg(c30Gw) != nil, "package gateway") {
		return
	}
	R := c31Resolve(c)
	if !c.Need(R.expT != nil && R.send != nil && len(R.consumers) > 0 && R.wk != nil && R.bcp != nil && R.srb != nil,
		"roles in package gateway: the recording getter type (NodeGetter + WritableCar fields) and its Put-ing method, the block consumers taking a NodeGetter, the scope traversal (cid.Cid, CarParams, *LinkSystem) -> error, the request -> (CarParams, error) parser, the raw-block handler (ResponseWriter + IPFSBackend.GetBlock)") {
		return
	}
	c31GetCAR(c)
	c31Exporter(c)
	c31Dups(c)
	c31Scopes(c)
	c31Raw(c)
	c31EntityBytes(c)
}

// ---------------------------------------------------------------- O1

func c31GetCAR(c *an.Ctx) {
	p := c.P
	gc := p.Func(c30Gw, "BlocksBackend", "GetCAR")
	if !c.Need(gc != nil, "gateway.BlocksBackend.GetCAR") {
		return
	}
	all := c31WithCallees(gc) // closures and package-local functions the CAR production is delegated to
	nConsumers := 0
	for _, fn := range all {
		name := an.FuncName(fn)
		for _, cl := range an.AllCalls(fn) {
			gi, isCons := c31IsConsumerCall(cl)
			if !isCons || gi >= len(cl.Common().Args) {
				continue
			}
			nConsumers++
			ci := an.Callee(cl)
			args := []ssa.Value{nil, cl.Common().Args[gi]}
			var allocs []*ssa.Alloc
			ok := true
			for _, o := range c31Origins(all, gc, args[1], 0) {
				as, okA := c31AllocsOf(o, c31R.expT.Obj().Name())
				ok = ok && okA
				allocs = append(allocs, as...)
			}
			ok = ok && len(allocs) > 0
			c.Check(ok, "O1", "R-FLOW", name, "block-consumer(wrapped-getter)", cl.Pos(),
				"the block consumer reads through nodeGetterToCarExporer (every block it loads is written to the CAR)",
				"the block consumer "+ci.Name+" is given a getter that is not the recording nodeGetterToCarExporer wrapper ("+an.PathOf(args[1])+"): blocks it loads are used for the traversal but never written to the CAR, so the response cannot be verified offline")
			if !ok {
				continue
			}
			seenAlloc := map[*ssa.Alloc]bool{}
			for _, a := range allocs {
				if seenAlloc[a] {
					continue
				}
				seenAlloc[a] = true
				fn := a.Parent() // the function that builds the wrapper
				// fields of the wrapper
				var ng, cw ssa.Value
				an.Instrs(fn, func(in ssa.Instruction) {
					if st, ok := in.(*ssa.Store); ok {
						if f, b := an.FieldOf(st.Addr); f != nil && b == ssa.Value(a) {
							switch f.Name() {
							case c31R.ngF:
								ng = st.Val
							case c31R.cwF:
								cw = st.Val
							}
						}
					}
				})
				okNg := ng != nil
				if okNg {
					for _, r := range an.Roots(ng, nil) {
						if al, ok := r.(*ssa.Alloc); ok && an.TypeIs(al.Type(), c30Gw, c31R.expT.Obj().Name()) {
							okNg = false
						}
						if _, ok := an.IsCallTo(r, an.M("ipld/merkledag", "", "Session")); !ok {
							okNg = false
						}
					}
				}
				okCw := false
				var nw *ssa.Call
				if cw != nil {
					if call, ok := an.IsCallTo(cw, an.M("github.com/ipld/go-car/v2/storage", "", "NewWritable")); ok && call.Parent() == fn {
						okCw = an.OnNilEdgeOf(fn, call, a)
						nw = call
					}
				}
				c.Check(okNg && okCw, "O1", "R-FLOW", name, "exporter{ng:session,cw:NewWritable}", a.Pos(),
					"the wrapper records blocks of the block-service session into the CAR writer created here (on its nil edge)",
					fmt.Sprintf("nodeGetterToCarExporer is not built from the merkledag session getter and the storage.NewWritable result of this function (ng ok=%v, cw ok=%v): loaded blocks go to another/no CAR", okNg, okCw))
				_ = nw
			}
		}
	}
	c.Min("O1 block consumers inside GetCAR (resolver factory, link-system opener)", nConsumers, 1)

	// the streaming writer: NewWritable whose writer argument is the pipe writer
	pipes := an.Calls(gc, an.M("io", "", "Pipe"))
	if !c.Need(len(pipes) == 1, "one io.Pipe() in GetCAR") {
		return
	}
	pr, pw := an.Result(pipes[0], 0), an.Result(pipes[0], 1)
	isPipeW := func(v ssa.Value) bool {
		for _, r := range c31Origins(all, gc, v, 0) {
			ok := false
			for _, x := range pw {
				ok = ok || r == x
			}
			if !ok {
				return false
			}
		}
		return true
	}
	// returned reader is the pipe's reader
	for _, r := range an.Returns(gc) {
		if len(r.Results) == 3 && an.IsNilConst(r.Results[2]) {
			rd := r.Results[1]
			isBuf := false
			okR := true
			for _, root := range an.Roots(rd, nil) {
				if cl, ok := root.(*ssa.Call); ok && an.Callee(cl).Name == "NopCloser" {
					isBuf = true
					continue
				}
				found := false
				for _, x := range pr {
					found = found || root == x
				}
				okR = okR && found
			}
			if isBuf {
				continue // the "path not found" answer built in a buffer
			}
			c.Check(okR, "O1", "R-FLOW", an.FuncName(gc), "return=pipe-reader", r.Pos(), "the caller reads the pipe the CAR is written to", "GetCAR returns a reader that is not the read end of the pipe the CAR writer writes to")
		}
	}
	nStream := 0
	for _, fn := range all {
		name := an.FuncName(fn)
		for _, cl := range an.Calls(fn, an.M("github.com/ipld/go-car/v2/storage", "", "NewWritable")) {
			nw := an.CallValue(cl)
			if nw == nil || !isPipeW(nw.Call.Args[0]) {
				continue
			}
			nStream++
			// roots: one-element slice literal holding pathMetadata.LastSegment.RootCid()
			okRoot := false
			why := "roots argument is not a one-element slice literal"
			if sl, ok := nw.Call.Args[1].(*ssa.Slice); ok {
				if arr, ok := sl.X.(*ssa.Alloc); ok {
					if at, ok := arr.Type().(*types.Pointer).Elem().Underlying().(*types.Array); ok && at.Len() == 1 {
						for _, ref := range *arr.Referrers() {
							ia, ok := ref.(*ssa.IndexAddr)
							if !ok {
								continue
							}
							for _, r2 := range *ia.Referrers() {
								st, ok := r2.(*ssa.Store)
								if !ok {
									continue
								}
								var rc *ssa.Call
								okRc := true
								for _, o := range c31Origins(all, gc, st.Val, 0) {
									cc, ok := an.IsCallTo(o, an.M("path", "ImmutablePath", "RootCid"))
									if !ok {
										okRc = false
									}
									rc = cc
								}
								if !okRc || rc == nil {
									why = "root is not <path>.RootCid()"
									continue
								}
								// the path whose root is taken: the LastSegment of a ContentPathMetadata, possibly handed
								// down as an argument to the function that writes the CAR
								var bases []ssa.Value
								okSeg := true
								for _, ro := range c31Origins(all, gc, an.Recv(rc), 0) {
									u, ok := ro.(*ssa.UnOp)
									if !ok || u.Op != token.MUL {
										okSeg = false
										continue
									}
									f, base := an.FieldOf(u.X)
									if f == nil || f.Name() != "LastSegment" || !an.TypeIs(an.FieldBaseType(u.X), c30Gw, "ContentPathMetadata") {
										okSeg = false
										continue
									}
									bases = append(bases, base)
								}
								if !okSeg || len(bases) == 0 {
									why = "root is not the LastSegment of a ContentPathMetadata"
									continue
								}
								// the metadata value comes from bb.ResolvePath(ctx, p)
								var vals []ssa.Value
								okMd := true
								for _, base := range bases {
									vs := c31CellStores(all, base)
									okMd = okMd && len(vs) > 0
									vals = append(vals, vs...)
								}
								for _, v := range vals {
									rp, ok := an.IsCallTo(v, an.M(c30Gw, "BlocksBackend", "ResolvePath"))
									if !ok {
										okMd = false
										continue
									}
									// argument p is GetCAR's path parameter
									pa := an.Args(rp)
									if len(pa) != 2 {
										okMd = false
										continue
									}
									for _, r := range an.Roots(pa[1], nil) {
										if prm, ok := r.(*ssa.Parameter); !ok || prm.Parent() != gc {
											okMd = false
										}
									}
								}
								if okMd {
									okRoot = true
								} else {
									why = "the metadata is not the result of bb.ResolvePath(ctx, p) for the requested path"
								}
							}
						}
					}
				}
			}
			c.Check(okRoot, "O1", "R-FLOW", name, "CAR-root=ResolvePath(p).LastSegment.RootCid()", nw.Pos(),
				"the CAR has the resolved content root as its only root",
				"the CAR header root is not pathMetadata.LastSegment.RootCid() of bb.ResolvePath(ctx, p) ("+why+"): the client cannot anchor verification at the resolved content root")
			// traversal
			walks := an.Calls(fn, c30M(c31R.wk))
			if !c.Need(len(walks) == 1, "one walkGatewaySimpleSelector call next to the streaming CAR writer") {
				continue
			}
			wk := an.CallValue(walks[0])
			wa := wk.Call.Args
			var res ssa.CallInstruction
			for _, rc := range an.AllCalls(fn) {
				if rc.Common().IsInvoke() && rc.Common().Method.Name() == "ResolveToLastNode" {
					res = rc
				}
			}
			okWalk := res != nil && len(wa) == 6
			detail := ""
			if okWalk {
				r0, r1 := an.Result(res, 0), an.Result(res, 1)
				okCid := len(r0) > 0 && wa[1] == r0[0]
				okRem := len(r1) > 0 && wa[3] == r1[0]
				okNil := an.OnNilEdgeOf(fn, res, wk)
				okParams := false
				for _, v := range c31Origins(all, gc, wa[4], 0) {
					if prm, ok := v.(*ssa.Parameter); ok && prm.Parent() == gc && an.TypeIs(prm.Type(), c30Gw, "CarParams") {
						okParams = true
					}
				}
				// the resolver itself reads through the wrapper
				okResolver := false
				for _, r := range an.Roots(res.Common().Value, nil) {
					if nb, ok := an.IsCallTo(r, an.M("path/resolver", "", "NewBasicResolver")); ok {
						for _, fr := range an.Roots(nb.Call.Args[0], nil) {
							if fc, ok := fr.(*ssa.Call); ok {
								if _, isCons := c31IsConsumerCall(fc); !isCons {
									continue
								}
								if _, ok := c31AllocsOf(fc.Call.Args[c31ConsumerIdx(an.Callee(fc).Static)], c31R.expT.Obj().Name()); ok {
									okResolver = true
								}
							}
						}
					}
				}
				// the link system's opener
				okLsys := false
				if la, ok := wa[5].(*ssa.Alloc); ok {
					an.Instrs(fn, func(in ssa.Instruction) {
						if st, ok := in.(*ssa.Store); ok {
							if f, b := an.FieldOf(st.Addr); f != nil && f.Name() == "StorageReadOpener" && b == ssa.Value(la) {
								if bo, ok := st.Val.(*ssa.Call); ok {
									if _, isCons := c31IsConsumerCall(bo); !isCons {
										return
									}
									if _, ok := c31AllocsOf(bo.Call.Args[c31ConsumerIdx(an.Callee(bo).Static)], c31R.expT.Obj().Name()); ok && an.Dominates(st, wk) {
										okLsys = true
									}
								}
							}
						}
					})
				}
				okWalk = okCid && okRem && okNil && okParams && okResolver && okLsys
				detail = fmt.Sprintf("lastCid=%v remainder=%v nil-edge=%v params=%v resolver-through-wrapper=%v lsys-opener-through-wrapper=%v", okCid, okRem, okNil, okParams, okResolver, okLsys)
			}
			c.Check(okWalk, "O1", "R-FLOW", name, "walk(ResolveToLastNode(p),params,wrapped-lsys)", wk.Pos(),
				"the scope traversal starts at the resolved terminal CID with the request's params and a link system that records into the CAR",
				"the traversal is not walkGatewaySimpleSelector(ctx, lastCid, nil, remainder, params, &lsys) with (lastCid, remainder) from a successful ResolveToLastNode(ctx, p) through the recording wrapper: "+detail)
			// pipe closed with the failing step's error on every exit
			var closes []ssa.CallInstruction
			for _, cc := range an.Calls(fn, an.M("io", "PipeWriter", "CloseWithError")) {
				closes = append(closes, cc)
			}
			okClose := len(closes) > 0
			var allowed []ssa.Value
			allowed = append(allowed, an.ErrResult(nw)...)
			if res != nil {
				allowed = append(allowed, an.ErrResult(res)...)
			}
			allowed = append(allowed, wk)
			al := an.Aliases(allowed...)
			for _, cc := range closes {
				if !al[an.Args(cc)[0]] {
					okClose = false
				}
			}
			for _, r := range an.Returns(fn) {
				okClose = okClose && an.MustPrecede(fn, r, an.AsInstrs(closes))
			}
			// the traversal's own result must reach the pipe
			var walkCloses []ssa.Instruction
			for _, cc := range closes {
				if an.Aliases(wk)[an.Args(cc)[0]] {
					walkCloses = append(walkCloses, cc)
				}
			}
			okFollow, _ := an.MustFollow(fn, wk, walkCloses)
			c.Check(okClose && okFollow, "O1", "R-POST", name, "pipe.CloseWithError(step error)", wk.Pos(),
				"every exit closes the pipe with the error of the step that failed; the traversal result always reaches the reader",
				"an exit of the CAR goroutine does not close the pipe with the failing step's error (or the traversal error is dropped): a truncated CAR looks like a complete one to the client, or the reader hangs")
		}
	}
	c.Min("O1 streaming CAR writers (NewWritable on the pipe)", nStream, 1)
}

func c31Exporter(c *an.Ctx) {
	p := c.P
	get := p.MethodG(c31R.expT, "Get")
	send := c31R.send
	many := p.MethodG(c31R.expT, "GetMany")
	if !c.Need(get != nil && send != nil && many != nil, "nodeGetterToCarExporer.{Get,GetMany,trySendBlock}") {
		return
	}
	// Get
	{
		fn := get
		name := an.FuncName(fn)
		recv := fn.Params[0]
		var inner ssa.CallInstruction
		for _, cl := range an.AllCalls(fn) {
			if cl.Common().IsInvoke() && cl.Common().Method.Name() == "Get" && an.LoadOfField(cl.Common().Value, recv, c31R.ngF) {
				inner = cl
			}
		}
		sends := an.Calls(fn, c30M(c31R.send))
		if c.Need(inner != nil && len(sends) == 1, "inner ng.Get and one trySendBlock in nodeGetterToCarExporer.Get") {
			nd := an.Result(inner, 0)
			okArgs := true
			ia := an.Args(inner)
			// same cid parameter
			if len(ia) == 2 {
				_, isP := ia[1].(*ssa.Parameter)
				okArgs = isP
			}
			sa := an.Args(sends[0])
			okSendArg := len(sa) == 2 && len(nd) > 0 && an.Aliases(nd...)[sa[1]]
			for _, r := range an.Returns(fn) {
				if len(r.Results) != 2 || an.IsNilConst(r.Results[0]) {
					continue
				}
				ok := an.Aliases(nd...)[r.Results[0]] && an.OnNilEdgeOf(fn, inner, r) && an.OnNilEdgeOf(fn, sends[0], r)
				c.Check(ok && okArgs && okSendArg, "O1", "R-DOM", name, "return-node<=trySendBlock-ok", r.Pos(),
					"a node is handed to the traversal only after it was written to the CAR",
					"nodeGetterToCarExporer.Get can return a node that was not (successfully) written to the CAR, or writes a different node than it returns: the traversal proceeds over blocks missing from the response")
			}
		}
	}
	// trySendBlock: Put(ctx, block.Cid().KeyString(), block.RawData())
	{
		fn := send
		name := an.FuncName(fn)
		var blk *ssa.Parameter
		for _, q := range fn.Params {
			if an.TypeIs(q.Type(), "github.com/ipfs/go-block-format", "Block") {
				blk = q
			}
		}
		var puts []ssa.CallInstruction
		for _, cl := range an.AllCalls(fn) {
			if cl.Common().IsInvoke() && cl.Common().Method.Name() == "Put" {
				puts = append(puts, cl)
			}
		}
		if c.Need(blk != nil && len(puts) == 1, "block parameter and one cw.Put in trySendBlock") {
			a := an.Args(puts[0])
			okKey, okData := false, false
			if len(a) == 3 {
				if ks, ok := an.IsCallTo(a[1], an.M(c32Cid, "Cid", "KeyString")); ok {
					if cc, ok := an.IsCallTo(an.Recv(ks), an.M("github.com/ipfs/go-block-format", "Block", "Cid")); ok && an.Recv(cc) == ssa.Value(blk) {
						okKey = true
					}
				}
				if rd, ok := an.IsCallTo(a[2], an.M("github.com/ipfs/go-block-format", "Block", "RawData")); ok && an.Recv(rd) == ssa.Value(blk) {
					okData = true
				}
			}
			okRet := true
			for _, r := range an.Returns(fn) {
				okRet = okRet && len(r.Results) == 1 && an.Aliases(an.ErrResult(puts[0])...)[r.Results[0]]
			}
			c.Check(okKey && okData && okRet, "O1", "R-FLOW", name, "Put(block.Cid().KeyString(),block.RawData())", puts[0].Pos(),
				"the CAR section is keyed by the block's own CID and carries the block's own bytes; the write error is returned",
				fmt.Sprintf("trySendBlock does not write (key=block.Cid().KeyString(), data=block.RawData()) of its block argument and return the Put error (key ok=%v data ok=%v error returned=%v): CAR sections whose bytes do not hash to their CID, or lost write errors", okKey, okData, okRet))
		}
	}
	// GetMany: forwarded options only after trySendBlock succeeded
	{
		n := 0
		for _, fn := range an.WithClosures(many) {
			sends := an.Calls(fn, c30M(c31R.send))
			if len(sends) == 0 {
				continue
			}
			name := an.FuncName(fn)
			an.Instrs(fn, func(in ssa.Instruction) {
				var sent []ssa.Value
				switch x := in.(type) {
				case *ssa.Send:
					sent = append(sent, x.X)
				case *ssa.Select:
					for _, st := range x.States {
						if st.Send != nil {
							sent = append(sent, st.Send)
						}
					}
				}
				for _, v := range sent {
					// forwarding the received option (not a freshly built error option)
					if _, fresh := v.(*ssa.Alloc); fresh {
						continue
					}
					n++
					ok2 := false
					for _, s := range sends {
						if an.OnNilEdgeOf(fn, s, in) {
							ok2 = true
						}
					}
					c.Check(ok2, "O1", "R-DOM", name, "forward-option<=trySendBlock-ok", in.Pos(), "a node option is forwarded only after its block was written to the CAR",
						"GetMany forwards a node whose block was not (successfully) written to the CAR")
				}
			})
		}
		c.Min("O1 forwarded node options in nodeGetterToCarExporer.GetMany", n, 1)
	}
}

// ---------------------------------------------------------------- O2

func c31Dups(c *an.Ctx) {
	p := c.P
	bl := p.Func(c30Gw, "DuplicateBlocksPolicy", "Bool")
	if !c.Need(bl != nil, "DuplicateBlocksPolicy.Bool") {
		return
	}
	var included constant.Value
	if k, ok := p.Pkg(c30Gw).Types.Scope().Lookup("DuplicateBlocksIncluded").(*types.Const); ok {
		included = k.Val()
	}
	okBool := included != nil
	for _, r := range an.Returns(bl) {
		b, ok := r.Results[0].(*ssa.BinOp)
		if !ok || b.Op != token.EQL {
			okBool = false
			continue
		}
		k, isK := an.ConstOf(b.Y)
		if !isK {
			k, isK = an.ConstOf(b.X)
		}
		okBool = okBool && isK && included != nil && constant.Compare(k, token.EQL, included)
	}
	c.Check(okBool, "O2", "R-CONST", an.FuncName(bl), "Bool()==(d==DuplicateBlocksIncluded)", bl.Pos(), "duplicates only when explicitly requested",
		"DuplicateBlocksPolicy.Bool() is not `d == DuplicateBlocksIncluded`: duplicate blocks appear when not requested (or never)")
	isDupBool := func(v ssa.Value) bool {
		call, ok := an.IsCallTo(v, an.M(c30Gw, "DuplicateBlocksPolicy", "Bool"))
		if !ok {
			return false
		}
		recv := an.Recv(call)
		u, ok := recv.(*ssa.UnOp)
		if !ok {
			return false
		}
		f, _ := an.FieldOf(u.X)
		return f != nil && f.Name() == "Duplicates" && an.TypeIs(an.FieldBaseType(u.X), c30Gw, "CarParams")
	}
	gc := p.Func(c30Gw, "BlocksBackend", "GetCAR")
	nA := 0
	if gc != nil {
		for _, fn := range c31WithCallees(gc) {
			for _, cl := range an.Calls(fn, an.M("github.com/ipld/go-car/v2", "", "AllowDuplicatePuts")) {
				nA++
				c.Check(isDupBool(cl.Common().Args[0]), "O2", "R-SIB", an.FuncName(fn), "AllowDuplicatePuts(params.Duplicates.Bool())", cl.Pos(),
					"the CAR writer allows duplicate sections exactly when dups=y", "car.AllowDuplicatePuts is not given params.Duplicates.Bool(): the writer dedups although duplicates were requested, or emits duplicates unasked")
			}
		}
	}
	c.Min("O2 AllowDuplicatePuts options in GetCAR", nA, 1)
	wk := c31R.wk
	if !c.Need(wk != nil, "walkGatewaySimpleSelector") {
		return
	}
	nV := 0
	var wkParams *ssa.Parameter
	for _, q := range wk.Params {
		if an.TypeIs(q.Type(), c30Gw, "CarParams") {
			wkParams = q
		}
	}
	for _, fn := range c31WithCallees(wk) {
		fn := fn
		an.Instrs(fn, func(in ssa.Instruction) {
			st, ok := in.(*ssa.Store)
			if !ok {
				return
			}
			f, _ := an.FieldOf(st.Addr)
			if f == nil || f.Name() != "LinkVisitOnlyOnce" {
				return
			}
			nV++
			u, ok := st.Val.(*ssa.UnOp)
			// the CarParams consulted are the request's: the traversal function's own parameter, or a
			// helper parameter that receives it
			okP := ok && u.Op == token.NOT && isDupBool(u.X)
			if okP {
				if bc, isCall := an.IsCallTo(u.X, an.M(c30Gw, "DuplicateBlocksPolicy", "Bool")); isCall {
					if ld, isLd := an.Recv(bc).(*ssa.UnOp); isLd {
						_, base := an.FieldOf(ld.X)
						for _, r := range an.Roots(base, nil) {
							// a by-value struct parameter is spilled into a local cell
							if al, isAl := r.(*ssa.Alloc); isAl {
								for _, ref := range *al.Referrers() {
									if sp, isSt := ref.(*ssa.Store); isSt && sp.Addr == ssa.Value(al) {
										r = sp.Val
									}
								}
							}
							if prm, isPrm := r.(*ssa.Parameter); isPrm && prm != wkParams && prm.Parent() != wk {
								okP = okP && c31ParamFrom(c31WithCallees(wk), prm.Parent(), prm, wkParams)
							}
						}
					}
				}
			}
			c.Check(okP, "O2", "R-SIB", an.FuncName(fn), "LinkVisitOnlyOnce=!params.Duplicates.Bool()", st.Pos(),
				"the traversal revisits links exactly when dups=y", "LinkVisitOnlyOnce is not the negation of params.Duplicates.Bool(): traversal and writer disagree about duplicates (blocks missing with dups=y, or repeated with dups=n)")
		})
	}
	c.Min("O2 LinkVisitOnlyOnce settings", nV, 1)
}

// ---------------------------------------------------------------- O3

func c31Scopes(c *an.Ctx) {
	p := c.P
	pk := p.Pkg(c30Gw)
	scopeT := p.Named(c30Gw, "DagScope")
	if !c.Need(scopeT != nil, "gateway.DagScope") {
		return
	}
	declared := map[string]string{} // value -> name
	for _, nm := range pk.Types.Scope().Names() {
		if k, ok := pk.Types.Scope().Lookup(nm).(*types.Const); ok && types.Identical(k.Type(), scopeT) {
			declared[constant.StringVal(k.Val())] = nm
		}
	}
	c.Min("O3 declared DagScope constants", len(declared), 2)
	// buildCarParams: switch over DagScope values
	bcp := c31R.bcp
	_, fd := p.FuncDecl(c30Gw, "", bcp.Name())
	if !c.Need(fd != nil && bcp != nil, "gateway.buildCarParams") {
		return
	}
	accepted := map[string]bool{}
	defaultErr := false
	found := false
	ast.Inspect(fd.Body, func(n ast.Node) bool {
		sw, ok := n.(*ast.SwitchStmt)
		if !ok {
			return true
		}
		isScope := false
		for _, cc := range sw.Body.List {
			for _, e := range cc.(*ast.CaseClause).List {
				if tv, ok := pk.TypesInfo.Types[e]; ok && tv.Value != nil && types.Identical(tv.Type, scopeT) {
					isScope = true
				}
			}
		}
		if !isScope {
			return true
		}
		found = true
		for _, cc := range sw.Body.List {
			cl := cc.(*ast.CaseClause)
			if cl.List == nil {
				// default must return a non-nil error
				for _, s := range cl.Body {
					if rs, ok := s.(*ast.ReturnStmt); ok && len(rs.Results) == 2 {
						if tv, ok := pk.TypesInfo.Types[rs.Results[1]]; ok && !tv.IsNil() {
							defaultErr = true
						}
					}
				}
				continue
			}
			for _, e := range cl.List {
				if tv, ok := pk.TypesInfo.Types[e]; ok && tv.Value != nil {
					accepted[constant.StringVal(tv.Value)] = true
				}
			}
		}
		return true
	})
	var missing, extra []string
	for v := range declared {
		if !accepted[v] {
			missing = append(missing, v)
		}
	}
	for v := range accepted {
		if _, ok := declared[v]; !ok {
			extra = append(extra, v)
		}
	}
	sort.Strings(missing)
	sort.Strings(extra)
	c.Check(found && defaultErr && len(missing) == 0 && len(extra) == 0, "O3", "R-EXH", an.FuncName(bcp), "dag-scope∈declared-else-error", fd.Pos(),
		"buildCarParams accepts exactly the declared dag-scope values and rejects anything else",
		fmt.Sprintf("buildCarParams' dag-scope switch: found=%v default-returns-error=%v not accepted %v, undeclared %v: an unsupported scope is served as some other scope, or a supported one is refused", found, defaultErr, missing, extra))
	// default scope when absent: a store of DagScopeAll into params.Scope
	okDef := false
	an.Instrs(bcp, func(in ssa.Instruction) {
		if st, ok := in.(*ssa.Store); ok {
			if f, _ := an.FieldOf(st.Addr); f != nil && f.Name() == "Scope" {
				if k, ok := an.ConstOf(st.Val); ok && k.Kind() == constant.String && declared[constant.StringVal(k)] == "DagScopeAll" {
					okDef = true
				}
			}
		}
	})
	c.Check(okDef, "O3", "R-CONST", an.FuncName(bcp), "default-scope=all", bcp.Pos(), "the default dag-scope is all", "no default of dag-scope=all when the parameter is absent")

	// walkGatewaySimpleSelector: explicit comparisons
	wk := c31R.wk
	if !c.Need(wk != nil, "walkGatewaySimpleSelector") {
		return
	}
	name := an.FuncName(wk)
	var params *ssa.Parameter
	for _, q := range wk.Params {
		if an.TypeIs(q.Type(), c30Gw, "CarParams") {
			params = q
		}
	}
	if !c.Need(params != nil, "CarParams parameter of walkGatewaySimpleSelector") {
		return
	}
	scopeEdges := func(val string, want bool) an.EdgeSet {
		return an.CondEdges(wk, func(atom ssa.Value) (bool, bool) {
			b, ok := atom.(*ssa.BinOp)
			if !ok || (b.Op != token.EQL && b.Op != token.NEQ) {
				return false, false
			}
			x, y := b.X, b.Y
			if _, ok := x.(*ssa.Const); ok {
				x, y = y, x
			}
			k, ok := an.ConstOf(y)
			if !ok || k.Kind() != constant.String || constant.StringVal(k) != val {
				return false, false
			}
			isScope := false
			switch s := x.(type) {
			case *ssa.Field:
				f, b := an.FieldOf(s)
				isScope = f != nil && f.Name() == "Scope" && b == ssa.Value(params)
			case *ssa.UnOp:
				if f, _ := an.FieldOf(s.X); f != nil && f.Name() == "Scope" {
					isScope = true
				}
			}
			if !isScope {
				return false, false
			}
			eq := b.Op == token.EQL
			return eq == want, eq != want
		})
	}
	var blockV, allV string
	for v, nm := range declared {
		switch nm {
		case "DagScopeBlock":
			blockV = v
		case "DagScopeAll":
			allV = v
		}
	}
	if !c.Need(blockV != "" && allV != "", "DagScopeBlock / DagScopeAll constants") {
		return
	}
	compared := 0
	for v := range declared {
		if len(scopeEdges(v, true)) > 0 {
			compared++
		}
	}
	c.Check(compared == len(declared)-1, "O3", "R-EXH", name, "scopes-distinguished", wk.Pos(),
		fmt.Sprintf("%d of %d scopes are tested explicitly, the remaining one (entity) is the fall-through", compared, len(declared)),
		fmt.Sprintf("walkGatewaySimpleSelector tests %d of %d declared dag-scope values explicitly (expected all but one): a scope is silently handled as another scope", compared, len(declared)))
	// block: LoadRaw of the terminal link on the block edge, and return right after
	blkT := scopeEdges(blockV, true)
	var loadRaw []ssa.CallInstruction
	for _, cl := range an.Calls(wk, an.M("github.com/ipld/go-ipld-prime/linking", "LinkSystem", "LoadRaw")) {
		loadRaw = append(loadRaw, cl)
	}
	okBlk := len(blkT) > 0 && len(loadRaw) >= 1
	var lastCid *ssa.Parameter
	for _, q := range wk.Params {
		if an.TypeIs(q.Type(), c32Cid, "Cid") {
			lastCid = q
		}
	}
	if okBlk {
		lr := loadRaw[0]
		okBlk = an.GuardedBy(wk, nil, lr.(ssa.Instruction), blkT)
		// the link is built from lastCid
		okLink := false
		a := an.Args(lr)
		if len(a) == 2 {
			for _, r := range an.Roots(a[1], nil) {
				if al, ok := r.(*ssa.Alloc); ok {
					an.Instrs(wk, func(in ssa.Instruction) {
						if st, ok := in.(*ssa.Store); ok {
							if f, b := an.FieldOf(st.Addr); f != nil && f.Name() == "Cid" && b == ssa.Value(al) && st.Val == ssa.Value(lastCid) {
								okLink = true
							}
						}
					})
				}
				if u, ok := r.(*ssa.UnOp); ok {
					if al, ok := u.X.(*ssa.Alloc); ok {
						an.Instrs(wk, func(in ssa.Instruction) {
							if st, ok := in.(*ssa.Store); ok {
								if f, b := an.FieldOf(st.Addr); f != nil && f.Name() == "Cid" && b == ssa.Value(al) && st.Val == ssa.Value(lastCid) {
									okLink = true
								}
							}
						})
					}
				}
			}
		}
		okBlk = okBlk && okLink
		// with scope=block nothing else is loaded: every path from the LoadRaw reaches a return without another load
		for _, cl := range an.AllCalls(wk) {
			if cl == lr {
				continue
			}
			nm := an.Callee(cl).Name
			if (nm == "Load" || nm == "WalkMatching" || nm == "Reify") && an.Reaches(wk, lr.(ssa.Instruction), cl.(ssa.Instruction), nil, nil) {
				okBlk = false
			}
		}
	}
	c.Check(okBlk, "O3", "R-DOM", name, "scope=block=>LoadRaw(terminal)+return", wk.Pos(), "dag-scope=block loads exactly the terminal block and stops",
		"dag-scope=block does not load exactly the raw terminal block (link built from lastCid) and return: the response misses the terminal block or contains more than requested")
	// all: WalkMatching on the all edge, with the explore-all selector
	allT := scopeEdges(allV, true)
	okAll := false
	for _, g := range c31WithCallees(wk) {
		if g.Parent() != nil {
			continue
		}
		var walks []ssa.Instruction
		for _, cl := range an.AllCalls(g) {
			if an.Callee(cl).Name == "WalkMatching" {
				walks = append(walks, cl)
			}
		}
		if len(walks) == 0 {
			continue
		}
		// selector parsed from CommonSelector_ExploreAllRecursively, in the same function
		okSel := false
		for _, pc := range an.Calls(g, an.M("github.com/ipld/go-ipld-prime/traversal/selector", "", "ParseSelector")) {
			for _, r := range an.Roots(pc.Common().Args[0], nil) {
				if u, ok := r.(*ssa.UnOp); ok {
					if gl, ok := u.X.(*ssa.Global); ok && gl.Name() == "CommonSelector_ExploreAllRecursively" {
						okSel = true
					}
				}
			}
		}
		if g == wk {
			okAll = okSel && len(allT) > 0
			for _, w := range walks {
				okAll = okAll && an.GuardedBy(wk, nil, w, allT)
			}
			continue
		}
		// in a helper: every success return of the helper is preceded by the walk, and the helper is
		// called from the traversal function on the scope==all edge only
		okHelper := okSel
		for _, r := range an.Returns(g) {
			if len(r.Results) > 0 && an.IsNilConst(r.Results[len(r.Results)-1]) {
				okHelper = okHelper && an.MustPrecede(g, r, walks)
			}
		}
		nCalls := 0
		for _, cl := range an.AllCalls(wk) {
			if an.Callee(cl).Static == g {
				nCalls++
				okHelper = okHelper && len(allT) > 0 && an.GuardedBy(wk, nil, cl.(ssa.Instruction), allT)
				// its result is what the traversal returns for this scope
				if cv := an.CallValue(cl); cv != nil {
					fwd := false
					for _, r := range an.Returns(wk) {
						if len(r.Results) == 1 && an.Aliases(cv)[r.Results[0]] {
							fwd = true
						}
					}
					okHelper = okHelper && fwd
				}
			}
		}
		okAll = okHelper && nCalls > 0
	}
	// the converse: once the scope was found to be `all`, no success return is reached without the walk
	// (a second condition on that branch would let some dag-scope=all requests fall through to the entity logic)
	if okAll {
		blockedAll := map[ssa.Instruction]bool{}
		for _, cl := range an.AllCalls(wk) {
			if an.Callee(cl).Name == "WalkMatching" {
				blockedAll[cl] = true
			}
			if g := an.Callee(cl).Static; g != nil && g.Pkg == wk.Pkg && g.Parent() == nil {
				for _, c2 := range an.AllCalls(g) {
					if an.Callee(c2).Name == "WalkMatching" {
						blockedAll[cl] = true
					}
				}
			}
		}
		okConv := true
		var posConv token.Pos = wk.Pos()
		for e := range allT {
			for _, r := range an.Returns(wk) {
				if len(r.Results) != 1 || !an.IsNilConst(r.Results[0]) {
					continue
				}
				if an.ReachesFromBlock(e.To(), r, nil, blockedAll) {
					okConv = false
					posConv = r.Pos()
				}
			}
		}
		c.Check(okConv, "O3", "R-POST", name, "scope==all=>walk-before-success", posConv, "every dag-scope=all request that succeeds has walked the whole DAG",
			"a success return is reachable on the scope==all edge without the whole-DAG walk (an extra condition guards the walk): some dag-scope=all responses contain only the terminal entity or block")
	}
	c.Check(okAll, "O3", "R-DOM", name, "scope=all=>WalkMatching(ExploreAllRecursively)", wk.Pos(), "dag-scope=all walks the whole DAG below the terminal node",
		"dag-scope=all is not served by WalkMatching with the ExploreAllRecursively selector on the scope==all edge: the CAR does not contain the whole DAG")
	// entity: the UnixFS type switch has File and HAMTShard cases
	var dataPkg *types.Package
	for _, imp := range pk.Types.Imports() {
		if imp.Path() == "github.com/ipfs/go-unixfsnode/data" {
			dataPkg = imp
		}
	}
	if !c.Need(dataPkg != nil, "import of go-unixfsnode/data") {
		return
	}
	want := map[string]int64{}
	for _, nm := range []string{"Data_File", "Data_HAMTShard"} {
		if k, ok := dataPkg.Scope().Lookup(nm).(*types.Const); ok {
			if v, ok := constant.Int64Val(k.Val()); ok {
				want[nm] = v
			}
		}
	}
	if !c.Need(len(want) == 2, "data.Data_File / data.Data_HAMTShard") {
		return
	}
	var typeVals []ssa.Value
	for _, cl := range an.AllCalls(wk) {
		if cl.Common().IsInvoke() || an.CallValue(cl) == nil {
			continue
		}
		if an.Callee(cl).Name == "Int" {
			if _, ok := an.IsCallTo(an.Recv(cl), an.M("", "", "FieldDataType")); ok {
				typeVals = append(typeVals, an.CallValue(cl))
			}
		}
	}
	al := an.Aliases(typeVals...)
	has := map[string]bool{}
	for nm, v := range want {
		e := an.GRelEdges(wk, func(r an.GRel) bool {
			a, b, op := r.A, r.B, r.Op
			if _, ok := an.IntConst(a); ok {
				a, b, op = b, a, an.SwapRel(op)
			}
			k, ok := an.IntConst(b)
			return ok && k == v && op == token.EQL && al[a]
		})
		has[nm] = len(e) > 0
	}
	c.Check(len(typeVals) > 0 && has["Data_File"] && has["Data_HAMTShard"], "O3", "R-EXH", name, "entity:File+HAMTShard-cases", wk.Pos(),
		"the entity scope handles files (byte ranges) and HAMT shards (whole sharded directory) explicitly",
		fmt.Sprintf("the UnixFS type switch of the entity scope lacks an explicit case for File (%v) or HAMTShard (%v): multi-block files or sharded directories fall into the default and only their root block is sent", has["Data_File"], has["Data_HAMTShard"]))
}

// ---------------------------------------------------------------- O4

func c31Raw(c *an.Ctx) {
	p := c.P
	gb := p.Func(c30Gw, "BlocksBackend", "GetBlock")
	if c.Need(gb != nil, "BlocksBackend.GetBlock") {
		name := an.FuncName(gb)
		var gets []ssa.CallInstruction
		for _, cl := range an.AllCalls(gb) {
			if cl.Common().IsInvoke() && cl.Common().Method.Name() == "GetBlock" {
				gets = append(gets, cl)
			}
		}
		if c.Need(len(gets) == 1, "one blockService.GetBlock call in BlocksBackend.GetBlock") {
			g := gets[0]
			blk := an.Result(g, 0)
			// requested cid = <lastSeg>.RootCid()
			var lastSeg ssa.Value
			okCid := false
			if rc, ok := an.IsCallTo(an.Args(g)[1], an.M("path", "ImmutablePath", "RootCid")); ok {
				lastSeg = an.Recv(rc)
				okCid = true
			}
			for _, r := range an.Returns(gb) {
				if len(r.Results) != 3 || !an.IsNilConst(r.Results[2]) {
					continue
				}
				// file = files.NewBytesFile(b.RawData())
				okBytes := false
				for _, root := range an.Roots(r.Results[1], nil) {
					if nb, ok := an.IsCallTo(root, an.M("files", "", "NewBytesFile")); ok {
						if rd, ok := an.IsCallTo(nb.Call.Args[0], an.M("github.com/ipfs/go-block-format", "Block", "RawData")); ok && len(blk) > 0 && an.Aliases(blk...)[an.Recv(rd)] {
							okBytes = true
						}
					}
				}
				// metadata.LastSegment = lastSeg
				okMd := false
				md := r.Results[0]
				if u, ok := md.(*ssa.UnOp); ok {
					if al, ok := u.X.(*ssa.Alloc); ok {
						an.Instrs(gb, func(in ssa.Instruction) {
							if st, ok := in.(*ssa.Store); ok {
								if f, b := an.FieldOf(st.Addr); f != nil && f.Name() == "LastSegment" && b == ssa.Value(al) && lastSeg != nil && (st.Val == lastSeg || an.SameObj(st.Val, lastSeg)) {
									okMd = true
								}
							}
						})
					}
				}
				// the metadata may be built by a package-local function from its arguments: its LastSegment
				// is then a parameter (or a field of a struct parameter), and the argument given here must be
				// the very path (the same field of the same value) whose root was fetched
				if mc, ok := md.(*ssa.Call); ok && !okMd && lastSeg != nil {
					if h := an.Callee(mc).Static; h != nil && h.Pkg == gb.Pkg && len(h.Blocks) > 0 {
						rets := an.Returns(h)
						all := len(rets) > 0
						for _, hr := range rets {
							good := false
							if len(hr.Results) == 1 {
								if hu, ok := hr.Results[0].(*ssa.UnOp); ok && hu.Op == token.MUL {
									if hal, ok := hu.X.(*ssa.Alloc); ok {
										n := 0
										an.Instrs(h, func(in ssa.Instruction) {
											st, ok := in.(*ssa.Store)
											if !ok {
												return
											}
											f, b := an.FieldOf(st.Addr)
											if f == nil || f.Name() != "LastSegment" || b != ssa.Value(hal) {
												return
											}
											n++
											argOf := func(q *ssa.Parameter) ssa.Value {
												for i, hp := range h.Params {
													if hp == q && i < len(mc.Call.Args) {
														return mc.Call.Args[i]
													}
												}
												return nil
											}
											if q, ok := st.Val.(*ssa.Parameter); ok {
												if a := argOf(q); a != nil && (a == lastSeg || an.SameObj(a, lastSeg)) {
													good = true
												}
											} else if q, pf := c42ParamField(st.Val); q != nil {
												lb, lf := c31FieldOfValue(lastSeg)
												if a := argOf(q); a != nil && lb != nil && lf == pf && (a == lb || an.SameObj(a, lb)) {
													good = true
												}
											}
										})
										good = good && n == 1
									}
								}
							}
							all = all && good
						}
						okMd = all
					}
				}
				c.Check(okCid && okBytes && okMd && an.OnNilEdgeOf(gb, g, r), "O4", "R-FLOW", name, "bytes=GetBlock(lastSeg.RootCid()).RawData()", r.Pos(),
					"the raw response is the fetched block's bytes, announced under the same path segment",
					fmt.Sprintf("GetBlock does not return RawData() of the block fetched for lastSeg.RootCid() together with LastSegment=lastSeg on the fetch's nil edge (cid ok=%v bytes ok=%v metadata ok=%v): bytes and announced CID can differ", okCid, okBytes, okMd))
			}
		}
	}
	srb := c31R.srb
	name := an.FuncName(srb)
	// roles inside the raw-block handler: the backend fetch (IPFSBackend.GetBlock), the synthetic block
	// (a package-local call with the same result shape (ContentPathMetadata, files.File)), the predicate
	// whose true edge guards it, and the body-serving call (package-local, receives the ResponseWriter
	// and the block file)
	var gcall, ecall, pcall, sc ssa.CallInstruction
	for _, cl := range an.AllCalls(srb) {
		cc := cl.Common()
		if cc.IsInvoke() && cc.Method.Name() == "GetBlock" && an.TypeIs(cc.Value.Type(), c30Gw, "IPFSBackend") {
			gcall = cl
			continue
		}
		g := an.Callee(cl).Static
		if g == nil || g.Pkg != srb.Pkg || an.CallValue(cl) == nil {
			continue
		}
		rs := cc.Signature().Results()
		if rs.Len() == 2 && an.TypeIs(rs.At(0).Type(), c30Gw, "ContentPathMetadata") && an.TypeIs(rs.At(1).Type(), "files", "File") {
			ecall = cl
		}
	}
	if gcall != nil && ecall != nil {
		var srcs0 []ssa.Value
		srcs0 = append(srcs0, an.Result(gcall, 1)...)
		srcs0 = append(srcs0, an.Result(ecall, 1)...)
		for _, cl := range an.AllCalls(srb) {
			g := an.Callee(cl).Static
			cv := an.CallValue(cl)
			if g == nil || g.Pkg != srb.Pkg || cv == nil {
				continue
			}
			if rs := cl.Common().Signature().Results(); rs.Len() == 1 && types.Identical(rs.At(0).Type().Underlying(), types.Typ[types.Bool]) {
				// the probe predicate: the bool function that compares with the exported EmptyIdentityCID
				usesProbeCid := c30LocalTransitive(g, func(h *ssa.Function) bool {
					found := false
					an.Instrs(h, func(in ssa.Instruction) {
						if u, ok := in.(*ssa.UnOp); ok && u.Op == token.MUL {
							if gl, ok := u.X.(*ssa.Global); ok && gl.Name() == "EmptyIdentityCID" {
								found = true
							}
						}
					})
					return found
				}, 0, map[*ssa.Function]bool{})
				if usesProbeCid {
					pcall = cl
				}
			}
			hasRW, hasData := false, false
			for _, a := range cl.Common().Args {
				if an.TypeIs(a.Type(), "net/http", "ResponseWriter") {
					hasRW = true
				}
				for _, r := range an.Roots(a, nil) {
					for _, s0 := range srcs0 {
						if r == s0 {
							hasData = true
						}
					}
				}
			}
			if hasRW && hasData {
				sc = cl
			}
		}
	}
	if !c.Need(gcall != nil && ecall != nil && pcall != nil && sc != nil, "backend GetBlock, synthetic-block call, its guarding predicate and the body-serving call in the raw-block handler") {
		return
	}
	probe := an.BoolEdges(srb, []ssa.Value{an.CallValue(pcall)}, true)
	c.Check(len(probe) > 0 && an.GuardedBy(srb, nil, ecall.(ssa.Instruction), probe) && !an.Reaches(srb, nil, gcall.(ssa.Instruction), an.BoolEdges(srb, []ssa.Value{an.CallValue(pcall)}, false), nil),
		"O4", "R-DOM", name, "synthetic-block<=isEmptyIdentityProbe", ecall.Pos(), "the synthetic empty block is served only for the empty identity CID probe, the backend for everything else",
		"the synthetic empty identity block is served on a path where isEmptyIdentityProbe did not return true (or the backend is consulted for the probe): a request for another CID gets empty bytes")
	// content passed to serveContent: file from GetBlock or from emptyIdentityBlock
	okData := true
	var data ssa.Value
	for _, a := range sc.Common().Args {
		if an.TypeIs(a.Type(), "io", "Reader") || an.TypeIs(a.Type(), "files", "File") {
			data = a
		}
	}
	if data == nil {
		data = sc.Common().Args[len(sc.Common().Args)-1]
	}
	var srcs []ssa.Value
	srcs = append(srcs, an.Result(gcall, 1)...)
	srcs = append(srcs, an.Result(ecall, 1)...)
	for _, r := range an.Roots(data, nil) {
		found := false
		for _, s := range srcs {
			found = found || r == s
		}
		okData = okData && found
	}
	c.Check(okData && len(srcs) >= 2, "O4", "R-FLOW", name, "serveContent(data=GetBlock file)", sc.Pos(), "the body is the block file obtained from the backend",
		"serveRawBlock serves content that is not the file returned by backend.GetBlock (or the synthetic probe block)")
	// etag/cache headers from pathMetadata.LastSegment.RootCid()
	okTag := false
	for _, cl := range an.AllCalls(srb) {
		// the call that derives the validators: package-local, receives the ResponseWriter and a cid.Cid
		if g := an.Callee(cl).Static; g == nil || g.Pkg != srb.Pkg {
			continue
		}
		hasRW := false
		for _, a := range cl.Common().Args {
			hasRW = hasRW || an.TypeIs(a.Type(), "net/http", "ResponseWriter")
		}
		if !hasRW {
			continue
		}
		for _, a := range cl.Common().Args {
			if !an.TypeIs(a.Type(), c32Cid, "Cid") {
				continue
			}
			if rc, ok := an.IsCallTo(a, an.M("path", "ImmutablePath", "RootCid")); ok {
				if u, ok := an.Recv(rc).(*ssa.UnOp); ok {
					if f, _ := an.FieldOf(u.X); f != nil && f.Name() == "LastSegment" {
						okTag = true
					}
				}
			}
		}
	}
	c.Check(okTag, "O4", "R-FLOW", name, "ETag<-LastSegment.RootCid()", srb.Pos(), "ETag and cache headers name the CID of the served block",
		"the CID used for ETag/Cache-Control of the raw block is not pathMetadata.LastSegment.RootCid()")
	_ = strings.Join
}

// ---------------------------------------------------------------- O5

func c31EntityBytes(c *an.Ctx) {
	wk := c31R.wk
	if !c.Need(wk != nil, "walkGatewaySimpleSelector") {
		return
	}
	// the function that positions and reads the entity reader: the traversal function or a
	// package-local callee that receives the reader (found by role: Seek invokes on an
	// io.ReadSeeker that is the AsLargeBytes() result or a parameter)
	var fn *ssa.Function
	var files []ssa.Value
	hasLarge := false
	for _, g := range c31WithCallees(wk) {
		for _, cl := range an.AllCalls(g) {
			if cl.Common().IsInvoke() && cl.Common().Method.Name() == "AsLargeBytes" {
				hasLarge = true
			}
		}
	}
	for _, g := range c31WithCallees(wk) {
		var cand []ssa.Value
		for _, cl := range an.AllCalls(g) {
			if !cl.Common().IsInvoke() || cl.Common().Method.Name() != "Seek" {
				continue
			}
			for _, r := range an.Roots(cl.Common().Value, nil) {
				ok := false
				if ex, isEx := r.(*ssa.Extract); isEx {
					if tc, isCall := ex.Tuple.(*ssa.Call); isCall && tc.Call.IsInvoke() && tc.Call.Method.Name() == "AsLargeBytes" && ex.Index == 0 {
						ok = true
					}
				}
				if prm, isPrm := r.(*ssa.Parameter); isPrm && g != wk && an.TypeIs(prm.Type(), "io", "ReadSeeker") {
					ok = true
				}
				if ok {
					dup := false
					for _, x := range cand {
						dup = dup || x == r
					}
					if !dup {
						cand = append(cand, r)
					}
				}
			}
		}
		if len(cand) > 0 && fn == nil {
			fn, files = g, cand
		}
	}
	if !c.Need(hasLarge && fn != nil && len(files) == 1, "the function that seeks and reads the AsLargeBytes() reader of the entity") {
		return
	}
	name := an.FuncName(fn)
	fal := an.Aliases(files...)
	var abs, probes []ssa.CallInstruction
	for _, cl := range an.AllCalls(fn) {
		if !cl.Common().IsInvoke() || cl.Common().Method.Name() != "Seek" || !fal[cl.Common().Value] {
			continue
		}
		wh, ok := an.IntConst(cl.Common().Args[1])
		switch {
		case ok && wh == 0:
			abs = append(abs, cl)
		case ok && wh == 2:
			if off, ok := an.IntConst(cl.Common().Args[0]); ok && off == 0 {
				probes = append(probes, cl)
			} else {
				c.Bad("O5", "R-FLOW", name, "Seek(_,SeekEnd)", cl.Pos(), "a SeekEnd with a non-zero offset is not a length probe")
			}
		default:
			c.Bad("O5", "R-FLOW", name, "Seek(whence)", cl.Pos(), "the entity reader is repositioned with a whence other than SeekStart / SeekEnd(0): the read position (and so the set of blocks in the CAR) is not the requested one")
		}
	}
	var reads []ssa.CallInstruction
	for _, cl := range an.Calls(fn, an.M("io", "", "Copy"), an.M("io", "", "CopyN")) {
		a := cl.Common().Args
		if len(a) >= 2 {
			isF := true
			for _, r := range an.Roots(a[1], nil) {
				isF = isF && fal[r]
			}
			if isF {
				reads = append(reads, cl)
			}
		}
	}
	c.Min("O5 reads of the entity reader (io.Copy / io.CopyN)", len(reads), 1)
	c.Min("O5 absolute seeks of the entity reader", len(abs), 1)
	c.Min("O5 length probes Seek(0, SeekEnd)", len(probes), 1)
	blocked := map[ssa.Instruction]bool{}
	for _, s := range abs {
		blocked[s] = true
	}
	// the common `from`
	var fromV ssa.Value
	sameFrom := true
	for _, s := range abs {
		v := s.Common().Args[0]
		if fromV == nil {
			fromV = v
		} else if v != fromV {
			sameFrom = false
		}
	}
	probeLen := map[ssa.Value]ssa.CallInstruction{}
	for _, p := range probes {
		for _, r := range an.Result(p, 0) {
			probeLen[r] = p
		}
	}
	isRangeField := func(v ssa.Value, field string) bool {
		u, ok := v.(*ssa.UnOp)
		if !ok || u.Op != token.MUL {
			return false
		}
		f, _ := an.FieldOf(u.X)
		return f != nil && f.Name() == field && an.TypeIs(an.FieldBaseType(u.X), c30Gw, "DagByteRange")
	}
	// lenOK: v is the result of a successful probe on every path on which it is used.
	// A phi may carry a placeholder on some edge when a bool phi of the same block
	// (the 'found' flag) is false exactly on those edges and the use is taken on the flag's true edge.
	var lenOK func(v ssa.Value, useGuard func(flag *ssa.Phi) bool, depth int) bool
	lenOK = func(v ssa.Value, useGuard func(flag *ssa.Phi) bool, depth int) bool {
		if depth > 4 {
			return false
		}
		if _, ok := probeLen[v]; ok {
			return true
		}
		ph, ok := v.(*ssa.Phi)
		if !ok {
			return false
		}
		var badIdx []int
		for i, e := range ph.Edges {
			pred := ph.Block().Preds[i]
			inner := func(flag *ssa.Phi) bool {
				// the edge pred -> ph.Block() is taken only where flag is true
				es := an.BoolEdges(fn, []ssa.Value{flag}, true)
				return an.PhiEdgeGuarded(fn, ph, i, es)
			}
			_ = pred
			if !lenOK(e, inner, depth+1) {
				badIdx = append(badIdx, i)
			}
		}
		if len(badIdx) == 0 {
			return true
		}
		if useGuard == nil {
			return false
		}
		// look for the flag phi
		for _, in := range ph.Block().Instrs {
			fl, ok := in.(*ssa.Phi)
			if !ok || fl == ph || !types.Identical(fl.Type().Underlying(), types.Typ[types.Bool]) || len(fl.Edges) != len(ph.Edges) {
				continue
			}
			okFlag := true
			for i, e := range fl.Edges {
				isBad := false
				for _, b := range badIdx {
					isBad = isBad || b == i
				}
				if isBad && !c43IsConstBool(e, false) {
					okFlag = false
				}
				if !isBad && !c43IsConstBool(e, true) {
					okFlag = false
				}
			}
			if okFlag && useGuard(fl) {
				return true
			}
		}
		return false
	}
	// from: range.From, or max(len + range.From, 0)
	okFrom := fromV != nil && sameFrom
	var whyFrom []string
	if okFrom {
		for _, r := range an.Roots(fromV, nil) {
			if isRangeField(r, "From") {
				continue
			}
			call, ok := r.(*ssa.Call)
			good := false
			if ok {
				if bi, ok := call.Call.Value.(*ssa.Builtin); ok && bi.Name() == "max" && len(call.Call.Args) == 2 {
					var sum, zero ssa.Value
					for _, a := range call.Call.Args {
						if k, ok := an.IntConst(a); ok && k == 0 {
							zero = a
						} else {
							sum = a
						}
					}
					if sum != nil && zero != nil {
						l := an.LinOf(sum)
						nLen, nFrom := 0, 0
						for k, cf := range l.Coef {
							lv := l.Leaf[k]
							switch {
							case cf == 1 && isRangeField(lv, "From"):
								nFrom++
							case cf == 1 && lenOK(lv, nil, 0) && an.OnNilEdgeOf(fn, probeLen[lv], call):
								nLen++
							}
						}
						good = l.K == 0 && len(l.Coef) == 2 && nLen == 1 && nFrom == 1
					}
				}
			}
			if !good {
				okFrom = false
				whyFrom = append(whyFrom, an.PathOf(r))
			}
		}
	}
	pos := fn.Pos()
	if len(abs) > 0 {
		pos = abs[0].Pos()
	}
	c.Check(okFrom, "O5", "R-FLOW", name, "Seek(from)=From|max(len+From,0)", pos,
		"both reads start at the same `from` = range.From, or max(probed length + range.From, 0) for a suffix",
		"the reader is not positioned at one common `from` that is range.From or max(probedLength + range.From, 0) (different offsets for the two reads, missing clamp, or a length that is not a successful probe): "+strings.Join(whyFrom, ", ")+" — the CAR covers another byte range than requested")
	for _, rd := range reads {
		construct := an.Callee(rd).Name
		// the seek may only be skipped where `from` is known to be zero (and no probe moved the reader, checked below)
		zero := an.EdgeSet{}
		if fromV != nil {
			fa := an.Aliases(fromV)
			zero = an.GRelEdges(fn, func(r an.GRel) bool {
				a, b, op := r.A, r.B, r.Op
				if fa[b] {
					a, b, op = b, a, an.SwapRel(op)
				}
				k, ok := an.IntConst(b)
				if !ok || !fa[a] {
					return false
				}
				return (op == token.EQL && k == 0) || (op == token.LEQ && k == 0) || (op == token.LSS && k == 1)
			})
		}
		okPre := !an.Reaches(fn, nil, rd.(ssa.Instruction), zero, blocked)
		okNil, nSeek := true, 0
		for _, s := range abs {
			if !an.Reaches(fn, s.(ssa.Instruction), rd.(ssa.Instruction), nil, nil) {
				continue
			}
			nSeek++
			if !an.GuardedBy(fn, s.(ssa.Instruction), rd.(ssa.Instruction), an.NilEdges(fn, an.ErrResult(s), true)) {
				okNil = false
			}
		}
		okNil = okNil && nSeek > 0
		okProbe := true
		for _, p := range probes {
			// a 'found' flag set together with this probe makes its false edges infeasible after the probe
			cut := an.EdgeSet{}
			an.Instrs(fn, func(in ssa.Instruction) {
				fl, ok := in.(*ssa.Phi)
				if !ok || !types.Identical(fl.Type().Underlying(), types.Typ[types.Bool]) {
					return
				}
				isFlag := true
				for i, e := range fl.Edges {
					pred := fl.Block().Preds[i]
					after := len(pred.Instrs) > 0 && (pred == p.Block() || p.Block().Dominates(pred))
					switch {
					case c43IsConstBool(e, true) && after:
					case c43IsConstBool(e, false) && !after && len(pred.Instrs) > 0 && !an.Reaches(fn, p.(ssa.Instruction), pred.Instrs[len(pred.Instrs)-1], nil, nil):
					default:
						isFlag = false
					}
				}
				if isFlag {
					cut = cut.Union(an.BoolEdges(fn, []ssa.Value{fl}, false))
				}
			})
			if an.Reaches(fn, p.(ssa.Instruction), rd.(ssa.Instruction), cut, blocked) {
				okProbe = false
			}
		}
		c.Check(okPre && okNil && okProbe, "O5", "R-POST", name, construct+"<=Seek(from,SeekStart)", rd.Pos(),
			"the read starts at `from`: an absolute seek precedes it on every path, also after a length probe",
			fmt.Sprintf("io.%s reads the entity without a Seek(from, io.SeekStart) on every path before it (repositioned unless from==0: %v, seek error checked=%v, repositioned after every Seek(0, SeekEnd) length probe=%v): after a suffix-length probe the reader is still at EOF (or at offset 0 instead of `from`), so the leaves of the requested range are never loaded and are missing from the CAR", construct, okPre, okNil, okProbe))
		if construct != "CopyN" {
			continue
		}
		// n = 1 + to - from
		l := an.LinOf(rd.Common().Args[2])
		fromKey := an.LinKey(fromV)
		var toV ssa.Value
		for k, cf := range l.Coef {
			if k != fromKey && cf == 1 {
				toV = l.Leaf[k]
			}
		}
		okN := fromV != nil && l.K == 1 && len(l.Coef) == 2 && l.Coef[fromKey] == -1 && toV != nil
		c.Check(okN, "O5", "R-CONST", name, "CopyN.n=1+to-from", rd.Pos(), "the bounded read covers the inclusive range [from, to]",
			"io.CopyN is given "+l.String()+" instead of 1 + to - from (inclusive `to`, the same `from` the reader was positioned at): the last block of the range (or one block too many) is missing from / added to the CAR")
		if !okN {
			continue
		}
		// to = *range.To  or  len + *range.To
		okTo := true
		isToDeref := func(v ssa.Value) bool {
			u, ok := v.(*ssa.UnOp)
			return ok && u.Op == token.MUL && isRangeField(u.X, "To")
		}
		var visit func(v ssa.Value, guard func(*ssa.Phi) bool, depth int)
		visit = func(v ssa.Value, guard func(*ssa.Phi) bool, depth int) {
			if depth > 4 {
				okTo = false
				return
			}
			if isToDeref(v) {
				return
			}
			if ph, ok := v.(*ssa.Phi); ok {
				for i, e := range ph.Edges {
					i := i
					visit(e, func(flag *ssa.Phi) bool {
						return an.PhiEdgeGuarded(fn, ph, i, an.BoolEdges(fn, []ssa.Value{flag}, true))
					}, depth+1)
				}
				return
			}
			lt := an.LinOf(v)
			nLen, nTo := 0, 0
			for k, cf := range lt.Coef {
				lv := lt.Leaf[k]
				switch {
				case cf == 1 && isToDeref(lv):
					nTo++
				case cf == 1 && lenOK(lv, nil, 0):
					nLen++
				}
			}
			if !(lt.K == 0 && len(lt.Coef) == 2 && nLen == 1 && nTo == 1) {
				okTo = false
			}
		}
		visit(toV, nil, 0)
		c.Check(okTo, "O5", "R-FLOW", name, "to=*To|len+*To", rd.Pos(), "`to` is range.To, or probed length + range.To for a negative To",
			"`to` of the bounded read is neither *range.To nor probedLength + *range.To with a length obtained from a Seek(0, SeekEnd) probe: negative `to` values are resolved against a wrong length")
	}
}

// c31WithCallees: fn, its closures, and the package-local functions they call statically
// (transitively, depth <= 2), each with the call sites in fn-closure that lead to it.
func c31WithCallees(fn *ssa.Function) []*ssa.Function {
	seen := map[*ssa.Function]bool{}
	var out []*ssa.Function
	var add func(g *ssa.Function, depth int)
	add = func(g *ssa.Function, depth int) {
		if seen[g] {
			return
		}
		seen[g] = true
		out = append(out, g)
		for _, a := range g.AnonFuncs {
			add(a, depth)
		}
		if depth >= 2 {
			return
		}
		for _, cl := range an.AllCalls(g) {
			h := an.Callee(cl).Static
			if h != nil && len(h.Blocks) > 0 && h.Pkg != nil && fn.Pkg != nil && h.Pkg == fn.Pkg && h.Parent() == nil {
				add(h, depth+1)
			}
		}
	}
	add(fn, 0)
	return out
}

// c31ParamFrom: parameter prm of helper g receives, at every static call site of g inside
// `callers`, a value rooted at `want`.
func c31ParamFrom(callers []*ssa.Function, g *ssa.Function, prm *ssa.Parameter, want ssa.Value) bool {
	idx := -1
	for i, q := range g.Params {
		if q == prm {
			idx = i
		}
	}
	n := 0
	for _, f := range callers {
		for _, cl := range an.AllCalls(f) {
			if an.Callee(cl).Static != g || idx < 0 || idx >= len(cl.Common().Args) {
				continue
			}
			n++
			for _, r := range an.Roots(cl.Common().Args[idx], nil) {
				if r != want {
					return false
				}
			}
		}
	}
	return n > 0
}

// c31Origins: roots of v where a parameter of a function of `fns` other than `top` is replaced by
// the arguments of its call sites inside `fns` (by-value struct parameters spilled to a cell
// included), depth <= 3.
func c31Origins(fns []*ssa.Function, top *ssa.Function, v ssa.Value, depth int) []ssa.Value {
	var out []ssa.Value
	for _, r := range an.Roots(v, nil) {
		if al, ok := r.(*ssa.Alloc); ok {
			// spilled parameter
			var sv ssa.Value
			n := 0
			for _, ref := range *al.Referrers() {
				if st, ok := ref.(*ssa.Store); ok && st.Addr == ssa.Value(al) {
					sv = st.Val
					n++
				}
			}
			if _, isP := sv.(*ssa.Parameter); isP && n == 1 {
				r = sv
			}
		}
		prm, ok := r.(*ssa.Parameter)
		if !ok || prm.Parent() == top || depth >= 3 {
			out = append(out, r)
			continue
		}
		idx := -1
		for i, q := range prm.Parent().Params {
			if q == prm {
				idx = i
			}
		}
		n := 0
		for _, f := range fns {
			for _, cl := range an.AllCalls(f) {
				if an.Callee(cl).Static == prm.Parent() && idx >= 0 && idx < len(cl.Common().Args) {
					n++
					out = append(out, c31Origins(fns, top, cl.Common().Args[idx], depth+1)...)
				}
			}
		}
		if n == 0 {
			out = append(out, r)
		}
	}
	return out
}

// c31FieldOfValue: v reads field f of the struct value base (a Field instruction, or a load
// through the unmodified local copy of that value).
func c31FieldOfValue(v ssa.Value) (base ssa.Value, f *types.Var) {
	switch x := v.(type) {
	case *ssa.Field:
		fv, _ := an.FieldOf(x)
		return x.X, fv
	case *ssa.UnOp:
		if x.Op != token.MUL {
			return nil, nil
		}
		fa, ok := x.X.(*ssa.FieldAddr)
		if !ok {
			return nil, nil
		}
		a, ok := fa.X.(*ssa.Alloc)
		if !ok {
			return nil, nil
		}
		var stored ssa.Value
		n := 0
		for _, ref := range *a.Referrers() {
			switch r := ref.(type) {
			case *ssa.Store:
				if r.Addr != ssa.Value(a) {
					return nil, nil
				}
				stored = r.Val
				n++
			case *ssa.FieldAddr:
				for _, r2 := range *r.Referrers() {
					if _, isLoad := r2.(*ssa.UnOp); !isLoad {
						if _, isDbg := r2.(*ssa.DebugRef); !isDbg {
							return nil, nil
						}
					}
				}
			case *ssa.UnOp, *ssa.DebugRef:
			default:
				return nil, nil
			}
		}
		if n != 1 {
			return nil, nil
		}
		fv, _ := an.FieldOf(fa)
		return stored, fv
	}
	return nil, nil
}
