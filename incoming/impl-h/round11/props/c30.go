package props

import (
	"fmt"
	"go/constant"
	"go/token"
	"go/types"
	"sort"
	"strings"

	"golang.org/x/tools/go/ssa"

	"verif/checker/an"
)

func init() {
	register("C30", Prop{
		Pkgs: []string{"./gateway"},
		Explain: "Decided (structural necessary conditions of 'status, Content-Range, Content-Length and body are mutually consistent'): " +
			"O1 one interpretation of the Range header: every read of the request's Range header in package gateway is either the canonical one in checkPreconditions (after If-Range), a pure presence test, or feeds parseRangeWithoutLength; where the size-less parse positions a reader or selects backend ranges (seekToRangeStart, IPFSBackend.Get, serveDirectory) the header must have passed the If-Range decision (O1a) and the range used must be selected like httpServeContent selects it — first satisfiable range, multi-range/sum fallback (O1b); " +
			"O2 the two Range parsers (parseRange, parseRangeWithoutLength) use the same syntactic recognisers (prefix constant, separators, integer base/width, trimming, string/byte comparisons against constants); " +
			"O3 httpServeContent: parseRange is fed the header returned by checkPreconditions and the size parameter; Content-Length and io.CopyN use the same value, which is the size or the length of the first parsed range; status 206 and Content-Range=first range.contentRange(size) go together with the range length, 200 with the full size; 416 is written only where the parse error is non-nil and (size != 0 or the error is not errNoOverlap); the body is copied only when the method is not HEAD and after WriteHeader; " +
			"O4 every suffix-range resolution `size + range.From` in package gateway (seekToRangeStart and its two clones in the CAR backend) clamps a negative result instead of returning an error (a suffix range longer than the file is satisfiable, RFC 7233 §2.1, and parseRange clamps it); " +
			"O5 in the blocks backend the size given to seekToRangeStart is the size stored in the GetResponse created for the same file; " +
			"O6 parseRange only produces ranges inside the content: every store to httpRange.start is either a parsed value on the edges value>=0 and value<size, or size-N with N on the edge N<=size (or N clamped to size); every store to httpRange.length is size-start, or E-start+1 with the end E on the edge E<size or clamped to size-1 (linear forms, so an off-by-one in the clamp, the comparison or the +1 is visible); the whole-file fallback in httpServeContent is taken only where the sum of the range lengths is strictly greater than the size; httpRange.contentRange renders start, start+length-1, size. " +
			"O7 HTTP dates have one-second granularity: wherever a date parsed from a request header (http.ParseTime, time.Parse with a layout without fractional seconds: If-Modified-Since, If-Unmodified-Since, If-Range) is compared with another time, the other side is second-granular too (Unix() seconds on both sides, Truncate/Round to a multiple of a second, another parsed header date) — never Equal/Before/After/==/UnixNano against the raw modtime; every Last-Modified header is rendered with a layout without fractional seconds, and the serving function validates against the same modtime it advertises; " +
			"NOT decided: body bytes equal the slice for accepted ranges (runtime, DagReader), ETag computation, multipart responses (not supported by design).",
		Assume:    []string{"files.File readers returned by the backend implement Seek as documented (C09)", "net/http writes headers as set"},
		Technique: "SSA rules: source-to-sink taint with required sanitiser (R-TAINT), sibling feature-vector agreement (R-SIB), phi-aligned value pairing and edge dominance (R-DOM/R-FLOW), error-return guard (R-DOM)",
		Run:       runC30,
	})
}

const c30Gw = "gateway"

// c30ReqHeaderRead: v is a read of request header `name`:
// (net/http.Header).Get(r.Header, name) or headerGetExact(r.Header, name).
func c30ReqHeaderRead(call ssa.CallInstruction, name string) bool {
	ci := an.Callee(call)
	var h, k ssa.Value
	switch {
	case an.M("net/http", "Header", "Get").Match(ci) || an.M("net/http", "Header", "Values").Match(ci):
		h = an.Recv(call)
		if a := an.Args(call); len(a) == 1 {
			k = a[0]
		}
	case c30R != nil && c30R.hget != nil && ci.Static == c30R.hget:
		if a := an.Args(call); len(a) == 2 {
			h, k = a[0], a[1]
		}
	default:
		return false
	}
	if h == nil || k == nil {
		return false
	}
	kv, ok := an.ConstOf(k)
	if !ok || kv.Kind() != constant.String || !strings.EqualFold(constant.StringVal(kv), name) {
		return false
	}
	for _, r := range an.Roots(h, nil) {
		u, ok := r.(*ssa.UnOp)
		if !ok || u.Op != token.MUL {
			return false
		}
		f, _ := an.FieldOf(u.X)
		if f == nil || f.Name() != "Header" || !an.TypeIs(an.FieldBaseType(u.X), "net/http", "Request") {
			return false
		}
	}
	return true
}

// c30DerivesFrom: v derives from src through value-preserving ops, slicing,
// element addressing and element loads.
func c30DerivesFrom(v ssa.Value, src map[ssa.Value]bool) bool {
	seen := map[ssa.Value]bool{}
	var walk func(v ssa.Value) bool
	walk = func(v ssa.Value) bool {
		if v == nil || seen[v] {
			return false
		}
		seen[v] = true
		if src[v] {
			return true
		}
		for _, r := range an.Roots(v, nil) {
			if src[r] {
				return true
			}
			switch x := r.(type) {
			case *ssa.IndexAddr:
				if walk(x.X) {
					return true
				}
			case *ssa.UnOp:
				if x.Op == token.MUL {
					if ia, ok := x.X.(*ssa.IndexAddr); ok && walk(ia.X) {
						return true
					}
				}
			}
		}
		return false
	}
	return walk(v)
}

// ---------------------------------------------------------------- roles
//
// Unexported functions, types, fields, constants and variables of package gateway are found by
// what they are and do, never by name (exported identifiers — ByteRange, IPFSBackend, http.* … —
// are API and used as names).

type c30Roles struct {
	pr        *ssa.Function // sized Range parser: (string, int64) -> ([]S, error)
	pwl       *ssa.Function // size-less Range parser: (string) -> ([]ByteRange, error)
	hget      *ssa.Function // exact header lookup: (http.Header, string) -> string indexing the map
	cir       *ssa.Function // reads the If-Range request header
	cpre      *ssa.Function // outermost function with a string result that (transitively) evaluates If-Range
	sts       *ssa.Function // positions a reader: parameters include io.Seeker and *ByteRange, calls Seek
	sumFn     *ssa.Function // ([]S) -> int64
	crFn      *ssa.Function // renders Content-Range: S (receiver or parameter) and an int64 -> string
	rangeT    *types.Named  // S: the parsed range, a struct of two int64 fields
	startF    string
	lenF      string
	noOverlap *ssa.Global // the sentinel error the sized parser returns when no range overlaps
	condFalse constant.Value
}

var c30R *c30Roles

func c30M(f *ssa.Function) an.Matcher {
	if f == nil {
		return an.M("\x00none", "", "\x00none")
	}
	recv := ""
	if r := f.Signature.Recv(); r != nil {
		t := r.Type()
		if pt, ok := t.(*types.Pointer); ok {
			t = pt.Elem()
		}
		if n, ok := types.Unalias(t).(*types.Named); ok {
			recv = n.Obj().Name()
		}
	}
	pk := ""
	if f.Pkg != nil {
		pk = f.Pkg.Pkg.Path()
	}
	return an.M(pk, recv, f.Name())
}

func c30IsInt64(t types.Type) bool {
	b, ok := t.Underlying().(*types.Basic)
	return ok && b.Kind() == types.Int64
}

func c30IsString(t types.Type) bool {
	b, ok := t.Underlying().(*types.Basic)
	return ok && b.Kind() == types.String
}

// c30RangeStruct: t is a package-local named struct with exactly two fields, both int64.
func c30RangeStruct(t types.Type) *types.Named {
	n, ok := types.Unalias(t).(*types.Named)
	if !ok || n.Obj().Pkg() == nil || n.Obj().Pkg().Path() != an.Mod+"/"+c30Gw {
		return nil
	}
	st, ok := n.Underlying().(*types.Struct)
	if !ok || st.NumFields() != 2 || !c30IsInt64(st.Field(0).Type()) || !c30IsInt64(st.Field(1).Type()) {
		return nil
	}
	return n
}

var c30CalleeCache = map[*ssa.Function][]*ssa.Function{}

func c30LocalCallees(f *ssa.Function) []*ssa.Function {
	if cs, ok := c30CalleeCache[f]; ok {
		return cs
	}
	var out []*ssa.Function
	seen := map[*ssa.Function]bool{}
	for _, cl := range an.AllCalls(f) {
		g := an.Callee(cl).Static
		if g != nil && len(g.Blocks) > 0 && g.Pkg == f.Pkg && g.Pkg != nil && !seen[g] {
			seen[g] = true
			out = append(out, g)
		}
	}
	c30CalleeCache[f] = out
	return out
}

// c30LocalTransitive: pred holds for f or for a package-local function f statically calls (depth <= 3).
func c30LocalTransitive(f *ssa.Function, pred func(*ssa.Function) bool, depth int, seen map[*ssa.Function]bool) bool {
	if seen[f] || depth > 3 {
		return false
	}
	seen[f] = true
	if pred(f) {
		return true
	}
	for _, g := range c30LocalCallees(f) {
		if c30LocalTransitive(g, pred, depth+1, seen) {
			return true
		}
	}
	return false
}

func c30ResolveRoles(c *an.Ctx) *c30Roles {
	if c30R != nil {
		return c30R
	}
	R := &c30Roles{}
	var top []*ssa.Function
	for _, f := range c.P.PkgFuncs(c30Gw) {
		if f.Parent() == nil {
			top = append(top, f)
		}
	}
	// signature helpers (receiver excluded)
	params := func(f *ssa.Function) []types.Type {
		var out []types.Type
		sig := f.Signature
		for i := 0; i < sig.Params().Len(); i++ {
			out = append(out, sig.Params().At(i).Type())
		}
		return out
	}
	results := func(f *ssa.Function) []types.Type {
		var out []types.Type
		for i := 0; i < f.Signature.Results().Len(); i++ {
			out = append(out, f.Signature.Results().At(i).Type())
		}
		return out
	}
	sliceOf := func(t types.Type) types.Type {
		if sl, ok := t.Underlying().(*types.Slice); ok {
			return sl.Elem()
		}
		return nil
	}
	for _, f := range top {
		ps, rs := params(f), results(f)
		recv := f.Signature.Recv()
		switch {
		case recv == nil && len(ps) == 2 && c30IsString(ps[0]) && c30IsInt64(ps[1]) && len(rs) == 2 && an.IsErrorType(rs[1]) && sliceOf(rs[0]) != nil && c30RangeStruct(sliceOf(rs[0])) != nil:
			R.pr, R.rangeT = f, c30RangeStruct(sliceOf(rs[0]))
		case recv == nil && len(ps) == 1 && c30IsString(ps[0]) && len(rs) == 2 && an.IsErrorType(rs[1]) && sliceOf(rs[0]) != nil && an.TypeIs(sliceOf(rs[0]), c30Gw, "ByteRange"):
			R.pwl = f
		case recv == nil && len(ps) == 2 && an.TypeIs(ps[0], "net/http", "Header") && c30IsString(ps[1]) && len(rs) == 1 && c30IsString(rs[0]):
			isLookup := false
			an.Instrs(f, func(in ssa.Instruction) {
				if _, ok := in.(*ssa.Lookup); ok {
					isLookup = true
				}
			})
			if isLookup {
				R.hget = f
			}
		}
	}
	c30R = R // c30ReqHeaderRead needs hget from here on
	for _, f := range top {
		ps, rs := params(f), results(f)
		// positions a reader
		hasSeeker, hasRange := false, false
		for _, t := range ps {
			if an.TypeIs(t, "io", "Seeker") {
				hasSeeker = true
			}
			if pt, ok := t.(*types.Pointer); ok && an.TypeIs(pt.Elem(), c30Gw, "ByteRange") {
				hasRange = true
			}
		}
		if hasSeeker && hasRange && len(rs) == 1 && an.IsErrorType(rs[0]) {
			R.sts = f
		}
		if R.rangeT != nil && f.Signature.Recv() == nil && len(ps) == 1 && len(rs) == 1 && c30IsInt64(rs[0]) {
			if e := sliceOf(ps[0]); e != nil && c30RangeStruct(e) == R.rangeT {
				R.sumFn = f
			}
		}
		if R.rangeT != nil && len(rs) == 1 && c30IsString(rs[0]) {
			all := ps
			if rv := f.Signature.Recv(); rv != nil {
				all = append([]types.Type{rv.Type()}, ps...)
			}
			hasS, hasI := false, false
			for _, t := range all {
				if c30RangeStruct(t) == R.rangeT {
					hasS = true
				}
				if c30IsInt64(t) {
					hasI = true
				}
			}
			if hasS && hasI && len(all) == 2 {
				R.crFn = f
			}
		}
		for _, cl := range an.AllCalls(f) {
			if c30ReqHeaderRead(cl, "If-Range") {
				R.cir = f
			}
		}
	}
	// the outermost function with a string result that transitively evaluates If-Range
	if R.cir != nil {
		var cands []*ssa.Function
		for _, f := range top {
			if f == R.cir || c30StringResult(f) < 0 {
				continue
			}
			if c30LocalTransitive(f, func(g *ssa.Function) bool { return g == R.cir }, 0, map[*ssa.Function]bool{}) {
				cands = append(cands, f)
			}
		}
		for _, f := range cands {
			inner := false
			for _, g := range cands {
				if g != f && c30LocalTransitive(g, func(h *ssa.Function) bool { return h == f }, 0, map[*ssa.Function]bool{}) {
					inner = true
				}
			}
			if !inner {
				R.cpre = f
			}
		}
	}
	// fallback when nothing evaluates If-Range any more: the function whose string result is handed to
	// the sized parser (so that the missing If-Range evaluation is reported as a violation, not as an
	// unresolved role)
	if R.cpre == nil && R.pr != nil {
		for _, f := range top {
			for _, cl := range an.Calls(f, c30M(R.pr)) {
				for _, r := range an.Roots(cl.Common().Args[0], nil) {
					if ex, ok := r.(*ssa.Extract); ok {
						if tc, ok := ex.Tuple.(*ssa.Call); ok {
							if g := an.Callee(tc).Static; g != nil && len(g.Blocks) > 0 && g.Pkg == f.Pkg && c30StringResult(g) == ex.Index {
								R.cpre = g
							}
						}
					}
				}
			}
		}
	}
	if R.cir == nil {
		R.cir = R.cpre // no separate If-Range evaluator: rules about it are judged on the header function itself
	}
	// fields of S: length = the field the summing function reads (else the one io.CopyN's count reads)
	if R.rangeT != nil {
		st := R.rangeT.Underlying().(*types.Struct)
		find := func(f *ssa.Function) string {
			name := ""
			for _, g := range an.WithClosures(f) {
				an.Instrs(g, func(in ssa.Instruction) {
					var fa ssa.Value
					switch x := in.(type) {
					case *ssa.FieldAddr:
						fa = x
					case *ssa.Field:
						fa = x
					}
					if fa != nil {
						if fv, _ := an.FieldOf(fa); fv != nil && c30RangeStruct(an.FieldBaseType(fa)) == R.rangeT {
							name = fv.Name()
						}
					}
				})
			}
			return name
		}
		if R.sumFn != nil {
			R.lenF = find(R.sumFn)
		}
		if R.lenF == "" {
			for _, f := range top {
				for _, cl := range an.Calls(f, an.M("io", "", "CopyN")) {
					for _, r := range an.Roots(cl.Common().Args[2], nil) {
						if u, ok := r.(*ssa.UnOp); ok {
							if fv, _ := an.FieldOf(u.X); fv != nil && c30RangeStruct(an.FieldBaseType(u.X)) == R.rangeT {
								R.lenF = fv.Name()
							}
						}
					}
				}
			}
		}
		for i := 0; i < st.NumFields(); i++ {
			if st.Field(i).Name() != R.lenF {
				R.startF = st.Field(i).Name()
			}
		}
	}
	// the "no overlap" sentinel: the package-level error variable the sized parser hands out
	if R.pr != nil {
		for _, g := range an.WithClosures(R.pr) {
			an.Instrs(g, func(in ssa.Instruction) {
				if u, ok := in.(*ssa.UnOp); ok && u.Op == token.MUL {
					if gl, ok := u.X.(*ssa.Global); ok && gl.Pkg == R.pr.Pkg && an.IsErrorType(u.Type()) {
						R.noOverlap = gl
					}
				}
			})
		}
	}
	// the If-Range verdict "false": what the If-Range function returns when the date does not parse
	if R.cir != nil {
		for _, pt := range an.Calls(R.cir, an.M("net/http", "", "ParseTime"), an.M("time", "", "Parse")) {
			bad := an.NilEdges(R.cir, an.ErrResult(pt), false)
			for _, r := range an.Returns(R.cir) {
				if len(r.Results) == 1 && len(bad) > 0 && an.Reaches(R.cir, pt.(ssa.Instruction), r, nil, nil) && an.GuardedBy(R.cir, pt.(ssa.Instruction), r, bad) {
					if k, ok := an.ConstOf(r.Results[0]); ok {
						R.condFalse = k
					}
				}
			}
		}
	}
	return R
}

func runC30(c *an.Ctx) {
	p := c.P
	if !c.Need(p.Pkg(c30Gw) != nil, "package gateway") {
		return
	}
	fns := p.PkgFuncs(c30Gw)
	c30R = nil
	R := c30ResolveRoles(c)
	pwl, pr, cpre, cir, sts := R.pwl, R.pr, R.cpre, R.cir, R.sts
	if !c.Need(pwl != nil && pr != nil && cpre != nil && cir != nil && sts != nil && R.rangeT != nil && R.lenF != "" && R.startF != "",
		"roles in package gateway: sized Range parser (string,int64)->([]S,error), size-less parser (string)->([]ByteRange,error), the If-Range evaluator and the function returning the effective Range header, the reader positioner (io.Seeker,*ByteRange), start/length fields of S") {
		return
	}
	// the serving function: calls the precondition evaluator and reaches, in itself or in package-local
	// callees, the io.CopyN of the body to an http.ResponseWriter parameter
	var hsc *ssa.Function
	copiesBody := func(g *ssa.Function) bool {
		for _, cl := range an.Calls(g, an.M("io", "", "CopyN")) {
			for _, r := range an.Roots(cl.Common().Args[0], nil) {
				if prm, ok := r.(*ssa.Parameter); ok && an.TypeIs(prm.Type(), "net/http", "ResponseWriter") {
					return true
				}
			}
		}
		return false
	}
	for _, fn := range fns {
		if fn.Parent() == nil && len(an.Calls(fn, c30M(cpre))) > 0 && c30LocalTransitive(fn, copiesBody, 0, map[*ssa.Function]bool{}) {
			hsc = fn
		}
	}
	if !c.Need(hsc != nil, "the serving function (evaluates the preconditions and, directly or through package-local callees, io.CopyN-s the body to the ResponseWriter)") {
		return
	}

	// ---------------- O1: reads of the Range header
	// A package-local function that returns the header value is part of the canonical pipeline: it is
	// "sanitised" when the value it returns has passed the If-Range decision on every path, "raw"
	// otherwise; a call of a raw one is treated like a read of the header in the caller.
	kind := map[*ssa.Function]string{}
	var kindOf func(fn *ssa.Function, depth int) string
	localCallee := func(cl ssa.CallInstruction, self *ssa.Function) *ssa.Function {
		g := an.Callee(cl).Static
		if g == nil || g == self || len(g.Blocks) == 0 || g.Pkg == nil || g.Pkg.Pkg.Path() != an.Mod+"/"+c30Gw || (c30R != nil && g == c30R.hget) {
			return nil
		}
		return g
	}
	srcsOf := func(fn *ssa.Function, depth int) (raw, clean []ssa.Value) {
		for _, cl := range an.AllCalls(fn) {
			cv := an.CallValue(cl)
			if cv == nil {
				continue
			}
			if c30ReqHeaderRead(cl, "Range") {
				raw = append(raw, cv)
				continue
			}
			if g := localCallee(cl, fn); g != nil && depth < 3 {
				// only single-string-result helpers and the (done, header) shape of checkPreconditions
				switch kindOf(g, depth+1) {
				case "raw":
					raw = append(raw, an.Result(cl, c30StringResult(g))...)
				case "sanitised":
					clean = append(clean, an.Result(cl, c30StringResult(g))...)
				}
			}
		}
		return
	}
	kindOf = func(fn *ssa.Function, depth int) string {
		if k, ok := kind[fn]; ok {
			return k
		}
		kind[fn] = ""
		idx := c30StringResult(fn)
		if idx < 0 {
			return ""
		}
		raw, clean := srcsOf(fn, depth)
		res := ""
		for _, r := range an.Returns(fn) {
			if idx >= len(r.Results) {
				continue
			}
			v := r.Results[idx]
			for _, src := range raw {
				if c30DerivesFrom(v, map[ssa.Value]bool{src: true}) {
					if c30RawSurvivesIfRange(fn, v, src, r) {
						res = "raw"
					} else if res == "" {
						res = "sanitised"
					}
				}
			}
			for _, src := range clean {
				if c30DerivesFrom(v, map[ssa.Value]bool{src: true}) && res == "" {
					res = "sanitised"
				}
			}
		}
		kind[fn] = res
		return res
	}
	c.Check(kindOf(cpre, 0) == "sanitised", "O1", "R-TAINT", an.FuncName(cpre), "Range->If-Range->return", cpre.Pos(),
		"checkPreconditions returns the Range header only after the If-Range decision (dropped on condFalse)",
		"checkPreconditions can return the Range header although If-Range evaluated to condFalse (or without evaluating it): a 206 is served for a representation the client does not hold")
	nReads := 0
	sweep := fns
	if c.Tier == "thorough" {
		sweep = p.Funcs // any package of the module that interprets a request's Range header
	}
	for _, fn := range sweep {
		name := an.FuncName(fn)
		raw, _ := srcsOf(fn, 0)
		for _, rv := range raw {
			rdc, _ := rv.(*ssa.Call)
			if ex, ok := rv.(*ssa.Extract); ok {
				rdc, _ = ex.Tuple.(*ssa.Call)
			}
			if rdc == nil {
				continue
			}
			var rd ssa.CallInstruction = rdc
			nReads++
			var parses []*ssa.Call
			other := []string{}
			for _, u := range an.Uses(rv) {
				switch x := u.(type) {
				case *ssa.BinOp:
					if (x.Op == token.EQL || x.Op == token.NEQ) && (c30IsEmptyStr(x.X) || c30IsEmptyStr(x.Y)) {
						continue // presence test
					}
					other = append(other, "compared")
				case *ssa.Call:
					ci := an.Callee(x)
					if ci.Static == pwl {
						parses = append(parses, x)
						continue
					}
					other = append(other, "passed to "+ci.String())
				case *ssa.Return:
					if kindOf(fn, 0) == "" {
						other = append(other, "returned")
					}
				}
			}
			if kindOf(fn, 0) != "" && len(parses) == 0 && len(other) == 0 {
				continue // a stage of the canonical pipeline, judged at checkPreconditions and at its callers
			}
			if len(other) > 0 {
				sort.Strings(other)
				c.Bad("O1", "R-TAINT", name, "Range-header-read", rd.Pos(),
					"a read of the request's Range header is "+strings.Join(other, ", ")+": a second interpretation of Range next to httpServeContent/checkPreconditions (status/Content-Range and body can disagree)")
				continue
			}
			if len(parses) == 0 {
				c.OK("O1", "R-TAINT", name, "Range-header-presence-test", rd.Pos(), "the Range header is only tested for presence")
				continue
			}
			for _, pc := range parses {
				c30PositionalUse(c, fn, rd, pc, cir, cpre, pr)
			}
		}
	}
	c.Min("O1 reads of the request Range header outside the canonical pipeline", nReads, 1)
	// parseRangeWithoutLength must not be fed from anywhere else unnoticed
	for _, fn := range fns {
		for _, pc := range an.Calls(fn, c30M(pwl)) {
			cv := an.CallValue(pc)
			if cv == nil {
				continue
			}
			okSrc := true
			for _, r := range an.Roots(cv.Call.Args[0], nil) {
				rc, ok := r.(*ssa.Call)
				if ok && c30ReqHeaderRead(rc, "Range") {
					continue
				}
				if ex, ok := r.(*ssa.Extract); ok {
					if tc, ok := ex.Tuple.(*ssa.Call); ok && an.Callee(tc).Static == cpre && ex.Index == 1 {
						continue
					}
				}
				if _, ok := r.(*ssa.Parameter); ok && strings.HasSuffix(fn.Pkg.Pkg.Path(), "/gateway") {
					okSrc = false
				}
			}
			if !okSrc {
				c.Note("C30 O1: %s passes a parameter to parseRangeWithoutLength; callers are not followed", an.FuncName(fn))
			}
		}
	}

	c30Parsers(c, pr, pwl)
	c30ServeContent(c, hsc, pr, cpre)
	c30SuffixClamp(c)
	c30BackendSizes(c, sts)
	// If-Range compares entity tags with the strong comparison (RFC 7233 §3.2): a weak match must not enable a 206.
	// Roles: an entity-tag comparison = a package-local (string, string) -> bool function; it is "weak" when it
	// (transitively) strips the W/ prefix with strings.TrimPrefix/CutPrefix(_, "W/") before comparing.
	{
		isCmp := func(g *ssa.Function) bool {
			if g == nil || len(g.Blocks) == 0 || g.Pkg != cir.Pkg || g.Signature.Recv() != nil {
				return false
			}
			ps, rs := g.Signature.Params(), g.Signature.Results()
			return ps.Len() == 2 && c30IsString(ps.At(0).Type()) && c30IsString(ps.At(1).Type()) && rs.Len() == 1 && types.Identical(rs.At(0).Type().Underlying(), types.Typ[types.Bool])
		}
		isWeak := func(g *ssa.Function) bool {
			return c30LocalTransitive(g, func(h *ssa.Function) bool {
				for _, cl := range an.Calls(h, an.M("strings", "", "TrimPrefix"), an.M("strings", "", "CutPrefix")) {
					if k, ok := an.ConstOf(cl.Common().Args[1]); ok && k.Kind() == constant.String && constant.StringVal(k) == "W/" {
						return true
					}
				}
				return false
			}, 0, map[*ssa.Function]bool{})
		}
		fromIfRange := func(v ssa.Value) bool {
			seen := map[ssa.Value]bool{}
			var walk func(v ssa.Value, d int) bool
			walk = func(v ssa.Value, d int) bool {
				if d > 4 || seen[v] {
					return false
				}
				seen[v] = true
				for _, r := range an.Roots(v, nil) {
					var call *ssa.Call
					switch x := r.(type) {
					case *ssa.Call:
						call = x
					case *ssa.Extract:
						call, _ = x.Tuple.(*ssa.Call)
					}
					if call == nil {
						continue
					}
					if c30ReqHeaderRead(call, "If-Range") {
						return true
					}
					for _, arg := range call.Call.Args {
						if walk(arg, d+1) {
							return true
						}
					}
				}
				return false
			}
			return walk(v, 0)
		}
		isRespEtag := func(v ssa.Value) bool {
			hv, ok := an.IsCallTo(v, an.M("net/http", "Header", "Get"), c30M(R.hget))
			if !ok {
				return false
			}
			k, isK := an.ConstOf(hv.Call.Args[len(hv.Call.Args)-1])
			return isK && k.Kind() == constant.String && strings.EqualFold(constant.StringVal(k), "Etag")
		}
		nCmp, nWeak := 0, 0
		okArgs := true
		pos := cir.Pos()
		for _, cl := range an.AllCalls(cir) {
			g := an.Callee(cl).Static
			if !isCmp(g) {
				continue
			}
			nCmp++
			pos = cl.Pos()
			if isWeak(g) {
				nWeak++
			}
			a := cl.Common().Args
			okArgs = okArgs && ((fromIfRange(a[0]) && isRespEtag(a[1])) || (fromIfRange(a[1]) && isRespEtag(a[0])))
		}
		c.Check(nCmp > 0 && nWeak == 0 && okArgs, "O1", "R-API", an.FuncName(cir), "If-Range:strong-etag-match(If-Range tag,response Etag)", pos,
			"If-Range entity tags are compared strongly against the response's Etag",
			"the If-Range evaluation does not compare (the tag scanned from If-Range, the response Etag header) with the strong comparison (a comparison that strips W/ is used, or other operands): a range of a different representation is served as 206 to a client holding a weakly matching copy")
	}
	c30DateGranularity(c, hsc, cpre)
	c30ParseRangeBounds(c, pr)
	c30ParserVerdicts(c, pr)
	c30SumFallback(c, hsc, pr)
	c30ContentRangeFormula(c)
}

func c30IsEmptyStr(v ssa.Value) bool {
	k, ok := an.ConstOf(v)
	return ok && k.Kind() == constant.String && constant.StringVal(k) == ""
}

// c30IfRangeGuards returns the edges of fn on which a checkIfRange(..) result
// is known to differ from condFalse, and the edges on which the raw header is
// known to be empty.
func c30IfRangeGuards(fn *ssa.Function, raw ssa.Value) (notFalse, empty an.EdgeSet) {
	notFalse, empty = an.EdgeSet{}, an.EdgeSet{}
	var ifr []ssa.Value
	for _, ic := range an.Calls(fn, c30M(c30R.cir)) {
		if v := an.CallValue(ic); v != nil {
			ifr = append(ifr, v)
		}
	}
	condFalse := c30R.condFalse
	if len(ifr) > 0 && condFalse != nil {
		al := an.Aliases(ifr...)
		notFalse = an.CondEdges(fn, func(atom ssa.Value) (bool, bool) {
			b, ok := atom.(*ssa.BinOp)
			if !ok || (b.Op != token.EQL && b.Op != token.NEQ) {
				return false, false
			}
			x, y := b.X, b.Y
			if _, ok := x.(*ssa.Const); ok {
				x, y = y, x
			}
			k, ok := an.ConstOf(y)
			if !ok || !al[x] || !constant.Compare(k, token.EQL, condFalse) {
				return false, false
			}
			eq := b.Op == token.EQL
			return !eq, eq
		})
	}
	ral := an.Aliases(raw)
	empty = an.CondEdges(fn, func(atom ssa.Value) (bool, bool) {
		b, ok := atom.(*ssa.BinOp)
		if !ok || (b.Op != token.EQL && b.Op != token.NEQ) {
			return false, false
		}
		if !(ral[b.X] && c30IsEmptyStr(b.Y)) && !(ral[b.Y] && c30IsEmptyStr(b.X)) {
			return false, false
		}
		eq := b.Op == token.EQL
		return eq, !eq
	})
	return
}

// c30RawSurvivesIfRange reports whether value v, used at `use`, can carry the
// raw Range header on a path on which If-Range was not established to be
// different from condFalse (and the header is not known to be empty). A phi is
// examined edge by edge, so `if h != "" && checkIfRange(..) == condFalse { h = "" }`
// is recognised as a sanitiser.
func c30RawSurvivesIfRange(fn *ssa.Function, v, raw ssa.Value, use ssa.Instruction) bool {
	notFalse, empty := c30IfRangeGuards(fn, raw)
	src := map[ssa.Value]bool{raw: true}
	if len(notFalse) == 0 {
		return c30DerivesFrom(v, src)
	}
	guards := notFalse.Union(empty)
	if ph, ok := v.(*ssa.Phi); ok {
		for i, e := range ph.Edges {
			if !c30DerivesFrom(e, src) {
				continue
			}
			pred := ph.Block().Preds[i]
			for si, s := range pred.Succs {
				if s != ph.Block() || guards[an.Edge{From: pred, Succ: si}] {
					continue
				}
				if len(pred.Instrs) > 0 && an.Reaches(fn, nil, pred.Instrs[len(pred.Instrs)-1], guards, nil) {
					return true
				}
			}
		}
		return false
	}
	return c30DerivesFrom(v, src) && an.Reaches(fn, nil, use, notFalse, nil)
}

// c30DropsOnIfRangeFalse: in checkPreconditions the value returned as range
// header is "" on every path that crosses the `checkIfRange(..) == condFalse`
// true edge.
func c30DropsOnIfRangeFalse(fn *ssa.Function, raw ssa.Value) bool {
	if nf, _ := c30IfRangeGuards(fn, raw); len(nf) == 0 {
		return false
	}
	for _, r := range an.Returns(fn) {
		if len(r.Results) == 2 && c30RawSurvivesIfRange(fn, r.Results[1], raw, r) {
			return false
		}
	}
	return true
}

// c30ConstVal looks up a package-level constant of package gateway.
func c30ConstVal(fn *ssa.Function, name string) constant.Value {
	if fn.Pkg == nil {
		return nil
	}
	if k, ok := fn.Pkg.Pkg.Scope().Lookup(name).(*types.Const); ok {
		return k.Val()
	}
	return nil
}

// c30PositionalUse checks one parseRangeWithoutLength(header) call whose result
// positions a reader / selects backend ranges.
func c30PositionalUse(c *an.Ctx, fn *ssa.Function, rd ssa.CallInstruction, pc *ssa.Call, cir, cpre, pr *ssa.Function) {
	name := an.FuncName(fn)
	res := an.Result(pc, 0)
	src := map[ssa.Value]bool{}
	for _, r := range res {
		src[r] = true
	}
	// sinks: calls (in fn) receiving the parsed ranges or an element of them
	type sink struct {
		call ssa.CallInstruction
		what string
	}
	var sinks []sink
	for _, cl := range an.AllCalls(fn) {
		if cl == ssa.CallInstruction(pc) {
			continue
		}
		ci := an.Callee(cl)
		if ci.Builtin != "" {
			continue
		}
		hit := false
		for _, a := range cl.Common().Args {
			if c30DerivesFrom(a, src) {
				hit = true
			}
		}
		if hit {
			sinks = append(sinks, sink{cl, ci.String()})
		}
	}
	if len(sinks) == 0 {
		c.OK("O1", "R-TAINT", name, "Range->parseRangeWithoutLength(unused)", pc.Pos(), "size-less parse result is not used to position anything")
		return
	}
	var names []string
	seenN := map[string]bool{}
	for _, s := range sinks {
		if !seenN[s.what] {
			seenN[s.what] = true
			names = append(names, s.what)
		}
	}
	sort.Strings(names)
	sinkList := strings.Join(names, ", ")
	// The function part of these (known-finding) keys names the role of the site, not the unexported
	// function it lives in today: where the size-less parse selects backend ranges (IPFSBackend.Get is
	// exported API) or where it positions an io.Seeker.
	name = "gateway:Range→io.Seeker.Seek"
	for _, s := range sinks {
		if cc := s.call.Common(); cc.IsInvoke() && cc.Method.Name() == "Get" && an.TypeIs(cc.Value.Type(), c30Gw, "IPFSBackend") {
			name = "gateway:Range→IPFSBackend.Get"
		}
	}
	// O1a: the header string passed the If-Range decision
	okIfRange := true
	for _, r := range an.Roots(pc.Call.Args[0], nil) {
		if ex, ok := r.(*ssa.Extract); ok {
			if tc, ok := ex.Tuple.(*ssa.Call); ok && an.Callee(tc).Static == cpre && ex.Index == 1 {
				continue
			}
		}
		okIfRange = false
	}
	if !okIfRange {
		// alternative: the header is sanitised by checkIfRange in this function before it is parsed
		if rv := an.CallValue(rd); rv != nil {
			okIfRange = !c30RawSurvivesIfRange(fn, pc.Call.Args[0], rv, pc)
		}
	}
	c.Check(okIfRange, "O1a", "R-TAINT", name, "Header.Get(\"Range\")→position !If-Range", pc.Pos(),
		"the header that positions the reader passed the If-Range decision",
		"the raw Range header positions the reader / selects backend ranges ("+sinkList+") without the If-Range decision that httpServeContent applies: with a non-matching If-Range the response is 200 with the full Content-Length but the body starts at the range offset (truncated body)")
	// O1b: the range used is selected like httpServeContent selects it
	okSel := false
	// accepted repairs: (i) the range handed to the sinks derives from the size-aware parser parseRange;
	// (ii) every sink is guarded by len(ranges) <= 1 (single range: first == first satisfiable or 416, no sum fallback)
	usesSized := false
	for _, s := range sinks {
		for _, a := range s.call.Common().Args {
			for _, r := range an.Roots(a, nil) {
				if cl, ok := an.IsCallTo(r, c30M(c30R.pr)); ok && cl != nil {
					usesSized = true
				}
			}
		}
	}
	single := an.GRelEdges(fn, func(r an.GRel) bool {
		a, b, op := r.A, r.B, r.Op
		if _, ok := an.IntConst(a); ok {
			a, b, op = b, a, an.SwapRel(op)
		}
		k, ok := an.IntConst(b)
		call, ok2 := a.(*ssa.Call)
		if !ok || !ok2 {
			return false
		}
		if bi, ok := call.Call.Value.(*ssa.Builtin); !ok || bi.Name() != "len" || !c30DerivesFrom(call.Call.Args[0], src) {
			return false
		}
		return (op == token.EQL && k <= 1) || (op == token.LEQ && k <= 1) || (op == token.LSS && k <= 2)
	})
	if len(single) > 0 {
		okSel = true
		for _, s := range sinks {
			okSel = okSel && an.GuardedBy(fn, nil, s.call.(ssa.Instruction), single)
		}
	}
	okSel = okSel || usesSized
	c.Check(okSel, "O1b", "R-TAINT", name, "Header.Get(\"Range\")→position !first-satisfiable", pc.Pos(),
		"the range that positions the reader is selected with the rules httpServeContent uses",
		"the reader is positioned at ranges[0] of the size-less parse ("+sinkList+") while httpServeContent serves the first satisfiable range of parseRange(size) and falls back to the whole file when the ranges sum up to more than the size: for 'bytes=<beyond>-,0-1' the response is 206 '0-1/size' with an empty body, for overlapping multi-ranges 200 with a body that starts at the first range's offset")
}

// ---------------- O2: sibling parsers

func c30Features(fn *ssa.Function) map[string]bool {
	out := map[string]bool{}
	pkgs := map[string]bool{"strings": true, "strconv": true, "net/textproto": true, "errors": true}
	for _, g := range an.WithClosures(fn) {
		an.Instrs(g, func(in ssa.Instruction) {
			switch x := in.(type) {
			case ssa.CallInstruction:
				ci := an.Callee(x)
				if !pkgs[ci.Pkg] {
					return
				}
				var ks []string
				for _, a := range x.Common().Args {
					if k, ok := an.ConstOf(a); ok {
						ks = append(ks, k.ExactString())
					} else {
						ks = append(ks, "_")
					}
				}
				out["call "+ci.String()+"("+strings.Join(ks, ",")+")"] = true
			case *ssa.BinOp:
				if x.Op != token.EQL && x.Op != token.NEQ {
					return
				}
				for _, side := range []ssa.Value{x.X, x.Y} {
					k, ok := an.ConstOf(side)
					if !ok {
						continue
					}
					b, ok := side.Type().Underlying().(*types.Basic)
					if !ok {
						continue
					}
					if b.Kind() == types.String || b.Kind() == types.Uint8 || b.Kind() == types.UntypedRune || b.Kind() == types.Int32 {
						out["compare-with "+k.ExactString()] = true
					}
				}
			}
		})
	}
	return out
}

func c30Parsers(c *an.Ctx, a, b *ssa.Function) {
	fa, fb := c30Features(a), c30Features(b)
	var onlyA, onlyB []string
	for k := range fa {
		if !fb[k] {
			onlyA = append(onlyA, k)
		}
	}
	for k := range fb {
		if !fa[k] {
			onlyB = append(onlyB, k)
		}
	}
	sort.Strings(onlyA)
	sort.Strings(onlyB)
	c.Min("O2 syntactic recogniser features of parseRange", len(fa), 1)
	c.Check(len(onlyA) == 0 && len(onlyB) == 0, "O2", "R-SIB", an.FuncName(a)+"~"+an.FuncName(b), "range-syntax-recognisers", a.Pos(),
		fmt.Sprintf("both Range parsers use the same %d syntactic recognisers", len(fa)),
		fmt.Sprintf("the two Range parsers disagree on syntax: only in parseRange %v; only in parseRangeWithoutLength %v — a header accepted by one and rejected (or split differently) by the other makes reader position and response headers disagree", onlyA, onlyB))
}

// ---------------- O3: httpServeContent

// c30FirstElemOf: v is (a copy of) element 0 of a slice; returns the slice value.
func c30FirstElemOf(v ssa.Value) (ssa.Value, bool) {
	switch x := v.(type) {
	case *ssa.UnOp:
		if x.Op != token.MUL {
			return nil, false
		}
		switch a := x.X.(type) {
		case *ssa.IndexAddr:
			if k, ok := an.IntConst(a.Index); ok && k == 0 {
				return a.X, true
			}
		case *ssa.Alloc:
			var val ssa.Value
			n := 0
			for _, ref := range *a.Referrers() {
				if st, ok := ref.(*ssa.Store); ok && st.Addr == ssa.Value(a) {
					n++
					val = st.Val
				}
			}
			if n == 1 {
				return c30FirstElemOf(val)
			}
		}
	case *ssa.IndexAddr:
		if k, ok := an.IntConst(x.Index); ok && k == 0 {
			return x.X, true
		}
	case *ssa.Alloc:
		var val ssa.Value
		n := 0
		for _, ref := range *x.Referrers() {
			if st, ok := ref.(*ssa.Store); ok && st.Addr == ssa.Value(x) {
				n++
				val = st.Val
			}
		}
		if n == 1 {
			return c30FirstElemOf(val)
		}
	}
	return nil, false
}

// c30SliceFromParse: every non-nil root of slice value v is result #0 of the parseRange call pc,
// directly or as the result of a package-local function all of whose returns satisfy this.
func c30SliceFromParse(v ssa.Value, pc *ssa.Call) bool {
	return c30SliceFromParseD(v, pc, 0)
}

func c30SliceFromParseD(v ssa.Value, pc *ssa.Call, depth int) bool {
	n := 0
	for _, r := range an.Roots(v, nil) {
		if an.IsNilConst(r) {
			continue
		}
		ex, ok := r.(*ssa.Extract)
		if !ok {
			return false
		}
		if ex.Tuple == ssa.Value(pc) && ex.Index == 0 {
			n++
			continue
		}
		call, ok := ex.Tuple.(*ssa.Call)
		if !ok || depth >= 2 {
			return false
		}
		g := an.Callee(call).Static
		if g == nil || len(g.Blocks) == 0 || g.Pkg == nil || pc.Parent() == nil || g.Pkg != pc.Parent().Pkg {
			return false
		}
		some := false
		for _, ret := range an.Returns(g) {
			if ex.Index >= len(ret.Results) {
				return false
			}
			if an.IsNilConst(ret.Results[ex.Index]) {
				continue
			}
			if !c30SliceFromParseD(ret.Results[ex.Index], pc, depth+1) {
				return false
			}
			some = true
		}
		if !some {
			return false
		}
		n++
	}
	return n > 0
}

// c30LocalCallers: static call sites, inside package gateway, of a function.
func c30LocalCallers(c *an.Ctx, g *ssa.Function) []*ssa.Call {
	var out []*ssa.Call
	for _, f := range c.P.PkgFuncs(c30Gw) {
		for _, cl := range an.AllCalls(f) {
			if cv := an.CallValue(cl); cv != nil && an.Callee(cv).Static == g {
				out = append(out, cv)
			}
		}
	}
	return out
}

// c30Origins: the roots of v, where a parameter of an unexported package-local function
// is replaced by the corresponding arguments at all of its call sites (depth <= 3), up to function stop.
func c30Origins(c *an.Ctx, v ssa.Value, stop *ssa.Function, depth int) []ssa.Value {
	var out []ssa.Value
	for _, r := range an.Roots(v, nil) {
		prm, ok := r.(*ssa.Parameter)
		if !ok || depth >= 3 || prm.Parent() == nil || prm.Parent() == stop || prm.Parent().Object() == nil || prm.Parent().Object().Exported() {
			out = append(out, r)
			continue
		}
		callers := c30LocalCallers(c, prm.Parent())
		idx := -1
		for i, q := range prm.Parent().Params {
			if q == prm {
				idx = i
			}
		}
		if len(callers) == 0 || idx < 0 {
			out = append(out, r)
			continue
		}
		for _, cl := range callers {
			if idx < len(cl.Call.Args) {
				out = append(out, c30Origins(c, cl.Call.Args[idx], stop, depth+1)...)
			}
		}
	}
	return out
}

// c30FindParse: the parseRange call that feeds fn, in fn itself or in a package-local
// function it calls (depth <= 2).
func c30FindParse(fn *ssa.Function, depth int) (*ssa.Function, []*ssa.Call) {
	var pcs []*ssa.Call
	for _, cl := range an.Calls(fn, c30M(c30R.pr)) {
		if v := an.CallValue(cl); v != nil {
			pcs = append(pcs, v)
		}
	}
	if len(pcs) > 0 || depth >= 2 {
		return fn, pcs
	}
	for _, cl := range an.AllCalls(fn) {
		g := an.Callee(cl).Static
		if g == nil || g == fn || len(g.Blocks) == 0 || g.Pkg != fn.Pkg {
			continue
		}
		if gf, ps := c30FindParse(g, depth+1); len(ps) > 0 {
			return gf, ps
		}
	}
	return fn, nil
}

func c30ServeContent(c *an.Ctx, fn, pr, cpre *ssa.Function) {
	_ = an.FuncName(fn)
	var size *ssa.Parameter
	for _, q := range fn.Params {
		if b, ok := q.Type().Underlying().(*types.Basic); ok && b.Kind() == types.Int64 {
			size = q
		}
	}
	pfn, pcs := c30FindParse(fn, 0)
	if !c.Need(size != nil && len(pcs) == 1, "serving function: int64 size parameter and one parseRange call (in it or in a package-local callee)") {
		return
	}
	pc := pcs[0]
	pname := an.FuncName(pfn)
	// input of the parse (parameters of a helper are traced to its call sites)
	okIn := true
	for _, r := range c30Origins(c, pc.Call.Args[1], fn, 0) {
		okIn = okIn && r == ssa.Value(size)
	}
	for _, r := range c30Origins(c, pc.Call.Args[0], fn, 0) {
		ex, ok := r.(*ssa.Extract)
		if !ok || ex.Index != 1 {
			okIn = false
			continue
		}
		tc, ok := ex.Tuple.(*ssa.Call)
		okIn = okIn && ok && an.Callee(tc).Static == cpre && tc.Parent() == fn
	}
	c.Check(okIn, "O3", "R-FLOW", pname, "parseRange(checkPreconditions.rangeHeader,size)", pc.Pos(), "ranges are parsed from the header that survived the preconditions, against the content size",
		"parseRange is not fed the Range header returned by checkPreconditions (If-Range applied) and the size parameter")
	// the function that writes the status line and copies the body: the serving function or a
	// package-local callee of it
	cfn := fn
	var cns []ssa.CallInstruction
	for _, g := range c31WithCallees(fn) {
		for _, cl := range an.Calls(g, an.M("io", "", "CopyN")) {
			for _, r := range an.Roots(cl.Common().Args[0], nil) {
				if prm, ok := r.(*ssa.Parameter); ok && an.TypeIs(prm.Type(), "net/http", "ResponseWriter") {
					cfn = g
					cns = append(cns, cl)
				}
			}
		}
	}
	if !c.Need(len(cns) == 1, "one io.CopyN of the body to the ResponseWriter in the serving function or a package-local callee") {
		return
	}
	cname := an.FuncName(cfn)
	cn := cns[0]
	n := cn.Common().Args[2]
	sameVal := func(a, b ssa.Value) bool {
		return a == b || an.Aliases(b)[a] || an.LinKey(a) == an.LinKey(b)
	}
	var clSet ssa.CallInstruction
	for _, cl := range an.Calls(cfn, an.M("net/http", "Header", "Set")) {
		if k, ok := an.ConstOf(an.Args(cl)[0]); ok && k.Kind() == constant.String && constant.StringVal(k) == "Content-Length" {
			clSet = cl
		}
	}
	if c.Need(clSet != nil, "Header.Set(\"Content-Length\", ..) next to the body copy") {
		okLen := false
		if fi, ok := an.IsCallTo(an.Args(clSet)[1], an.M("strconv", "", "FormatInt")); ok {
			base, okB := an.IntConst(fi.Call.Args[1])
			okLen = okB && base == 10 && sameVal(fi.Call.Args[0], n)
		}
		c.Check(okLen, "O3", "R-FLOW", cname, "Content-Length==CopyN.n", clSet.Pos(), "Content-Length and the number of body bytes copied are the same value",
			"Content-Length is not the decimal rendering of the byte count given to io.CopyN: header and body length disagree")
	}
	// status / sendSize pairing
	whs := an.Calls(cfn, an.M("net/http", "ResponseWriter", "WriteHeader"))
	var wh ssa.CallInstruction
	for _, w := range whs {
		if an.Dominates(w, cn) {
			wh = w
		}
	}
	if !c.Need(wh != nil, "WriteHeader dominating io.CopyN") {
		return
	}
	code := an.Args(wh)[0]
	// the plain 200 is chosen only where no range is left to serve: the alternative of the status code
	// that carries 200 is entered over an edge on which len(ranges) == 0 was established
	if ph, ok := code.(*ssa.Phi); ok && ph.Block().Parent() == cfn {
		emptyE := c30RangeLenEdges(cfn, true)
		// ... or the slice was found nil
		emptyE = emptyE.Union(an.CondEdges(cfn, func(atom ssa.Value) (bool, bool) {
			b, ok := atom.(*ssa.BinOp)
			if !ok || (b.Op != token.EQL && b.Op != token.NEQ) {
				return false, false
			}
			x := b.X
			if an.IsNilConst(b.X) {
				x = b.Y
			} else if !an.IsNilConst(b.Y) {
				return false, false
			}
			sl, ok := x.Type().Underlying().(*types.Slice)
			if !ok || c30RangeStruct(sl.Elem()) != c30R.rangeT {
				return false, false
			}
			return b.Op == token.EQL, b.Op == token.NEQ
		}))
		for i, e := range ph.Edges {
			if k, isK := an.IntConst(e); isK && k == 200 && len(ph.Edges) > 1 {
				c.Check(an.PhiEdgeGuarded(cfn, ph, i, emptyE), "O3", "R-CMP", an.FuncName(cfn), "status-200<=len(ranges)==0", wh.Pos(),
					"the whole-file 200 is sent only where no satisfiable range remains",
					"status 200 with the whole file can be chosen although a parsed range remains (the test that selects the partial response is not len(ranges) > 0): a satisfiable single-range request is answered with the full body instead of the requested slice")
			}
		}
	}
	alts := c30Alts(c, cfn, code, n, nil, 0)
	nAlt := 0
	for _, alt := range alts {
		ne, ce := alt.b, alt.a
		if ne == nil || ce == nil {
			c.Bad("O3", "R-PAIR", an.FuncName(alt.fn), "status/size-coupled", wh.Pos(), "the status code and the body length are not decided together (one of them is set without the other): a 206 can be sent with the full length or a 200 with a range length")
			continue
		}
		nAlt++
		k, isK := an.IntConst(ce)
		isSize := true
		for _, r := range c30Origins(c, ne, fn, 0) {
			isSize = isSize && r == ssa.Value(size)
		}
		isRangeLen := false
		var elemSlice ssa.Value
		if u, ok := ne.(*ssa.UnOp); ok && u.Op == token.MUL && !isSize {
			if fa, ok := u.X.(*ssa.FieldAddr); ok {
				if f, _ := an.FieldOf(fa); f != nil && f.Name() == c30R.lenF && c30RangeStruct(an.FieldBaseType(fa)) == c30R.rangeT {
					if sl, ok := c30FirstElemOf(fa.X); ok {
						fromParse := true
						for _, o := range c30Origins(c, sl, fn, 0) {
							fromParse = fromParse && (an.IsNilConst(o) || c30SliceFromParse(o, pc))
						}
						if fromParse {
							isRangeLen, elemSlice = true, sl
						}
					}
				}
			}
		}
		afn := alt.fn
		aname := an.FuncName(afn)
		switch {
		case isSize:
			c.Check(isK && k == 200, "O3", "R-SIB", aname, "full-size<->200", wh.Pos(), "full size is sent with status 200",
				fmt.Sprintf("the full content size is sent with status %v instead of 200", ce))
		case isRangeLen:
			c.Check(isK && k == 206, "O3", "R-SIB", aname, "range-length<->206", wh.Pos(), "the first range's length is sent with status 206",
				fmt.Sprintf("the first range's length is sent with status %v instead of 206", ce))
			// Content-Range from the same element, coupled with this alternative
			var crs []ssa.Instruction
			for _, cl := range an.Calls(afn, an.M("net/http", "Header", "Set")) {
				if kk, ok := an.ConstOf(an.Args(cl)[0]); !ok || kk.Kind() != constant.String || constant.StringVal(kk) != "Content-Range" {
					continue
				}
				cr, ok := an.IsCallTo(an.Args(cl)[1], c30M(c30R.crFn))
				if !ok {
					continue
				}
				okElem, okSize := false, false
				for _, a := range cr.Call.Args {
					if sl, ok := c30FirstElemOf(a); ok && sameVal(sl, elemSlice) {
						okElem = true
					}
					if c30IsInt64(a.Type()) {
						okSize = true
						for _, r := range c30Origins(c, a, fn, 0) {
							okSize = okSize && r == ssa.Value(size)
						}
					}
				}
				if okElem && okSize {
					crs = append(crs, cl)
				}
			}
			okCR := len(crs) > 0 && alt.site != nil && (an.MustPrecede(afn, alt.site, crs) || func() bool { ok, _ := an.MustFollow(afn, alt.site, crs); return ok }())
			c.Check(okCR, "O3", "R-PAIR", aname, "206=>Content-Range(first range,size)", wh.Pos(), "206 is accompanied by Content-Range of the served range against the size",
				"a 206 response is produced without Content-Range = <first range>.contentRange(size): Content-Range does not describe the body that is sent")
		default:
			c.Bad("O3", "R-FLOW", aname, "status/size alternative", wh.Pos(), "the number of bytes sent is neither the content size nor the length of the first parsed range: "+an.PathOf(ne))
		}
	}
	c.Min("O3 status/size alternatives", nAlt, 2)
	c30Rule416(c, pfn, pc)
	c30After416(c, fn, pfn, cfn)
	// body only for non-HEAD, after WriteHeader
	notHead := an.CondEdges(cfn, func(atom ssa.Value) (bool, bool) {
		b, ok := atom.(*ssa.BinOp)
		if !ok || (b.Op != token.EQL && b.Op != token.NEQ) {
			return false, false
		}
		x, y := b.X, b.Y
		if _, ok := x.(*ssa.Const); ok {
			x, y = y, x
		}
		k, ok := an.ConstOf(y)
		if !ok || k.Kind() != constant.String || constant.StringVal(k) != "HEAD" {
			return false, false
		}
		u, ok := x.(*ssa.UnOp)
		if !ok || u.Op != token.MUL {
			return false, false
		}
		if f, _ := an.FieldOf(u.X); f == nil || f.Name() != "Method" {
			return false, false
		}
		eq := b.Op == token.EQL
		return !eq, eq
	})
	c.Check(len(notHead) > 0 && an.GuardedBy(cfn, nil, cn.(ssa.Instruction), notHead), "O3", "R-DOM", cname, "CopyN<=method!=HEAD", cn.Pos(),
		"the body is copied only for non-HEAD requests", "the body is copied for HEAD requests (content may be nil) or the HEAD test is inverted: GET responses lose their body")
}

// ---------------- O4: suffix ranges longer than the content are clamped, not rejected

// c30SuffixClamp sweeps package gateway for the suffix-range resolution
// `start = size + range.From` (range.From < 0) and requires that the outcome
// start < 0 is not turned into an error: RFC 7233 §2.1 makes such a range
// satisfiable (the whole representation), and parseRange — which decides status
// and Content-Range — clamps it.
func c30SuffixClamp(c *an.Ctx) {
	n := 0
	isFromLoad := func(v ssa.Value) bool {
		for _, r := range an.Roots(v, nil) {
			u, ok := r.(*ssa.UnOp)
			if !ok || u.Op != token.MUL {
				return false
			}
			f, _ := an.FieldOf(u.X)
			bt := an.FieldBaseType(u.X)
			if f == nil || f.Name() != "From" || bt == nil || !(an.TypeIs(bt, c30Gw, "ByteRange") || an.TypeIs(bt, c30Gw, "DagByteRange")) {
				return false
			}
		}
		return true
	}
	for _, fn := range c.P.PkgFuncs(c30Gw) {
		res := fn.Signature.Results()
		if res.Len() == 0 || !an.IsErrorType(res.At(res.Len()-1).Type()) {
			continue
		}
		var sums []ssa.Value
		an.Instrs(fn, func(in ssa.Instruction) {
			if b, ok := in.(*ssa.BinOp); ok && b.Op == token.ADD && (isFromLoad(b.X) != isFromLoad(b.Y)) {
				sums = append(sums, b)
			}
		})
		if len(sums) == 0 {
			continue
		}
		for _, sum := range sums {
			al := an.Aliases(sum)
			neg := an.GRelEdges(fn, func(r an.GRel) bool {
				a, b, op := r.A, r.B, r.Op
				if _, ok := an.IntConst(a); ok {
					a, b, op = b, a, an.SwapRel(op)
				}
				k, ok := an.IntConst(b)
				return ok && al[a] && ((op == token.LSS && k == 0) || (op == token.LEQ && k == -1))
			})
			if len(neg) == 0 {
				continue // no test at all: Seek(negative) is reported by the seeker, not silently accepted
			}
			n++
			var bad []string
			pos := sum.Pos()
			for _, r := range an.Returns(fn) {
				e := r.Results[len(r.Results)-1]
				if an.IsNilConst(e) {
					continue
				}
				// reachable at all, and only through the start<0 edge?
				if an.Reaches(fn, nil, r, nil, nil) && !an.Reaches(fn, nil, r, neg, nil) {
					bad = append(bad, c.P.Pos(r.Pos()))
					pos = r.Pos()
				}
			}
			c.Check(len(bad) == 0, "O4", "R-DOM", an.FuncName(fn), "suffix-start<0=>clamp", pos,
				"a suffix range longer than the content is clamped to the whole content",
				"a suffix range longer than the content (size + range.From < 0) is rejected with an error (return at "+strings.Join(bad, ", ")+"): 'bytes=-N' with N > size is satisfiable per RFC 7233 §2.1 and parseRange clamps it to the whole file, but the request fails (500/502) instead of 206")
		}
	}
	c.Min("O4 suffix-range resolutions (size + range.From) in package gateway", n, 1)
}

// ---------------- O5: size agreement in the backend

func c30BackendSizes(c *an.Ctx, sts *ssa.Function) {
	n := 0
	for _, fn := range c.P.PkgFuncs(c30Gw) {
		if fn == sts {
			continue
		}
		for _, sc := range an.Calls(fn, c30M(c30R.sts)) {
			args := sc.Common().Args
			if len(args) != 3 {
				continue
			}
			szV := args[2]
			// responses created after this seek in the same function
			for _, rc := range an.Calls(fn, an.M(c30Gw, "", "NewGetResponseFromReader"), an.M(c30Gw, "", "NewGetResponseFromSymlink")) {
				if !an.Reaches(fn, sc, rc.(ssa.Instruction), nil, nil) {
					continue
				}
				ra := rc.Common().Args
				if len(ra) != 2 {
					continue
				}
				// only pair a seek and a response that concern the same file object
				same := false
				for _, r1 := range an.Roots(args[0], nil) {
					for _, r2 := range an.Roots(ra[0], nil) {
						if r1 == r2 {
							same = true
						}
					}
				}
				if !same {
					continue
				}
				n++
				ok := ra[1] == szV || an.Aliases(szV)[ra[1]]
				c.Check(ok, "O5", "R-FLOW", an.FuncName(fn), "seekToRangeStart.size==GetResponse.size", rc.Pos(),
					"the size used to resolve suffix ranges is the size reported for the file",
					"the size given to seekToRangeStart differs from the size stored in the GetResponse of the same file: suffix ranges are resolved against another length than the one Content-Range is computed from")
			}
		}
	}
	c.Min("O5 seek/response pairs in the backend", n, 1)
}

// ---------------- O6: parseRange keeps every range inside [0, size)

// c30Bounded reports whether value x, where it is consumed by `use`, is known
// to satisfy the relation rel to size on every path: rel is "lt" (x < size) or
// "le" (x <= size). A phi is examined edge by edge; an incoming value whose
// linear form is size+clampK (clampK = -1 for "lt", 0 for "le") is the clamp.
func c30Bounded(fn *ssa.Function, x ssa.Value, use ssa.Instruction, size ssa.Value, rel string) bool {
	sizeKey := an.LinKey(size)
	clampK := int64(0)
	if rel == "lt" {
		clampK = -1
	}
	isClamp := func(v ssa.Value) bool {
		l := an.LinOf(v)
		return l.Is(clampK, map[string]int64{sizeKey: 1}) || (rel == "le" && l.Is(-1, map[string]int64{sizeKey: 1}))
	}
	edgesFor := func(v ssa.Value) an.EdgeSet {
		al := an.Aliases(v)
		return an.GRelEdges(fn, func(r an.GRel) bool {
			a, b, op := r.A, r.B, r.Op
			if al[b] {
				a, b, op = b, a, an.SwapRel(op)
			}
			if !al[a] {
				return false
			}
			lb := an.LinOf(b)
			switch {
			case lb.Is(0, map[string]int64{sizeKey: 1}): // compared with size
				if rel == "lt" {
					return op == token.LSS
				}
				return op == token.LSS || op == token.LEQ
			case lb.Is(-1, map[string]int64{sizeKey: 1}): // compared with size-1
				return op == token.LSS || op == token.LEQ
			case lb.Is(1, map[string]int64{sizeKey: 1}): // compared with size+1
				return rel == "le" && op == token.LSS
			}
			return false
		})
	}
	if call, ok := x.(*ssa.Call); ok {
		if bi, ok := call.Call.Value.(*ssa.Builtin); ok && bi.Name() == "min" {
			for _, a := range call.Call.Args {
				if isClamp(a) {
					return true
				}
			}
		}
	}
	if ph, ok := x.(*ssa.Phi); ok {
		for i, e := range ph.Edges {
			if isClamp(e) {
				continue
			}
			if !an.PhiEdgeGuarded(fn, ph, i, edgesFor(e)) && !c30Bounded(fn, e, ph, size, rel) {
				return false
			}
		}
		return true
	}
	if isClamp(x) {
		return true
	}
	es := edgesFor(x)
	return len(es) > 0 && an.GuardedBy(fn, nil, use, es)
}

func c30NonNegative(fn *ssa.Function, x ssa.Value, use ssa.Instruction) bool {
	al := an.Aliases(x)
	es := an.GRelEdges(fn, func(r an.GRel) bool {
		a, b, op := r.A, r.B, r.Op
		if al[b] {
			a, b, op = b, a, an.SwapRel(op)
		}
		k, ok := an.IntConst(b)
		if !ok || !al[a] {
			return false
		}
		return (op == token.GEQ && k >= 0) || (op == token.GTR && k >= -1)
	})
	return len(es) > 0 && an.GuardedBy(fn, nil, use, es)
}

func c30ParseRangeBounds(c *an.Ctx, fn *ssa.Function) {
	name := an.FuncName(fn)
	var size ssa.Value
	for _, q := range fn.Params {
		if b, ok := q.Type().Underlying().(*types.Basic); ok && b.Kind() == types.Int64 {
			size = q
		}
	}
	if !c.Need(size != nil, "int64 size parameter of parseRange") {
		return
	}
	sizeKey := an.LinKey(size)
	nStart, nLen := 0, 0
	outer := fn
	for _, fn := range an.WithClosures(outer) { // the loop body is a range-over-func closure
		an.Instrs(fn, func(in ssa.Instruction) {
			st, ok := in.(*ssa.Store)
			if !ok {
				return
			}
			f, base := an.FieldOf(st.Addr)
			if f == nil || c30RangeStruct(an.FieldBaseType(st.Addr)) != c30R.rangeT {
				return
			}
			startKey := "load:" + an.PathOf(base) + "." + c30R.startF
			l := an.LinOf(st.Val)
			switch f.Name() {
			case c30R.startF:
				nStart++
				switch {
				case l.K == 0 && len(l.Coef) == 2 && l.Coef[sizeKey] == 1:
					// suffix form: size - N
					var n ssa.Value
					for k, cf := range l.Coef {
						if k != sizeKey && cf == -1 {
							n = l.Leaf[k]
						}
					}
					ok := n != nil && c30Bounded(fn, n, st, size, "le")
					okNeg := n != nil
					if okNeg {
						for _, r := range an.Roots(n, nil) {
							if an.LinOf(r).Is(0, map[string]int64{sizeKey: 1}) {
								continue // the clamp value
							}
							okNeg = okNeg && c30NonNegative(fn, r, st)
						}
					}
					c.Check(ok && okNeg, "O6", "R-CMP", name, "start=size-N<=0<=N<=size", st.Pos(),
						"a suffix range starts at size-N with 0 <= N <= size (N clamped to size)",
						"the suffix form stores start = size - N without N being confined to [0, size] on every path (clamp `N > size => N = size` weakened or missing): start becomes negative or the clamp is off by one, Content-Range and Content-Length describe bytes outside the file")
				default:
					v, _, single := l.Single()
					ok := single && l.K == 0 && c30Bounded(fn, v, st, size, "lt") && c30NonNegative(fn, v, st)
					c.Check(ok, "O6", "R-CMP", name, "start=S<=0<=S<size", st.Pos(),
						"an explicit first-byte-pos is stored only where 0 <= pos < size",
						"an explicit range start is stored ("+l.String()+") without being confined to 0 <= start < size on that path (the `start >= size => no overlap` test weakened to `>` or dropped): a range starting at the end of the file is served as 206 with a non-positive length instead of 416")
				}
			case c30R.lenF:
				nLen++
				switch {
				case l.Is(0, map[string]int64{sizeKey: 1, startKey: -1}):
					c.OK("O6", "R-CMP", name, "length=size-start", st.Pos(), "open-ended / suffix ranges extend to the end of the content")
				case l.K == 1 && len(l.Coef) == 2 && l.Coef[startKey] == -1:
					var e ssa.Value
					for k, cf := range l.Coef {
						if k != startKey && cf == 1 {
							e = l.Leaf[k]
						}
					}
					ok := e != nil && c30Bounded(fn, e, st, size, "lt")
					c.Check(ok, "O6", "R-CMP", name, "length=E-start+1<=E<size", st.Pos(),
						"the last-byte-pos used for the length is below the size on every path (clamped to size-1)",
						"length = end - start + 1 is computed from an end that is not confined to end < size on every path (clamp `end >= size => end = size-1` weakened to `>`, clamped to size, or missing): for 'bytes=a-<size>' Content-Range/Content-Length are one byte larger than the file")
				default:
					c.Bad("O6", "R-CMP", name, "length-form", st.Pos(), "httpRange.length is stored as "+l.String()+", which is neither size-start nor end-start+1: the range length is off (off-by-one in the inclusive end arithmetic)")
				}
			}
		})
	}
	c.Min("O6 stores to httpRange.start in parseRange", nStart, 2)
	c.Min("O6 stores to httpRange.length in parseRange", nLen, 2)
}

// c30SumFallback: `ranges = nil` (serve the whole file) only where
// sumRangesSize(ranges) > size, strictly.
func c30SumFallback(c *an.Ctx, hsc, pr *ssa.Function) {
	// the function that calls sumRangesSize: the serving function or a package-local callee of it
	var fn *ssa.Function
	var sums []ssa.CallInstruction
	var find func(g *ssa.Function, depth int)
	find = func(g *ssa.Function, depth int) {
		if fn != nil {
			return
		}
		if cs := an.Calls(g, c30M(c30R.sumFn)); len(cs) > 0 {
			fn, sums = g, cs
			return
		}
		if depth >= 2 {
			return
		}
		for _, cl := range an.AllCalls(g) {
			h := an.Callee(cl).Static
			if h != nil && h != g && len(h.Blocks) > 0 && h.Pkg == g.Pkg {
				find(h, depth+1)
			}
		}
	}
	find(hsc, 0)
	if !c.Need(fn != nil && len(sums) == 1 && an.CallValue(sums[0]) != nil, "one sumRangesSize call in the serving function or a package-local callee") {
		return
	}
	name := an.FuncName(fn)
	// the size it is compared with: the value this function hands to parseRange, else its int64 parameter
	var size ssa.Value
	for _, cl := range an.Calls(fn, c30M(c30R.pr)) {
		size = cl.Common().Args[1]
	}
	if size == nil {
		for _, q := range fn.Params {
			if b, ok := q.Type().Underlying().(*types.Basic); ok && b.Kind() == types.Int64 {
				size = q
			}
		}
	}
	if !c.Need(size != nil, "content size next to the sumRangesSize call") {
		return
	}
	sum := an.CallValue(sums[0])
	strict := an.GRelEdges(fn, func(r an.GRel) bool {
		a, b, op := r.A, r.B, r.Op
		if b == ssa.Value(sum) {
			a, b, op = b, a, an.SwapRel(op)
		}
		return a == ssa.Value(sum) && b == size && op == token.GTR
	})
	// the phi(s) that merge a nil slice with the parsed ranges after the sum call
	n := 0
	an.Instrs(fn, func(in ssa.Instruction) {
		ph, ok := in.(*ssa.Phi)
		if !ok || !an.Reaches(fn, sum, ph, nil, nil) {
			return
		}
		if _, ok := ph.Type().Underlying().(*types.Slice); !ok {
			return
		}
		for i, e := range ph.Edges {
			if !an.IsNilConst(e) {
				continue
			}
			// only resets that happen after the sum was computed
			pred := ph.Block().Preds[i]
			if len(pred.Instrs) == 0 || !an.Reaches(fn, sum, pred.Instrs[len(pred.Instrs)-1], nil, nil) {
				continue
			}
			n++
			c.Check(an.PhiEdgeGuarded(fn, ph, i, strict), "O6", "R-CMP", name, "ranges=nil<=sum>size", ph.Pos(),
				"the Range header is ignored only where the ranges sum up to strictly more than the size",
				"the whole-file fallback (ranges = nil) is taken on a path where sumRangesSize(ranges) > size was not established (e.g. `>=`): a single range covering the whole file ('bytes=0-') is answered 200 instead of 206, or the fallback is taken unconditionally")
		}
	})
	c.Min("O6 whole-file fallbacks after sumRangesSize", n, 1)
}

// c30ContentRangeFormula: httpRange.contentRange renders (start, start+length-1, size).
func c30ContentRangeFormula(c *an.Ctx) {
	fn := c30R.crFn
	if !c.Need(fn != nil, "the function rendering Content-Range from a parsed range and the size") {
		return
	}
	name := an.FuncName(fn)
	sps := an.Calls(fn, an.M("fmt", "", "Sprintf"))
	if !c.Need(len(sps) == 1, "one fmt.Sprintf in contentRange") {
		return
	}
	sp := an.CallValue(sps[0])
	okFmt := false
	if k, ok := an.ConstOf(sp.Call.Args[0]); ok && k.Kind() == constant.String && constant.StringVal(k) == "bytes %d-%d/%d" {
		okFmt = true
	}
	var elems [3]ssa.Value
	if sl, ok := sp.Call.Args[1].(*ssa.Slice); ok {
		if arr, ok := sl.X.(*ssa.Alloc); ok {
			for _, ref := range *arr.Referrers() {
				ia, ok := ref.(*ssa.IndexAddr)
				if !ok {
					continue
				}
				i, ok := an.IntConst(ia.Index)
				if !ok || i < 0 || i > 2 {
					continue
				}
				for _, r2 := range *ia.Referrers() {
					if st, ok := r2.(*ssa.Store); ok {
						if mi, ok := st.Val.(*ssa.MakeInterface); ok {
							elems[i] = mi.X
						}
					}
				}
			}
		}
	}
	fieldKey := func(l an.Lin, field string) string {
		for k := range l.Coef {
			if strings.HasPrefix(k, "load:") && strings.HasSuffix(k, "."+field) {
				return k
			}
		}
		return ""
	}
	ok := okFmt && elems[0] != nil && elems[1] != nil && elems[2] != nil
	detail := "format/arguments not recognised"
	if ok {
		l0, l1, l2 := an.LinOf(elems[0]), an.LinOf(elems[1]), an.LinOf(elems[2])
		s0 := fieldKey(l0, c30R.startF)
		s1, n1 := fieldKey(l1, c30R.startF), fieldKey(l1, c30R.lenF)
		_, isParam := elems[2].(*ssa.Parameter)
		ok = s0 != "" && l0.Is(0, map[string]int64{s0: 1}) && s1 != "" && n1 != "" && l1.Is(-1, map[string]int64{s1: 1, n1: 1}) && isParam && len(l2.Coef) == 1
		detail = fmt.Sprintf("first=%s last=%s total=%s", l0.String(), l1.String(), l2.String())
	}
	c.Check(ok, "O6", "R-CONST", name, "bytes start-(start+length-1)/size", sp.Pos(),
		"Content-Range is 'bytes start-(start+length-1)/size'",
		"httpRange.contentRange does not render (start, start+length-1, size) with the format 'bytes %d-%d/%d': "+detail+" — Content-Range does not describe the bytes that are sent")
}

// c30Rule416: in the function that parses the Range header, 416 is written only where the
// parse failed and (the size is not zero or the error is not errNoOverlap).
func c30Rule416(c *an.Ctx, fn *ssa.Function, pc *ssa.Call) {
	name := an.FuncName(fn)
	size := pc.Call.Args[1]
	// 416 only where err != nil and (size != 0 or err != errNoOverlap)
	errs := an.ErrResult(pc)
	n416 := 0
	for _, cl := range an.Calls(fn, an.M("net/http", "", "Error")) {
		k, ok := an.IntConst(an.Args(cl)[2])
		if !ok || k != 416 {
			continue
		}
		n416++
		nonNil := an.NilEdges(fn, errs, false)
		okErr := an.GuardedBy(fn, nil, cl.(ssa.Instruction), nonNil)
		al := an.Aliases(errs...)
		notNoOverlap := an.CondEdges(fn, func(atom ssa.Value) (bool, bool) {
			b, ok := atom.(*ssa.BinOp)
			if !ok || (b.Op != token.EQL && b.Op != token.NEQ) {
				return false, false
			}
			x, y := b.X, b.Y
			if !al[x] {
				x, y = y, x
			}
			if !al[x] {
				return false, false
			}
			u, ok := y.(*ssa.UnOp)
			if !ok || u.Op != token.MUL {
				return false, false
			}
			g, ok := u.X.(*ssa.Global)
			if !ok || g != c30R.noOverlap {
				return false, false
			}
			eq := b.Op == token.EQL
			return !eq, eq
		})
		sizeNonZero := an.GRelEdges(fn, func(r an.GRel) bool {
			a, b, op := r.A, r.B, r.Op
			if _, ok := an.IntConst(a); ok {
				a, b, op = b, a, an.SwapRel(op)
			}
			k, ok := an.IntConst(b)
			if !ok || a != size {
				return false
			}
			return (op == token.NEQ && k == 0) || (op == token.GTR && k == 0) || (op == token.GEQ && k == 1)
		})
		okOv := len(notNoOverlap) > 0 && len(sizeNonZero) > 0 && an.GuardedBy(fn, nil, cl.(ssa.Instruction), notNoOverlap.Union(sizeNonZero))
		c.Check(okErr && okOv, "O3", "R-DOM", name, "416<=err&&(size!=0||err!=errNoOverlap)", cl.Pos(),
			"416 is written only for a failed parse, and for 'no overlap' only when the file is not empty",
			"416 can be written although the ranges parsed (err==nil) or for an empty file with a non-overlapping range (must be 200): 416 appears although a requested range overlaps / the file is empty")
	}
	c.Min("O3 416 responses", n416, 1)
}

// c30After416: once a 416 has been written nothing else of the response is produced: inside the
// serving function the 416 http.Error cannot reach WriteHeader/io.CopyN; when the 416 is written
// by a helper, the helper's returns after the 416 carry a distinguishing result (false, or a
// non-nil error) that the other returns do not, and the serving function reaches WriteHeader /
// io.CopyN only on the opposite edge of that result.
func c30After416(c *an.Ctx, hsc, pfn, cfn *ssa.Function) {
	var e416 []ssa.CallInstruction
	for _, cl := range an.Calls(pfn, an.M("net/http", "", "Error")) {
		if k, ok := an.IntConst(an.Args(cl)[2]); ok && k == 416 {
			e416 = append(e416, cl)
		}
	}
	if len(e416) == 0 {
		return
	}
	// sinks in the serving function: writing the status line / copying the body, directly or by
	// calling the package-local function that does it
	var sinks []ssa.Instruction
	for _, w := range an.Calls(hsc, an.M("net/http", "ResponseWriter", "WriteHeader"), an.M("io", "", "CopyN")) {
		sinks = append(sinks, w)
	}
	if cfn != hsc {
		for _, cl := range an.AllCalls(hsc) {
			g := an.Callee(cl).Static
			if g != nil && len(g.Blocks) > 0 && g.Pkg == hsc.Pkg && g != pfn && c30LocalTransitive(g, func(h *ssa.Function) bool { return h == cfn }, 0, map[*ssa.Function]bool{}) {
				sinks = append(sinks, cl)
			}
		}
	}
	name := an.FuncName(hsc)
	if pfn == hsc {
		ok := true
		for _, e := range e416 {
			for _, s := range sinks {
				if an.Reaches(hsc, e, s, nil, nil) {
					ok = false
				}
			}
		}
		c.Check(ok, "O3", "R-POST", name, "416=>return", e416[0].Pos(), "after writing 416 the function returns without writing a status or body",
			"after writing the 416 response the serving function can still reach WriteHeader / io.CopyN: a 416 is followed by another status line or by body bytes")
		return
	}
	// helper: find the result index that separates "416 written" from the other returns
	rets := an.Returns(pfn)
	after := func(r *ssa.Return) bool {
		for _, e := range e416 {
			if an.Reaches(pfn, e, r, nil, nil) {
				return true
			}
		}
		return false
	}
	sepIdx, sepKind := -1, ""
	if len(rets) > 0 {
		for k := range rets[0].Results {
			okBool, okErr := true, true
			nA, nB := 0, 0
			for _, r := range rets {
				v := r.Results[k]
				if after(r) {
					nA++
					okBool = okBool && c43IsConstBool(v, false)
					okErr = okErr && !an.IsNilConst(v) && an.IsErrorType(v.Type())
				} else {
					nB++
					okBool = okBool && c43IsConstBool(v, true)
					okErr = okErr && an.IsNilConst(v)
				}
			}
			if nA > 0 && nB > 0 && okBool {
				sepIdx, sepKind = k, "bool"
			} else if nA > 0 && nB > 0 && okErr {
				sepIdx, sepKind = k, "error"
			}
		}
	}
	ok := sepIdx >= 0
	if ok {
		for _, call := range c30LocalCallers(c, pfn) {
			if call.Parent() != hsc {
				continue
			}
			res := an.Result(call, sepIdx)
			var good an.EdgeSet
			if sepKind == "bool" {
				good = an.BoolEdges(hsc, res, true)
			} else {
				good = an.NilEdges(hsc, res, true)
			}
			for _, s := range sinks {
				if an.Reaches(hsc, call, s, nil, nil) && (len(good) == 0 || !an.GuardedBy(hsc, call, s, good)) {
					ok = false
				}
			}
		}
	}
	c.Check(ok, "O3", "R-POST", name, "416=>return", e416[0].Pos(), "the helper reports that it wrote 416 and the serving function stops there",
		"the 416 is written in "+an.FuncName(pfn)+" but the serving function does not stop on the result that signals it (no distinguishing false / non-nil-error result, or WriteHeader / io.CopyN reachable without testing it): a 416 is followed by another status line or by body bytes")
}

// c30StringResult: index of the (last) string result of fn, or -1.
func c30StringResult(fn *ssa.Function) int {
	rs := fn.Signature.Results()
	idx := -1
	for i := 0; i < rs.Len(); i++ {
		if b, ok := rs.At(i).Type().Underlying().(*types.Basic); ok && b.Kind() == types.String {
			idx = i
		}
	}
	return idx
}

// ---------------- O7: header dates are compared at one-second granularity

func c30LayoutHasFraction(layout string) bool {
	for i := 0; i+1 < len(layout); i++ {
		if (layout[i] == '.' || layout[i] == ',') && (layout[i+1] == '0' || layout[i+1] == '9') {
			return true
		}
	}
	return false
}

// c30DateGranularity sweeps package gateway. A "header date" is the result of http.ParseTime or of
// time.Parse with a constant layout without fractional seconds. secGran(v): v is a header date, the
// result of Time.Truncate/Round with a constant positive multiple of one second, time.Unix(_, 0), a
// phi/alias of those, or a parameter that receives such a value at every package-local call site.
func c30DateGranularity(c *an.Ctx, hsc, cpre *ssa.Function) {
	fns := c.P.PkgFuncs(c30Gw)
	isTime := func(t types.Type) bool { return an.TypeIs(t, "time", "Time") }
	headerDate := func(v ssa.Value) bool {
		call, ok := an.IsCallTo(v, an.M("net/http", "", "ParseTime"), an.M("time", "", "Parse"), an.M("time", "", "ParseInLocation"))
		if !ok {
			return false
		}
		if ex, isEx := v.(*ssa.Extract); !isEx || ex.Index != 0 {
			return false
		}
		if an.Callee(call).Pkg == "time" {
			k, ok := an.ConstOf(call.Call.Args[0])
			if !ok || k.Kind() != constant.String || c30LayoutHasFraction(constant.StringVal(k)) {
				return false
			}
		}
		return true
	}
	secParam := map[*ssa.Parameter]bool{}
	var secGran func(v ssa.Value, depth int) bool
	secGran = func(v ssa.Value, depth int) bool {
		if depth > 6 {
			return false
		}
		rs := an.Roots(v, nil)
		if len(rs) == 0 {
			return false
		}
		for _, r := range rs {
			switch x := r.(type) {
			case *ssa.Extract:
				if !headerDate(x) {
					return false
				}
			case *ssa.Call:
				ci := an.Callee(x)
				switch {
				case ci.Pkg == "time" && ci.Recv == "Time" && (ci.Name == "Truncate" || ci.Name == "Round"):
					d, ok := an.IntConst(an.Args(x)[0])
					if !ok || d <= 0 || d%1000000000 != 0 {
						return false
					}
				case ci.Pkg == "time" && ci.Recv == "Time" && (ci.Name == "UTC" || ci.Name == "Local" || ci.Name == "In"):
					if !secGran(an.Recv(x), depth+1) {
						return false
					}
				case ci.Pkg == "time" && ci.Recv == "" && ci.Name == "Unix":
					if k, ok := an.IntConst(x.Call.Args[1]); !ok || k != 0 {
						return false
					}
				default:
					return false
				}
			case *ssa.Parameter:
				if !secParam[x] {
					return false
				}
			default:
				return false
			}
		}
		return true
	}
	// parameters that are second-granular at every package-local call site (fixpoint)
	for changed := true; changed; {
		changed = false
		for _, g := range fns {
			if g.Object() == nil || g.Object().Exported() {
				continue
			}
			for i, q := range g.Params {
				if secParam[q] || !isTime(q.Type()) {
					continue
				}
				n, all := 0, true
				for _, f := range fns {
					for _, cl := range an.AllCalls(f) {
						if an.Callee(cl).Static == g && i < len(cl.Common().Args) {
							n++
							all = all && secGran(cl.Common().Args[i], 0)
						}
					}
				}
				if n > 0 && all {
					secParam[q] = true
					changed = true
				}
			}
		}
	}
	derivesHeaderDate := func(v ssa.Value) bool { return secGran(v, 0) }
	nFns, nCmp := 0, 0
	for _, fn := range fns {
		var bad []string
		pos := fn.Pos()
		n := 0
		note := func(p token.Pos, what string) {
			bad = append(bad, what+" at "+c.P.Pos(p))
			pos = p
		}
		an.Instrs(fn, func(in ssa.Instruction) {
			switch x := in.(type) {
			case *ssa.Call:
				ci := an.Callee(x)
				if ci.Pkg != "time" || ci.Recv != "Time" {
					return
				}
				switch ci.Name {
				case "Equal", "Before", "After", "Compare", "Sub":
					a, b := an.Recv(x), an.Args(x)[0]
					sa, sb := derivesHeaderDate(a), derivesHeaderDate(b)
					if !sa && !sb {
						return // not a comparison with a header date
					}
					n++
					if !(sa && sb) {
						note(x.Pos(), "Time."+ci.Name+" between a header date and a time that is not reduced to whole seconds")
					}
				}
			case *ssa.BinOp:
				switch x.Op {
				case token.EQL, token.NEQ, token.LSS, token.LEQ, token.GTR, token.GEQ:
				default:
					return
				}
				if isTime(x.X.Type()) && isTime(x.Y.Type()) {
					if derivesHeaderDate(x.X) || derivesHeaderDate(x.Y) {
						n++
						note(x.Pos(), "== on time.Time values (compares wall clock, monotonic reading and location)")
					}
					return
				}
				unixOf := func(v ssa.Value) (string, ssa.Value) {
					call, ok := v.(*ssa.Call)
					if !ok {
						return "", nil
					}
					ci := an.Callee(call)
					if ci.Pkg == "time" && ci.Recv == "Time" && strings.HasPrefix(ci.Name, "Unix") {
						return ci.Name, an.Recv(call)
					}
					return "", nil
				}
				ma, ra := unixOf(x.X)
				mb, rb := unixOf(x.Y)
				if ma == "" || mb == "" {
					return
				}
				if !derivesHeaderDate(ra) && !derivesHeaderDate(rb) {
					return
				}
				n++
				if !(ma == "Unix" && mb == "Unix") && !(derivesHeaderDate(ra) && derivesHeaderDate(rb)) {
					note(x.Pos(), ma+"()/"+mb+"() comparison between a header date and a time with a sub-second part")
				}
			}
		})
		if n == 0 {
			continue
		}
		nFns++
		nCmp += n
		c.Check(len(bad) == 0, "O7", "R-SIB", an.FuncName(fn), "header-date-comparisons@1s", pos,
			fmt.Sprintf("%d comparison(s) with a request-header date, all at one-second granularity", n),
			"a date parsed from a request header is compared with a time that still carries its sub-second part ("+strings.Join(bad, "; ")+"): HTTP dates have one-second granularity, so for content whose modification time has a fractional part the gateway's own Last-Modified value no longer validates (If-Range is treated as failed and the Range dropped after the reader was positioned: 200 with a truncated body; If-Modified-Since never yields 304), unlike its sibling checks")
	}
	c.Min("O7 functions comparing a request-header date with another time", nFns, 1)
	// Last-Modified is rendered without fractional seconds
	nLM := 0
	setsLM := map[*ssa.Function][]int{} // function -> indexes of time parameters rendered into Last-Modified
	for _, fn := range fns {
		for _, cl := range an.Calls(fn, an.M("net/http", "Header", "Set"), an.M("net/http", "Header", "Add")) {
			a := an.Args(cl)
			k, ok := an.ConstOf(a[0])
			if !ok || k.Kind() != constant.String || !strings.EqualFold(constant.StringVal(k), "Last-Modified") {
				continue
			}
			nLM++
			okFmt := false
			if fc, ok := an.IsCallTo(a[1], an.M("time", "Time", "Format")); ok {
				if lk, ok := an.ConstOf(an.Args(fc)[0]); ok && lk.Kind() == constant.String && !c30LayoutHasFraction(constant.StringVal(lk)) {
					okFmt = true
				}
				for _, r := range an.Roots(an.Recv(fc), nil) {
					if tc, ok := r.(*ssa.Call); ok {
						for _, r2 := range an.Roots(an.Recv(tc), nil) {
							r = r2
						}
					}
					if prm, ok := r.(*ssa.Parameter); ok {
						for i, q := range fn.Params {
							if q == prm {
								setsLM[fn] = append(setsLM[fn], i)
							}
						}
					}
				}
			}
			c.Check(okFmt, "O7", "R-CONST", an.FuncName(fn), "Last-Modified=Format(layout-without-fraction)", cl.Pos(),
				"Last-Modified is rendered at one-second granularity",
				"Last-Modified is not rendered with Time.Format and a constant layout without fractional seconds: the advertised validator cannot be compared with If-Modified-Since / If-Range dates")
		}
	}
	c.Min("O7 Last-Modified header writes", nLM, 1)
	// the serving function validates against the modtime it advertises
	var cpreTime ssa.Value
	for _, cl := range an.Calls(hsc, an.M(c30Gw, "", cpre.Name())) {
		for _, a := range cl.Common().Args {
			if isTime(a.Type()) {
				cpreTime = a
			}
		}
	}
	if cpreTime != nil {
		for _, cl := range an.AllCalls(hsc) {
			g := an.Callee(cl).Static
			if g == nil || len(setsLM[g]) == 0 {
				continue
			}
			for _, i := range setsLM[g] {
				if i < len(cl.Common().Args) {
					a := cl.Common().Args[i]
					c.Check(a == cpreTime || an.SameObj(a, cpreTime), "O7", "R-FLOW", an.FuncName(hsc), "Last-Modified-time==preconditions-time", cl.Pos(),
						"the modification time advertised in Last-Modified is the one the preconditions are evaluated against",
						"the serving function advertises one modification time in Last-Modified and evaluates If-Modified-Since / If-Range against another")
				}
			}
		}
	}
}

// c30Alt is one alternative of a pair of values that are decided together (status code a, body
// length b): the values, the function they are decided in and the instruction that stands for the
// decision (used to couple other actions with it).
type c30Alt struct {
	fn   *ssa.Function
	a, b ssa.Value
	site ssa.Instruction
}

// c30Alts enumerates the alternatives of the pair (a, b) of fn through the equivalent carriers:
// phis of one block (edge by edge), parameters (every package-local call site), results of one
// package-local call (every return), fields of one local struct (stores grouped by block).
func c30Alts(c *an.Ctx, fn *ssa.Function, a, b ssa.Value, site ssa.Instruction, depth int) []c30Alt {
	leaf := []c30Alt{{fn, a, b, site}}
	if depth > 6 {
		return leaf
	}
	// conversions do not matter
	strip := func(v ssa.Value) ssa.Value {
		for {
			switch x := v.(type) {
			case *ssa.ChangeType:
				v = x.X
			case *ssa.Convert:
				v = x.X
			default:
				return v
			}
		}
	}
	a, b = strip(a), strip(b)
	pa, okA := a.(*ssa.Phi)
	pb, okB := b.(*ssa.Phi)
	if okA && okB && pa.Block() == pb.Block() {
		var out []c30Alt
		for i := range pa.Edges {
			var st ssa.Instruction
			if pred := pa.Block().Preds[i]; len(pred.Instrs) > 0 {
				st = pred.Instrs[len(pred.Instrs)-1]
			}
			out = append(out, c30Alts(c, fn, pa.Edges[i], pb.Edges[i], st, depth+1)...)
		}
		return out
	}
	qa, okA := a.(*ssa.Parameter)
	qb, okB := b.(*ssa.Parameter)
	if okA && okB && qa.Parent() == fn && qb.Parent() == fn {
		ia, ib := -1, -1
		for i, q := range fn.Params {
			if q == qa {
				ia = i
			}
			if q == qb {
				ib = i
			}
		}
		var out []c30Alt
		for _, call := range c30LocalCallers(c, fn) {
			if ia < len(call.Call.Args) && ib < len(call.Call.Args) {
				out = append(out, c30Alts(c, call.Parent(), call.Call.Args[ia], call.Call.Args[ib], call, depth+1)...)
			}
		}
		if len(out) > 0 {
			return out
		}
		return leaf
	}
	ea, okA := a.(*ssa.Extract)
	eb, okB := b.(*ssa.Extract)
	if okA && okB && ea.Tuple == eb.Tuple {
		if call, ok := ea.Tuple.(*ssa.Call); ok {
			if g := an.Callee(call).Static; g != nil && len(g.Blocks) > 0 && g.Pkg == fn.Pkg {
				var out []c30Alt
				for _, r := range an.Returns(g) {
					if ea.Index < len(r.Results) && eb.Index < len(r.Results) {
						out = append(out, c30Alts(c, g, r.Results[ea.Index], r.Results[eb.Index], r, depth+1)...)
					}
				}
				if len(out) > 0 {
					return out
				}
			}
		}
		return leaf
	}
	// two fields of one local struct
	la, okA := a.(*ssa.UnOp)
	lb, okB := b.(*ssa.UnOp)
	if okA && okB && la.Op == token.MUL && lb.Op == token.MUL {
		fa, isFa := la.X.(*ssa.FieldAddr)
		fb, isFb := lb.X.(*ssa.FieldAddr)
		if isFa && isFb && fa.X == fb.X && fa.Field != fb.Field {
			if base, ok := fa.X.(*ssa.Alloc); ok {
				type grp struct{ a, b *ssa.Store }
				groups := map[*ssa.BasicBlock]*grp{}
				var order []*ssa.BasicBlock
				an.Instrs(fn, func(in ssa.Instruction) {
					st, ok := in.(*ssa.Store)
					if !ok {
						return
					}
					f, isF := st.Addr.(*ssa.FieldAddr)
					if !isF || f.X != ssa.Value(base) || (f.Field != fa.Field && f.Field != fb.Field) {
						return
					}
					g := groups[st.Block()]
					if g == nil {
						g = &grp{}
						groups[st.Block()] = g
						order = append(order, st.Block())
					}
					if f.Field == fa.Field {
						g.a = st
					} else {
						g.b = st
					}
				})
				// the struct may be initialised as a whole from a composite literal built in a temporary
				an.Instrs(fn, func(in ssa.Instruction) {
					st, ok := in.(*ssa.Store)
					if !ok || st.Addr != ssa.Value(base) {
						return
					}
					ld, ok := st.Val.(*ssa.UnOp)
					if !ok || ld.Op != token.MUL {
						return
					}
					tmp, ok := ld.X.(*ssa.Alloc)
					if !ok {
						return
					}
					g := &grp{}
					for _, ref := range *tmp.Referrers() {
						f, isF := ref.(*ssa.FieldAddr)
						if !isF {
							continue
						}
						for _, r2 := range *f.Referrers() {
							if fs, ok := r2.(*ssa.Store); ok && fs.Addr == ssa.Value(f) {
								if f.Field == fa.Field {
									g.a = fs
								} else if f.Field == fb.Field {
									g.b = fs
								}
							}
						}
					}
					if g.a != nil || g.b != nil {
						groups[st.Block()] = g
						order = append([]*ssa.BasicBlock{st.Block()}, order...)
					}
				})
				var out []c30Alt
				for _, blk := range order {
					g := groups[blk]
					switch {
					case g.a != nil && g.b != nil:
						out = append(out, c30Alts(c, fn, g.a.Val, g.b.Val, g.a, depth+1)...)
					case g.a != nil:
						out = append(out, c30Alt{fn, g.a.Val, nil, g.a})
					default:
						out = append(out, c30Alt{fn, nil, g.b.Val, g.b})
					}
				}
				if len(out) > 0 {
					return out
				}
			}
		}
	}
	return leaf
}

// c30RangeLenEdges: edges of fn on which len(x) == 0 (empty) or len(x) > 0 (!empty) holds for a
// slice x of the parsed-range struct type.
func c30RangeLenEdges(fn *ssa.Function, empty bool) an.EdgeSet {
	return an.GRelEdges(fn, func(r an.GRel) bool {
		a, b, op := r.A, r.B, r.Op
		if _, ok := an.IntConst(a); ok {
			a, b, op = b, a, an.SwapRel(op)
		}
		k, ok := an.IntConst(b)
		call, ok2 := a.(*ssa.Call)
		if !ok || !ok2 {
			return false
		}
		if bi, ok := call.Call.Value.(*ssa.Builtin); !ok || bi.Name() != "len" || len(call.Call.Args) != 1 {
			return false
		}
		sl, ok := call.Call.Args[0].Type().Underlying().(*types.Slice)
		if !ok || c30R == nil || c30RangeStruct(sl.Elem()) != c30R.rangeT {
			return false
		}
		if empty {
			return (op == token.EQL && k == 0) || (op == token.LEQ && k == 0) || (op == token.LSS && k == 1)
		}
		return (op == token.NEQ && k == 0) || (op == token.GTR && k == 0) || (op == token.GEQ && k == 1)
	})
}

// c30ParserVerdicts: two verdicts of the sized range parser.
//
//	(1) the "no overlap" sentinel is produced only where no range was accepted (len(ranges) == 0):
//	    a request with one satisfiable and one unsatisfiable range must not end in 416;
//	(2) a range whose explicit end equals its start (one byte) is accepted: on every edge on which an
//	    inclusive relation between start and end holds, the accepting append stays reachable.
func c30ParserVerdicts(c *an.Ctx, pr *ssa.Function) {
	name := an.FuncName(pr)
	if c30R == nil || c30R.noOverlap == nil || c30R.rangeT == nil {
		return
	}
	isSentinel := func(v ssa.Value) bool {
		u, ok := v.(*ssa.UnOp)
		if !ok || u.Op != token.MUL {
			return false
		}
		g, ok := u.X.(*ssa.Global)
		return ok && g == c30R.noOverlap
	}
	nS := 0
	for _, fn := range an.WithClosures(pr) {
		emptyE := c30RangeLenEdges(fn, true)
		an.Instrs(fn, func(in ssa.Instruction) {
			carries := false
			switch x := in.(type) {
			case *ssa.Return:
				for _, v := range x.Results {
					carries = carries || isSentinel(v)
				}
			case *ssa.Store:
				carries = isSentinel(x.Val)
			}
			if !carries {
				return
			}
			nS++
			c.Check(len(emptyE) > 0 && an.GuardedBy(fn, nil, in, emptyE), "O6", "R-DOM", name, "no-overlap-verdict<=len(ranges)==0", in.Pos(),
				"'no range overlaps' is reported only where no range was accepted",
				"the parser reports 'no overlap' (416) on a path where a satisfiable range may have been accepted: a request listing one satisfiable and one unsatisfiable range is refused although a requested range overlaps the file")
		})
	}
	c.Min("O6 sites producing the no-overlap sentinel", nS, 1)
	for _, fn := range an.WithClosures(pr) {
		// start: the value of the range struct's start field; end: a ParseInt result that is not stored there
		var startVals []ssa.Value
		an.Instrs(fn, func(in ssa.Instruction) {
			switch x := in.(type) {
			case *ssa.Store:
				if f, _ := an.FieldOf(x.Addr); f != nil && f.Name() == c30R.startF && c30RangeStruct(an.FieldBaseType(x.Addr)) == c30R.rangeT {
					startVals = append(startVals, x.Val)
				}
			case *ssa.UnOp:
				if x.Op == token.MUL {
					if f, _ := an.FieldOf(x.X); f != nil && f.Name() == c30R.startF && c30RangeStruct(an.FieldBaseType(x.X)) == c30R.rangeT {
						startVals = append(startVals, x)
					}
				}
			}
		})
		if len(startVals) == 0 {
			continue
		}
		isStart := an.Aliases(startVals...)
		isEnd := func(v ssa.Value) bool {
			if isStart[v] {
				return false
			}
			for _, r := range an.Roots(v, nil) {
				if _, ok := an.IsCallTo(r, an.M("strconv", "", "ParseInt")); !ok {
					return false
				}
			}
			return len(an.Roots(v, nil)) > 0
		}
		incl := an.GRelEdges(fn, func(r an.GRel) bool {
			if !((isStart[r.A] && isEnd(r.B)) || (isEnd(r.A) && isStart[r.B])) {
				return false
			}
			return r.Op == token.GEQ || r.Op == token.LEQ || r.Op == token.EQL
		})
		if len(incl) == 0 {
			continue
		}
		var accepts []ssa.Instruction
		for _, cl := range an.AllCalls(fn) {
			cv := an.CallValue(cl)
			if cv == nil {
				continue
			}
			if bi, ok := cv.Call.Value.(*ssa.Builtin); ok && bi.Name() == "append" {
				if sl, ok := cv.Type().Underlying().(*types.Slice); ok && c30RangeStruct(sl.Elem()) == c30R.rangeT {
					accepts = append(accepts, cv)
				}
			}
		}
		if len(accepts) == 0 {
			continue
		}
		for e := range incl {
			ok := false
			for _, a := range accepts {
				ok = ok || an.ReachesFromBlock(e.To(), a, nil, nil)
			}
			var pos token.Pos
			if n := len(e.From.Instrs); n > 0 {
				pos = e.From.Instrs[n-1].Pos()
			}
			c.Check(ok, "O6", "R-CMP", name, "start==end-accepted", pos, "a range whose end equals its start stays acceptable",
				"on an edge where start <= end / start >= end (equality included) the range can no longer be accepted: the one-byte range N-N is refused as invalid although it overlaps the file (the validity test must be the strict start > end)")
		}
	}
}
