package props

import (
	"fmt"
	"go/constant"
	"go/token"
	"go/types"
	"sort"
	"strings"

	"golang.org/x/tools/go/ssa"

	"verif/checker/an"
)

func init() {
	register("C43", Prop{
		Pkgs: []string{"./routing/http/types/iter"},
		Explain: "Decided (structural necessary conditions of 'Map/Filter/Limit/slice/JSON iterators are the list operations, no over-read, Close cascades'): " +
			"O1 every struct type with declared Next/Val/Close that holds a field of an Iter-shaped interface type (quick: package iter; thorough: whole module, e.g. client.measuringIter) calls Close on that inner iterator on every path of its Close; " +
			"O2 LimitIter.Next reaches the inner Next only on edges where limit<=0 or count<limit (whatever the syntactic form of the test), increments count by exactly 1 only where the inner Next returned true and on every such path before returning true, returns false after the inner call only where it returned false; LimitIter.Val forwards the inner Val; " +
			"O3 wrappers with a 'done' flag (MapIter, FilterIter) call the inner Next only where done is false and record the inner false in done on every path; they return true only where the inner Next returned true and false (after the inner call) only where it returned false (a filter must skip, not stop, on a rejected value); " +
			"O4 FilterIter returns true only on the true edge of its predicate applied to the value just read from the inner Val() and stored in the field Val() returns; MapIter stores f(inner.Val()) into the field Val() returns on every path to 'return true'; " +
			"O5 SliceIter: constructor start index and the order increment/read in Next agree ((-1, increment first) or (0, read first)), increment by exactly 1, element read guarded by index<len; " +
			"O6 JSONIter: Decode only where done is false, io.EOF ends the iteration (return false, done set), a decode error sets done, Close sets done and closes the reader when it is an io.Closer. " +
			"All rules are evaluated over Next and the functions it calls in its package: same-receiver helper methods (facts about their bool results are derived from their bodies), methods of a plain state struct held in a field of the wrapper (counter/limit kept in a nested struct), and for O6 the Decode error / decoded value are followed through results, parameters and receiver field paths written in one method and read in another. " +
			"NOT decided: value-level list equalities (runtime values), behaviour of json.Decoder, goroutine safety.",
		Assume:    []string{"inner iterators honour the Iter contract (Val is only meaningful after Next returned true)", "function-typed fields f are only called, never reassigned after construction"},
		Technique: "SSA path rules: sibling sweep over Iter implementers (R-SIB), normalised comparison on guarding edges (R-CMP), edge dominance (R-DOM), value provenance (R-FLOW), constructor/step constant agreement (R-CONST)",
		Run:       runC43,
	})
}

const c43Pkg = "routing/http/types/iter"

// c43IterIface reports whether t is an interface type offering Next/Val/Close
// (the shape of iter.Iter, whatever its instantiation).
func c43IterIface(t types.Type) bool {
	if _, ok := t.Underlying().(*types.Interface); !ok {
		return false
	}
	ms := types.NewMethodSet(t)
	has := func(name string) bool {
		for i := 0; i < ms.Len(); i++ {
			if ms.At(i).Obj().Name() == name {
				return true
			}
		}
		return false
	}
	return has("Next") && has("Val") && has("Close")
}

type c43Type struct {
	named            *types.Named
	next, val, close *ssa.Function
	inner            []string // fields of Iter-shaped interface type
	bools, ints      []string
	funcs            []string
	// integer fields of package-local plain struct types held in a field of the
	// wrapper (by value or pointer): slot "via.name"
	nints  []string
	nested map[string]*types.Named // via -> struct type
}

// limited: the wrapper carries integer state (directly or in a nested struct).
func (t c43Type) limited() bool { return len(t.ints)+len(t.nints) > 0 }

func c43Discover(c *an.Ctx, rel string) []c43Type {
	var out []c43Type
	for _, n := range c.P.NamedTypes(rel) {
		st, ok := n.Underlying().(*types.Struct)
		if !ok {
			continue
		}
		t := c43Type{named: n, next: c.P.MethodG(n, "Next"), val: c.P.MethodG(n, "Val"), close: c.P.MethodG(n, "Close")}
		if t.next == nil || t.val == nil || t.close == nil {
			continue
		}
		if r := t.next.Signature.Results(); r.Len() != 1 || !types.Identical(r.At(0).Type(), types.Typ[types.Bool]) {
			continue
		}
		if r := t.close.Signature.Results(); r.Len() != 1 || !an.IsErrorType(r.At(0).Type()) {
			continue
		}
		for i := 0; i < st.NumFields(); i++ {
			f := st.Field(i)
			switch u := f.Type().Underlying().(type) {
			case *types.Interface:
				if c43IterIface(f.Type()) {
					t.inner = append(t.inner, f.Name())
				}
			case *types.Basic:
				if u.Kind() == types.Bool {
					t.bools = append(t.bools, f.Name())
				} else if u.Info()&types.IsInteger != 0 {
					t.ints = append(t.ints, f.Name())
				}
			case *types.Signature:
				t.funcs = append(t.funcs, f.Name())
			case *types.Struct, *types.Pointer:
				ft := f.Type()
				if pt, ok := u.(*types.Pointer); ok {
					ft = pt.Elem()
				}
				nn, ok := ft.(*types.Named)
				if !ok || nn.Obj().Pkg() == nil || nn.Obj().Pkg() != n.Obj().Pkg() || nn.TypeParams().Len() > 0 {
					break
				}
				ns, ok := nn.Underlying().(*types.Struct)
				if !ok {
					break
				}
				for k := 0; k < ns.NumFields(); k++ {
					if b, ok := ns.Field(k).Type().Underlying().(*types.Basic); ok && b.Info()&types.IsInteger != 0 {
						t.nints = append(t.nints, f.Name()+"."+ns.Field(k).Name())
						if t.nested == nil {
							t.nested = map[string]*types.Named{}
						}
						t.nested[f.Name()] = nn
					}
				}
			}
		}
		out = append(out, t)
	}
	return out
}

// c43InnerCalls: invoke calls of method `name` on the inner iterator field
// `field` of the receiver of fn.
func c43InnerCalls(fn *ssa.Function, field, name string) []ssa.CallInstruction {
	if len(fn.Params) == 0 {
		return nil
	}
	recv := fn.Params[0]
	var out []ssa.CallInstruction
	for _, call := range an.AllCalls(fn) {
		cc := call.Common()
		if !cc.IsInvoke() || cc.Method.Name() != name {
			continue
		}
		if an.LoadOfField(cc.Value, recv, field) {
			out = append(out, call)
		}
	}
	return out
}

// c43ClosesInner: on every path to a normal return, fn calls Close on the
// inner iterator field of its receiver (directly, deferred, or through a
// method of the same receiver that does so).
func c43ClosesInner(c *an.Ctx, fn *ssa.Function, field string, depth int) bool {
	if len(fn.Params) == 0 {
		return false
	}
	recv := fn.Params[0]
	set := an.AsInstrs(c43InnerCalls(fn, field, "Close"))
	if depth > 0 {
		for _, call := range an.AllCalls(fn) {
			ci := an.Callee(call)
			g := ci.Static
			if g != nil && g.Origin() != nil {
				g = g.Origin() // generic method: analyse the origin body
			}
			if g == nil || g == fn || len(g.Blocks) == 0 {
				continue
			}
			if r := an.Recv(call); r != nil && an.SameObj(r, recv) && c43ClosesInner(c, g, field, depth-1) {
				set = append(set, call)
			}
		}
	}
	if len(set) == 0 {
		return false
	}
	rets := an.Returns(fn)
	if len(rets) == 0 {
		return false
	}
	for _, r := range rets {
		if !an.MustPrecede(fn, r, set) {
			return false
		}
	}
	return true
}

func c43TypeName(t c43Type) string {
	pk := strings.TrimPrefix(strings.TrimPrefix(t.named.Obj().Pkg().Path(), an.Mod), "/")
	return pk + "." + t.named.Obj().Name()
}

// c43InnerEdges computes the CFG edges of fn on which the inner Next() call is
// known to have returned true / false: direct tests of the call's result, and
// tests of a bool field D of the receiver when every store to D in fn is
// `D = !result` (the done-flag idiom) and the load is dominated by that store.
func c43InnerEdges(fn *ssa.Function, call ssa.CallInstruction, doneField string) (tr, fa an.EdgeSet) {
	res := an.CallValue(call)
	tr = an.BoolEdges(fn, []ssa.Value{res}, true)
	fa = an.BoolEdges(fn, []ssa.Value{res}, false)
	if doneField == "" || len(fn.Params) == 0 {
		return
	}
	recv := fn.Params[0]
	sts := an.StoresToFieldNamed(fn, recv, doneField)
	if len(sts) == 0 {
		return
	}
	al := an.Aliases(res)
	var negStores []*ssa.Store
	for _, st := range sts {
		u, ok := st.Val.(*ssa.UnOp)
		if !ok || u.Op != token.NOT || !al[u.X] {
			return // another kind of store to the flag: do not trust loads of it
		}
		negStores = append(negStores, st)
	}
	var loads []ssa.Value
	for _, l := range an.LoadsOfFieldNamed(fn, recv, doneField) {
		li, ok := l.(ssa.Instruction)
		if !ok {
			continue
		}
		for _, st := range negStores {
			if an.Dominates(st, li) {
				loads = append(loads, l)
				break
			}
		}
	}
	if len(loads) > 0 {
		tr = tr.Union(an.BoolEdges(fn, loads, false))
	}
	// every store to the flag in fn is `!result`, so the flag being true on any
	// load (also one at a loop head, before this iteration's call) means an
	// inner Next() returned false
	fa = fa.Union(an.BoolEdges(fn, an.LoadsOfFieldNamed(fn, recv, doneField), true))
	return
}

func c43IsConstBool(v ssa.Value, want bool) bool {
	k, ok := an.ConstOf(v)
	if !ok {
		return false
	}
	if want {
		return k.String() == "true"
	}
	return k.String() == "false"
}

func runC43(c *an.Ctx) {
	p := c.P
	if !c.Need(p.Pkg(c43Pkg) != nil, "package "+c43Pkg) {
		return
	}
	rel := c43Pkg
	if c.Tier == "thorough" {
		rel = ""
	}
	all := c43Discover(c, rel)
	byName := map[string]c43Type{}
	for _, t := range all {
		if t.named.Obj().Pkg().Path() == an.Mod+"/"+c43Pkg {
			byName[t.named.Obj().Name()] = t
		}
	}

	// ---- O1: Close cascades
	nO1 := 0
	for _, t := range all {
		for _, f := range t.inner {
			nO1++
			ok := c43ClosesInner(c, t.close, f, 1)
			c.Check(ok, "O1", "R-SIB", an.FuncName(t.close), "Close=>inner.Close", t.close.Pos(),
				"Close() calls Close on the inner iterator "+f+" on every path",
				"Close() of "+c43TypeName(t)+" does not close the inner iterator "+f+" on every path: closing the composed iterator leaks the underlying one (HTTP body, goroutines)")
		}
	}
	c.Min("O1 wrapper types with an inner Iter field", nO1, 1)

	// ---- wrappers of package iter: yield discipline (O2/O3), reasoned through same-receiver helper methods
	nWrap, nLim := 0, 0
	engs := map[string]*c43Eng{}
	for _, t := range all {
		if t.named.Obj().Pkg().Path() != an.Mod+"/"+c43Pkg || len(t.inner) != 1 {
			continue
		}
		nWrap++
		e := c43NewEng(c, t)
		if e == nil {
			continue
		}
		engs[t.named.Obj().Name()] = e
		e.checkYield()
		if t.limited() {
			nLim++
			e.checkLimit()
		}
	}
	c.Min("wrapper types of package iter (Limit, Filter, Map)", nWrap, 1)
	c.Min("O2 wrapper types with integer counter/limit state (Limit)", nLim, 1)

	// ---- O4: Filter / Map value discipline
	nO4 := 0
	for _, t := range all {
		if t.named.Obj().Pkg().Path() != an.Mod+"/"+c43Pkg || len(t.inner) != 1 || len(t.funcs) != 1 {
			continue
		}
		nO4++
		if e := engs[t.named.Obj().Name()]; e != nil {
			c43FuncWrapper(c, t, e)
		}
	}
	c.Min("O4 wrapper types with a function field (Filter, Map)", nO4, 1)

	// ---- O5: SliceIter
	if t, ok := byName["SliceIter"]; c.Need(ok, "iter.SliceIter") {
		c43Slice(c, t)
	}
	// ---- O6: JSONIter
	if t, ok := byName["JSONIter"]; c.Need(ok, "iter.JSONIter") {
		c43JSON(c, t)
	}
}

// c43ValField: the receiver field whose load Val() returns ("" if none).
func c43ValField(t c43Type) string {
	if len(t.val.Params) == 0 {
		return ""
	}
	recv := t.val.Params[0]
	name := ""
	for _, r := range an.Returns(t.val) {
		if len(r.Results) != 1 {
			return ""
		}
		found := ""
		for _, root := range an.Roots(r.Results[0], nil) {
			u, ok := root.(*ssa.UnOp)
			if !ok || u.Op != token.MUL {
				return ""
			}
			n, b := an.FieldName(u.X)
			if n == "" || !an.SameObj(b, recv) {
				return ""
			}
			found = n
		}
		if name != "" && found != name {
			return ""
		}
		name = found
	}
	return name
}

func c43FuncWrapper(c *an.Ctx, t c43Type, e *c43Eng) {
	fn := t.next
	name := an.FuncName(fn)
	recv := fn.Params[0]
	evs := e.events(fn)
	if len(evs) == 0 {
		return
	}
	// reachesFromEvent: `to` can be reached after an inner Next() of this activation without passing a blocked instruction
	reachesFromEvent := func(to ssa.Instruction, blocked map[ssa.Instruction]bool) bool {
		for _, ev := range evs {
			if an.Reaches(fn, ev, to, nil, blocked) {
				return true
			}
		}
		return false
	}
	vf := c43ValField(t)
	if !c.Need(vf != "", "field returned by "+an.FuncName(t.val)) {
		return
	}
	ff := t.funcs[0]
	// the call through the function field: in Next or in a same-receiver method it calls
	var closure []*ssa.Function
	for _, m := range e.methods {
		if e.closure[m] {
			closure = append(closure, m)
		}
	}
	var fcalls []*ssa.Call
	var cf *ssa.Function
	for _, m := range closure {
		for _, cl := range an.AllCalls(m) {
			if cv := an.CallValue(cl); cv != nil && !cv.Call.IsInvoke() && an.LoadOfField(cv.Call.Value, m.Params[0], ff) {
				fcalls = append(fcalls, cv)
				cf = m
			}
		}
	}
	if !c.Need(len(fcalls) == 1, fmt.Sprintf("exactly one call through %s.%s in Next or the same-receiver methods it calls (found %d)", t.named.Obj().Name(), ff, len(fcalls))) {
		return
	}
	fc := fcalls[0]
	cname := an.FuncName(cf)
	// innerVal: v (in method m) is the inner iterator's Val() read where the inner Next() is known to have returned true
	innerVal := func(m *ssa.Function, v ssa.Value) bool {
		for _, vc := range c43InnerCalls(m, t.inner[0], "Val") {
			if cv := an.CallValue(vc); cv != nil && an.Aliases(cv)[v] {
				return e.guardedSite(m, cv, c43IT, 0)
			}
		}
		return false
	}
	isPredicate := false
	if r := fc.Call.Signature().Results(); r.Len() == 1 && types.Identical(r.At(0).Type().Underlying(), types.Typ[types.Bool]) {
		isPredicate = true
	}
	// stores to the value field, judged in the method they live in
	good := map[ssa.Instruction]bool{}
	nSts := 0
	for _, m := range closure {
		for _, st := range an.StoresToFieldNamed(m, m.Params[0], vf) {
			nSts++
			mname := an.FuncName(m)
			if isPredicate {
				ok := innerVal(m, st.Val)
				c.Check(ok, "O4", "R-FLOW", mname, "value=inner.Val", st.Pos(), "the yielded value is the inner iterator's current value",
					"the value stored for Val() is not the inner iterator's Val() read after its Next(): Filter yields values that are not elements of the underlying sequence")
				good[st] = ok
			} else {
				ok := m == cf && an.Aliases(fc)[st.Val]
				c.Check(ok, "O4", "R-FLOW", mname, "value=fn(..)", st.Pos(), "the yielded value is the image of the current element",
					"the value stored for Val() is not the result of the mapping function")
				good[st] = ok
			}
		}
	}
	c.Min("O4 stores to "+t.named.Obj().Name()+"."+vf, nSts, 1)
	// in Next: instructions after which the value field holds the current value: a good store, or a call of a
	// helper every return of which is preceded by a good store
	blocked := map[ssa.Instruction]bool{}
	for st, ok := range good {
		if ok && st.Parent() == fn {
			blocked[st] = true
		}
	}
	for _, cl := range an.AllCalls(fn) {
		cv := an.CallValue(cl)
		if cv == nil {
			continue
		}
		if h, _ := e.helperOf(fn, cv); h != nil {
			var hs []ssa.Instruction
			for st, ok := range good {
				if ok && st.Parent() == h {
					hs = append(hs, st)
				}
			}
			all := len(hs) > 0
			for _, r := range an.Returns(h) {
				all = all && an.MustPrecede(h, r, hs)
			}
			if all {
				blocked[cl] = true
			}
		}
	}
	if isPredicate {
		// predicate argument: the stored value (load of the field after the store) or the same inner Val()
		arg := fc.Call.Args
		okArg := len(arg) == 1 && (innerVal(cf, arg[0]) || (an.LoadOfField(arg[0], cf.Params[0], vf) && func() bool {
			for st, ok := range good {
				if ok && st.Parent() == cf && an.Dominates(st, fc) {
					return true
				}
			}
			return false
		}()))
		c.Check(okArg, "O4", "R-FLOW", cname, "predicate(arg)=current", fc.Pos(), "the predicate is applied to the value that will be yielded",
			"the predicate is not applied to the value just read from the inner iterator: elements are kept or dropped according to another element")
		// fact: the predicate returned true
		e.extra[c43PT] = func(m *ssa.Function, atom ssa.Value) (bool, bool) {
			if m == cf && an.Aliases(fc)[atom] {
				return true, false
			}
			return false, false
		}
		for _, r := range an.Returns(fn) {
			r := r
			if len(r.Results) == 1 && !c43IsConstBool(r.Results[0], false) {
				guard := func(s an.EdgeSet) bool { return len(s) > 0 && an.GuardedBy(fn, nil, r, s) }
				c.Check(e.valueImplies(fn, r.Results[0], true, guard, c43PT, 0), "O4", "R-DOM", name, "return-true<=predicate-true", r.Pos(), "a value is yielded only where the predicate returned true",
					"Next() returns true on a path where the predicate did not return true: Filter yields rejected values (or the test is inverted)")
				c.Check(!reachesFromEvent(r, blocked), "O4", "R-POST", name, "return-true<=value-store", r.Pos(), "the yielded value is stored before returning true",
					"Next() returns true without storing the current value: Val() yields a stale element")
			}
		}
	} else {
		// Map: val = f(inner.Val())
		okArg := len(fc.Call.Args) == 1 && innerVal(cf, fc.Call.Args[0])
		c.Check(okArg, "O4", "R-FLOW", cname, "fn(arg)=inner.Val", fc.Pos(), "the mapping function is applied to the inner iterator's current value",
			"the mapping function is not applied to the inner Val() read after the successful Next(): Map yields images of the wrong elements")
		for _, r := range an.Returns(fn) {
			if len(r.Results) == 1 && !c43IsConstBool(r.Results[0], false) {
				c.Check(!reachesFromEvent(r, blocked), "O4", "R-POST", name, "return-true<=value-store", r.Pos(), "the mapped value is stored before returning true",
					"Next() returns true without storing f(inner.Val()): Val() yields a stale element")
			}
		}
	}
	_ = recv
}

func c43Slice(c *an.Ctx, t c43Type) {
	fn := t.next
	name := an.FuncName(fn)
	recv := fn.Params[0]
	if !c.Need(len(t.ints) == 1, "SliceIter has one integer index field") {
		return
	}
	idx := t.ints[0]
	// the slice field: the field indexed in Next
	var reads []*ssa.IndexAddr
	an.Instrs(fn, func(in ssa.Instruction) {
		if ia, ok := in.(*ssa.IndexAddr); ok {
			if u, ok := ia.X.(*ssa.UnOp); ok && u.Op == token.MUL {
				if n, b := an.FieldName(u.X); n != "" && an.SameObj(b, recv) {
					reads = append(reads, ia)
				}
			}
		}
	})
	if !c.Need(len(reads) == 1, "one element read of the slice field in SliceIter.Next") {
		return
	}
	rd := reads[0]
	sliceField, _ := an.FieldName(rd.X.(*ssa.UnOp).X)
	okIdx := an.LoadOfField(rd.Index, recv, idx)
	c.Check(okIdx, "O5", "R-FLOW", name, "read[index]", rd.Pos(), "the element read is Slice[i]", "the element read is not indexed by the iterator's own index field")
	// guard: idx < len(slice)
	isIdx := func(v ssa.Value) bool { return an.LoadOfField(v, recv, idx) }
	isLen := func(v ssa.Value) bool {
		call, ok := v.(*ssa.Call)
		if !ok {
			return false
		}
		if b, ok := call.Call.Value.(*ssa.Builtin); !ok || b.Name() != "len" || len(call.Call.Args) != 1 {
			return false
		}
		return an.LoadOfField(call.Call.Args[0], recv, sliceField)
	}
	guard := an.GRelEdges(fn, func(r an.GRel) bool {
		a, b, op := r.A, r.B, r.Op
		if isLen(a) && isIdx(b) {
			a, b, op = b, a, an.SwapRel(op)
		}
		return isIdx(a) && isLen(b) && op == token.LSS
	})
	c.Check(an.GuardedBy(fn, nil, rd, guard), "O5", "R-CMP", name, "read<=i<len", rd.Pos(), "the element read is guarded by i < len(Slice)",
		"the element read is not guarded by i < len(Slice): Next() panics or skips the end test")
	// step: i = i + 1
	sts := an.StoresToFieldNamed(fn, recv, idx)
	if !c.Need(len(sts) == 1, "one store to the index in SliceIter.Next") {
		return
	}
	st := sts[0]
	okStep := false
	if b, ok := st.Val.(*ssa.BinOp); ok && b.Op == token.ADD {
		if k, ok := an.IntConst(b.Y); ok && k == 1 && isIdx(b.X) {
			okStep = true
		}
	}
	c.Check(okStep, "O5", "R-CONST", name, "index+=1", st.Pos(), "the index advances by exactly one", "the index does not advance by exactly 1: elements are skipped or repeated")
	// constructor start value agrees with the order of increment and read
	incFirst := an.Dominates(st, rd)
	readFirst := an.Dominates(rd, st)
	nCtor := 0
	for _, f := range p43Ctors(c, t) {
		for _, cst := range an.StoresToFieldNamed(f, nil, idx) {
			_, base := an.FieldName(cst.Addr)
			if !an.IsFresh(base) {
				continue
			}
			nCtor++
			k, isK := an.IntConst(cst.Val)
			ok := isK && ((incFirst && k == -1) || (readFirst && !incFirst && k == 0))
			c.Check(ok, "O5", "R-CONST", an.FuncName(f), "index-start", cst.Pos(),
				"start index agrees with the increment/read order of Next",
				fmt.Sprintf("start index %v with increment-before-read=%v: the first element is skipped or index -1 is read", cst.Val, incFirst))
		}
	}
	if nCtor == 0 {
		// zero value start: only correct with read-before-increment
		c.Check(readFirst && !incFirst, "O5", "R-CONST", name, "index-start-zero", fn.Pos(), "zero start index with read-before-increment",
			"no constructor sets the start index (zero value) but Next increments before reading: the first element is skipped")
	}
}

// p43Ctors: package-level functions of package iter that allocate a value of t.
func p43Ctors(c *an.Ctx, t c43Type) []*ssa.Function {
	var out []*ssa.Function
	for _, f := range c.P.PkgFuncs(c43Pkg) {
		found := false
		an.Instrs(f, func(in ssa.Instruction) {
			if a, ok := in.(*ssa.Alloc); ok {
				if n, ok := types.Unalias(a.Type().(*types.Pointer).Elem()).(*types.Named); ok && n.Origin() == t.named.Origin() {
					found = true
				}
			}
		})
		if found {
			out = append(out, f)
		}
	}
	return out
}

// ---- O6: the JSON iterator, reasoned inter-procedurally over the functions
// Next() calls in its package: same-receiver methods (decode(), settle(err)) and
// plain functions (readOne(dec)). The Decode error and the decoded value are
// followed ("holders") through results, arguments -> parameters, and receiver
// field paths (j.res.Err written in one method, read in another).

// c43Hold tracks, per function, which SSA values and which receiver field paths
// hold one particular dynamic value (the error / the destination of the Decode of
// this activation of Next).
type c43Hold struct {
	js    *c43JS
	seed  map[*ssa.Function][]ssa.Value
	vals  map[*ssa.Function]map[ssa.Value]bool
	entry map[*ssa.Function]map[string]bool // receiver paths holding the value at entry
	exit  map[*ssa.Function]map[string]bool // ... at every return
	ret   map[*ssa.Function]map[int]bool    // result indices always carrying it
	paths map[string]bool
}

type c43JS struct {
	c    *an.Ctx
	t    c43Type
	e    *c43Eng
	univ []*ssa.Function
	in   map[*ssa.Function]bool
}

type c43Site struct {
	fn   *ssa.Function
	call *ssa.Call
}

func (js *c43JS) isMethod(g *ssa.Function) bool {
	return len(g.Params) > 0 && c43RecvNamed(g) == js.t.named.Obj()
}

// calleeIn: the function of the universe a call of g enters (methods only on g's own receiver).
func (js *c43JS) calleeIn(g *ssa.Function, call ssa.CallInstruction) *ssa.Function {
	if call.Common().IsInvoke() {
		return nil
	}
	h := an.Callee(call).Static
	if h == nil {
		return nil
	}
	if h.Origin() != nil {
		h = h.Origin()
	}
	if !js.in[h] || h == g {
		return nil
	}
	if js.isMethod(h) {
		r := an.Recv(call)
		if !js.isMethod(g) || r == nil || !an.SameObj(r, g.Params[0]) {
			return nil
		}
	}
	return h
}

func (js *c43JS) sitesOf(h *ssa.Function) []c43Site {
	var out []c43Site
	for _, g := range js.univ {
		for _, cl := range an.AllCalls(g) {
			if cv := an.CallValue(cl); cv != nil && js.calleeIn(g, cl) == h {
				out = append(out, c43Site{g, cv})
			}
		}
	}
	return out
}

// recvPath: the field path of an address/value below g's receiver ("" if it is not).
func (js *c43JS) recvPath(g *ssa.Function, v ssa.Value) string {
	if !js.isMethod(g) {
		return ""
	}
	root, path := c43Path(v)
	if root != ssa.Value(g.Params[0]) {
		return ""
	}
	return path
}

func c43Related(p, q string) bool {
	return p == q || strings.HasPrefix(p, q+".") || strings.HasPrefix(q, p+".")
}

// writes: g (or a universe method it calls on the same receiver) stores into a receiver path related to P.
func (js *c43JS) writes(g *ssa.Function, P string, depth int) bool {
	found := false
	an.Instrs(g, func(in ssa.Instruction) {
		if st, ok := in.(*ssa.Store); ok {
			if q := js.recvPath(g, st.Addr); q != "" && c43Related(q, P) {
				found = true
			}
		}
	})
	if found || depth > 3 {
		return found
	}
	for _, cl := range an.AllCalls(g) {
		if h := js.calleeIn(g, cl); h != nil && js.isMethod(h) && js.writes(h, P, depth+1) {
			return true
		}
	}
	return false
}

// originsKills: the instructions of g after which the receiver path P holds the
// value, and those after which it may hold something else.
func (h *c43Hold) originsKills(g *ssa.Function, P string) (orig, kill []ssa.Instruction) {
	js := h.js
	al := h.vals[g]
	an.Instrs(g, func(in ssa.Instruction) {
		switch x := in.(type) {
		case *ssa.Store:
			q := js.recvPath(g, x.Addr)
			if q == "" || !c43Related(q, P) {
				return
			}
			if q == P && al[x.Val] {
				orig = append(orig, x)
				return
			}
			// whole-struct store of a composite literal whose field is the value
			if strings.HasPrefix(P, q+".") && !strings.Contains(P[len(q)+1:], ".") {
				if u, ok := x.Val.(*ssa.UnOp); ok && u.Op == token.MUL {
					if a, ok := u.X.(*ssa.Alloc); ok {
						n, good := 0, false
						for _, ref := range *a.Referrers() {
							fa, ok := ref.(*ssa.FieldAddr)
							if !ok {
								continue
							}
							if f, _ := an.FieldOf(fa); f == nil || f.Name() != P[len(q)+1:] {
								continue
							}
							for _, r2 := range *fa.Referrers() {
								if fs, ok := r2.(*ssa.Store); ok && fs.Addr == ssa.Value(fa) {
									n++
									good = al[fs.Val] && an.Dominates(fs, x)
								}
							}
						}
						if n == 1 && good {
							orig = append(orig, x)
							return
						}
					}
				}
			}
			kill = append(kill, x)
		case *ssa.Call:
			callee := js.calleeIn(g, x)
			if callee == nil || !js.isMethod(callee) {
				return
			}
			if h.exit[callee][P] {
				orig = append(orig, x)
			} else if js.writes(callee, P, 0) {
				kill = append(kill, x)
			}
		}
	})
	return
}

// holdsAt: at site (before it executes) the receiver path P of g holds the value.
func (h *c43Hold) holdsAt(g *ssa.Function, P string, site ssa.Instruction) bool {
	orig, kill := h.originsKills(g, P)
	if !h.entry[g][P] && !(len(orig) > 0 && an.MustPrecede(g, site, orig)) {
		return false
	}
	blocked := map[ssa.Instruction]bool{}
	for _, o := range orig {
		blocked[o] = true
	}
	for _, k := range kill {
		if k == site {
			continue
		}
		if an.Reaches(g, k, site, nil, blocked) {
			return false
		}
	}
	return true
}

func (h *c43Hold) compute() {
	js := h.js
	h.vals = map[*ssa.Function]map[ssa.Value]bool{}
	h.entry = map[*ssa.Function]map[string]bool{}
	h.exit = map[*ssa.Function]map[string]bool{}
	h.ret = map[*ssa.Function]map[int]bool{}
	h.paths = map[string]bool{}
	for _, g := range js.univ {
		h.vals[g] = map[ssa.Value]bool{}
		h.entry[g] = map[string]bool{}
		h.exit[g] = map[string]bool{}
		h.ret[g] = map[int]bool{}
	}
	size := func() int {
		n := len(h.paths)
		for _, g := range js.univ {
			n += len(h.vals[g]) + len(h.entry[g]) + len(h.exit[g]) + len(h.ret[g])
		}
		return n
	}
	for round := 0; round < 10; round++ {
		before := size()
		for _, g := range js.univ {
			var set []ssa.Value
			set = append(set, h.seed[g]...)
			for v := range h.vals[g] {
				set = append(set, v)
			}
			sites := js.sitesOf(g)
			// parameters: the value at every call site
			for i, p := range g.Params {
				all := len(sites) > 0
				for _, s := range sites {
					if i >= len(s.call.Call.Args) || !h.vals[s.fn][s.call.Call.Args[i]] {
						all = false
					}
				}
				if all {
					set = append(set, p)
				}
			}
			// receiver paths at entry: held at every call site
			for _, P := range c43SortedSet(h.paths) {
				all := len(sites) > 0 && js.isMethod(g)
				for _, s := range sites {
					if !h.holdsAt(s.fn, P, s.call) {
						all = false
					}
				}
				if all {
					h.entry[g][P] = true
				}
			}
			// results of universe calls
			for _, cl := range an.AllCalls(g) {
				if callee := js.calleeIn(g, cl); callee != nil {
					for k := range h.ret[callee] {
						set = append(set, an.Result(cl, k)...)
					}
				}
			}
			h.vals[g] = an.Aliases(set...)
			// stores of the value below the receiver make a path known; loads of held paths are holders
			for changed := true; changed; {
				changed = false
				an.Instrs(g, func(in ssa.Instruction) {
					if st, ok := in.(*ssa.Store); ok {
						if q := js.recvPath(g, st.Addr); q != "" {
							if h.vals[g][st.Val] {
								h.paths[q] = true
							}
							if u, ok := st.Val.(*ssa.UnOp); ok && u.Op == token.MUL {
								if a, ok := u.X.(*ssa.Alloc); ok {
									for _, ref := range *a.Referrers() {
										if fa, ok := ref.(*ssa.FieldAddr); ok {
											for _, r2 := range *fa.Referrers() {
												if fs, ok := r2.(*ssa.Store); ok && fs.Addr == ssa.Value(fa) && h.vals[g][fs.Val] {
													f, _ := an.FieldOf(fa)
													h.paths[q+"."+f.Name()] = true
												}
											}
										}
									}
								}
							}
						}
					}
				})
				an.Instrs(g, func(in ssa.Instruction) {
					v, ok := in.(ssa.Value)
					if !ok || h.vals[g][v] {
						return
					}
					switch x := v.(type) {
					case *ssa.UnOp:
						if x.Op != token.MUL {
							return
						}
						if _, ok := x.X.(*ssa.FieldAddr); !ok {
							return
						}
					case *ssa.Field:
					default:
						return
					}
					P := js.recvPath(g, v)
					if P == "" || !h.paths[P] {
						return
					}
					if h.holdsAt(g, P, in) {
						set = append(set, v)
						h.vals[g] = an.Aliases(set...)
						changed = true
					}
				})
			}
			// results / exit paths
			rets := an.Returns(g)
			for k := 0; k < g.Signature.Results().Len(); k++ {
				all := len(rets) > 0
				for _, r := range rets {
					if k >= len(r.Results) || !h.vals[g][r.Results[k]] {
						all = false
					}
				}
				if all {
					h.ret[g][k] = true
				}
			}
			if js.isMethod(g) {
				for _, P := range c43SortedSet(h.paths) {
					all := len(rets) > 0
					for _, r := range rets {
						if !h.holdsAt(g, P, r) {
							all = false
						}
					}
					if all {
						h.exit[g][P] = true
					}
				}
			}
		}
		if size() == before {
			break
		}
	}
}

func c43SortedSet(m map[string]bool) []string {
	var ks []string
	for k := range m {
		ks = append(ks, k)
	}
	sort.Strings(ks)
	return ks
}

const (
	c43EOF = "json-eof"    // errors.Is(<the Decode error>, …) returned true
	c43ENL = "json-errnil" // the Decode error is nil
)

func c43JSON(c *an.Ctx, t c43Type) {
	fn := t.next
	name := an.FuncName(fn)
	if !c.Need(len(t.bools) == 1, "JSONIter has one bool (done) field") {
		return
	}
	done := t.bools[0]
	e := c43BareEng(c, t, "")
	e.done = done
	js := &c43JS{c: c, t: t, e: e, in: map[*ssa.Function]bool{}}
	// universe: Next, the same-receiver methods it calls, and plain package-local functions they call
	var grow func(g *ssa.Function, depth int)
	grow = func(g *ssa.Function, depth int) {
		if js.in[g] || depth > 4 {
			return
		}
		js.in[g] = true
		js.univ = append(js.univ, g)
		for _, cl := range an.AllCalls(g) {
			if cl.Common().IsInvoke() {
				continue
			}
			h := an.Callee(cl).Static
			if h == nil {
				continue
			}
			if h.Origin() != nil {
				h = h.Origin()
			}
			if len(h.Blocks) == 0 || h.Pkg != fn.Pkg || h == g {
				continue
			}
			if js.isMethod(h) {
				if r := an.Recv(cl); !js.isMethod(g) || r == nil || !an.SameObj(r, g.Params[0]) {
					continue
				}
			} else if h.Signature.Recv() != nil {
				continue
			}
			grow(h, depth+1)
		}
	}
	grow(fn, 0)
	sort.SliceStable(js.univ, func(i, k int) bool { return an.FuncName(js.univ[i]) < an.FuncName(js.univ[k]) })
	// the Decode call
	var dfn *ssa.Function
	var dec []ssa.CallInstruction
	for _, g := range js.univ {
		if ds := an.Calls(g, an.M("encoding/json", "Decoder", "Decode")); len(ds) > 0 {
			dfn = g
			dec = append(dec, ds...)
		}
	}
	if !c.Need(len(dec) == 1 && an.CallValue(dec[0]) != nil, "one json.Decoder.Decode call in JSONIter.Next (or in a package-local function it calls)") {
		return
	}
	d := dec[0]
	// events: the instruction of each function at which the decode happens
	hasEv := map[*ssa.Function]bool{dfn: true}
	for changed := true; changed; {
		changed = false
		for _, g := range js.univ {
			for _, cl := range an.AllCalls(g) {
				if h := js.calleeIn(g, cl); h != nil && hasEv[h] && !hasEv[g] {
					hasEv[g] = true
					changed = true
				}
			}
		}
	}
	evIn := func(g *ssa.Function) []ssa.Instruction {
		var out []ssa.Instruction
		if g == dfn {
			out = append(out, d)
		}
		for _, cl := range an.AllCalls(g) {
			if h := js.calleeIn(g, cl); h != nil && hasEv[h] {
				out = append(out, cl)
			}
		}
		return out
	}
	evs := evIn(fn)
	if !c.Need(len(evs) > 0, "the decode event in JSONIter.Next") {
		return
	}
	ev := evs[0]
	// Decode only where done is false (decided where Decode is, or at every call site of that function)
	var guarded func(g *ssa.Function, site ssa.Instruction, depth int) bool
	guarded = func(g *ssa.Function, site ssa.Instruction, depth int) bool {
		if js.isMethod(g) && e.closure[g] {
			if e.guardedSite(g, site, c43NOTD, 0) {
				return true
			}
		}
		if depth > 3 || g == fn {
			return false
		}
		sites := js.sitesOf(g)
		for _, s := range sites {
			if !guarded(s.fn, s.call, depth+1) {
				return false
			}
		}
		return len(sites) > 0
	}
	c.Check(guarded(dfn, d, 0), "O6", "R-DOM", name, "Decode<=!done-flag", ev.Pos(),
		"Decode is only called where done is false", "Decode is called although the iterator is done/closed: values are read past the end or after Close")
	// the destination of Decode is a fresh zero value of this call (encoding/json merges into a
	// non-zero destination: absent fields keep old values, slices/maps/pointers are reused), never
	// storage that survives between calls (a receiver field, a captured variable)
	dst := an.Args(d)[0]
	okFresh := true
	why := ""
	var cells []*ssa.Alloc
	for _, r := range an.Roots(dst, nil) {
		a, ok := r.(*ssa.Alloc)
		if !ok || a.Parent() != dfn {
			okFresh = false
			why = "decodes into " + an.PathOf(r)
			continue
		}
		cells = append(cells, a)
		for _, ref := range *a.Referrers() {
			if st, ok := ref.(*ssa.Store); ok && st.Addr == ssa.Value(a) && an.Reaches(dfn, st, d.(ssa.Instruction), nil, nil) {
				okFresh = false
				why = "the destination is written before Decode"
			}
		}
	}
	c.Check(okFresh && len(cells) > 0, "O6", "R-FLOW", an.FuncName(dfn), "Decode(&fresh-zero-value)", d.Pos(),
		"every Next decodes into a fresh zero value",
		"Decode's destination is not a fresh per-call zero value ("+why+"): encoding/json merges into the previous element, so a value that omits a field inherits it from an earlier one and previously yielded slices/maps/pointers are overwritten — the yielded list differs from the element-wise decode")
	// holders of the decoded value and of the Decode error
	valH := &c43Hold{js: js, seed: map[*ssa.Function][]ssa.Value{}}
	an.Instrs(dfn, func(in ssa.Instruction) {
		if u, ok := in.(*ssa.UnOp); ok && u.Op == token.MUL {
			for _, a := range cells {
				if u.X == ssa.Value(a) && an.Dominates(d.(ssa.Instruction), u) {
					valH.seed[dfn] = append(valH.seed[dfn], u)
				}
			}
		}
	})
	valH.compute()
	errH := &c43Hold{js: js, seed: map[*ssa.Function][]ssa.Value{dfn: an.ErrResult(d)}}
	errH.compute()
	// the yielded value is that destination, read after Decode
	if okFresh {
		nVal := 0
		okVal := true
		for _, g := range js.univ {
			an.Instrs(g, func(in ssa.Instruction) {
				st, ok := in.(*ssa.Store)
				if !ok {
					return
				}
				if n, _ := an.FieldName(st.Addr); n != "Val" {
					return
				}
				nVal++
				okVal = okVal && valH.vals[g][st.Val]
			})
		}
		c.Check(okVal && nVal > 0, "O6", "R-FLOW", name, "res.Val=decoded", ev.Pos(), "the yielded value is the freshly decoded one",
			"the value stored for Val() is not the destination of this call's Decode (read after it): stale or foreign values are yielded")
	}
	// facts about the Decode error
	e.extra[c43EOF] = func(g *ssa.Function, atom ssa.Value) (bool, bool) {
		call, ok := an.IsCallTo(atom, an.M("errors", "", "Is"))
		if !ok || len(call.Call.Args) != 2 {
			return false, false
		}
		return errH.vals[g][call.Call.Args[0]], false
	}
	e.extra[c43ENL] = func(g *ssa.Function, atom ssa.Value) (bool, bool) {
		b, ok := atom.(*ssa.BinOp)
		if !ok || (b.Op != token.EQL && b.Op != token.NEQ) {
			return false, false
		}
		x := b.X
		if an.IsNilConst(b.X) {
			x = b.Y
		} else if !an.IsNilConst(b.Y) {
			return false, false
		}
		if !errH.vals[g][x] {
			return false, false
		}
		return b.Op == token.EQL, b.Op == token.NEQ
	}
	doneStores := func(g *ssa.Function) map[ssa.Instruction]bool {
		out := map[ssa.Instruction]bool{}
		if !js.isMethod(g) {
			return out
		}
		for _, st := range an.StoresToFieldNamed(g, g.Params[0], done) {
			if c43IsConstBool(st.Val, true) {
				out[st] = true
			}
		}
		return out
	}
	boolHelper := func(g *ssa.Function, v ssa.Value) *ssa.Function {
		h, _ := e.helperOf(g, v)
		if h == nil {
			return nil
		}
		if rs := h.Signature.Results(); rs.Len() != 1 || !types.Identical(rs.At(0).Type().Underlying(), types.Typ[types.Bool]) {
			return nil
		}
		return h
	}
	// falseRecorded: every return of g (after start) that may yield false has stored done=true
	var falseRecorded func(g *ssa.Function, start ssa.Instruction, depth int) bool
	falseRecorded = func(g *ssa.Function, start ssa.Instruction, depth int) bool {
		for _, r := range an.Returns(g) {
			if len(r.Results) != 1 || (start != nil && !an.Reaches(g, start, r, nil, nil)) || c43IsConstBool(r.Results[0], true) {
				continue
			}
			if !an.Reaches(g, start, r, nil, doneStores(g)) {
				continue
			}
			if h := boolHelper(g, r.Results[0]); h != nil && depth < 4 && falseRecorded(h, nil, depth+1) {
				continue
			}
			return false
		}
		return true
	}
	// trueSafe: every return of g (after start) that may yield true has the error nil (or EOF handled) or done stored
	var trueSafe func(g *ssa.Function, start ssa.Instruction, depth int) bool
	trueSafe = func(g *ssa.Function, start ssa.Instruction, depth int) bool {
		for _, r := range an.Returns(g) {
			if len(r.Results) != 1 || (start != nil && !an.Reaches(g, start, r, nil, nil)) || c43IsConstBool(r.Results[0], false) {
				continue
			}
			cut := e.edges(g, c43ENL).Union(e.edges(g, c43EOF))
			if !an.Reaches(g, start, r, cut, doneStores(g)) {
				continue
			}
			if h := boolHelper(g, r.Results[0]); h != nil && depth < 4 && trueSafe(h, nil, depth+1) {
				continue
			}
			return false
		}
		return true
	}
	nEOF := 0
	for _, r := range an.Returns(fn) {
		r := r
		if len(r.Results) != 1 || c43IsConstBool(r.Results[0], true) {
			continue
		}
		after := false
		okEOF := true
		for _, x := range evs {
			x := x
			if !an.Reaches(fn, x, r, nil, nil) {
				continue
			}
			after = true
			guard := func(s an.EdgeSet) bool { return len(s) > 0 && an.GuardedBy(fn, x, r, s) }
			okEOF = okEOF && e.valueImplies(fn, r.Results[0], false, guard, c43EOF, 0)
		}
		if !after {
			continue
		}
		nEOF++
		c.Check(okEOF, "O6", "R-DOM", name, "return-false<=EOF", r.Pos(), "after Decode the iteration ends only on io.EOF",
			"Next() returns false after Decode on a path where the error is not io.EOF: a decodable value or a decode error is swallowed")
	}
	c.Min("O6 end-of-input returns in JSONIter.Next", nEOF, 1)
	okRec, okErr := true, true
	for _, x := range evs {
		okRec = okRec && falseRecorded(fn, x, 0)
		okErr = okErr && trueSafe(fn, x, 0)
	}
	c.Check(okRec, "O6", "R-POST", name, "EOF=>done-flag", ev.Pos(), "end of input is recorded in done", "end of input is not recorded in done: Decode is called again after EOF")
	c.Check(okErr, "O6", "R-POST", name, "err=>done-flag", ev.Pos(), "a decode error stops the iteration (done set)",
		"Next() can return true after a decode error without setting done: the iterator keeps decoding a broken stream and can yield garbage or loop forever")
	// constructors: the decoder reads the very reader that Close() closes — the constructor's reader
	// parameter itself, not a wrapper around it (a wrapper hides io.Closer or truncates the stream)
	nJC := 0
	for _, f := range p43Ctors(c, t) {
		var decArg, rdVal ssa.Value
		an.Instrs(f, func(in ssa.Instruction) {
			st, ok := in.(*ssa.Store)
			if !ok {
				return
			}
			fv, base := an.FieldOf(st.Addr)
			if fv == nil || !an.IsFresh(base) {
				return
			}
			if pt, ok := fv.Type().(*types.Pointer); ok && an.TypeIs(pt.Elem(), "encoding/json", "Decoder") {
				if nd, ok := an.IsCallTo(st.Val, an.M("encoding/json", "", "NewDecoder")); ok {
					decArg = nd.Call.Args[0]
				}
			} else if an.TypeIs(fv.Type(), "io", "Reader") {
				rdVal = st.Val
			}
		})
		if decArg == nil && rdVal == nil {
			continue
		}
		nJC++
		isParam := func(v ssa.Value) *ssa.Parameter {
			var out *ssa.Parameter
			rs := an.Roots(v, nil)
			for _, r := range rs {
				q, ok := r.(*ssa.Parameter)
				if !ok || (out != nil && out != q) {
					return nil
				}
				out = q
			}
			return out
		}
		var pd, pr *ssa.Parameter
		if decArg != nil {
			pd = isParam(decArg)
		}
		if rdVal != nil {
			pr = isParam(rdVal)
		}
		c.Check(pd != nil && pd == pr, "O6", "R-SIB", an.FuncName(f), "ctor:Decoder(reader)==Reader-field==parameter", f.Pos(),
			"the decoder reads, and Close() closes, the reader handed to the constructor",
			"the JSON iterator's decoder and its Reader field are not both the constructor's reader parameter itself: a wrapper hides the reader's io.Closer from Close() (the HTTP body leaks) or the decoder reads a truncated/other stream than the one that is closed")
	}
	c.Min("O6 JSONIter constructors", nJC, 1)
	// Close: done = true on every path and the reader is closed when it is an io.Closer
	cl := t.close
	crecv := cl.Params[0]
	var cDone []ssa.Instruction
	for _, st := range an.StoresToFieldNamed(cl, crecv, done) {
		if c43IsConstBool(st.Val, true) {
			cDone = append(cDone, st)
		}
	}
	okD := len(cDone) > 0
	for _, r := range an.Returns(cl) {
		okD = okD && an.MustPrecede(cl, r, cDone)
	}
	c.Check(okD, "O6", "R-POST", an.FuncName(cl), "Close=>done-flag", cl.Pos(), "Close marks the iterator done on every path",
		"JSONIter.Close does not set done on every path: Next() after Close decodes from a closed reader")
	// reader closed: the value of a receiver field is closed when it is an io.Closer (type assertion + Close
	// on the ok edge), in Close itself or in a package-local function the field value is handed to
	okC := c43ClosesIfCloser(cl, func(v ssa.Value) bool {
		if u, ok := v.(*ssa.UnOp); ok && u.Op == token.MUL {
			if n, b := an.FieldName(u.X); n != "" && an.SameObj(b, crecv) {
				return true
			}
		}
		return false
	}, 0)
	c.Check(okC, "O6", "R-POST", an.FuncName(cl), "Close=>Reader.Close", cl.Pos(), "Close closes the reader whenever it is an io.Closer",
		"JSONIter.Close can return without closing a reader that is an io.Closer: the HTTP response body leaks")
}

// ---------------------------------------------------------------- fact engine
//
// The yield rules are statements of the form "site S is only reached where fact
// F holds" / "value V being true (false) implies fact F". Facts are decided on
// CFG edges from the condition that is branched on. To stay valid when a block
// is extracted into a helper method of the same receiver (advance(), reached()),
// a call of such a helper is itself an atom: its true/false outcome implies F
// when every return of the helper that can produce that outcome implies F
// (constant results by the guards on the path to the return, phis edge by edge,
// other values by the atom they are). A site inside a helper is guarded when it
// is guarded inside the helper or at every call site of the helper.

const (
	c43IT   = "inner-true"     // the inner Next() of this activation returned true
	c43EXH  = "exhausted"      // the inner Next() returned false (now or earlier: done flag set)
	c43NOTD = "not-done"       // the done flag is false
	c43OKF  = "limit-open"     // limit <= 0 or count < limit
	c43LPOS = "limit-pos"      // limit > 0
	c43CGE  = "count-ge"       // count >= limit
	c43PT   = "predicate-true" // the predicate of a filtering wrapper returned true (registered by the O4 rules)
)

type c43Eng struct {
	c            *an.Ctx
	t            c43Type
	inner        string
	done         string
	doneOK       bool
	limit, count string
	methods      []*ssa.Function
	nmethods     []*ssa.Function // declared methods of the nested state structs (t.nested)
	memoRet      map[string]int
	memoEdges    map[string]an.EdgeSet
	memoHas      map[*ssa.Function]int
	closure      map[*ssa.Function]bool
	extra        map[string]func(fn *ssa.Function, atom ssa.Value) (bool, bool)
}

// c43BareEng: the fact engine over Next and the same-receiver methods it calls.
func c43BareEng(c *an.Ctx, t c43Type, inner string) *c43Eng {
	e := &c43Eng{c: c, t: t, inner: inner, memoRet: map[string]int{}, memoEdges: map[string]an.EdgeSet{}, memoHas: map[*ssa.Function]int{}, extra: map[string]func(*ssa.Function, ssa.Value) (bool, bool){}}
	e.methods = c.P.MethodsG(t.named)
	for _, via := range c43SortedKeys(t.nested) {
		e.nmethods = append(e.nmethods, c.P.MethodsG(t.nested[via])...)
	}
	// the same-receiver methods Next (transitively) calls
	e.closure = map[*ssa.Function]bool{t.next: true}
	for changed := true; changed; {
		changed = false
		for m := range e.closure {
			for _, cl := range an.AllCalls(m) {
				if cv := an.CallValue(cl); cv != nil {
					if h, _ := e.helperOf(m, cv); h != nil && !e.closure[h] {
						e.closure[h] = true
						changed = true
					}
				}
			}
		}
	}
	return e
}

func c43NewEng(c *an.Ctx, t c43Type) *c43Eng {
	e := c43BareEng(c, t, t.inner[0])
	if !e.hasInner(t.next) {
		c.Problem("%s: no call of the inner Next() in Next or in the same-receiver methods it calls", an.FuncName(t.next))
		return nil
	}
	// done flag: a bool field stored in a function of Next's closure that performs the inner call
	for _, b := range t.bools {
		for _, m := range e.methods {
			if e.hasInner(m) && len(an.StoresToFieldNamed(m, m.Params[0], b)) > 0 && len(c43InnerCalls(m, e.inner, "Next")) > 0 {
				if e.done != "" && e.done != b {
					c.Problem("%s: two bool fields stored next to the inner Next() (%s, %s): done-flag role ambiguous", c43TypeName(t), e.done, b)
				}
				e.done = b
			}
		}
	}
	// every store to the flag next to the inner call is `!result` or `true` on the inner-false edge
	e.doneOK = e.done != ""
	if e.done != "" {
		for _, m := range e.methods {
			calls := c43InnerCalls(m, e.inner, "Next")
			if len(calls) == 0 {
				continue
			}
			var res []ssa.Value
			for _, cl := range calls {
				if v := an.CallValue(cl); v != nil {
					res = append(res, v)
				}
			}
			al := an.Aliases(res...)
			fa := an.BoolEdges(m, res, false)
			for _, st := range an.StoresToFieldNamed(m, m.Params[0], e.done) {
				if u, ok := st.Val.(*ssa.UnOp); ok && u.Op == token.NOT && al[u.X] {
					continue
				}
				if c43IsConstBool(st.Val, true) && len(fa) > 0 && an.GuardedBy(m, nil, st, fa) {
					continue
				}
				e.doneOK = false
				c.Bad("O3", "R-DOM", an.FuncName(m), "done-flag=<=inner-false", st.Pos(),
					"the "+e.done+" flag is stored with something other than the negated inner result, or set where the inner Next() did not return false: the iteration stops although the underlying iterator has more values")
			}
		}
	}
	// limit / count roles: count = int field stored in Next's closure, limit = the other one
	slots := append(append([]string{}, t.ints...), t.nints...)
	for _, f := range slots {
		stored := false
		for _, m := range e.all() {
			if e.closure[m] && len(e.slotStores(m, f)) > 0 {
				stored = true
			}
		}
		if stored {
			if e.count != "" {
				c.Problem("%s: two int fields stored in Next: counter role ambiguous", c43TypeName(t))
			}
			e.count = f
		}
	}
	for _, f := range slots {
		if f != e.count && e.count != "" && c43SlotOwner(f) == c43SlotOwner(e.count) {
			if e.limit != "" {
				c.Problem("%s: two int fields never stored in Next: limit role ambiguous", c43TypeName(t))
			}
			e.limit = f
		}
	}
	return e
}

// helper: static call of a declared method of the same type on the same receiver.
func (e *c43Eng) helperOf(fn *ssa.Function, v ssa.Value) (*ssa.Function, *ssa.Call) {
	call, ok := v.(*ssa.Call)
	if !ok || call.Call.IsInvoke() || len(fn.Params) == 0 {
		return nil, nil
	}
	g := an.Callee(call).Static
	if g == nil {
		return nil, nil
	}
	if g.Origin() != nil {
		g = g.Origin()
	}
	for _, m := range e.methods {
		if m == g && m != fn {
			if r := an.Recv(call); r != nil && an.SameObj(r, fn.Params[0]) {
				return m, call
			}
		}
	}
	// a method of a nested state struct, called on that field of the same receiver
	// (value receiver: the loaded field; pointer receiver: its address)
	for _, m := range e.nmethods {
		if m == g && m != fn {
			r := an.Recv(call)
			if r == nil {
				continue
			}
			root, path := c43Path(r)
			if root != ssa.Value(fn.Params[0]) {
				continue
			}
			if c43RecvNamed(fn) == e.t.named.Obj() && path != "" && e.t.nested[path[1:]] != nil && e.t.nested[path[1:]].Obj() == c43RecvNamed(m) {
				return m, call
			}
			if c43RecvNamed(fn) == c43RecvNamed(m) && path == "" {
				return m, call
			}
		}
	}
	return nil, nil
}

func (e *c43Eng) all() []*ssa.Function {
	return append(append([]*ssa.Function{}, e.methods...), e.nmethods...)
}

func c43SortedKeys(m map[string]*types.Named) []string {
	var ks []string
	for k := range m {
		ks = append(ks, k)
	}
	sort.Strings(ks)
	return ks
}

// c43RecvNamed: the (origin) named type of fn's receiver.
func c43RecvNamed(fn *ssa.Function) *types.TypeName {
	if fn.Signature.Recv() == nil {
		return nil
	}
	t := fn.Signature.Recv().Type()
	if p, ok := t.(*types.Pointer); ok {
		t = p.Elem()
	}
	if n, ok := t.(*types.Named); ok {
		return n.Origin().Obj()
	}
	return nil
}

// c43Path: the root object and the field path (".a.b") a value or address is
// reached by; loads are transparent, a local holding only a parameter is that parameter.
func c43Path(v ssa.Value) (ssa.Value, string) {
	switch x := v.(type) {
	case *ssa.FieldAddr:
		f, _ := an.FieldOf(x)
		r, p := c43Path(x.X)
		return r, p + "." + f.Name()
	case *ssa.Field:
		f, _ := an.FieldOf(x)
		r, p := c43Path(x.X)
		return r, p + "." + f.Name()
	case *ssa.UnOp:
		if x.Op == token.MUL {
			return c43Path(x.X)
		}
	case *ssa.Alloc:
		var only ssa.Value
		n := 0
		for _, ref := range *x.Referrers() {
			if st, ok := ref.(*ssa.Store); ok && st.Addr == ssa.Value(x) {
				n++
				only = st.Val
			}
		}
		if pa, ok := only.(*ssa.Parameter); ok && n == 1 {
			return pa, ""
		}
	}
	return v, ""
}

func c43SlotOwner(slot string) string {
	if i := strings.LastIndex(slot, "."); i >= 0 {
		return slot[:i]
	}
	return ""
}

// slotPath: the field path under which fn's receiver reaches the slot ("" if it cannot).
func (e *c43Eng) slotPath(fn *ssa.Function, slot string) string {
	if len(fn.Params) == 0 || slot == "" {
		return ""
	}
	rn := c43RecvNamed(fn)
	if rn == e.t.named.Obj() {
		return "." + slot
	}
	if via := c43SlotOwner(slot); via != "" && e.t.nested[via] != nil && e.t.nested[via].Obj() == rn {
		return slot[len(via):]
	}
	return ""
}

// slotLoad: v reads the slot of fn's receiver.
func (e *c43Eng) slotLoad(fn *ssa.Function, v ssa.Value, slot string) bool {
	want := e.slotPath(fn, slot)
	if want == "" {
		return false
	}
	switch x := v.(type) {
	case *ssa.UnOp:
		if x.Op != token.MUL {
			return false
		}
		if _, ok := x.X.(*ssa.FieldAddr); !ok {
			return false
		}
	case *ssa.Field:
	default:
		return false
	}
	root, path := c43Path(v)
	return root == ssa.Value(fn.Params[0]) && path == want
}

// slotStores: the stores in fn that persist into the slot of fn's receiver (a
// store into a value receiver's copy does not count).
func (e *c43Eng) slotStores(fn *ssa.Function, slot string) []*ssa.Store {
	want := e.slotPath(fn, slot)
	if want == "" {
		return nil
	}
	if _, ok := fn.Params[0].Type().Underlying().(*types.Pointer); !ok {
		return nil
	}
	var out []*ssa.Store
	an.Instrs(fn, func(in ssa.Instruction) {
		st, ok := in.(*ssa.Store)
		if !ok {
			return
		}
		if _, ok := st.Addr.(*ssa.FieldAddr); !ok {
			return
		}
		if root, path := c43Path(st.Addr); root == ssa.Value(fn.Params[0]) && path == want {
			out = append(out, st)
		}
	})
	return out
}

// hasInner: fn performs the inner Next() itself or through same-receiver helpers.
func (e *c43Eng) hasInner(fn *ssa.Function) bool {
	switch e.memoHas[fn] {
	case 1:
		return true
	case 2, 3:
		return false
	}
	e.memoHas[fn] = 3
	res := len(c43InnerCalls(fn, e.inner, "Next")) > 0
	if !res {
		for _, cl := range an.AllCalls(fn) {
			if cv := an.CallValue(cl); cv != nil {
				if h, _ := e.helperOf(fn, cv); h != nil && e.hasInner(h) {
					res = true
				}
			}
		}
	}
	if res {
		e.memoHas[fn] = 1
	} else {
		e.memoHas[fn] = 2
	}
	return res
}

// events: the instructions of fn at which the inner Next() happens (direct call or helper call).
func (e *c43Eng) events(fn *ssa.Function) []ssa.Instruction {
	var out []ssa.Instruction
	for _, cl := range c43InnerCalls(fn, e.inner, "Next") {
		out = append(out, cl)
	}
	for _, cl := range an.AllCalls(fn) {
		if cv := an.CallValue(cl); cv != nil {
			if h, _ := e.helperOf(fn, cv); h != nil && e.hasInner(h) {
				out = append(out, cl)
			}
		}
	}
	return out
}

func c43NegOp(op token.Token) token.Token {
	switch op {
	case token.LSS:
		return token.GEQ
	case token.LEQ:
		return token.GTR
	case token.GTR:
		return token.LEQ
	case token.GEQ:
		return token.LSS
	case token.EQL:
		return token.NEQ
	case token.NEQ:
		return token.EQL
	}
	return token.ILLEGAL
}

func c43Strip(v ssa.Value) (ssa.Value, bool) {
	neg := false
	for {
		u, ok := v.(*ssa.UnOp)
		if !ok || u.Op != token.NOT {
			return v, neg
		}
		neg = !neg
		v = u.X
	}
}

// relHolds: does the comparison (a op b), known to hold, establish the fact?
func (e *c43Eng) relHolds(fn *ssa.Function, fact string, a, b ssa.Value, op token.Token) bool {
	isCount := func(v ssa.Value) bool { return e.count != "" && e.slotLoad(fn, v, e.count) }
	isLimit := func(v ssa.Value) bool { return e.limit != "" && e.slotLoad(fn, v, e.limit) }
	if _, ok := an.IntConst(a); ok {
		a, b, op = b, a, an.SwapRel(op)
	}
	if k, ok := an.IntConst(b); ok && isLimit(a) {
		switch fact {
		case c43OKF:
			return (op == token.LEQ && k <= 0) || (op == token.EQL && k <= 0) || (op == token.LSS && k <= 1)
		case c43LPOS:
			return (op == token.GTR && k >= 0) || (op == token.GEQ && k >= 1)
		}
		return false
	}
	if isLimit(a) && isCount(b) {
		a, b, op = b, a, an.SwapRel(op)
	}
	if isCount(a) && isLimit(b) {
		switch fact {
		case c43OKF:
			return op == token.LSS || op == token.NEQ
		case c43CGE:
			return op == token.GEQ || op == token.EQL || op == token.GTR
		}
	}
	return false
}

// atomFact: on which outcome of the boolean atom does the fact hold?
func (e *c43Eng) atomFact(fn *ssa.Function, fact string, atom ssa.Value) (onT, onF bool) {
	if len(fn.Params) == 0 {
		return false, false
	}
	recv := fn.Params[0]
	if h, _ := e.helperOf(fn, atom); h != nil {
		if rs := h.Signature.Results(); rs.Len() == 1 && types.Identical(rs.At(0).Type().Underlying(), types.Typ[types.Bool]) {
			return e.retImplies(h, true, fact), e.retImplies(h, false, fact)
		}
		return false, false
	}
	// direct inner result
	var res []ssa.Value
	for _, cl := range c43InnerCalls(fn, e.inner, "Next") {
		if v := an.CallValue(cl); v != nil {
			res = append(res, v)
		}
	}
	if len(res) > 0 && an.Aliases(res...)[atom] {
		switch fact {
		case c43IT:
			return true, false
		case c43EXH:
			return false, true
		}
		return false, false
	}
	// the done flag
	if e.done != "" && an.LoadOfField(atom, recv, e.done) {
		switch fact {
		case c43EXH:
			return e.doneOK, false
		case c43NOTD:
			return false, true
		case c43IT:
			// false only proves "inner returned true" right after `done = !result` in this function
			if !e.doneOK || len(res) == 0 {
				return false, false
			}
			li, ok := atom.(ssa.Instruction)
			if !ok {
				return false, false
			}
			al := an.Aliases(res...)
			for _, st := range an.StoresToFieldNamed(fn, recv, e.done) {
				if u, ok := st.Val.(*ssa.UnOp); ok && u.Op == token.NOT && al[u.X] && an.Dominates(st, li) {
					return false, true
				}
			}
		}
		return false, false
	}
	if f := e.extra[fact]; f != nil {
		if t, fl := f(fn, atom); t || fl {
			return t, fl
		}
	}
	if b, ok := atom.(*ssa.BinOp); ok && c43NegOp(b.Op) != token.ILLEGAL {
		// bool == const forms are handled by BoolEdges-like reasoning: x == true / x == false
		if k, ok := an.ConstOf(b.Y); ok && k.Kind() == constant.Bool && (b.Op == token.EQL || b.Op == token.NEQ) {
			t, f := e.atomFact(fn, fact, b.X)
			if (k.String() == "true") != (b.Op == token.EQL) {
				t, f = f, t
			}
			return t, f
		}
		return e.relHolds(fn, fact, b.X, b.Y, b.Op), e.relHolds(fn, fact, b.X, b.Y, c43NegOp(b.Op))
	}
	return false, false
}

func (e *c43Eng) edges(fn *ssa.Function, fact string) an.EdgeSet {
	key := an.FuncName(fn) + "|" + fact
	if s, ok := e.memoEdges[key]; ok {
		return s
	}
	s := an.CondEdges(fn, func(atom ssa.Value) (bool, bool) { return e.atomFact(fn, fact, atom) })
	e.memoEdges[key] = s
	return s
}

// valueImplies: whenever v (evaluated where `guard` describes the path) equals want, the fact holds.
func (e *c43Eng) valueImplies(fn *ssa.Function, v ssa.Value, want bool, guard func(an.EdgeSet) bool, fact string, depth int) bool {
	if s := e.edges(fn, fact); len(s) > 0 && guard(s) {
		return true
	}
	if depth > 6 {
		return false
	}
	if k, ok := an.ConstOf(v); ok && k.Kind() == constant.Bool {
		return (k.String() == "true") != want // the other constant can never equal want
	}
	if ph, ok := v.(*ssa.Phi); ok {
		for i, x := range ph.Edges {
			i := i
			if !e.valueImplies(fn, x, want, func(s an.EdgeSet) bool { return guard(s) || an.PhiEdgeGuarded(fn, ph, i, s) }, fact, depth+1) {
				return false
			}
		}
		return true
	}
	a, neg := c43Strip(v)
	onT, onF := e.atomFact(fn, fact, a)
	if want != neg {
		return onT
	}
	return onF
}

func (e *c43Eng) retImplies(h *ssa.Function, want bool, fact string) bool {
	key := fmt.Sprintf("%s|%v|%s", an.FuncName(h), want, fact)
	switch e.memoRet[key] {
	case 1:
		return true
	case 2, 3:
		return false
	}
	e.memoRet[key] = 3 // in progress: recursion answers false
	ok := true
	rets := an.Returns(h)
	if len(rets) == 0 {
		ok = false
	}
	for _, r := range rets {
		r := r
		if len(r.Results) != 1 {
			ok = false
			continue
		}
		if !e.valueImplies(h, r.Results[0], want, func(s an.EdgeSet) bool { return len(s) > 0 && an.GuardedBy(h, nil, r, s) }, fact, 0) {
			ok = false
		}
	}
	if ok {
		e.memoRet[key] = 1
	} else {
		e.memoRet[key] = 2
	}
	return ok
}

// guardedSite: site (in fn) is only reached where the fact holds, decided in fn or,
// when fn is a helper, at every one of its call sites.
func (e *c43Eng) guardedSite(fn *ssa.Function, site ssa.Instruction, fact string, depth int) bool {
	if s := e.edges(fn, fact); len(s) > 0 && an.GuardedBy(fn, nil, site, s) {
		return true
	}
	if depth > 3 {
		return false
	}
	n := 0
	for _, m := range e.all() {
		for _, cl := range an.AllCalls(m) {
			cv := an.CallValue(cl)
			if cv == nil {
				continue
			}
			if h, _ := e.helperOf(m, cv); h == fn {
				n++
				if !e.guardedSite(m, cv, fact, depth+1) {
					return false
				}
			}
		}
	}
	return n > 0
}

// checkYield: O2/O3 rules common to all wrappers.
func (e *c43Eng) checkYield() {
	c, t := e.c, e.t
	fn := t.next
	name := an.FuncName(fn)
	ob := "O3"
	if t.limited() {
		ob = "O2"
	}
	evs := e.events(fn)
	for _, r := range an.Returns(fn) {
		r := r
		if len(r.Results) != 1 {
			continue
		}
		v := r.Results[0]
		guard := func(s an.EdgeSet) bool { return len(s) > 0 && an.GuardedBy(fn, nil, r, s) }
		if !c43IsConstBool(v, false) {
			c.Check(e.valueImplies(fn, v, true, guard, c43IT, 0), ob, "R-DOM", name, "return-true<=inner-true", r.Pos(),
				"Next() returns true only where the inner Next() returned true",
				"Next() can return true without the inner Next() having returned true: a value is yielded that the underlying sequence does not contain (stale/duplicate element)")
		}
		if !c43IsConstBool(v, true) {
			after := false
			for _, ev := range evs {
				after = after || an.Reaches(fn, ev, r, nil, nil)
			}
			okExh := e.valueImplies(fn, v, false, guard, c43EXH, 0)
			switch {
			case after && e.limit == "":
				c.Check(okExh, ob, "R-DOM", name, "return-false<=inner-false", r.Pos(),
					"the iterator reports exhaustion only where the inner one did (now or earlier)",
					"Next() can return false although the inner Next() returned true: the sequence is cut short (e.g. a filter that stops at the first rejected value instead of skipping it)")
			case e.limit == "":
				c.Check(okExh, ob, "R-DOM", name, "early-false<=exhausted", r.Pos(),
					"Next() gives up before consulting the inner iterator only where it is already exhausted",
					"Next() can return false before consulting the inner iterator although it is not known to be exhausted: values are lost")
			default:
				// a limited iterator may also stop where limit>0 and count>=limit, but only before consuming a value:
				// every path to the return crosses an exhaustion edge, or both a limit>0 and a count>=limit edge
				exh := e.edges(fn, c43EXH)
				okHit := c43IsConstBool(v, false) &&
					an.GuardedBy(fn, nil, r, exh.Union(e.edges(fn, c43LPOS))) && len(e.edges(fn, c43LPOS)) > 0 &&
					an.GuardedBy(fn, nil, r, exh.Union(e.edges(fn, c43CGE))) && len(e.edges(fn, c43CGE)) > 0
				// paths that come from an inner-true outcome must not end in `false`
				noLoss := true
				for _, ev := range evs {
					if c43IsConstBool(v, false) && an.Reaches(fn, ev, r, exh, nil) {
						noLoss = false
					}
				}
				construct := "early-false<=(limit>0&&count>=limit)"
				if after {
					construct = "return-false<=inner-false|limit-hit"
				}
				c.Check((okExh || okHit) && (noLoss || okExh), ob, "R-CMP", name, construct, r.Pos(),
					"Next() returns false only where the inner iterator is exhausted, or before consulting it where "+e.limit+">0 and "+e.count+">="+e.limit,
					"Next() can return false although the inner iterator is not exhausted and the limit is not reached ("+e.limit+"<=0 is documented as 'no limit'), or after a value was taken from the inner iterator: fewer values than the limit are yielded")
			}
		}
	}
	if e.done == "" {
		return
	}
	// the inner Next() only where done is false; exhaustion recorded on every path
	for _, m := range e.methods {
		for _, cl := range c43InnerCalls(m, e.inner, "Next") {
			if !e.hasInner(fn) {
				continue
			}
			mname := an.FuncName(m)
			c.Check(e.guardedSite(m, cl, c43NOTD, 0), "O3", "R-DOM", mname, "inner-Next<=!done-flag", cl.Pos(),
				"inner Next() is only called where "+e.done+" is false",
				"inner Next() is called although "+e.done+" is set: the wrapper reads the underlying iterator after it reported exhaustion")
			res := an.CallValue(cl)
			if res == nil {
				continue
			}
			tr := an.BoolEdges(m, []ssa.Value{res}, true)
			fa := an.BoolEdges(m, []ssa.Value{res}, false)
			blocked := map[ssa.Instruction]bool{}
			al := an.Aliases(res)
			for _, st := range an.StoresToFieldNamed(m, m.Params[0], e.done) {
				if u, ok := st.Val.(*ssa.UnOp); ok && u.Op == token.NOT && al[u.X] {
					blocked[st] = true
				} else if c43IsConstBool(st.Val, true) && len(fa) > 0 && !an.Reaches(m, cl, st, fa, nil) {
					blocked[st] = true
				}
			}
			okRec := true
			for _, r := range an.Returns(m) {
				if an.Reaches(m, cl, r, tr, blocked) {
					okRec = false
				}
			}
			c.Check(okRec, "O3", "R-POST", mname, "inner-false=>done-flag", cl.Pos(),
				"exhaustion of the inner iterator is recorded in "+e.done+" on every path",
				"the inner Next() can return false without "+e.done+" being set: a later Next() reads the exhausted underlying iterator again")
		}
	}
}

// checkLimit: O2 rules of the limiting wrapper.
func (e *c43Eng) checkLimit() {
	c, t := e.c, e.t
	fn := t.next
	name := an.FuncName(fn)
	if e.count == "" {
		c.Bad("O2", "R-POST", name, "inner-true=>count++", fn.Pos(), "no integer field of LimitIter is advanced in Next(): yielded values are not counted, the limit is never enforced")
		return
	}
	if !c.Need(e.limit != "", "LimitIter limit field (by role: integer field not stored in Next)") {
		return
	}
	limit, count := e.limit, e.count
	nCalls := 0
	for _, m := range e.methods {
		if !e.hasInner(m) {
			continue
		}
		for _, cl := range c43InnerCalls(m, e.inner, "Next") {
			nCalls++
			c.Check(e.guardedSite(m, cl, c43OKF, 0), "O2", "R-CMP", an.FuncName(m), "inner-Next<=(limit<=0||count<limit)", cl.Pos(),
				"the inner Next() is reached only where "+limit+"<=0 or "+count+"<"+limit,
				"the inner Next() is reachable with "+limit+">0 and "+count+">="+limit+": LimitIter consumes an element of the underlying iterator beyond the limit (over-read) or yields more than limit values")
		}
	}
	c.Min("O2 inner Next() calls of the limiting wrapper", nCalls, 1)
	// count += 1, only where the inner Next returned true
	nSt := 0
	blocked := map[ssa.Instruction]bool{}
	storing := map[*ssa.Function]bool{} // helpers that advance the counter on every path
	for _, m := range e.all() {
		if !e.closure[m] {
			continue
		}
		sts := e.slotStores(m, count)
		for _, st := range sts {
			nSt++
			okStep := false
			if b, ok := st.Val.(*ssa.BinOp); ok && b.Op == token.ADD {
				if k, ok := an.IntConst(b.Y); ok && k == 1 && e.slotLoad(m, b.X, count) {
					okStep = true
				} else if k, ok := an.IntConst(b.X); ok && k == 1 && e.slotLoad(m, b.Y, count) {
					okStep = true
				}
			}
			mname := an.FuncName(m)
			c.Check(okStep, "O2", "R-CONST", mname, "counter+=1", st.Pos(), "the counter advances by exactly one per yielded value",
				"the counter is not advanced by exactly 1: the number of yielded values differs from the limit")
			c.Check(e.guardedSite(m, st, c43IT, 0), "O2", "R-DOM", mname, "counter++<=inner-true", st.Pos(), "the counter advances only where the inner Next() returned true",
				"the counter advances although the inner Next() did not return true: fewer than limit values are yielded")
			if okStep && m == fn {
				blocked[st] = true
			}
		}
		if m != fn && len(sts) > 0 {
			all := true
			for _, r := range an.Returns(m) {
				all = all && an.MustPrecede(m, r, an.AsInstrs(sts))
			}
			storing[m] = all
		}
	}
	c.Min("O2 stores to the LimitIter counter", nSt, 1)
	for _, cl := range an.AllCalls(fn) {
		if cv := an.CallValue(cl); cv != nil {
			if h, _ := e.helperOf(fn, cv); h != nil && storing[h] {
				blocked[cl] = true
			}
		}
	}
	ok := true
	for _, ev := range e.events(fn) {
		for _, r := range an.Returns(fn) {
			if an.Reaches(fn, ev, r, e.edges(fn, c43EXH), blocked) {
				ok = false
			}
		}
	}
	c.Check(ok, "O2", "R-POST", name, "inner-true=>counter++", fn.Pos(), "every value taken from the inner iterator is counted",
		"a path returns after the inner Next() returned true without advancing the counter: more than limit values can be yielded")
	// constructors: the limit is the caller's integer unchanged (or a "no limit" constant <= 0), the counter starts at 0
	{
		last := func(slot string) string { return slot[strings.LastIndex(slot, ".")+1:] }
		var okLim func(v ssa.Value, depth int) bool
		okLim = func(v ssa.Value, depth int) bool {
			switch x := v.(type) {
			case *ssa.Parameter:
				b, ok := x.Type().Underlying().(*types.Basic)
				return ok && b.Info()&types.IsInteger != 0
			case *ssa.Const:
				k, ok := an.IntConst(x)
				return ok && k <= 0
			case *ssa.Phi:
				if depth > 3 {
					return false
				}
				for _, e := range x.Edges {
					if !okLim(e, depth+1) {
						return false
					}
				}
				return true
			case *ssa.ChangeType:
				return okLim(x.X, depth+1)
			case *ssa.Convert:
				return okLim(x.X, depth+1)
			}
			return false
		}
		nLimSt := 0
		for _, f := range p43Ctors(c, t) {
			for _, cst := range an.StoresToFieldNamed(f, nil, last(limit)) {
				if _, base := an.FieldName(cst.Addr); !an.IsFresh(base) {
					continue
				}
				nLimSt++
				c.Check(okLim(cst.Val, 0), "O2", "R-CONST", an.FuncName(f), "ctor:limit=parameter", cst.Pos(), "the constructor stores the caller's limit unchanged",
					"the constructor stores something other than its integer parameter into the limit (e.g. limit+1): the iterator yields a different number of values than requested")
			}
			for _, cst := range an.StoresToFieldNamed(f, nil, last(count)) {
				if _, base := an.FieldName(cst.Addr); !an.IsFresh(base) {
					continue
				}
				k, isK := an.IntConst(cst.Val)
				c.Check(isK && k == 0, "O2", "R-CONST", an.FuncName(f), "ctor:count=0", cst.Pos(), "the counter starts at zero",
					"the constructor starts the counter at a value other than 0: fewer (or more) than limit values are yielded")
			}
		}
		c.Min("O2 constructor stores of the limit", nLimSt, 1)
	}
	// Val forwards the inner Val
	okVal := false
	rets := an.Returns(t.val)
	if len(rets) > 0 {
		okVal = true
		for _, r := range rets {
			good := false
			if len(r.Results) == 1 {
				for _, vc := range c43InnerCalls(t.val, t.inner[0], "Val") {
					if an.CallValue(vc) != nil && an.Aliases(an.CallValue(vc))[r.Results[0]] {
						good = true
					}
				}
			}
			okVal = okVal && good
		}
	}
	c.Check(okVal, "O2", "R-FLOW", an.FuncName(t.val), "Val=inner.Val", t.val.Pos(), "Val() returns the inner iterator's current value",
		"LimitIter.Val() does not return the inner iterator's Val(): the limited sequence is not a prefix of the underlying one")
}

// c43ClosesIfCloser: on every path of fn to a normal return, a value satisfying
// subject (after value-preserving ops) has been closed through a type assertion
// to an interface with Close — or the path crossed that assertion's "not ok"
// edge — directly or in a static callee that receives the value.
func c43ClosesIfCloser(fn *ssa.Function, subject func(ssa.Value) bool, depth int) bool {
	fromSubject := func(v ssa.Value) bool {
		rs := an.Roots(v, nil)
		if len(rs) == 0 {
			return false
		}
		for _, r := range rs {
			if !subject(r) {
				return false
			}
		}
		return true
	}
	blocked := map[ssa.Instruction]bool{}
	notCloser := an.EdgeSet{}
	for _, call := range an.AllCalls(fn) {
		cc := call.Common()
		if cc.IsInvoke() && cc.Method.Name() == "Close" && fromSubject(cc.Value) {
			blocked[call] = true
			continue
		}
		if depth < 2 && !cc.IsInvoke() {
			g := an.Callee(call).Static
			if g != nil && g.Origin() != nil {
				g = g.Origin()
			}
			if g == nil || g == fn || len(g.Blocks) == 0 || g.Pkg != fn.Pkg {
				continue
			}
			for i, a := range cc.Args {
				if i < len(g.Params) && fromSubject(a) {
					prm := g.Params[i]
					if c43ClosesIfCloser(g, func(v ssa.Value) bool { return v == ssa.Value(prm) }, depth+1) {
						blocked[call] = true
					}
				}
			}
		}
	}
	an.Instrs(fn, func(in ssa.Instruction) {
		if ta, ok := in.(*ssa.TypeAssert); ok && ta.CommaOk && fromSubject(ta.X) {
			for _, ref := range *ta.Referrers() {
				if ex, ok := ref.(*ssa.Extract); ok && ex.Index == 1 {
					notCloser = notCloser.Union(an.BoolEdges(fn, []ssa.Value{ex}, false))
				}
			}
		}
	})
	if len(blocked) == 0 {
		return false
	}
	rets := an.Returns(fn)
	if len(rets) == 0 {
		return false
	}
	for _, r := range rets {
		if an.Reaches(fn, nil, r, notCloser, blocked) {
			return false
		}
	}
	return true
}
