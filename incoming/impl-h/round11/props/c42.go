package props

import (
	"fmt"
	"go/constant"
	"go/token"
	"go/types"
	"sort"
	"strings"

	"golang.org/x/tools/go/ssa"

	"verif/checker/an"
)

func init() {
	register("C42", Prop{
		Pkgs: []string{"./routing/http/server", "./routing/http/filters", "./routing/http/client", "./routing/http/types/iter"},
		Explain: "Decided (structural necessary conditions of 'filters and limits applied exactly, invalid IPNS records rejected'): " +
			"O1 in the routing server every delegate lookup (DelegatedRouter.FindProviders/FindPeers) is called with limit 0, its iterator is handed to a response handler in which it first passes filters.ApplyFilters* and only then iter.Limit(_, recordsLimit parameter), and every consumer (iter.ReadAllResults, NDJSON writer) reads the limited iterator; the streaming handler is selected together with streamingRecordsLimit on the media-type==ndjson edge, the JSON handler with recordsLimit; no ApplyFilters* call in the server takes an already limited iterator; " +
			"O2 server.PutIPNS reaches the delegate PutIPNS only on the nil edges of ipns.UnmarshalRecord, ipns.NameFromCid and ipns.ValidateWithName(record, name), and passes exactly the validated (name, record); client.GetIPNS returns a non-nil record only on the nil edge of ValidateWithName(record, requested name); " +
			"O3 filter roles: the []string that meets PeerRecord.Protocols inside filters.applyFilters is the 'protocol' filter, the one that meets PeerRecord.Addrs the 'address' filter; these roles are propagated to the exported ApplyFilters* parameters, and every call site passes, at each role position, a value of that wire role (server: ParseFilter(query.Get(\"filter-addrs\"|\"filter-protocols\")) through the handler parameters; client: the same Client field it sends under that query key via AddFiltersToURL); " +
			"O4 filter skeleton: applyFilters drops the record (returns nil) where protocolsAllowed is false and returns the record only on its true edge or where no protocol filter is given; the address list stored back is applyAddrFilter(record.Addrs, address filter) and an empty result drops the record; applyAddrFilter keeps an address only where no '!'-prefixed (negative) filter matches and a positive one matches or there is none. " +
			"O5 wire table: the query keys the client writes in AddFiltersToURL are exactly {filter-addrs, filter-protocols} and every server dispatcher parses both with filters.ParseFilter(query.Get(key)); the list separator written (strings.Join) equals the one parsed (strings.Split), and ParseFilter lower-cases before splitting (address filters and 'unknown' are matched case-sensitively downstream); " +
			"NOT decided: IPIP-484 matching semantics of individual protocol/multiaddr values (data dependent), JSON/NDJSON wire decoding on the client, signature cryptography.",
		Assume:    []string{"go-libp2p/boxo ipns.ValidateWithName implements IPNS validation (C25)", "iter combinators obey their laws (C43)"},
		Technique: "SSA rules: pipeline order by value provenance (R-SIB/R-FLOW), nil-edge dominance (R-DOM), role propagation across call sites (R-FLOW), guarded-append polarity (R-DOM)",
		Run:       runC42,
	})
}

const (
	c42Srv  = "routing/http/server"
	c42Flt  = "routing/http/filters"
	c42Cli  = "routing/http/client"
	c42Iter = "routing/http/types/iter"
	c42Typ  = "routing/http/types"
	c42Ipns = "ipns"
)

// c42Target resolves a function value (static function, closure, bound-method
// wrapper, or a phi of those) to the source-level functions it may denote.
func c42Targets(c *an.Ctx, v ssa.Value) []*ssa.Function {
	var out []*ssa.Function
	for _, r := range an.Roots(v, nil) {
		var f *ssa.Function
		switch x := r.(type) {
		case *ssa.MakeClosure:
			f, _ = x.Fn.(*ssa.Function)
		case *ssa.Function:
			f = x
		case *ssa.Extract:
			// the function value is a result of a package-local selector function
			if sc, ok := x.Tuple.(*ssa.Call); ok {
				if g := an.Callee(sc).Static; g != nil && len(g.Blocks) > 0 {
					var sub []*ssa.Function
					for _, ret := range an.Returns(g) {
						if x.Index < len(ret.Results) {
							ts := c42Targets(c, ret.Results[x.Index])
							if len(ts) == 0 {
								return nil
							}
							sub = append(sub, ts...)
						}
					}
					if len(sub) == 0 {
						return nil
					}
					out = append(out, sub...)
					continue
				}
			}
		}
		if f == nil {
			return nil
		}
		if f.Synthetic != "" {
			// bound method wrapper: resolve to the method itself
			if o, ok := f.Object().(*types.Func); ok && o != nil {
				if g := c.P.FuncOf(o); g != nil {
					f = g
				}
			}
		}
		if len(f.Blocks) == 0 {
			return nil
		}
		out = append(out, f)
	}
	return out
}

func c42IsIterType(t types.Type) bool {
	if _, ok := t.Underlying().(*types.Interface); !ok {
		return false
	}
	return c43IterIface(t)
}

// c42Flow: the iterator provenance of v — roots reached through value
// preserving ops and through iter.Map (argument 0). viaLimit/viaFilter report
// whether an iter.Limit / filters.Apply* call lies on the way.
type c42Prov struct {
	roots           []ssa.Value
	limits, applies []*ssa.Call
	limitArgs       []ssa.Value // second argument of each Limit call, resolved into the caller's frame
	limitFirst      bool
}

// c42IterProv walks the provenance of an iterator value backwards through
// value-preserving ops, iter.Map (argument 0), iter.Limit, filters.Apply* and
// through module-local helper functions that return an iterator (their
// parameters are substituted by the call's arguments, depth <= 3).
func c42IterProv(v ssa.Value) c42Prov {
	var pr c42Prov
	mMap := an.M(c42Iter, "", "Map")
	mLimit := an.M(c42Iter, "", "Limit")
	mApply := []an.Matcher{an.M(c42Flt, "", "ApplyFiltersToIter"), an.M(c42Flt, "", "ApplyFiltersToPeerRecordIter")}
	type frame struct {
		subst map[*ssa.Parameter]ssa.Value
		up    *frame
	}
	seen := map[ssa.Value]bool{}
	var resolve func(v ssa.Value, fr *frame) ssa.Value
	resolve = func(v ssa.Value, fr *frame) ssa.Value {
		for fr != nil {
			rs := an.Roots(v, nil)
			if len(rs) != 1 {
				return v
			}
			prm, ok := rs[0].(*ssa.Parameter)
			if !ok {
				return rs[0]
			}
			a, ok := fr.subst[prm]
			if !ok {
				return prm
			}
			v, fr = a, fr.up
		}
		return v
	}
	var walk func(v ssa.Value, sawApply bool, fr *frame, depth int)
	walk = func(v ssa.Value, sawApply bool, fr *frame, depth int) {
		if seen[v] {
			return
		}
		seen[v] = true
		for _, r := range an.Roots(v, nil) {
			if prm, ok := r.(*ssa.Parameter); ok && fr != nil {
				if a, ok := fr.subst[prm]; ok {
					walk(a, sawApply, fr.up, depth-1)
					continue
				}
			}
			call, ok := r.(*ssa.Call)
			if !ok {
				pr.roots = append(pr.roots, r)
				continue
			}
			ci := an.Callee(call)
			switch {
			case mMap.Match(ci) && len(call.Call.Args) > 0:
				walk(call.Call.Args[0], sawApply, fr, depth)
			case mLimit.Match(ci) && len(call.Call.Args) > 1:
				pr.limits = append(pr.limits, call)
				pr.limitArgs = append(pr.limitArgs, resolve(call.Call.Args[1], fr))
				if sawApply {
					// walking backwards: an Apply nearer to the consumer than this Limit
					pr.limitFirst = true
				}
				walk(call.Call.Args[0], sawApply, fr, depth)
			case (mApply[0].Match(ci) || mApply[1].Match(ci)) && len(call.Call.Args) > 0:
				pr.applies = append(pr.applies, call)
				walk(call.Call.Args[0], true, fr, depth)
			default:
				g := ci.Static
				if g != nil && depth < 3 && len(g.Blocks) > 0 && strings.HasPrefix(ci.Pkg, an.Mod+"/routing/http/") && ci.Pkg != an.Mod+"/"+c42Iter &&
					call.Call.Signature().Results().Len() == 1 && c42IsIterType(call.Call.Signature().Results().At(0).Type()) && len(g.Params) == len(call.Call.Args) {
					nf := &frame{subst: map[*ssa.Parameter]ssa.Value{}, up: fr}
					for i, q := range g.Params {
						nf.subst[q] = call.Call.Args[i]
					}
					for _, ret := range an.Returns(g) {
						if len(ret.Results) == 1 {
							walk(ret.Results[0], sawApply, nf, depth+1)
						}
					}
					continue
				}
				pr.roots = append(pr.roots, r)
			}
		}
	}
	walk(v, false, nil, 0)
	return pr
}

func runC42(c *an.Ctx) {
	p := c.P
	if !c.Need(p.Pkg(c42Srv) != nil && p.Pkg(c42Flt) != nil && p.Pkg(c42Cli) != nil, "packages routing/http/{server,filters,client}") {
		return
	}
	roles := c42FilterRoles(c)
	handlers := c42ServerPipelines(c, roles)
	c42PutIPNS(c)
	c42ClientGetIPNS(c)
	c42CallSiteRoles(c, roles, handlers)
	c42FilterSkeleton(c, roles)
	c42DropsNil(c)
	c42WireTable(c)
}

// ---------------------------------------------------------------- O1

type c42Dispatch struct {
	fn      *ssa.Function
	call    *ssa.Call // the dynamic (or static) handler call
	targets []*ssa.Function
}

func c42ServerPipelines(c *an.Ctx, roles map[*ssa.Function]map[int]string) []c42Dispatch {
	p := c.P
	var disp []c42Dispatch
	// the two caps, by role: the field the exported option WithRecordsLimit / WithStreamingRecordsLimit
	// stores its parameter into
	capField := func(option string) *types.Var {
		f := p.Func(c42Srv, "", option)
		if f == nil {
			return nil
		}
		var out *types.Var
		for _, g := range an.WithClosures(f) {
			an.Instrs(g, func(in ssa.Instruction) {
				if st, ok := in.(*ssa.Store); ok {
					if fv, _ := an.FieldOf(st.Addr); fv != nil {
						for _, r := range an.Roots(st.Val, nil) {
							if prm, ok := r.(*ssa.Parameter); ok && prm.Parent() == f {
								out = fv
							}
						}
					}
				}
			})
		}
		return out
	}
	fRec, fStream := capField("WithRecordsLimit"), capField("WithStreamingRecordsLimit")
	if !c.Need(fRec != nil && fStream != nil && fRec != fStream, "the fields set by server.WithRecordsLimit / server.WithStreamingRecordsLimit") {
		return nil
	}
	capLabel := map[*types.Var]string{fRec: "batch-cap(WithRecordsLimit)", fStream: "stream-cap(WithStreamingRecordsLimit)"}
	// the streaming media type is a wire constant of the Delegated Routing V1 HTTP API
	ndjson := constant.MakeString("application/x-ndjson")
	mReadAll := an.M(c42Iter, "", "ReadAllResults")
	nDelegate, nHandlers := 0, 0
	for _, fn := range p.PkgFuncs(c42Srv) {
		for _, dc := range an.Calls(fn, an.M("", "", "FindProviders"), an.M("", "", "FindPeers")) {
			ci := an.Callee(dc)
			if !ci.Invoke || an.CallValue(dc) == nil {
				continue
			}
			nDelegate++
			name := an.FuncName(fn)
			args := an.Args(dc)
			k, isK := an.IntConst(args[len(args)-1])
			c.Check(isK && k == 0, "O1", "R-CONST", name, "delegate."+ci.Name+"(limit=0)", dc.Pos(),
				"the delegate is asked for an unbounded iterator (the cap is applied after filtering)",
				"the delegate "+ci.Name+" is not called with limit 0: the delegate may stop before filters run, so records dropped by filters shrink the response below the limit")
			// the handler call: a call one of whose arguments derives from the delegate's iterator
			iterRes := an.Result(dc, 0)
			isDelegIter := func(v ssa.Value) bool {
				for _, r := range c42IterProv(v).roots {
					for _, x := range iterRes {
						if r == x {
							return true
						}
					}
				}
				return false
			}
			var hcalls []*ssa.Call
			for _, cl := range an.AllCalls(fn) {
				cv := an.CallValue(cl)
				if cv == nil || cv == an.CallValue(dc) {
					continue
				}
				for _, a := range cv.Call.Args {
					if c42IsIterType(a.Type()) && isDelegIter(a) {
						hcalls = append(hcalls, cv)
						break
					}
				}
			}
			if !c.Need(len(hcalls) >= 1, "call consuming the iterator returned by the delegate in "+name) {
				continue
			}
			for _, hc := range hcalls {
				if hc.Call.IsInvoke() {
					continue // e.g. Close on an error path
				}
				ts := c42Targets(c, hc.Call.Value)
				if len(ts) == 0 {
					c.Problem("%s: cannot resolve the handler function the delegate iterator is passed to", name)
					continue
				}
				disp = append(disp, c42Dispatch{fn, hc, ts})
				// --- pairing handler <-> limit field <-> media type edge
				limIdx := -1
				for i, a := range hc.Call.Args {
					if b, ok := a.Type().Underlying().(*types.Basic); ok && b.Info()&types.IsInteger != 0 {
						limIdx = i
					}
				}
				// the cap may travel inside a local struct (one integer field) handed to the handler by value
				var carrier *ssa.Alloc
				var capFld *types.Var
				if limIdx < 0 {
					for i, a := range hc.Call.Args {
						if al, f := c42Carrier(a); al != nil && al.Parent() == fn {
							carrier, capFld, limIdx = al, f, i
						}
					}
				}
				if limIdx < 0 {
					c.Problem("%s: no integer cap (argument or field of a local struct argument) is handed to the handler the delegate iterator is passed to", name)
					continue
				}
				// a pair = one alternative of the selection: handler, cap value, and the function/site where
				// the selection is decided (the dispatcher itself, or a package-local selector function
				// returning (handler, cap) whose media-type parameter receives the negotiated type)
				type pair struct {
					h    *ssa.Function
					lim  ssa.Value
					fn   *ssa.Function   // where the alternative is chosen
					site ssa.Instruction // guarded by the media-type edge
					mt   []ssa.Value     // values holding the negotiated media type in fn
				}
				var pairs []pair
				// values holding the negotiated media type: whatever is compared with the ndjson constant
				mediaTypeVals := func(g *ssa.Function) []ssa.Value {
					var out []ssa.Value
					an.Instrs(g, func(in ssa.Instruction) {
						b, ok := in.(*ssa.BinOp)
						if !ok || (b.Op != token.EQL && b.Op != token.NEQ) {
							return
						}
						for _, pr := range [][2]ssa.Value{{b.X, b.Y}, {b.Y, b.X}} {
							if k, ok := an.ConstOf(pr[1]); ok && k.Kind() == constant.String && constant.Compare(k, token.EQL, ndjson) {
								out = append(out, pr[0])
							}
						}
					})
					return out
				}
				mtVals := mediaTypeVals(fn)
				hv, lv := hc.Call.Value, hc.Call.Args[limIdx]
				hphi, hIsPhi := hv.(*ssa.Phi)
				lphi, lIsPhi := lv.(*ssa.Phi)
				hex, hIsEx := hv.(*ssa.Extract)
				lex, lIsEx := lv.(*ssa.Extract)
				var capStores []*ssa.Store
				okCarrier := true
				if carrier != nil {
					capStores, okCarrier = c42LocalFieldStores(carrier, capFld)
					for _, st := range capStores {
						// every store of the cap happens before the handler call
						okCarrier = okCarrier && an.Reaches(fn, st, hc, nil, nil)
					}
				}
				switch {
				case carrier != nil && (!okCarrier || len(capStores) == 0):
					c.Problem("%s: the struct field carrying the cap is written in a way that cannot be paired with the handler selection", name)
				case carrier != nil && hIsPhi:
					used := map[*ssa.Store]bool{}
					for i := range hphi.Edges {
						ts := c42Targets(c, hphi.Edges[i])
						if len(ts) != 1 {
							c.Problem("%s: handler phi edge does not resolve to one function", name)
							continue
						}
						blk := hphi.Block().Preds[i]
						var mine []*ssa.Store
						for _, st := range capStores {
							if (st.Block() == blk || st.Block().Dominates(blk)) && !st.Block().Dominates(hphi.Block()) {
								mine = append(mine, st)
							}
						}
						if len(mine) == 0 {
							// no store of its own on this alternative: the cap stored before the selection applies
							for _, st := range capStores {
								if st.Block().Dominates(hphi.Block()) && st.Block() != hphi.Block() {
									mine = append(mine, st)
								}
							}
						}
						if len(mine) != 1 {
							c.Problem("%s: the cap stored for one handler alternative is ambiguous", name)
							continue
						}
						used[mine[0]] = true
						pairs = append(pairs, pair{ts[0], mine[0].Val, fn, mine[0], mtVals})
					}
					for _, st := range capStores {
						if !used[st] && !(st.Block().Dominates(hphi.Block()) && st.Block() != hphi.Block()) {
							c.Problem("%s: a store of the cap field does not belong to one handler alternative", name)
						}
					}
				case carrier != nil && len(ts) == 1 && len(capStores) == 1:
					pairs = append(pairs, pair{ts[0], capStores[0].Val, fn, hc, mtVals})
				case carrier != nil:
					c.Problem("%s: handler/limit selection shape not recognised (cap carried in a struct)", name)
				case hIsPhi && lIsPhi && hphi.Block() == lphi.Block():
					for i := range hphi.Edges {
						ts := c42Targets(c, hphi.Edges[i])
						if len(ts) != 1 {
							c.Problem("%s: handler phi edge does not resolve to one function", name)
							continue
						}
						if blk := hphi.Block().Preds[i]; len(blk.Instrs) > 0 {
							pairs = append(pairs, pair{ts[0], lphi.Edges[i], fn, blk.Instrs[0], mtVals})
						}
					}
				case hIsEx && lIsEx && hex.Tuple == lex.Tuple:
					sc, _ := hex.Tuple.(*ssa.Call)
					var g *ssa.Function
					if sc != nil {
						g = an.Callee(sc).Static
					}
					if g == nil || len(g.Blocks) == 0 || g.Pkg != fn.Pkg {
						c.Problem("%s: handler/limit come from a call that cannot be analysed", name)
						break
					}
					gmt := mediaTypeVals(g)
					for _, r := range an.Returns(g) {
						if hex.Index >= len(r.Results) || lex.Index >= len(r.Results) {
							continue
						}
						hts := c42Targets(c, r.Results[hex.Index])
						if len(hts) != 1 {
							c.Problem("%s: a return of %s does not resolve to one handler", name, an.FuncName(g))
							continue
						}
						pairs = append(pairs, pair{hts[0], r.Results[lex.Index], g, r, gmt})
					}
				case !hIsPhi && !lIsPhi && len(ts) == 1:
					pairs = append(pairs, pair{ts[0], lv, fn, hc, mtVals})
				default:
					c.Problem("%s: handler/limit selection shape not recognised (handler phi=%v, limit phi=%v)", name, hIsPhi, lIsPhi)
				}
				edgesFor := func(pfn *ssa.Function, mt []ssa.Value, want bool) an.EdgeSet {
					al := an.Aliases(mt...)
					return an.CondEdges(pfn, func(atom ssa.Value) (bool, bool) {
						b, ok := atom.(*ssa.BinOp)
						if !ok || (b.Op != token.EQL && b.Op != token.NEQ) {
							return false, false
						}
						x, y := b.X, b.Y
						if _, ok := x.(*ssa.Const); ok {
							x, y = y, x
						}
						k, ok := an.ConstOf(y)
						if !ok || !al[x] || k.Kind() != constant.String || !constant.Compare(k, token.EQL, ndjson) {
							return false, false
						}
						isNd := b.Op == token.EQL // atom true => media type is ndjson
						return isNd == want, isNd != want
					})
				}
				for _, pr := range pairs {
					stream := len(an.CallsDeep(pr.h, mReadAll)) == 0
					wantF := fRec
					kind := "JSON"
					if stream {
						wantF, kind = fStream, "NDJSON"
					}
					okF := false
					if u, ok := pr.lim.(*ssa.UnOp); ok && u.Op == token.MUL && len(pr.fn.Params) > 0 {
						if f, b := an.FieldOf(u.X); f == wantF && an.SameObj(b, pr.fn.Params[0]) {
							okF = true
						}
					}
					c.Check(okF, "O1", "R-SIB", name, ci.Name+"/"+kind+"-handler<->"+capLabel[wantF], hc.Pos(),
						kind+" handler is paired with server."+wantF.Name(),
						fmt.Sprintf("%s handler %s is not paired with server.%s (got %s): the wrong cap is applied to this response format", kind, an.FuncName(pr.h), wantF.Name(), an.PathOf(pr.lim)))
					if len(pr.mt) > 0 {
						g := edgesFor(pr.fn, pr.mt, stream)
						okE := len(g) > 0 && an.GuardedBy(pr.fn, nil, pr.site, g)
						c.Check(okE, "O1", "R-DOM", name, ci.Name+"/"+kind+"-handler<=mediaType", hc.Pos(),
							kind+" handler selected on the matching media-type edge",
							kind+" handler "+an.FuncName(pr.h)+" is not selected on the edge where the negotiated media type is"+map[bool]string{true: "", false: " not"}[stream]+" application/x-ndjson: streaming and non-streaming caps/encodings are swapped")
					}
				}
			}
		}
	}
	c.Min("O1 delegate FindProviders/FindPeers calls", nDelegate, 1)

	// --- per handler: filter -> limit -> consumer
	seenH := map[*ssa.Function]bool{}
	for _, d := range disp {
		for _, h := range d.targets {
			if seenH[h] {
				continue
			}
			seenH[h] = true
			nHandlers++
			name := an.FuncName(h)
			// the iterator and limit parameters of the handler
			var iterParams, intParams []*ssa.Parameter
			for _, prm := range h.Params {
				if c42IsIterType(prm.Type()) {
					iterParams = append(iterParams, prm)
				} else if b, ok := prm.Type().Underlying().(*types.Basic); ok && b.Info()&types.IsInteger != 0 {
					intParams = append(intParams, prm)
				}
			}
			// ... or one struct parameter with one integer field that carries the cap
			var capParam *ssa.Parameter
			var capField *types.Var
			if len(intParams) == 0 {
				for _, prm := range h.Params {
					if f := c42OneIntField(prm.Type()); f != nil {
						if capParam != nil {
							capParam, capField = nil, nil
							break
						}
						capParam, capField = prm, f
					}
				}
			}
			if !c.Need(len(iterParams) == 1 && (len(intParams) == 1 || capParam != nil), "handler "+name+" has one iterator parameter and one integer (limit) parameter or struct parameter with one integer field") {
				continue
			}
			isCap := func(r ssa.Value) bool {
				if len(intParams) == 1 {
					return r == ssa.Value(intParams[0])
				}
				q, f := c42ParamField(r)
				return q == capParam && f == capField
			}
			// consumers: calls (not Apply/Limit/Map/Close) taking an iterator argument
			nCons := 0
			for _, g := range an.WithClosures(h) {
				for _, cl := range an.AllCalls(g) {
					ci := an.Callee(cl)
					if an.M(c42Iter, "", "Map").Match(ci) || an.M(c42Iter, "", "Limit").Match(ci) || strings.HasPrefix(ci.Name, "ApplyFilters") && an.M(c42Flt, "", "").Match(ci) {
						continue
					}
					if g := ci.Static; g != nil && len(g.Blocks) > 0 && strings.HasPrefix(ci.Pkg, an.Mod+"/routing/http/") {
						if rs := cl.Common().Signature().Results(); rs.Len() == 1 && c42IsIterType(rs.At(0).Type()) {
							continue // a pipeline stage (returns an iterator), looked through by c42IterProv
						}
					}
					var itArgs []ssa.Value
					if cl.Common().IsInvoke() {
						if cl.Common().Method.Name() == "Close" {
							continue
						}
						if c42IsIterType(cl.Common().Value.Type()) {
							itArgs = append(itArgs, cl.Common().Value)
						}
					}
					for _, a := range cl.Common().Args {
						if c42IsIterType(a.Type()) {
							itArgs = append(itArgs, a)
						}
					}
					for _, a := range itArgs {
						nCons++
						pr := c42IterProv(a)
						fromParam := false
						for _, r := range pr.roots {
							if r == ssa.Value(iterParams[0]) {
								fromParam = true
							}
						}
						ok := fromParam && len(pr.applies) >= 1 && len(pr.limits) == 1 && !pr.limitFirst
						okLim := false
						if len(pr.limitArgs) == 1 {
							for _, r := range an.Roots(pr.limitArgs[0], nil) {
								okLim = isCap(r)
							}
						}
						cons := ci.String()
						if ci.Fn == nil || !ci.Fn.Exported() {
							cons = "stream-writer" // package-local consumer: named by role
						}
						c.Check(ok && okLim, "O1", "R-FLOW", name, "param->ApplyFilters->Limit->"+cons, cl.Pos(),
							"consumer reads iter.Limit(filters.Apply*(delegate iterator), recordsLimit)",
							fmt.Sprintf("consumer %s does not read Limit(ApplyFilters(param), recordsLimit): fromParam=%v filters=%d limits=%d limitBeforeFilter=%v limitFromParam=%v — records are not filtered, not capped, or capped before filtering (fewer than limit records although more match)", cons, fromParam, len(pr.applies), len(pr.limits), pr.limitFirst, okLim))
					}
				}
			}
			c.Min("O1 iterator consumers in "+name, nCons, 1)
		}
	}
	c.Min("O1 response handlers receiving a delegate iterator", nHandlers, 1)

	// --- no Apply* over an already limited iterator anywhere in the server
	for _, fn := range p.PkgFuncs(c42Srv) {
		for _, cl := range an.Calls(fn, an.M(c42Flt, "", "ApplyFiltersToIter"), an.M(c42Flt, "", "ApplyFiltersToPeerRecordIter")) {
			pr := c42IterProv(cl.Common().Args[0])
			c.Check(len(pr.limits) == 0, "O1", "R-FLOW", an.FuncName(fn), "ApplyFilters(arg)!<-Limit", cl.Pos(),
				"filters run on the unlimited iterator", "filters.Apply* is given an already limited iterator: the cap counts records that the filter then drops")
		}
	}
	return disp
}

// ---------------------------------------------------------------- O2

func c42PutIPNS(c *an.Ctx) {
	p := c.P
	n := 0
	for _, fn := range p.PkgFuncs(c42Srv) {
		for _, pc := range an.Calls(fn, an.M("", "", "PutIPNS")) {
			if !an.Callee(pc).Invoke {
				continue
			}
			n++
			name := an.FuncName(fn)
			args := an.Args(pc)
			if !c.Need(len(args) == 3, "delegate PutIPNS(ctx, name, record)") {
				continue
			}
			nameV, recV := args[1], args[2]
			// the parse+validate step may live in a package-local helper that returns (record, error)
			if ex, isEx := recV.(*ssa.Extract); isEx {
				if hc, isCall := ex.Tuple.(*ssa.Call); isCall {
					if h := an.Callee(hc).Static; h != nil && len(h.Blocks) > 0 && h.Pkg == fn.Pkg && !an.M(c42Ipns, "", "UnmarshalRecord").Match(an.Callee(hc)) {
						okN := false
						nm, isNm := an.IsCallTo(nameV, an.M(c42Ipns, "", "NameFromCid"))
						if isNm {
							okN = an.OnNilEdgeOf(fn, nm, pc)
						}
						c.Check(isNm && okN, "O2", "R-FLOW", name, "PutIPNS(name)=NameFromCid", pc.Pos(), "the name is derived from the URL CID on its nil edge",
							"the name handed to the delegate is not ipns.NameFromCid(URL cid) on its nil edge: "+an.PathOf(nameV))
						okH := an.OnNilEdgeOf(fn, hc, pc) && c42HelperValidates(h, ex.Index, hc, nameV)
						c.Check(okH, "O2", "R-DOM", name, "PutIPNS<=ValidateWithName(record,name)-ok", pc.Pos(),
							"delegate reached only on the nil edge of a helper that returns the unmarshalled record only after ipns.ValidateWithName(record, name) succeeded for the very name stored",
							"the delegate PutIPNS is reachable without a successful ipns.UnmarshalRecord + ipns.ValidateWithName of the same record against the same name (helper "+an.FuncName(h)+" does not guarantee it on its success returns, or its error is not checked): invalid or foreign records are accepted on PUT")
						continue
					}
				}
			}
			u, okU := an.IsCallTo(recV, an.M(c42Ipns, "", "UnmarshalRecord"))
			nm, okN := an.IsCallTo(nameV, an.M(c42Ipns, "", "NameFromCid"))
			c.Check(okU, "O2", "R-FLOW", name, "PutIPNS(record)=UnmarshalRecord", pc.Pos(), "the stored record is the one parsed from the request body",
				"the record handed to the delegate is not the result of ipns.UnmarshalRecord on the request body: "+an.PathOf(recV))
			c.Check(okN, "O2", "R-FLOW", name, "PutIPNS(name)=NameFromCid", pc.Pos(), "the name is derived from the URL CID",
				"the name handed to the delegate is not ipns.NameFromCid(URL cid): "+an.PathOf(nameV))
			if okU {
				c.Check(an.OnNilEdgeOf(fn, u, pc), "O2", "R-DOM", name, "PutIPNS<=UnmarshalRecord-ok", pc.Pos(), "delegate reached only after a successful parse",
					"the delegate PutIPNS is reachable although ipns.UnmarshalRecord failed: malformed records are stored")
			}
			if okN {
				c.Check(an.OnNilEdgeOf(fn, nm, pc), "O2", "R-DOM", name, "PutIPNS<=NameFromCid-ok", pc.Pos(), "delegate reached only with a valid name",
					"the delegate PutIPNS is reachable although ipns.NameFromCid failed")
				if dec, ok := an.IsCallTo(nm.Call.Args[0], an.M("github.com/ipfs/go-cid", "", "Decode")); ok {
					c.Check(an.OnNilEdgeOf(fn, dec, pc), "O2", "R-DOM", name, "PutIPNS<=cid.Decode-ok", pc.Pos(), "delegate reached only with a decodable CID", "the delegate PutIPNS is reachable although cid.Decode of the URL segment failed")
				}
			}
			// validation of exactly (record, name)
			var good []ssa.CallInstruction
			for _, v := range an.Calls(fn, an.M(c42Ipns, "", "ValidateWithName")) {
				va := an.Args(v)
				if len(va) == 2 && an.Aliases(recV)[va[0]] && an.Aliases(nameV)[va[1]] || len(va) == 2 && va[0] == recV && va[1] == nameV {
					good = append(good, v)
				}
			}
			okV := false
			for _, v := range good {
				if an.OnNilEdgeOf(fn, v, pc) {
					okV = true
				}
			}
			c.Check(okV, "O2", "R-DOM", name, "PutIPNS<=ValidateWithName(record,name)-ok", pc.Pos(),
				"delegate reached only on the nil edge of ipns.ValidateWithName(record, name) for the very record and name stored",
				"the delegate PutIPNS is reachable without a successful ipns.ValidateWithName of the same record against the same name: invalid or foreign records are accepted on PUT")
		}
	}
	c.Min("O2 delegate PutIPNS calls in the server", n, 1)
}

func c42ClientGetIPNS(c *an.Ctx) {
	fn := c.P.Func(c42Cli, "Client", "GetIPNS")
	if !c.Need(fn != nil, "client.Client.GetIPNS") {
		return
	}
	name := an.FuncName(fn)
	us := an.Calls(fn, an.M(c42Ipns, "", "UnmarshalRecord"))
	if !c.Need(len(us) == 1 && an.CallValue(us[0]) != nil, "one ipns.UnmarshalRecord call in client.GetIPNS") {
		return
	}
	u := us[0]
	rec := an.Result(u, 0)
	var nameParam ssa.Value
	for _, prm := range fn.Params {
		if an.TypeIs(prm.Type(), c42Ipns, "Name") {
			nameParam = prm
		}
	}
	if !c.Need(nameParam != nil, "ipns.Name parameter of client.GetIPNS") {
		return
	}
	var vs []ssa.CallInstruction
	for _, v := range an.Calls(fn, an.M(c42Ipns, "", "ValidateWithName")) {
		va := an.Args(v)
		if len(va) != 2 {
			continue
		}
		okR := false
		for _, r := range an.Roots(va[0], nil) {
			for _, x := range rec {
				if r == x {
					okR = true
				}
			}
		}
		okN := true
		for _, r := range an.Roots(va[1], nil) {
			if r != nameParam {
				okN = false
			}
		}
		if okR && okN {
			vs = append(vs, v)
		}
	}
	if !c.Check(len(vs) >= 1, "O2", "R-FLOW", name, "ValidateWithName(record,name)", u.Pos(), "the fetched record is validated against the requested name",
		"client.GetIPNS does not validate the unmarshalled record against the requested name: a forged or foreign record is returned to the caller") {
		return
	}
	v := vs[0]
	// every path from a successful unmarshal to a return passes the validation
	uNonNil := an.NilEdges(fn, an.ErrResult(u), false)
	okPass := true
	for _, r := range an.Returns(fn) {
		if an.Reaches(fn, u, r, uNonNil, map[ssa.Instruction]bool{v.(ssa.Instruction): true}) {
			okPass = false
		}
	}
	c.Check(okPass, "O2", "R-DOM", name, "return<=ValidateWithName", v.Pos(), "no return after a successful parse bypasses the validation",
		"client.GetIPNS can return after a successful UnmarshalRecord without calling ValidateWithName")
	// on the validation's error edge the returned record is nil
	vNil := an.NilEdges(fn, an.ErrResult(v), true)
	okNil := true
	// result cell (named result captured by the deferred closure) or direct result
	for _, r := range an.Returns(fn) {
		if len(r.Results) == 0 {
			continue
		}
		res0 := r.Results[0]
		var cell *ssa.Alloc
		if ld, ok := res0.(*ssa.UnOp); ok && ld.Op == token.MUL {
			cell = an.CellOf(ld.X)
		}
		blocked := map[ssa.Instruction]bool{}
		if cell != nil {
			an.Instrs(fn, func(in ssa.Instruction) {
				if st, ok := in.(*ssa.Store); ok && st.Addr == ssa.Value(cell) && an.IsNilConst(st.Val) {
					blocked[st] = true
				}
			})
		} else if an.IsNilConst(res0) {
			continue
		}
		if an.Reaches(fn, v, r, vNil, blocked) {
			okNil = false
		}
	}
	c.Check(okNil, "O2", "R-DOM", name, "validation-error=>nil-record", v.Pos(), "a record that fails validation is not returned",
		"client.GetIPNS can return the record although ValidateWithName failed: callers that ignore the error use an invalid record")
}

// ---------------------------------------------------------------- O3

// c42FilterRoles computes, for the functions of package filters, which
// parameter carries the protocol filter and which the address filter.
func c42FilterRoles(c *an.Ctx) map[*ssa.Function]map[int]string {
	p := c.P
	roles := map[*ssa.Function]map[int]string{}
	fProt, fAddr := p.Field(c42Typ, "PeerRecord", "Protocols"), p.Field(c42Typ, "PeerRecord", "Addrs")
	if fProt == nil || fAddr == nil {
		// types package is a dependency in the quick tier: resolve through the filters package's imports
		if pk := p.Pkg(c42Flt); pk != nil {
			if imp := pk.Imports[an.Mod+"/"+c42Typ]; imp != nil && imp.Types != nil {
				if tn, ok := imp.Types.Scope().Lookup("PeerRecord").(*types.TypeName); ok {
					if st, ok := tn.Type().Underlying().(*types.Struct); ok {
						for i := 0; i < st.NumFields(); i++ {
							switch st.Field(i).Name() {
							case "Protocols":
								fProt = st.Field(i)
							case "Addrs":
								fAddr = st.Field(i)
							}
						}
					}
				}
			}
		}
	}
	if !c.Need(fProt != nil && fAddr != nil, "types.PeerRecord.Protocols / Addrs") {
		return roles
	}
	fns := p.PkgFuncs(c42Flt)
	paramIdx := func(v ssa.Value) (*ssa.Function, int) {
		idx, fnOf := -1, (*ssa.Function)(nil)
		for _, r := range an.Roots(v, nil) {
			prm, ok := r.(*ssa.Parameter)
			if !ok {
				return nil, -1
			}
			for i, q := range prm.Parent().Params {
				if q == prm {
					if fnOf != nil && (fnOf != prm.Parent() || idx != i) {
						return nil, -1
					}
					fnOf, idx = prm.Parent(), i
				}
			}
		}
		return fnOf, idx
	}
	reported := map[string]bool{}
	set := func(f *ssa.Function, i int, role string, pos token.Pos, why string) {
		if roles[f] == nil {
			roles[f] = map[int]string{}
		}
		if old, ok := roles[f][i]; ok && old != role {
			if reported[fmt.Sprint(an.FuncName(f), i)] {
				return
			}
			reported[fmt.Sprint(an.FuncName(f), i)] = true
			c.Bad("O3", "R-FLOW", an.FuncName(f), "param#"+fmt.Sprint(i)+"-role", pos,
				fmt.Sprintf("parameter %s of %s is used both as %s filter and as %s filter (%s): one of the two filters is applied to the wrong data", f.Params[i].Name(), an.FuncName(f), old, role, why))
			return
		}
		roles[f][i] = role
	}
	isStrSlice := func(t types.Type) bool {
		s, ok := t.Underlying().(*types.Slice)
		if !ok {
			return false
		}
		b, ok := s.Elem().Underlying().(*types.Basic)
		return ok && b.Kind() == types.String
	}
	// seeds: a call that receives record.Protocols / record.Addrs together with a []string rooted at a parameter
	nSeed := 0
	for _, fn := range fns {
		for _, cl := range an.AllCalls(fn) {
			var role string
			for _, a := range cl.Common().Args {
				for _, r := range an.Roots(a, nil) {
					if u, ok := r.(*ssa.UnOp); ok && u.Op == token.MUL {
						if f, _ := an.FieldOf(u.X); f != nil && f.Name() == fProt.Name() && an.TypeIs(an.FieldBaseType(u.X), c42Typ, "PeerRecord") {
							role = "protocol"
						} else if f != nil && f.Name() == fAddr.Name() && an.TypeIs(an.FieldBaseType(u.X), c42Typ, "PeerRecord") {
							role = "address"
						}
					}
				}
			}
			if role == "" {
				continue
			}
			for _, a := range cl.Common().Args {
				if !isStrSlice(a.Type()) {
					continue
				}
				if f, i := paramIdx(a); f != nil {
					nSeed++
					set(f, i, role, cl.Pos(), "meets PeerRecord."+map[string]string{"protocol": "Protocols", "address": "Addrs"}[role]+" in "+an.Callee(cl).String())
					// also the callee's parameter at this position
					if g := an.Callee(cl).Static; g != nil && len(g.Blocks) > 0 {
						for k, ca := range cl.Common().Args {
							if ca == a && k < len(g.Params) {
								set(g, k, role, cl.Pos(), "receives the "+role+" filter")
							}
						}
					}
				}
			}
		}
	}
	c.Min("O3 role seeds (filter slice meeting PeerRecord.Protocols/Addrs)", nSeed, 2)
	// propagate to callers (package filters, and helper functions of server/client that forward their
	// parameters to a filter function) until stable
	prop := append([]*ssa.Function{}, fns...)
	prop = append(prop, p.PkgFuncs(c42Srv)...)
	prop = append(prop, p.PkgFuncs(c42Cli)...)
	for changed := true; changed; {
		changed = false
		for _, fn := range prop {
			for _, cl := range an.AllCalls(fn) {
				g := an.Callee(cl).Static
				if g == nil || roles[g] == nil {
					continue
				}
				for k, a := range cl.Common().Args {
					role, ok := roles[g][k]
					if !ok {
						continue
					}
					if f, i := paramIdx(a); f != nil {
						if _, had := roles[f][i]; !had {
							changed = true
						}
						set(f, i, role, cl.Pos(), "passed to "+an.FuncName(g))
					}
				}
			}
		}
	}
	// wire-key seeds in AddFiltersToURL style functions: query.Set(key, strings.Join(param, ","))
	for _, fn := range fns {
		for _, cl := range an.Calls(fn, an.M("net/url", "Values", "Set")) {
			args := an.Args(cl)
			if len(args) != 2 {
				continue
			}
			k, ok := an.ConstOf(args[0])
			if !ok || k.Kind() != constant.String {
				continue
			}
			role := c42WireRole(constant.StringVal(k))
			if role == "" {
				continue
			}
			if j, ok := an.IsCallTo(args[1], an.M("strings", "", "Join")); ok {
				if f, i := paramIdx(j.Call.Args[0]); f != nil {
					set(f, i, role, cl.Pos(), "sent as query key "+constant.StringVal(k))
				}
			}
		}
	}
	return roles
}

func c42WireRole(key string) string {
	switch key {
	case "filter-addrs":
		return "address"
	case "filter-protocols":
		return "protocol"
	}
	return ""
}

func c42CallSiteRoles(c *an.Ctx, roles map[*ssa.Function]map[int]string, disp []c42Dispatch) {
	p := c.P
	type need struct {
		h    *ssa.Function
		idx  int
		role string
		pos  token.Pos
		fld  *types.Var // non-nil: the role is carried by this field of the struct-valued parameter idx
	}
	var needs []need
	fieldRole := map[*types.Var]string{}
	fieldPos := map[*types.Var]token.Pos{}
	// classify the wire role of a value at a call site outside package filters
	classify := func(v ssa.Value) (role string, param *ssa.Parameter, field *types.Var) {
		for _, r := range an.Roots(v, nil) {
			// a field of a struct-valued parameter: the role is decided where the struct is built
			if q, f := c42ParamField(r); q != nil {
				return "", q, f
			}
			switch x := r.(type) {
			case *ssa.Call:
				if pf, ok := an.IsCallTo(x, an.M(c42Flt, "", "ParseFilter")); ok {
					if g, ok := an.IsCallTo(pf.Call.Args[0], an.M("net/url", "Values", "Get")); ok {
						if k, ok := an.ConstOf(an.Args(g)[0]); ok && k.Kind() == constant.String {
							return c42WireRole(constant.StringVal(k)), nil, nil
						}
					}
				}
			case *ssa.Parameter:
				return "", x, nil
			case *ssa.UnOp:
				if x.Op == token.MUL {
					if f, b := an.FieldOf(x.X); f != nil {
						if _, local := b.(*ssa.Alloc); local {
							return "", nil, nil // a local struct, not a field of the client
						}
						return "", nil, f
					}
				}
			}
		}
		return "", nil, nil
	}
	nSites := 0
	for _, rel := range []string{c42Srv, c42Cli} {
		for _, fn := range p.PkgFuncs(rel) {
			for _, cl := range an.AllCalls(fn) {
				g := an.Callee(cl).Static
				if g == nil || roles[g] == nil {
					continue
				}
				var idxs []int
				for k := range roles[g] {
					idxs = append(idxs, k)
				}
				sort.Ints(idxs)
				for _, k := range idxs {
					want := roles[g][k]
					if k >= len(cl.Common().Args) {
						continue
					}
					nSites++
					calleeLabel := "helper"
					if ci := an.Callee(cl); ci.Fn != nil && ci.Fn.Exported() {
						calleeLabel = ci.String()
					}
					construct := calleeLabel + "#" + want + "-filter"
					role, prm, fld := classify(cl.Common().Args[k])
					switch {
					case role != "":
						c.Check(role == want, "O3", "R-FLOW", an.FuncName(fn), construct, cl.Pos(), want+" filter position receives the "+role+" query parameter",
							fmt.Sprintf("the %s filter position of %s receives the %s query parameter: address and protocol filters are swapped", want, an.Callee(cl).String(), role))
					case prm != nil:
						for i, q := range prm.Parent().Params {
							if q == prm {
								needs = append(needs, need{prm.Parent(), i, want, cl.Pos(), fld})
							}
						}
						// the parent may be a closure's outer function: handled through Roots already
						c.OK("O3", "R-FLOW", an.FuncName(fn), construct, cl.Pos(), want+" filter position receives handler parameter "+prm.Name()+" (checked at the dispatch site)")
					case fld != nil:
						if old, ok := fieldRole[fld]; ok && old != want {
							c.Bad("O3", "R-FLOW", an.FuncName(fn), construct, cl.Pos(),
								fmt.Sprintf("Client.%s is passed as %s filter here but as %s filter at %s: the filter sent in the URL under one key is applied locally as the other kind", fld.Name(), want, old, p.Pos(fieldPos[fld])))
						} else {
							fieldRole[fld], fieldPos[fld] = want, cl.Pos()
							c.OK("O3", "R-FLOW", an.FuncName(fn), construct, cl.Pos(), want+" filter position receives field "+fld.Name()+" consistently")
						}
					default:
						c.Note("C42 O3: %s: argument %s of %s has no recognised wire role", an.FuncName(fn), g.Params[k].Name(), an.Callee(cl).String())
					}
				}
			}
		}
	}
	c.Min("O3 role positions at call sites in server and client", nSites, 2)
	// two different fields must not share one role within the client (addr vs protocol field mixed up everywhere)
	byRole := map[string][]string{}
	for f, r := range fieldRole {
		byRole[r] = append(byRole[r], f.Name())
	}
	for r, fs := range byRole {
		sort.Strings(fs)
		if len(fs) > 1 {
			c.Bad("O3", "R-FLOW", c42Cli, "client-field-roles", token.NoPos, fmt.Sprintf("fields %v are all used as the %s filter", fs, r))
		}
	}
	// handler parameters: checked where the handler is invoked
	for _, nd := range needs {
		for _, d := range disp {
			for _, h := range d.targets {
				if h != nd.h {
					continue
				}
				// bound method: the receiver is bound, call args start at parameter 1
				off := len(h.Params) - len(d.call.Call.Args)
				ai := nd.idx - off
				if ai < 0 || ai >= len(d.call.Call.Args) {
					c.Problem("%s: cannot align parameter %d of %s with the dispatch call", an.FuncName(d.fn), nd.idx, an.FuncName(h))
					continue
				}
				role, _, _ := classify(d.call.Call.Args[ai])
				if nd.fld != nil {
					// the argument is a local struct: classify what was stored into that field
					role = ""
					if u, ok := d.call.Call.Args[ai].(*ssa.UnOp); ok && u.Op == token.MUL {
						if a, ok := u.X.(*ssa.Alloc); ok {
							sts, okSt := c42LocalFieldStores(a, nd.fld)
							for i, st := range sts {
								r, _, _ := classify(st.Val)
								if !okSt || (i > 0 && r != role) {
									r = "?"
								}
								role = r
							}
						}
					}
				}
				hkind := "NDJSON"
				if len(an.CallsDeep(h, an.M(c42Iter, "", "ReadAllResults"))) > 0 {
					hkind = "JSON"
				}
				construct := hkind + "-handler#" + nd.role + "-filter"
				c.Check(role == nd.role, "O3", "R-FLOW", an.FuncName(d.fn), construct, d.call.Pos(),
					"handler parameter used as "+nd.role+" filter receives the "+role+" query parameter",
					fmt.Sprintf("handler parameter %s (used as %s filter) receives the %q query parameter at the dispatch site: address and protocol filters are swapped", h.Params[nd.idx].Name(), nd.role, role))
			}
		}
	}
}

// ---------------------------------------------------------------- O4

func c42FilterSkeleton(c *an.Ctx, roles map[*ssa.Function]map[int]string) {
	// applyFilters by role: the function of package filters with both a protocol and an address role that returns *PeerRecord
	var af *ssa.Function
	for f, r := range roles {
		if f.Pkg == nil || f.Pkg.Pkg.Path() != an.Mod+"/"+c42Flt || f.Parent() != nil {
			continue
		}
		hasP, hasA := false, false
		for _, x := range r {
			hasP = hasP || x == "protocol"
			hasA = hasA || x == "address"
		}
		res := f.Signature.Results()
		if hasP && hasA && res.Len() == 1 && an.TypeIs(res.At(0).Type(), c42Typ, "PeerRecord") && len(f.Params) > 0 && an.TypeIs(f.Params[0].Type(), c42Typ, "PeerRecord") {
			af = f
		}
	}
	if !c.Need(af != nil, "filters.applyFilters (by role: *PeerRecord -> *PeerRecord with both filter roles)") {
		return
	}
	name := an.FuncName(af)
	var protoParam, addrParam ssa.Value
	for i, r := range roles[af] {
		if r == "protocol" {
			protoParam = af.Params[i]
		} else if r == "address" {
			addrParam = af.Params[i]
		}
	}
	rec := af.Params[0]
	// the protocol test: a bool call taking (record.Protocols, protoParam)
	var ptest *ssa.Call
	var afilt *ssa.Call
	for _, cl := range an.AllCalls(af) {
		cv := an.CallValue(cl)
		if cv == nil {
			continue
		}
		usesProto, usesAddr := false, false
		for _, a := range cv.Call.Args {
			for _, r := range an.Roots(a, nil) {
				if r == protoParam {
					usesProto = true
				}
				if r == addrParam {
					usesAddr = true
				}
			}
		}
		res := cv.Call.Signature().Results()
		if usesProto && res.Len() == 1 && types.Identical(res.At(0).Type().Underlying(), types.Typ[types.Bool]) && an.Callee(cv).Static != nil {
			ptest = cv
		}
		if usesAddr && res.Len() == 1 && an.Callee(cv).Static != nil {
			if _, ok := res.At(0).Type().Underlying().(*types.Slice); ok && !types.Identical(res.At(0).Type().Underlying(), types.Typ[types.Bool]) {
				if an.Callee(cv).Pkg == an.Mod+"/"+c42Flt {
					afilt = cv
				}
			}
		}
	}
	// the address step may be delegated to a package-local helper (record, address filter) -> record
	var addrFn *ssa.Function = af
	var addrRec, addrPrm ssa.Value = rec, addrParam
	var hcall *ssa.Call
	if afilt == nil {
		for _, cl := range an.AllCalls(af) {
			cv := an.CallValue(cl)
			h := an.Callee(cl).Static
			if cv == nil || h == nil || roles[h] == nil || h.Pkg != af.Pkg || len(h.Blocks) == 0 {
				continue
			}
			var hRec, hAddr ssa.Value
			for i, q := range h.Params {
				if roles[h][i] == "address" {
					hAddr = q
				}
				if an.TypeIs(q.Type(), c42Typ, "PeerRecord") && i < len(cv.Call.Args) {
					okArg := true
					for _, r := range an.Roots(cv.Call.Args[i], nil) {
						okArg = okArg && r == ssa.Value(rec)
					}
					if okArg {
						hRec = q
					}
				}
			}
			if hRec == nil || hAddr == nil {
				continue
			}
			for _, c2 := range an.AllCalls(h) {
				cv2 := an.CallValue(c2)
				if cv2 == nil || an.Callee(cv2).Static == nil || an.Callee(cv2).Pkg != an.Mod+"/"+c42Flt {
					continue
				}
				uses := false
				for _, a := range cv2.Call.Args {
					for _, r := range an.Roots(a, nil) {
						uses = uses || r == hAddr
					}
				}
				res := cv2.Call.Signature().Results()
				if uses && res.Len() == 1 {
					if _, ok := res.At(0).Type().Underlying().(*types.Slice); ok {
						afilt, addrFn, addrRec, addrPrm, hcall = cv2, h, hRec, hAddr, cv
					}
				}
			}
		}
	}
	if !c.Need(ptest != nil && afilt != nil, "protocol test and address filter calls in "+name+" (or in a package-local helper it delegates the address step to)") {
		return
	}
	c42ProtocolPredicate(c, af, ptest, protoParam)
	pTrue := an.BoolEdges(af, []ssa.Value{ptest}, true)
	// edges where the protocol filter is empty: len(protoParam) == 0
	noProto := an.GRelEdges(af, func(r an.GRel) bool {
		a, b, op := r.A, r.B, r.Op
		if _, ok := an.IntConst(a); ok {
			a, b, op = b, a, an.SwapRel(op)
		}
		k, ok := an.IntConst(b)
		if !ok {
			return false
		}
		call, ok := a.(*ssa.Call)
		if !ok {
			return false
		}
		if bi, ok := call.Call.Value.(*ssa.Builtin); !ok || bi.Name() != "len" {
			return false
		}
		isP := false
		for _, r := range an.Roots(call.Call.Args[0], nil) {
			isP = r == protoParam
		}
		return isP && ((op == token.EQL && k == 0) || (op == token.LEQ && k == 0) || (op == token.LSS && k == 1))
	})
	nRet := 0
	for _, r := range an.Returns(af) {
		if len(r.Results) != 1 {
			continue
		}
		if an.IsNilConst(r.Results[0]) {
			continue
		}
		nRet++
		ok := an.GuardedBy(af, nil, r, pTrue.Union(noProto))
		c.Check(ok, "O4", "R-DOM", name, "return-record<=protocolsAllowed", r.Pos(), "a record is kept only where the protocol filter allows it (or none is given)",
			"applyFilters can return the record on a path where the protocol test did not succeed and a protocol filter is present: providers of filtered-out protocols are returned")
		// the kept record is the input record
		okRec := true
		for _, root := range an.Roots(r.Results[0], nil) {
			if hcall != nil && root == ssa.Value(hcall) {
				// the helper returns its record parameter (or nil)
				for _, hr := range an.Returns(addrFn) {
					if an.IsNilConst(hr.Results[0]) {
						continue
					}
					for _, r2 := range an.Roots(hr.Results[0], nil) {
						okRec = okRec && r2 == addrRec
					}
				}
				continue
			}
			okRec = okRec && root == ssa.Value(rec)
		}
		c.Check(okRec, "O4", "R-FLOW", name, "return-record=input", r.Pos(), "the kept record is the input record", "applyFilters returns a record other than its input")
	}
	c.Min("O4 non-nil returns of applyFilters", nRet, 1)
	// ---- the address step, in the function that performs it
	{
		outerAf, outerRec, outerAddr, outerName := af, rec, addrParam, name
		type part struct {
			fn        *ssa.Function
			rec, addr ssa.Value
			event     ssa.Instruction // the address filtering (call of applyAddrFilter, or of the helper)
			full      bool
		}
		parts := []part{{addrFn, addrRec, addrPrm, afilt, true}}
		if hcall != nil {
			parts = append(parts, part{outerAf, outerRec, outerAddr, hcall, false})
		}
		for _, pt := range parts {
			af, rec, addrParam, name := pt.fn, pt.rec, pt.addr, an.FuncName(pt.fn)
			afilt := afilt
			evt := pt.event
			if pt.full {
				// address filter applied to record.Addrs with the address role parameter, result stored back
				okArgs := false
				if len(afilt.Call.Args) == 2 {
					a0 := false
					for _, r := range an.Roots(afilt.Call.Args[0], nil) {
						if u, ok := r.(*ssa.UnOp); ok && u.Op == token.MUL {
							if f, b := an.FieldOf(u.X); f != nil && f.Name() == "Addrs" && an.SameObj(b, rec) {
								a0 = true
							}
						}
					}
					okArgs = a0
				}
				c.Check(okArgs, "O4", "R-FLOW", name, "applyAddrFilter(record.Addrs,addrFilter)", afilt.Pos(), "the address filter runs over the record's own address list",
					"the address filter is not applied to record.Addrs with the address filter: kept records carry unfiltered or foreign addresses")
				var stores []*ssa.Store
				an.Instrs(af, func(in ssa.Instruction) {
					if st, ok := in.(*ssa.Store); ok {
						if f, b := an.FieldOf(st.Addr); f != nil && f.Name() == "Addrs" && an.SameObj(b, rec) {
							stores = append(stores, st)
						}
					}
				})
				for _, st := range stores {
					c.Check(an.Aliases(afilt)[st.Val], "O4", "R-FLOW", name, "record.Addrs=applyAddrFilter(..)", st.Pos(), "the stored address list is the filtered one",
						"record.Addrs is overwritten with something other than the filtered address list")
				}
				// after the address filter ran, the record is returned only with the filtered list stored and only where len(filtered) != 0
				nonEmpty := an.GRelEdges(af, func(r an.GRel) bool {
					a, b, op := r.A, r.B, r.Op
					if _, ok := an.IntConst(a); ok {
						a, b, op = b, a, an.SwapRel(op)
					}
					k, ok := an.IntConst(b)
					if !ok {
						return false
					}
					call, ok := a.(*ssa.Call)
					if !ok {
						return false
					}
					if bi, ok := call.Call.Value.(*ssa.Builtin); !ok || bi.Name() != "len" || !an.Aliases(afilt)[call.Call.Args[0]] {
						return false
					}
					return (op == token.NEQ && k == 0) || (op == token.GTR && k == 0) || (op == token.GEQ && k == 1)
				})
				blocked := map[ssa.Instruction]bool{}
				for _, st := range stores {
					if an.Aliases(afilt)[st.Val] {
						blocked[st] = true
					}
				}
				for _, r := range an.Returns(af) {
					if len(r.Results) != 1 || an.IsNilConst(r.Results[0]) || !an.Reaches(af, afilt, r, nil, nil) {
						continue
					}
					c.Check(!an.Reaches(af, afilt, r, nil, blocked), "O4", "R-POST", name, "filtered=>record.Addrs-store", r.Pos(), "after filtering, the record is returned with the filtered list stored",
						"applyFilters returns the record after address filtering without storing the filtered list: addresses are not filtered the same way as records")
					c.Check(len(nonEmpty) > 0 && !an.Reaches(af, afilt, r, nonEmpty, nil), "O4", "R-DOM", name, "filtered-empty=>drop", r.Pos(), "a record whose addresses are all filtered out is dropped",
						"applyFilters keeps a record although address filtering left no address")
				}

			}
			_ = afilt
			// a record is returned with its address list untouched only where there is no address filter
			// or the record has no addresses (the 'unknown' case)
			lenZero := func(isSubject func(ssa.Value) bool) an.EdgeSet {
				return an.GRelEdges(af, func(r an.GRel) bool {
					a, b, op := r.A, r.B, r.Op
					if _, ok := an.IntConst(a); ok {
						a, b, op = b, a, an.SwapRel(op)
					}
					k, ok := an.IntConst(b)
					call, ok2 := a.(*ssa.Call)
					if !ok || !ok2 {
						return false
					}
					if bi, ok := call.Call.Value.(*ssa.Builtin); !ok || bi.Name() != "len" || !isSubject(call.Call.Args[0]) {
						return false
					}
					return (op == token.EQL && k == 0) || (op == token.LEQ && k == 0) || (op == token.LSS && k == 1)
				})
			}
			noAddrFilter := lenZero(func(v ssa.Value) bool {
				for _, r := range an.Roots(v, nil) {
					if r != addrParam {
						return false
					}
				}
				return true
			})
			noAddrs := lenZero(func(v ssa.Value) bool {
				u, ok := v.(*ssa.UnOp)
				if !ok || u.Op != token.MUL {
					return false
				}
				f, b := an.FieldOf(u.X)
				return f != nil && f.Name() == "Addrs" && an.SameObj(b, rec)
			})
			for _, r := range an.Returns(af) {
				if len(r.Results) != 1 || an.IsNilConst(r.Results[0]) || an.Reaches(af, evt, r, nil, nil) || r.Results[0] == ssa.Value(c42EvtValue(evt)) {
					continue
				}
				if !an.GuardedBy(af, nil, r, noAddrFilter) {
					// the no-addresses shortcut applies only when the filter lists the wire token "unknown" (IPIP-484)
					unknownE := an.CondEdges(af, func(atom ssa.Value) (bool, bool) {
						if call, ok := atom.(*ssa.Call); ok && an.M("slices", "", "Contains").Match(an.Callee(call)) && len(call.Call.Args) == 2 {
							k, isK := an.ConstOf(call.Call.Args[1])
							fromFilter := true
							for _, x := range an.Roots(call.Call.Args[0], nil) {
								fromFilter = fromFilter && x == addrParam
							}
							return isK && fromFilter && k.Kind() == constant.String && constant.StringVal(k) == "unknown", false
						}
						return false, false
					})
					unknownE = unknownE.Union(c42ConstEqEdges(af, "unknown"))
					c.Check(an.GuardedBy(af, nil, r, noAddrFilter.Union(unknownE)), "O4", "R-CONST", name, "no-addrs-shortcut<=filter-has-\"unknown\"", r.Pos(),
						"a record without addresses bypasses the address filter only where the filter contains the token \"unknown\"",
						"a record without addresses is kept unfiltered on a path where the address filter was not found to contain the IPIP-484 token \"unknown\": providers with unknown addresses are returned although the client excluded them (or the token is misspelled)")
				}
				c.Check(an.GuardedBy(af, nil, r, noAddrFilter.Union(noAddrs)), "O4", "R-DOM", name, "unfiltered-return<=no-addr-filter|no-addrs", r.Pos(),
					"a record keeps its unfiltered address list only where no address filter is given or it has no addresses",
					"applyFilters can return the record without running the address filter although an address filter is present and the record has addresses (e.g. the 'unknown' shortcut taken for records that do have addresses): kept records carry addresses the filter excludes")
			}

		}
		_, _, _, _ = outerAf, outerRec, outerAddr, outerName
	}

	// --- applyAddrFilter polarity
	g := an.Callee(afilt).Static
	if g == nil || len(g.Blocks) == 0 {
		return
	}
	// the polarity logic may be spread over package-local functions g calls: one builds the
	// negative/positive lists (the function testing the "!" prefix), one matches addresses
	// against them; the lists are followed through results and parameters
	gset := []*ssa.Function{g}
	inG := map[*ssa.Function]bool{g: true}
	for i := 0; i < len(gset) && i < 12; i++ {
		for _, cl := range an.AllCalls(gset[i]) {
			h := an.Callee(cl).Static
			if h != nil && h.Pkg == g.Pkg && len(h.Blocks) > 0 && h.Parent() == nil && !inG[h] {
				inG[h] = true
				gset = append(gset, h)
			}
		}
	}
	// the negation marker test: strings.HasPrefix(f, "!") or the `found` result of strings.CutPrefix(f, "!")
	var bfn *ssa.Function
	var hpVals []ssa.Value
	for _, f := range gset {
		var vals []ssa.Value
		for _, h := range an.Calls(f, an.M("strings", "", "HasPrefix"), an.M("strings", "", "CutPrefix")) {
			if k, ok := an.ConstOf(an.Args(h)[1]); ok && k.Kind() == constant.String && constant.StringVal(k) == "!" {
				if an.Callee(h).Name == "CutPrefix" {
					vals = append(vals, an.Result(h, 1)...)
				} else if v := an.CallValue(h); v != nil {
					vals = append(vals, v)
				}
			}
		}
		if len(vals) > 0 && bfn == nil {
			bfn, hpVals = f, vals
		}
	}
	if !c.Need(bfn != nil, "test of the \"!\" negation prefix (strings.HasPrefix / strings.CutPrefix) in the address filter function or a package-local function it calls") {
		return
	}
	bname := an.FuncName(bfn)
	negE, posE := an.BoolEdges(bfn, hpVals, true), an.BoolEdges(bfn, hpVals, false)
	// appends: t = append(load cell, ...); store cell <- t   (cells because the slices are loop-carried)  or phi-carried values
	sliceKey := func(v ssa.Value) string {
		// the slice variable an append extends: a stable key = the declaration comment of the variable
		if u, ok := v.(*ssa.UnOp); ok && u.Op == token.MUL {
			if a := an.CellOf(u.X); a != nil {
				return "cell:" + a.Comment
			}
		}
		if ph, ok := v.(*ssa.Phi); ok {
			return "phi:" + ph.Comment
		}
		return ""
	}
	isAppend := func(cv *ssa.Call) bool {
		bi, ok := cv.Call.Value.(*ssa.Builtin)
		return ok && bi.Name() == "append"
	}
	negKey, posKey := "", ""
	builder := map[*ssa.Call]bool{}
	for _, cl := range an.AllCalls(bfn) {
		cv := an.CallValue(cl)
		if cv == nil || !isAppend(cv) {
			continue
		}
		key := sliceKey(cv.Call.Args[0])
		if key == "" {
			continue
		}
		isNeg := an.GuardedBy(bfn, nil, cv, negE) && len(negE) > 0
		isPos := an.GuardedBy(bfn, nil, cv, posE) && len(posE) > 0
		switch {
		case isNeg && !isPos:
			negKey = key
			builder[cv] = true
		case isPos && !isNeg:
			posKey = key
			builder[cv] = true
		}
	}
	if !c.Need(negKey != "" && posKey != "" && negKey != posKey, "negative/positive filter lists built under the \"!\" test in "+bname) {
		return
	}
	// a negative entry is built from the token without its "!" marker, a positive one from the whole token
	{
		var tokens []ssa.Value // the string tested for the "!" prefix
		for _, h := range an.Calls(bfn, an.M("strings", "", "HasPrefix"), an.M("strings", "", "CutPrefix")) {
			if k, ok := an.ConstOf(an.Args(h)[1]); ok && k.Kind() == constant.String && constant.StringVal(k) == "!" {
				tokens = append(tokens, an.Args(h)[0])
			}
		}
		tok := an.Aliases(tokens...)
		// string leaves an appended element is computed from
		var leaves func(v ssa.Value, depth int) []ssa.Value
		leaves = func(v ssa.Value, depth int) []ssa.Value {
			var out []ssa.Value
			if depth > 4 {
				return nil
			}
			if b, ok := v.Type().Underlying().(*types.Basic); ok && b.Kind() == types.String {
				return []ssa.Value{v}
			}
			for _, r := range an.Roots(v, nil) {
				if call, ok := r.(*ssa.Call); ok {
					for _, a := range call.Call.Args {
						if b, ok := a.Type().Underlying().(*types.Basic); ok && b.Kind() == types.String {
							out = append(out, a)
						}
					}
				} else if r != v {
					out = append(out, leaves(r, depth+1)...)
				}
			}
			return out
		}
		for cv := range builder {
			isNeg := sliceKey(cv.Call.Args[0]) == negKey
			var elems []ssa.Value
			if len(cv.Call.Args) == 2 {
				if sl, ok := cv.Call.Args[1].(*ssa.Slice); ok {
					if arr, ok := sl.X.(*ssa.Alloc); ok {
						for _, ref := range *arr.Referrers() {
							if ia, ok := ref.(*ssa.IndexAddr); ok {
								for _, r2 := range *ia.Referrers() {
									if st, ok := r2.(*ssa.Store); ok {
										elems = append(elems, st.Val)
									}
								}
							}
						}
					}
				}
			}
			for _, e := range elems {
				for _, lf := range leaves(e, 0) {
					whole := tok[lf]
					if isNeg {
						c.Check(!whole, "O4", "R-FLOW", bname, "negative-entry<-token-without-marker", cv.Pos(), "a negative filter entry is built from the token with the \"!\" marker removed",
							"a negative address filter entry is built from the whole token including its \"!\" marker: it names no protocol, so '!proto' exclusions never match")
					} else if sl, ok := lf.(*ssa.Slice); ok && tok[sl.X] {
						c.Bad("O4", "R-FLOW", bname, "positive-entry<-whole-token", cv.Pos(), "a positive address filter entry is built from a sub-string of the token: it names another (or no) protocol")
					}
				}
			}
		}
	}
	// tagged: v (in f) is the negative / positive list
	type tq struct {
		f   *ssa.Function
		v   ssa.Value
		key string
	}
	memo := map[tq]int{}
	var tagged func(f *ssa.Function, v ssa.Value, key string) bool
	tagged = func(f *ssa.Function, v ssa.Value, key string) bool {
		q := tq{f, v, key}
		switch memo[q] {
		case 1:
			return true
		case 2, 3:
			return false
		}
		memo[q] = 3
		res := false
		if f == bfn && sliceKey(v) == key {
			res = true
		}
		if !res {
			roots := an.Roots(v, nil)
			all := len(roots) > 0
			for _, r := range roots {
				okR := false
				switch x := r.(type) {
				case *ssa.Parameter:
					// every call site in the set passes the list
					idx := -1
					for i, p := range f.Params {
						if p == x {
							idx = i
						}
					}
					n := 0
					okR = idx >= 0
					for _, m := range gset {
						for _, cl := range an.AllCalls(m) {
							if an.Callee(cl).Static != f || an.CallValue(cl) == nil {
								continue
							}
							n++
							if idx < 0 || idx >= len(cl.Common().Args) || !tagged(m, cl.Common().Args[idx], key) {
								okR = false
							}
						}
					}
					okR = okR && n > 0
				case *ssa.Call, *ssa.Extract:
					var call *ssa.Call
					k := 0
					if ex, ok := x.(*ssa.Extract); ok {
						call, _ = ex.Tuple.(*ssa.Call)
						k = ex.Index
					} else {
						call = x.(*ssa.Call)
					}
					if call == nil {
						break
					}
					h := an.Callee(call).Static
					if h == nil || !inG[h] {
						break
					}
					rets := an.Returns(h)
					okR = len(rets) > 0
					for _, rt := range rets {
						if k >= len(rt.Results) || !tagged(h, rt.Results[k], key) {
							okR = false
						}
					}
				default:
					if f == bfn && sliceKey(r) == key {
						okR = true
					}
				}
				all = all && okR
			}
			res = all
		}
		if res {
			memo[q] = 1
		} else {
			memo[q] = 2
		}
		return res
	}
	// matcher calls: bool-valued static calls taking the neg / pos list; the function that makes them selects the addresses
	var sfn *ssa.Function
	var negCalls, posCalls []ssa.Value
	for _, f := range gset {
		var nc, pc []ssa.Value
		for _, cl := range an.AllCalls(f) {
			cv := an.CallValue(cl)
			if cv == nil || an.Callee(cv).Static == nil {
				continue
			}
			res := cv.Call.Signature().Results()
			if res.Len() != 1 || !types.Identical(res.At(0).Type().Underlying(), types.Typ[types.Bool]) {
				continue
			}
			for _, a := range cv.Call.Args {
				if _, ok := a.Type().Underlying().(*types.Slice); !ok {
					continue
				}
				switch {
				case tagged(f, a, negKey):
					nc = append(nc, cv)
				case tagged(f, a, posKey):
					pc = append(pc, cv)
				}
			}
		}
		if len(nc)+len(pc) > 0 && (sfn == nil || len(nc)+len(pc) > len(negCalls)+len(posCalls)) {
			sfn, negCalls, posCalls = f, nc, pc
		}
	}
	if sfn == nil {
		sfn = bfn
	}
	gname := an.FuncName(sfn)
	if !c.Check(len(negCalls) >= 1 && len(posCalls) >= 1, "O4", "R-DOM", gname, "negative-and-positive-lists-consulted", sfn.Pos(),
		"both the negative and the positive filter list are matched against each address",
		fmt.Sprintf("applyAddrFilter builds a negative and a positive filter list but matches addresses against %d/%d of them: '!proto' exclusions (or positive selections) have no effect", len(negCalls), len(posCalls))) {
		return
	}
	{
		seenM := map[*ssa.Function]bool{}
		for _, mv := range append(append([]ssa.Value{}, negCalls...), posCalls...) {
			mc := mv.(*ssa.Call)
			h := an.Callee(mc).Static
			if h == nil || h.Pkg != sfn.Pkg {
				continue
			}
			for i, a := range mc.Call.Args {
				if (tagged(sfn, a, negKey) || tagged(sfn, a, posKey)) && i < len(h.Params) {
					c42Existential(c, h, h.Params[i], seenM)
				}
			}
		}
	}
	var outApps []*ssa.Call
	for _, cl := range an.AllCalls(sfn) {
		cv := an.CallValue(cl)
		if cv == nil || !isAppend(cv) || builder[cv] || sliceKey(cv.Call.Args[0]) == "" {
			continue
		}
		outApps = append(outApps, cv)
	}
	noPos := an.GRelEdges(sfn, func(r an.GRel) bool {
		a, b, op := r.A, r.B, r.Op
		if _, ok := an.IntConst(a); ok {
			a, b, op = b, a, an.SwapRel(op)
		}
		k, ok := an.IntConst(b)
		call, ok2 := a.(*ssa.Call)
		if !ok || !ok2 {
			return false
		}
		if bi, ok := call.Call.Value.(*ssa.Builtin); !ok || bi.Name() != "len" || !tagged(sfn, call.Call.Args[0], posKey) {
			return false
		}
		return (op == token.EQL && k == 0) || (op == token.LEQ && k == 0) || (op == token.LSS && k == 1)
	})
	for _, ap := range outApps {
		okN := an.GuardedBy(sfn, nil, ap, an.BoolEdges(sfn, negCalls, false))
		c.Check(okN, "O4", "R-DOM", gname, "keep<=!negative-match", ap.Pos(), "an address is kept only where no negative ('!') filter matches",
			"an address is appended to the result on a path where the negative-filter test did not fail: '!proto' filters do not exclude (or positive and negative lists are swapped)")
		okP := an.GuardedBy(sfn, nil, ap, an.BoolEdges(sfn, posCalls, true).Union(noPos))
		c.Check(okP, "O4", "R-DOM", gname, "keep<=positive-match|none", ap.Pos(), "an address is kept only where a positive filter matches or none is given",
			"an address is appended to the result on a path where positive filters exist and none matched")
	}
	c.Min("O4 result appends of the address selection ("+gname+")", len(outApps), 1)
}

// c42DropsNil: ApplyFiltersToIter's result passes through iter.Filter with a predicate that
// accepts a result only where its Val is non-nil and its Err is nil (dropped records are
// represented as empty results by the mapping stage).
func c42DropsNil(c *an.Ctx) {
	fn := c.P.Func(c42Flt, "", "ApplyFiltersToIter")
	if !c.Need(fn != nil, "filters.ApplyFiltersToIter") {
		return
	}
	name := an.FuncName(fn)
	var flt *ssa.Call
	for _, r := range an.Returns(fn) {
		for _, root := range an.Roots(r.Results[0], nil) {
			if cl, ok := an.IsCallTo(root, an.M(c42Iter, "", "Filter")); ok {
				flt = cl
			} else {
				flt = nil
			}
		}
	}
	if !c.Check(flt != nil, "O4", "R-FLOW", name, "return=iter.Filter(mapped,nonNil)", fn.Pos(), "the filtered iterator drops the records the mapping stage emptied",
		"ApplyFiltersToIter does not return iter.Filter(...) over the mapped iterator: records rejected by the filters are yielded as empty results (null entries) and count against the limit") {
		return
	}
	preds := c42Targets(c, flt.Call.Args[1])
	if !c.Need(len(preds) == 1 && len(preds[0].Params) == 1, "predicate closure of iter.Filter in ApplyFiltersToIter") {
		return
	}
	pf := preds[0]
	prm := pf.Params[0]
	fieldLoads := func(field string) []ssa.Value {
		var out []ssa.Value
		an.Instrs(pf, func(in ssa.Instruction) {
			switch x := in.(type) {
			case *ssa.Field:
				if f, _ := an.FieldOf(x); f != nil && f.Name() == field {
					out = append(out, x)
				}
			case *ssa.UnOp:
				if x.Op == token.MUL {
					if f, _ := an.FieldOf(x.X); f != nil && f.Name() == field {
						out = append(out, x)
					}
				}
			}
		})
		return out
	}
	_ = prm
	valNonNil := an.NilEdges(pf, fieldLoads("Val"), false)
	errNil := an.NilEdges(pf, fieldLoads("Err"), true)
	isCmp := func(v ssa.Value, field string, op token.Token) bool {
		b, ok := v.(*ssa.BinOp)
		if !ok || b.Op != op {
			return false
		}
		x := b.X
		if an.IsNilConst(x) {
			x = b.Y
		} else if !an.IsNilConst(b.Y) {
			return false
		}
		for _, l := range fieldLoads(field) {
			if an.Aliases(l)[x] {
				return true
			}
		}
		return false
	}
	ok := true
	for _, r := range an.Returns(pf) {
		v := r.Results[0]
		vals := []ssa.Value{v}
		var preds []func(set an.EdgeSet) bool
		preds = append(preds, func(set an.EdgeSet) bool { return an.GuardedBy(pf, nil, r, set) })
		if ph, ok := v.(*ssa.Phi); ok {
			vals, preds = nil, nil
			for i, e := range ph.Edges {
				i := i
				vals = append(vals, e)
				preds = append(preds, func(set an.EdgeSet) bool { return an.PhiEdgeGuarded(pf, ph, i, set) })
			}
		}
		for i, e := range vals {
			if c43IsConstBool(e, false) {
				continue
			}
			needVal, needErr := true, true
			if isCmp(e, "Val", token.NEQ) {
				needVal = false
			} else if isCmp(e, "Err", token.EQL) {
				needErr = false
			} else if !c43IsConstBool(e, true) {
				ok = false
				continue
			}
			if needVal && !preds[i](valNonNil) {
				ok = false
			}
			if needErr && !preds[i](errNil) {
				ok = false
			}
		}
	}
	c.Check(ok, "O4", "R-DOM", an.FuncName(pf), "keep<=Err==nil&&Val!=nil", pf.Pos(), "a result is kept only where it has a record and no error",
		"the predicate of the final iter.Filter can accept a result whose Val is nil or whose Err is set: records dropped by the filters are yielded as null entries and are counted by the limit")
}

// ---------------------------------------------------------------- O5

func c42WireTable(c *an.Ctx) {
	p := c.P
	// keys written by the client side helper
	written := map[string]bool{}
	var joinSep, splitSep []string
	var anchor token.Pos
	for _, fn := range p.PkgFuncs(c42Flt) {
		for _, cl := range an.Calls(fn, an.M("net/url", "Values", "Set")) {
			args := an.Args(cl)
			if k, ok := an.ConstOf(args[0]); ok && k.Kind() == constant.String {
				if j, ok := an.IsCallTo(args[1], an.M("strings", "", "Join")); ok {
					written[constant.StringVal(k)] = true
					anchor = cl.Pos()
					if sep, ok := an.ConstOf(j.Call.Args[1]); ok && sep.Kind() == constant.String {
						joinSep = append(joinSep, constant.StringVal(sep))
					}
				}
			}
		}
	}
	var wk []string
	for k := range written {
		wk = append(wk, k)
	}
	sort.Strings(wk)
	okW := len(written) == 2 && c42WireRole(wk[0]) != "" && c42WireRole(wk[1]) != "" && c42WireRole(wk[0]) != c42WireRole(wk[1])
	c.Check(okW, "O5", "R-TABLE", c42Flt+".AddFiltersToURL", "query-keys-written", anchor,
		"the client writes exactly filter-addrs and filter-protocols",
		fmt.Sprintf("the filter query keys written into the request URL are %v, not {filter-addrs, filter-protocols}: the server ignores the filter and the limit is applied to unfiltered records", wk))
	// ParseFilter: Split(ToLower(param), sep)
	pf := p.Func(c42Flt, "", "ParseFilter")
	if c.Need(pf != nil, "filters.ParseFilter") {
		okShape := false
		for _, r := range an.Returns(pf) {
			if len(r.Results) != 1 || an.IsNilConst(r.Results[0]) {
				continue
			}
			sp, ok := an.IsCallTo(r.Results[0], an.M("strings", "", "Split"))
			if !ok {
				okShape = false
				break
			}
			if sep, ok := an.ConstOf(sp.Call.Args[1]); ok && sep.Kind() == constant.String {
				splitSep = append(splitSep, constant.StringVal(sep))
			}
			lo, ok := an.IsCallTo(sp.Call.Args[0], an.M("strings", "", "ToLower"))
			okShape = ok && lo.Call.Args[0] == ssa.Value(pf.Params[0])
		}
		c.Check(okShape, "O5", "R-FLOW", an.FuncName(pf), "Split(ToLower(param),sep)", pf.Pos(), "filter values are lower-cased and split",
			"ParseFilter does not return strings.Split(strings.ToLower(param), sep): mixed-case filter values ('TCP', 'Unknown') no longer match multiaddr protocol names / the 'unknown' keyword")
	}
	okSep := len(joinSep) > 0 && len(splitSep) > 0
	for _, a := range joinSep {
		for _, b := range splitSep {
			okSep = okSep && a == b
		}
	}
	c.Check(okSep, "O5", "R-TABLE", c42Flt, "list-separator", anchor, "filter lists are joined and split with the same separator",
		fmt.Sprintf("filter lists are joined with %q by the client helper but split with %q by ParseFilter: multi-valued filters collapse into one unknown value", joinSep, splitSep))
	// every server dispatcher reads both keys
	n := 0
	for _, fn := range p.PkgFuncs(c42Srv) {
		got := map[string]bool{}
		var pos token.Pos
		for _, cl := range an.Calls(fn, an.M(c42Flt, "", "ParseFilter")) {
			if g, ok := an.IsCallTo(cl.Common().Args[0], an.M("net/url", "Values", "Get")); ok {
				if k, ok := an.ConstOf(an.Args(g)[0]); ok && k.Kind() == constant.String {
					got[constant.StringVal(k)] = true
					pos = cl.Pos()
				}
			} else {
				got["<non-constant>"] = true
				pos = cl.Pos()
			}
		}
		if len(got) == 0 {
			continue
		}
		n++
		var gk []string
		for k := range got {
			gk = append(gk, k)
		}
		sort.Strings(gk)
		ok := len(gk) == len(wk) && len(gk) == 2 && gk[0] == wk[0] && gk[1] == wk[1]
		c.Check(ok, "O5", "R-TABLE", an.FuncName(fn), "query-keys-read", pos, "the handler reads the two keys the client writes",
			fmt.Sprintf("the handler parses filter keys %v while the client helper writes %v: one of the filters is silently not applied on the server", gk, wk))
	}
	c.Min("O5 server handlers parsing filter query keys", n, 1)
}

// c42HelperValidates: every success return (nil error) of h returns, at result idx, the result of
// ipns.UnmarshalRecord on the nil edges of that call and of ipns.ValidateWithName(that record, P),
// where P is a parameter of h that receives nameV at the call hc.
func c42HelperValidates(h *ssa.Function, idx int, hc *ssa.Call, nameV ssa.Value) bool {
	var us []ssa.CallInstruction
	for _, cl := range an.Calls(h, an.M(c42Ipns, "", "UnmarshalRecord")) {
		us = append(us, cl)
	}
	if len(us) != 1 {
		return false
	}
	u := us[0]
	rec := an.Result(u, 0)
	if len(rec) == 0 {
		return false
	}
	ral := an.Aliases(rec...)
	var vs []ssa.CallInstruction
	for _, v := range an.Calls(h, an.M(c42Ipns, "", "ValidateWithName")) {
		va := an.Args(v)
		if len(va) != 2 || !ral[va[0]] {
			continue
		}
		okName := false
		for _, r := range an.Roots(va[1], nil) {
			prm, ok := r.(*ssa.Parameter)
			if !ok || prm.Parent() != h {
				okName = false
				break
			}
			for i, q := range h.Params {
				if q == prm && i < len(hc.Call.Args) && (hc.Call.Args[i] == nameV || an.Aliases(nameV)[hc.Call.Args[i]]) {
					okName = true
				}
			}
		}
		if okName {
			vs = append(vs, v)
		}
	}
	if len(vs) == 0 {
		return false
	}
	n := 0
	for _, r := range an.Returns(h) {
		if len(r.Results) == 0 || !an.IsNilConst(r.Results[len(r.Results)-1]) {
			continue
		}
		n++
		if idx >= len(r.Results) || !ral[r.Results[idx]] || !an.OnNilEdgeOf(h, u, r) {
			return false
		}
		okV := false
		for _, v := range vs {
			if an.OnNilEdgeOf(h, v, r) {
				okV = true
			}
		}
		if !okV {
			return false
		}
	}
	return n > 0
}

func c42EvtValue(in ssa.Instruction) ssa.Value {
	v, _ := in.(ssa.Value)
	return v
}

// c42OneIntField: t is a struct type with exactly one integer field (which is returned).
func c42OneIntField(t types.Type) *types.Var {
	st, ok := t.Underlying().(*types.Struct)
	if !ok {
		return nil
	}
	var out *types.Var
	for i := 0; i < st.NumFields(); i++ {
		if b, ok := st.Field(i).Type().Underlying().(*types.Basic); ok && b.Info()&types.IsInteger != 0 {
			if out != nil {
				return nil
			}
			out = st.Field(i)
		}
	}
	return out
}

// c42Carrier: v is the value of a local struct variable with exactly one integer field.
func c42Carrier(v ssa.Value) (*ssa.Alloc, *types.Var) {
	u, ok := v.(*ssa.UnOp)
	if !ok || u.Op != token.MUL {
		return nil, nil
	}
	a, ok := u.X.(*ssa.Alloc)
	if !ok {
		return nil, nil
	}
	f := c42OneIntField(u.Type())
	if f == nil {
		return nil, nil
	}
	return a, f
}

// c42LocalFieldStores: the stores that define field f of the local struct variable a:
// stores through &a.f, and the field initialisers of a composite literal copied into a.
// ok is false when a is (also) written in a way that is not understood.
func c42LocalFieldStores(a *ssa.Alloc, f *types.Var) (out []*ssa.Store, ok bool) {
	ok = true
	var visit func(x *ssa.Alloc, depth int)
	visit = func(x *ssa.Alloc, depth int) {
		for _, ref := range *x.Referrers() {
			switch r := ref.(type) {
			case *ssa.FieldAddr:
				fv, _ := an.FieldOf(r)
				for _, r2 := range *r.Referrers() {
					switch st := r2.(type) {
					case *ssa.Store:
						if st.Addr == ssa.Value(r) && fv == f {
							out = append(out, st)
						}
					case *ssa.UnOp:
					default:
						if fv == f {
							ok = false // the field's address escapes
						}
					}
				}
			case *ssa.Store:
				if r.Addr != ssa.Value(x) {
					ok = false
					continue
				}
				if u, isLoad := r.Val.(*ssa.UnOp); isLoad && u.Op == token.MUL {
					if b, isAlloc := u.X.(*ssa.Alloc); isAlloc && depth < 2 {
						visit(b, depth+1)
						continue
					}
				}
				ok = false
			case *ssa.UnOp, *ssa.DebugRef:
			default:
				ok = false
			}
		}
	}
	visit(a, 0)
	return out, ok
}

// c42SpilledParam: a is the local copy of a struct-valued parameter that is never modified.
func c42SpilledParam(a *ssa.Alloc) *ssa.Parameter {
	var prm *ssa.Parameter
	for _, ref := range *a.Referrers() {
		switch r := ref.(type) {
		case *ssa.Store:
			p, ok := r.Val.(*ssa.Parameter)
			if r.Addr != ssa.Value(a) || !ok || prm != nil {
				return nil
			}
			prm = p
		case *ssa.FieldAddr:
			for _, r2 := range *r.Referrers() {
				if _, ok := r2.(*ssa.UnOp); !ok {
					if _, ok := r2.(*ssa.DebugRef); !ok {
						return nil
					}
				}
			}
		case *ssa.UnOp, *ssa.DebugRef:
		default:
			return nil
		}
	}
	return prm
}

// c42ParamField: v reads field f of a struct-valued parameter (directly, or through the
// parameter's unmodified local copy).
func c42ParamField(v ssa.Value) (*ssa.Parameter, *types.Var) {
	switch x := v.(type) {
	case *ssa.Field:
		if p, ok := x.X.(*ssa.Parameter); ok {
			f, _ := an.FieldOf(x)
			return p, f
		}
	case *ssa.UnOp:
		if x.Op != token.MUL {
			return nil, nil
		}
		if fa, ok := x.X.(*ssa.FieldAddr); ok {
			if a, ok := fa.X.(*ssa.Alloc); ok {
				if p := c42SpilledParam(a); p != nil {
					f, _ := an.FieldOf(fa)
					return p, f
				}
			}
		}
	}
	return nil, nil
}

// c42ConstEqEdges: edges on which some string value was found equal to the constant k.
func c42ConstEqEdges(fn *ssa.Function, k string) an.EdgeSet {
	return an.CondEdges(fn, func(atom ssa.Value) (bool, bool) {
		b, ok := atom.(*ssa.BinOp)
		if !ok || (b.Op != token.EQL && b.Op != token.NEQ) {
			return false, false
		}
		for _, x := range []ssa.Value{b.X, b.Y} {
			if kv, ok := an.ConstOf(x); ok && kv.Kind() == constant.String && constant.StringVal(kv) == k {
				return b.Op == token.EQL, b.Op == token.NEQ
			}
		}
		return false, false
	})
}

// c42LenEdges: edges on which len(list) relates to zero as asked (zero: == 0, else != 0).
func c42LenEdges(fn *ssa.Function, list ssa.Value, zero bool) an.EdgeSet {
	return an.GRelEdges(fn, func(r an.GRel) bool {
		a, b, op := r.A, r.B, r.Op
		if _, ok := an.IntConst(a); ok {
			a, b, op = b, a, an.SwapRel(op)
		}
		k, ok := an.IntConst(b)
		call, ok2 := a.(*ssa.Call)
		if !ok || !ok2 {
			return false
		}
		if bi, ok := call.Call.Value.(*ssa.Builtin); !ok || bi.Name() != "len" {
			return false
		}
		for _, x := range an.Roots(call.Call.Args[0], nil) {
			if x != list {
				return false
			}
		}
		if zero {
			return (op == token.EQL && k == 0) || (op == token.LEQ && k == 0) || (op == token.LSS && k == 1)
		}
		return (op == token.NEQ && k == 0) || (op == token.GTR && k == 0) || (op == token.GEQ && k == 1)
	})
}

// c42ExhaustedEdges: edges on which an index ran past len(list) (the loop over list is done).
func c42ExhaustedEdges(fn *ssa.Function, list ssa.Value) an.EdgeSet {
	isLen := func(v ssa.Value) bool {
		call, ok := v.(*ssa.Call)
		if !ok {
			return false
		}
		if bi, ok := call.Call.Value.(*ssa.Builtin); !ok || bi.Name() != "len" {
			return false
		}
		for _, x := range an.Roots(call.Call.Args[0], nil) {
			if x != list {
				return false
			}
		}
		return true
	}
	return an.GRelEdges(fn, func(r an.GRel) bool {
		if _, isK := an.IntConst(r.A); isK {
			return false
		}
		if _, isK := an.IntConst(r.B); isK {
			return false
		}
		return (isLen(r.B) && (r.Op == token.GEQ || r.Op == token.EQL)) || (isLen(r.A) && (r.Op == token.LEQ || r.Op == token.EQL))
	})
}

// c42MatchEdges: edges on which two non-constant element values were found equal
// (==, strings.EqualFold) or a package-local bool matcher returned true.
func c42MatchEdges(fn *ssa.Function) an.EdgeSet {
	return an.CondEdges(fn, func(atom ssa.Value) (bool, bool) { return c42MatchAtom(fn, atom, 0) })
}

// c42IsMatchFn: the bool function f answers true only behind a successful comparison.
func c42IsMatchFn(f *ssa.Function, depth int) bool {
	if f == nil || len(f.Blocks) == 0 || depth > 3 {
		return false
	}
	rets := an.Returns(f)
	if len(rets) == 0 {
		return false
	}
	var edges an.EdgeSet
	for _, r := range rets {
		if len(r.Results) != 1 {
			return false
		}
		v := r.Results[0]
		switch {
		case c43IsConstBool(v, false):
		case c43IsConstBool(v, true):
			if edges == nil {
				edges = an.CondEdges(f, func(atom ssa.Value) (bool, bool) { return c42MatchAtom(f, atom, depth+1) })
			}
			if len(edges) == 0 || !an.GuardedBy(f, nil, r, edges) {
				return false
			}
		default:
			a, neg := c43Strip(v)
			onT, onF := c42MatchAtom(f, a, depth+1)
			if (neg && !onF) || (!neg && !onT) {
				return false
			}
		}
	}
	return true
}

func c42MatchAtom(fn *ssa.Function, atom ssa.Value, depth int) (bool, bool) {
	{
		switch x := atom.(type) {
		case *ssa.BinOp:
			if x.Op != token.EQL && x.Op != token.NEQ {
				return false, false
			}
			for _, y := range []ssa.Value{x.X, x.Y} {
				if _, isK := y.(*ssa.Const); isK {
					return false, false
				}
				if call, ok := y.(*ssa.Call); ok {
					if _, isB := call.Call.Value.(*ssa.Builtin); isB {
						return false, false
					}
				}
				if bt, ok := y.Type().Underlying().(*types.Basic); ok && bt.Kind() == types.Bool {
					return false, false
				}
			}
			return x.Op == token.EQL, x.Op == token.NEQ
		case *ssa.Call:
			ci := an.Callee(x)
			if an.M("strings", "", "EqualFold").Match(ci) {
				return true, false
			}
			if an.M("slices", "", "ContainsFunc").Match(ci) && len(x.Call.Args) == 2 {
				for _, r := range an.Roots(x.Call.Args[1], nil) {
					var f *ssa.Function
					switch y := r.(type) {
					case *ssa.MakeClosure:
						f, _ = y.Fn.(*ssa.Function)
					case *ssa.Function:
						f = y
					}
					if !c42IsMatchFn(f, depth) {
						return false, false
					}
				}
				return true, false
			}
			if g := ci.Static; g != nil && g.Pkg == fn.Pkg && len(g.Blocks) > 0 {
				if rs := g.Signature.Results(); rs.Len() == 1 && types.Identical(rs.At(0).Type().Underlying(), types.Typ[types.Bool]) {
					return true, false
				}
			}
		}
		return false, false
	}
}

// c42ProtocolPredicate: the body of the protocol test P(peerProtocols, filterProtocols) called by
// applyFilters. Constant returns are judged (a returned expression such as slices.ContainsFunc(..)
// is not): true only behind a successful protocol comparison, an empty filter, or the "unknown" token
// together with an empty peer list; false only with a non-empty filter whose loop is exhausted.
func c42ProtocolPredicate(c *an.Ctx, af *ssa.Function, ptest *ssa.Call, protoParam ssa.Value) {
	g := an.Callee(ptest).Static
	if g == nil || len(g.Blocks) == 0 || g.Pkg != af.Pkg {
		return
	}
	var flt, peer *ssa.Parameter
	for i, a := range ptest.Call.Args {
		if i >= len(g.Params) {
			continue
		}
		isF := false
		for _, r := range an.Roots(a, nil) {
			isF = r == protoParam
		}
		if isF {
			flt = g.Params[i]
		} else if _, ok := a.Type().Underlying().(*types.Slice); ok {
			peer = g.Params[i]
		}
	}
	if flt == nil || peer == nil {
		return
	}
	name := an.FuncName(g)
	match := c42MatchEdges(g)
	e0 := c42LenEdges(g, flt, true)
	ne0 := c42LenEdges(g, flt, false)
	z := c42LenEdges(g, peer, true)
	u := c42ConstEqEdges(g, "unknown")
	done := c42ExhaustedEdges(g, flt)
	callGuard := an.GuardedBy(af, nil, ptest, c42LenEdges(af, protoParam, false)) && len(c42LenEdges(af, protoParam, false)) > 0
	for _, r := range an.Returns(g) {
		if len(r.Results) != 1 {
			continue
		}
		switch {
		case c43IsConstBool(r.Results[0], true):
			ok := an.GuardedBy(g, nil, r, match.Union(e0).Union(z)) && an.GuardedBy(g, nil, r, match.Union(e0).Union(u))
			c.Check(ok, "O4", "R-DOM", name, "true<=match|no-filter|(\"unknown\"&&no-protocols)", r.Pos(),
				"the protocol test succeeds only on a protocol match, an empty filter, or the token \"unknown\" for a peer without protocols",
				"the protocol test can return true without a successful (case-insensitive, whole-string) protocol comparison, without the filter being empty, and not through the \"unknown\" token meeting an empty protocol list: providers of other protocols pass the filter")
		case c43IsConstBool(r.Results[0], false):
			okNE := callGuard || (len(ne0) > 0 && an.GuardedBy(g, nil, r, ne0))
			c.Check(okNE, "O4", "R-DOM", name, "false<=filter-non-empty", r.Pos(), "without a protocol filter nothing is rejected",
				"the protocol test can return false although no protocol filter is given: requests that filter only by address lose every record")
			okDone := len(done) == 0 || an.GuardedBy(g, nil, r, done)
			c.Check(okDone, "O4", "R-DOM", name, "false<=all-filter-entries-tried", r.Pos(), "a record is rejected only after every filter entry was tried",
				"the protocol test can return false before all entries of the filter were compared: only the first filter protocol is honoured")
		}
	}
}

// c42Existential: a package-local matcher g(.., list) that answers "does any entry of list match":
// constant true only behind a successful comparison, constant false only once the loop over list is done.
func c42Existential(c *an.Ctx, g *ssa.Function, list *ssa.Parameter, seen map[*ssa.Function]bool) {
	if g == nil || seen[g] || len(g.Blocks) == 0 {
		return
	}
	seen[g] = true
	name := an.FuncName(g)
	match := c42MatchEdges(g)
	done := c42ExhaustedEdges(g, list)
	for _, r := range an.Returns(g) {
		if len(r.Results) != 1 {
			continue
		}
		switch {
		case c43IsConstBool(r.Results[0], true):
			c.Check(len(match) > 0 && an.GuardedBy(g, nil, r, match), "O4", "R-DOM", name, "matcher:true<=entry-matches", r.Pos(), "the matcher answers true only behind a successful comparison",
				"the matcher can answer true without any entry having matched (an 'all entries' test instead of 'any entry', or an inverted comparison): addresses are kept/excluded against the filter semantics")
		case c43IsConstBool(r.Results[0], false):
			c.Check(len(done) == 0 || an.GuardedBy(g, nil, r, done), "O4", "R-DOM", name, "matcher:false<=all-entries-tried", r.Pos(), "the matcher answers false only after every entry was tried",
				"the matcher can answer false before every entry of the list was compared")
		}
	}
	// nested matchers receiving a slice parameter of g
	for _, cl := range an.AllCalls(g) {
		h := an.Callee(cl).Static
		if h == nil || h.Pkg != g.Pkg || h.Parent() != nil {
			continue
		}
		if rs := h.Signature.Results(); rs.Len() != 1 || !types.Identical(rs.At(0).Type().Underlying(), types.Typ[types.Bool]) {
			continue
		}
		for i, a := range cl.Common().Args {
			if _, ok := a.Type().Underlying().(*types.Slice); ok && i < len(h.Params) {
				c42Existential(c, h, h.Params[i], seen)
				break
			}
		}
	}
}
