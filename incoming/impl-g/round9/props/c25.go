package props

import (
	"fmt"
	"go/constant"
	"go/token"
	"go/types"
	"sort"
	"strings"

	"golang.org/x/tools/go/ssa"

	"verif/checker/an"
)

func init() {
	register("C25", Prop{
		Pkgs: []string{"./ipns"},
		Explain: "Decided (structural necessary conditions of 'IPNS validation is unforgeable and self-consistent'): " +
			"O1 every success return of ipns.Validate is reached only after: proto.Size(rec.pb) <= MaxRecordSize; len(SignatureV2) > 0; len(Data) > 0; pk.Verify on BOTH its err==nil and ok==true edges; the CBOR/protobuf match helper on its nil edge unless both SignatureV1 and Value are known empty; rec.Validity() on its nil edge and a not-expired comparison of time.Now() with that very EOL; TTL >= 0 (or TTL unreadable); " +
			"O2 the verified message is sigdata(rec.pb.Data) and the verified signature is rec.pb.SignatureV2 of the record under validation, verified with the key parameter; newRecord signs the same sigdata helper over the bytes it stores in pb.Data and stores that signature in pb.SignatureV2; the helper's result contains its argument; " +
			"O3 the match helper compares every legacy field {Value,Validity,ValidityType,Sequence,Ttl} with the CBOR key of the same spec name taken from a node decoded from entry.Data, and returns success only on the equal edge of all five; " +
			"O4 no method of Record (nor anything it reaches in the package) reads a legacy protobuf field, and every store to Record.node stores the node decoded from / encoded into the Data bytes of the protobuf stored in the same Record; " +
			"O5 ExtractPublicKey returns an embedded key only on the true edge of name.Equal(NameFromPeer(IDFromPublicKey(thatKey))) and otherwise the key extracted from the name itself; ValidateWithName / Validator.Validate / getPublicKey pass the key obtained for the very name (parsed from the routing key) and record into Validate and return its result. " +
			"NOT decided: cryptographic strength, protobuf duplicate/unknown-field semantics, DAG-CBOR decoder strictness, KeyBook contents.",
		Assume:    []string{"unexported fields of ipns.Record are only reachable from package ipns (Go visibility)", "libp2p PubKey.Verify and peer.IDFromPublicKey are correct", "the peerstore KeyBook returns the key of the peer it is asked for"},
		Technique: "SSA path rules: edge dominance with normalised relations (R-DOM/R-CMP), value provenance (R-FLOW), pair table (R-TABLE), who-may-read (R-WHO)",
		Run:       runC25,
	})
}

const (
	c25PB   = "github.com/ipfs/boxo/ipns/pb"
	c25Peer = "github.com/libp2p/go-libp2p/core/peer"
)

// legacy protobuf field (getter suffix) -> DAG-CBOR key fixed by the IPNS record spec
var c25Legacy = map[string]string{"Value": "Value", "Validity": "Validity", "ValidityType": "ValidityType", "Sequence": "Sequence", "Ttl": "TTL"}

func runC25(c *an.Ctx) {
	p := c.P
	const ip = "ipns"
	validate := p.Func(ip, "", "Validate")
	fPB, fNode := c25RecordFields(p)
	if !c.Need(validate != nil && len(validate.Params) == 2, "ipns.Validate(rec, pk)") || !c.Need(fPB != nil && fNode != nil, "ipns.Record fields holding the protobuf (*pb.IpnsRecord) and the decoded node (datamodel.Node)") {
		return
	}
	maxSize, ok := c25ConstInt(p, ip, "MaxRecordSize")
	if !c.Need(ok, "ipns.MaxRecordSize constant") {
		return
	}
	vname := an.FuncName(validate)
	rec, pk := validate.Params[0], validate.Params[1]
	root := c25Env{fn: validate, path: map[string]string{"rec": "p:" + rec.Name(), "pb": "p:" + rec.Name() + "." + c25PBName, "pk": "p:" + pk.Name()}}
	family := c25EnvFamily(root)

	succ, undec := c25SuccessReturns(validate, 0)
	c.Min("O1 possibly successful returns of Validate", len(succ)+len(undec), 1)
	// req: one must-pass-through requirement for every return of Validate that can succeed. The fact may be
	// established in Validate itself or in unexported package-local helpers it calls on the way (c25Holds).
	req := func(ob, rule, construct string, pos token.Pos, mk c25Req, okD, badD string) {
		good := true
		for _, r := range append(append([]*ssa.Return{}, succ...), undec...) {
			if !c25Holds(root, r, 0, mk, 0) {
				good = false
			}
		}
		c.Check(good, ob, rule, vname, construct, pos, okD, badD)
	}
	// pos of the first construct matching in the family (reporting only)
	posOf := func(find func(e c25Env) token.Pos) token.Pos {
		for _, e := range family {
			if ps := find(e); ps.IsValid() {
				return ps
			}
		}
		return validate.Pos()
	}

	// ---- O1.a size limit
	req("O1", "R-CMP", "size<=MaxRecordSize", validate.Pos(), func(e c25Env) (an.EdgeSet, []ssa.CallInstruction) {
		isSize := func(v ssa.Value) bool {
			call, ok := c25RootCall(v, an.M("google.golang.org/protobuf/proto", "", "Size"))
			return ok && e.path["pb"] != "" && an.PathOf(call.Call.Args[0]) == e.path["pb"]
		}
		return c25RelEdges(e.fn, isSize, c25IsInt(maxSize), c25LE, 0), nil
	}, "success only where proto.Size(rec.pb) <= MaxRecordSize",
		"Validate can succeed without the edge proto.Size(rec.pb) <= MaxRecordSize: oversized records pass validation")
	// ---- O1.b/c SignatureV2 and Data present
	lenOfGetter := func(e c25Env, getter string) func(ssa.Value) bool {
		return func(v ssa.Value) bool {
			b, ok := c25RootBuiltin(v, "len")
			return ok && e.path["pb"] != "" && c25IsPbRead(b.Call.Args[0], getter, e.path["pb"])
		}
	}
	for _, g := range []string{"SignatureV2", "Data"} {
		g := g
		req("O1", "R-CMP", "len("+g+")>0", validate.Pos(), func(e c25Env) (an.EdgeSet, []ssa.CallInstruction) {
			return c25RelEdges(e.fn, lenOfGetter(e, g), c25IsInt(0), c25GT, c25LT), nil
		}, "success only where len(rec.pb."+g+") > 0",
			"Validate can succeed with an empty "+g+": a record without "+g+" is not rejected")
	}
	// ---- O1.d + O2 signature verification
	verifyIn := func(e c25Env) *ssa.Call {
		if e.path["pk"] == "" {
			return nil
		}
		var v *ssa.Call
		for _, call := range an.Calls(e.fn, an.M("", "", "Verify")) {
			if cv := an.CallValue(call); cv != nil && call.Common().IsInvoke() && an.PathOf(call.Common().Value) == e.path["pk"] {
				v = cv
			}
		}
		return v
	}
	var verify *ssa.Call
	var verifyEnv c25Env
	for _, e := range family {
		if v := verifyIn(e); v != nil {
			verify, verifyEnv = v, e
		}
	}
	vpos := validate.Pos()
	if verify != nil {
		vpos = verify.Pos()
	}
	req("O1", "R-DOM", "pk.Verify:err==nil", vpos, func(e c25Env) (an.EdgeSet, []ssa.CallInstruction) {
		if v := verifyIn(e); v != nil {
			return an.NilEdges(e.fn, an.ErrResult(v), true), nil
		}
		return nil, nil
	}, "success only on the err==nil edge of pk.Verify", "Validate can succeed without the err==nil edge of Verify on its public-key parameter: the v2 signature is not checked against the key of the name (or a failed verification is ignored)")
	req("O1", "R-DOM", "pk.Verify:ok==true", vpos, func(e c25Env) (an.EdgeSet, []ssa.CallInstruction) {
		if v := verifyIn(e); v != nil {
			return an.BoolEdges(e.fn, an.Result(v, 0), true), nil
		}
		return nil, nil
	}, "success only on the ok==true edge of pk.Verify", "Validate can succeed although pk.Verify reported ok==false (or is not called): a forged signature passes")
	var sigHelper *ssa.Function
	if verify != nil {
		args := an.Args(verify)
		vn := an.FuncName(verifyEnv.fn)
		okMsg, why := false, "message is not the result of a signature-data helper"
		if h, okh := c25RootCall(args[0], an.M(ip, "-", "")); okh && h.Call.StaticCallee() != nil && len(h.Call.Args) == 1 {
			if c25IsPbRead(h.Call.Args[0], "Data", verifyEnv.path["pb"]) {
				okMsg = true
				sigHelper = h.Call.StaticCallee()
			} else {
				why = "signature data computed from " + c25Desc(h.Call.Args[0]) + ", not from rec.pb.Data"
			}
		}
		c.Check(okMsg, "O2", "R-FLOW", vn, "Verify.msg=sigdata(record Data)", verify.Pos(), "verified message is sigdata(rec.pb.GetData())", "pk.Verify message: "+why+" — the signature does not cover the record's own Data")
		c.Check(c25IsPbRead(args[1], "SignatureV2", verifyEnv.path["pb"]), "O2", "R-FLOW", vn, "Verify.sig=record SignatureV2", verify.Pos(), "verified signature is rec.pb.GetSignatureV2()", "pk.Verify is given "+c25Desc(args[1])+" instead of rec.pb.SignatureV2")
	}
	// ---- O1.e CBOR/protobuf match
	matchIn := func(e c25Env) (*ssa.Call, *ssa.Function) {
		if e.path["pb"] == "" {
			return nil, nil
		}
		for _, call := range an.Calls(e.fn, an.M(ip, "-", "")) {
			cv := an.CallValue(call)
			f := call.Common().StaticCallee()
			if cv == nil || f == nil || len(f.Params) != 1 || !an.TypeIs(f.Params[0].Type(), c25PB, "IpnsRecord") || len(an.ErrResult(call)) == 0 {
				continue
			}
			if an.PathOf(cv.Call.Args[0]) == e.path["pb"] && c25LooksLikeMatch(f) {
				return cv, f
			}
		}
		return nil, nil
	}
	var matchFn *ssa.Function
	mpos := validate.Pos()
	for _, e := range family {
		if mc, f := matchIn(e); mc != nil {
			matchFn, mpos = f, mc.Pos()
		}
	}
	for _, g := range []string{"SignatureV1", "Value"} {
		g := g
		req("O1", "R-DOM", "cbor-matches-pb unless "+g+" empty", mpos, func(e c25Env) (an.EdgeSet, []ssa.CallInstruction) {
			zero := c25RelEdges(e.fn, lenOfGetter(e, g), c25IsInt(0), c25EQ, c25LT)
			if mc, _ := matchIn(e); mc != nil {
				return an.NilEdges(e.fn, an.ErrResult(mc), true).Union(zero), []ssa.CallInstruction{mc}
			}
			return zero, nil
		}, "success only after the CBOR/protobuf match succeeded or with len("+g+")==0",
			"Validate can succeed with a non-empty legacy "+g+" without the CBOR/protobuf match having succeeded: legacy fields disagreeing with the signed data are accepted")
	}
	// ---- O1.f expiry
	validityIn := func(e c25Env) []*ssa.Call {
		var out []*ssa.Call
		if e.path["rec"] == "" {
			return nil
		}
		for _, call := range an.Calls(e.fn, an.M(ip, "Record", "Validity")) {
			if cv := an.CallValue(call); cv != nil && an.PathOf(an.Recv(call)) == e.path["rec"] {
				out = append(out, cv)
			}
		}
		return out
	}
	epos := posOf(func(e c25Env) token.Pos {
		if vs := validityIn(e); len(vs) > 0 {
			return vs[0].Pos()
		}
		return token.NoPos
	})
	req("O1", "R-DOM", "Validity():err==nil", epos, func(e c25Env) (an.EdgeSet, []ssa.CallInstruction) {
		out := an.EdgeSet{}
		for _, vc := range validityIn(e) {
			out = out.Union(an.NilEdges(e.fn, an.ErrResult(vc), true))
		}
		return out, nil
	}, "success only on the nil edge of rec.Validity()", "Validate can succeed without the nil edge of rec.Validity() (validity not read, unparseable or of unknown type): expired records pass")
	req("O1", "R-CMP", "now<=EOL", epos, func(e c25Env) (an.EdgeSet, []ssa.CallInstruction) {
		out := an.EdgeSet{}
		for _, vc := range validityIn(e) {
			eols := an.Result(vc, 0)
			isEOL := func(v ssa.Value) bool { return c25RootsIn(v, eols) }
			isNow := func(v ssa.Value) bool { _, ok := c25RootCall(v, an.M("time", "", "Now")); return ok }
			out = out.Union(an.CondEdges(e.fn, func(atom ssa.Value) (bool, bool) {
				call, ok := atom.(*ssa.Call)
				if !ok {
					return false, false
				}
				ci := an.Callee(call)
				if ci.Pkg != "time" || ci.Recv != "Time" || len(call.Call.Args) != 2 {
					return false, false
				}
				a, b := call.Call.Args[0], call.Call.Args[1]
				switch {
				case ci.Name == "After" && isNow(a) && isEOL(b), ci.Name == "Before" && isEOL(a) && isNow(b):
					return false, true // now > eol is false
				case ci.Name == "After" && isEOL(a) && isNow(b), ci.Name == "Before" && isNow(a) && isEOL(b):
					return true, false
				}
				return false, false
			}))
			// time.Until(eol) / eol.Sub(now) compared with 0
			isLeft := func(v ssa.Value) bool {
				if uc, ok := c25RootCall(v, an.M("time", "", "Until")); ok {
					return isEOL(uc.Call.Args[0])
				}
				if sc, ok := c25RootCall(v, an.M("time", "Time", "Sub")); ok {
					return isEOL(sc.Call.Args[0]) && isNow(sc.Call.Args[1])
				}
				return false
			}
			out = out.Union(c25RelEdges(e.fn, isLeft, c25IsInt(0), c25GE, 0))
		}
		return out, nil
	}, "success only where time.Now() is not after the record's EOL", "Validate can succeed without the not-expired edge of the comparison of time.Now() with rec.Validity(): expired records pass")
	// ---- O1.g TTL >= 0
	ttlIn := func(e c25Env) []*ssa.Call {
		var out []*ssa.Call
		if e.path["rec"] == "" {
			return nil
		}
		for _, call := range an.Calls(e.fn, an.M(ip, "Record", "TTL")) {
			if cv := an.CallValue(call); cv != nil && an.PathOf(an.Recv(call)) == e.path["rec"] {
				out = append(out, cv)
			}
		}
		return out
	}
	tpos := posOf(func(e c25Env) token.Pos {
		if ts := ttlIn(e); len(ts) > 0 {
			return ts[0].Pos()
		}
		return token.NoPos
	})
	req("O1", "R-CMP", "TTL>=0", tpos, func(e c25Env) (an.EdgeSet, []ssa.CallInstruction) {
		out := an.EdgeSet{}
		for _, tc := range ttlIn(e) {
			ttls := an.Result(tc, 0)
			out = out.Union(c25RelEdges(e.fn, func(v ssa.Value) bool { return c25RootsIn(v, ttls) }, c25IsInt(0), c25GE, 0))
			out = out.Union(an.NilEdges(e.fn, an.ErrResult(tc), false))
		}
		return out, nil
	}, "success only where TTL >= 0 or the TTL is unreadable", "Validate can succeed with a readable negative TTL (or without examining rec.TTL())")

	// ---- O2 (sign side): newRecord-like constructors sign sigdata(bytes stored in pb.Data)
	fData, fSig2 := c25PBField(p, "Data"), c25PBField(p, "SignatureV2")
	if c.Need(fData != nil && fSig2 != nil, "ipns/pb.IpnsRecord fields Data,SignatureV2") {
		n := 0
		for _, fn := range p.PkgFuncs(ip) {
			for _, st := range an.FieldStores(fn, fSig2) {
				n++
				_, base := an.FieldOf(st.Addr)
				name := an.FuncName(fn)
				sign, ok := c25RootCall(st.Val, an.M("", "", "Sign"))
				if !ok {
					c.Bad("O2", "R-FLOW", name, "SignatureV2=Sign(sigdata(Data))", st.Pos(), "pb.SignatureV2 is stored from "+an.PathOf(st.Val)+", not from a Sign call")
					continue
				}
				h, okh := c25RootCall(an.Args(sign)[0], an.M(ip, "-", ""))
				var datas []*ssa.Store
				for _, d := range an.StoresToField(fn, fData, base) {
					datas = append(datas, d)
				}
				good, why := false, ""
				switch {
				case !okh || h.Call.StaticCallee() == nil || len(h.Call.Args) != 1:
					why = "the signed message is not the result of the signature-data helper"
				case sigHelper != nil && h.Call.StaticCallee() != sigHelper:
					why = "signs with " + h.Call.StaticCallee().Name() + " but Validate verifies with " + sigHelper.Name()
				case len(datas) == 0:
					why = "no store to pb.Data of the same protobuf"
				default:
					good = true
					for _, d := range datas {
						if !c25SameValue(d.Val, h.Call.Args[0]) {
							good = false
							why = "pb.Data is stored from " + c25Desc(d.Val) + " but the signature covers " + c25Desc(h.Call.Args[0])
						}
					}
				}
				c.Check(good, "O2", "R-FLOW", name, "SignatureV2=Sign(sigdata(Data))", st.Pos(), "SignatureV2 = sk.Sign(sigdata(d)) with the same d stored in pb.Data", "record construction: "+why+" — freshly created records do not validate or sign other bytes than they carry")
			}
		}
		c.Min("O2 stores to pb.SignatureV2", n, 1)
	}
	if sigHelper != nil && len(sigHelper.Params) == 1 {
		// the helper's result contains its argument
		good := false
		for _, r := range an.Returns(sigHelper) {
			for _, root := range an.Roots(r.Results[0], nil) {
				if ap, ok := root.(*ssa.Call); ok && an.Callee(ap).Builtin == "append" && len(ap.Call.Args) == 2 {
					if c25RootsIn(ap.Call.Args[1], []ssa.Value{sigHelper.Params[0]}) || c25RootsIn(ap.Call.Args[0], []ssa.Value{sigHelper.Params[0]}) {
						good = true
					}
				}
			}
		}
		c.Check(good, "O2", "R-FLOW", an.FuncName(sigHelper), "sigdata contains data", sigHelper.Pos(), "signature data = prefix ++ data", "the signature-data helper does not append its data argument to the returned message: the signature does not cover the record data")
	}

	// ---- O3 pair table of the match helper
	if matchFn != nil {
		c25MatchTable(c, matchFn)
	} else {
		c.Bad("O3", "R-TABLE", vname, "cbor-matches-pb helper", validate.Pos(), "Validate (and the helpers it calls) no longer call a function comparing the legacy protobuf fields of rec.pb with the signed CBOR data")
	}

	// ---- O4 accessors never read legacy fields; Record.node is the decoded/encoded Data
	c25Accessors(c, fPB)
	c25NodeStores(c, fPB, fNode)
	c25LegacyReaders(c, validate, matchFn)

	// ---- O5 key extraction and callers of Validate
	c25Keys(c, validate)
}

// ---------------------------------------------------------------- O3

func c25MatchTable(c *an.Ctx, fn *ssa.Function) {
	name := an.FuncName(fn)
	entry := fn.Params[0]
	entryPath := "p:" + entry.Name()
	succ, _ := c25SuccessReturns(fn, 0)
	c.Min("O3 success returns of the match helper", len(succ), 1)
	// cborSide: v = conv(Extract0(node.AsX())) with node = Extract0(full.LookupByString(K))
	cborSide := func(v ssa.Value) (key ssa.Value, full ssa.Value, ok bool) {
		as, ok1 := c25RootCall(v, an.M("", "", "AsBytes"), an.M("", "", "AsInt"), an.M("", "", "AsString"))
		if !ok1 || !as.Call.IsInvoke() {
			return nil, nil, false
		}
		lk, ok2 := c25RootCall(as.Call.Value, an.M("", "", "LookupByString"))
		if !ok2 || !lk.Call.IsInvoke() {
			return nil, nil, false
		}
		return lk.Call.Args[0], lk.Call.Value, true
	}
	constKey := func(v ssa.Value) (string, bool) {
		k, ok := an.ConstOf(v)
		if !ok || k.Kind() != constant.String {
			return "", false
		}
		return constant.StringVal(k), true
	}
	pbSide := func(v ssa.Value) (string, bool) {
		for g := range c25Legacy {
			if c25IsPbRead(v, g, entryPath) {
				return g, true
			}
		}
		return "", false
	}
	type cmpSite struct {
		g, key string
		full   ssa.Value
		edges  an.EdgeSet
		pos    token.Pos
		ne     an.EdgeSet
		row    *c25RowRd // the operands are read from the row of a local literal table scanned by a range loop
	}
	type pairT struct {
		g, key string
		full   ssa.Value
		row    *c25RowRd
	}
	var sites []cmpSite
	pair1 := func(a, b ssa.Value) []pairT {
		kv, full, ok := cborSide(b)
		if !ok {
			return nil
		}
		if k, isK := constKey(kv); isK {
			if g, ok1 := pbSide(a); ok1 {
				return []pairT{{g, k, full, nil}}
			}
			return nil
		}
		// table-driven form: for _, f := range []struct{key; pbValue}{...} { compare(f.pbValue, cbor[f.key]) }
		ra, okA := c25RowRead(a)
		rk, okK := c25RowRead(kv)
		if !okA || !okK || ra.arr != rk.arr || ra.idx != rk.idx {
			return nil
		}
		rows, okT := c25TableRows(ra.arr)
		if !okT || len(rows) == 0 {
			return nil
		}
		var out []pairT
		for _, row := range rows {
			va, vk := row[ra.fld], row[rk.fld]
			if va == nil || vk == nil {
				return nil
			}
			g, ok1 := pbSide(va)
			k, ok2 := constKey(vk)
			if !ok1 || !ok2 {
				return nil
			}
			r := ra
			out = append(out, pairT{g, k, full, &r})
		}
		return out
	}
	pair := func(a, b ssa.Value) []pairT {
		if ps := pair1(a, b); len(ps) > 0 {
			return ps
		}
		return pair1(b, a)
	}
	an.Instrs(fn, func(in ssa.Instruction) {
		switch x := in.(type) {
		case *ssa.Call:
			ci := an.Callee(x)
			if (ci.Pkg == "bytes" && ci.Name == "Equal" || ci.Pkg == "slices" && ci.Name == "Equal") && len(x.Call.Args) == 2 {
				for _, pr := range pair(x.Call.Args[0], x.Call.Args[1]) {
					sites = append(sites, cmpSite{pr.g, pr.key, pr.full, an.BoolEdges(fn, []ssa.Value{x}, true), x.Pos(), an.BoolEdges(fn, []ssa.Value{x}, false), pr.row})
				}
			}
		case *ssa.BinOp:
			if x.Op == token.EQL || x.Op == token.NEQ {
				// bytes.Compare(a, b) ==/!= 0
				for _, side := range [][2]ssa.Value{{x.X, x.Y}, {x.Y, x.X}} {
					if cc, ok := side[0].(*ssa.Call); ok && c25IsInt(0)(side[1]) {
						if ci := an.Callee(cc); ci.Pkg == "bytes" && ci.Name == "Compare" && len(cc.Call.Args) == 2 {
							for _, pr := range pair(cc.Call.Args[0], cc.Call.Args[1]) {
								e := c25RelEdges(fn, func(v ssa.Value) bool { return v == side[0] }, func(v ssa.Value) bool { return v == side[1] }, c25EQ, 0)
								ne := c25RelEdges(fn, func(v ssa.Value) bool { return v == side[0] }, func(v ssa.Value) bool { return v == side[1] }, c25NE, 0)
								sites = append(sites, cmpSite{pr.g, pr.key, pr.full, e, x.Pos(), ne, pr.row})
							}
						}
					}
				}
				for _, pr := range pair(x.X, x.Y) {
					e := c25RelEdges(fn, func(v ssa.Value) bool { return v == x.X }, func(v ssa.Value) bool { return v == x.Y }, c25EQ, 0)
					ne := c25RelEdges(fn, func(v ssa.Value) bool { return v == x.X }, func(v ssa.Value) bool { return v == x.Y }, c25NE, 0)
					sites = append(sites, cmpSite{pr.g, pr.key, pr.full, e, x.Pos(), ne, pr.row})
				}
			}
		}
	})
	var gs []string
	for g := range c25Legacy {
		gs = append(gs, g)
	}
	sort.Strings(gs)
	for _, g := range gs {
		want := c25Legacy[g]
		edges := an.EdgeSet{}
		n, nbad, nRow := 0, 0, 0
		scanned := false
		pos := fn.Pos()
		for _, s := range sites {
			if s.g != g {
				continue
			}
			n++
			pos = s.pos
			if s.key != want {
				nbad++
				c.Bad("O3", "R-TABLE", name, "pb."+g+"~cbor."+s.key, s.pos, fmt.Sprintf("legacy field %s is compared with CBOR key %q instead of %q: a legacy %s disagreeing with the signed data is accepted", g, s.key, want, g))
				continue
			}
			srcPB, okd := c25DecodedFromPB(fn, s.full, 0)
			if !okd || an.PathOf(srcPB) != entryPath {
				nbad++
				c.Bad("O3", "R-FLOW", name, "cbor."+want+" from entry.Data", s.pos, "the CBOR node compared with legacy field "+g+" is not decoded from entry.Data (the signed bytes)")
				continue
			}
			if s.row != nil {
				// every row is compared: the range loop over the table runs to exhaustion before any success return,
				// and no iteration reaches the next one (or the end) except over the equal edge
				if c25FullScan(fn, s.row, s.edges, succ) {
					scanned = true
				}
				nRow++
				continue
			}
			edges = edges.Union(s.edges)
		}
		if n == 0 {
			c.Bad("O3", "R-TABLE", name, "pb."+g+"~cbor."+want, fn.Pos(), "legacy field "+g+" is not compared with the signed CBOR key "+want+": it can be changed without failing validation")
			continue
		}
		if nbad > 0 && len(edges) == 0 && nRow == 0 {
			continue
		}
		good := len(edges) > 0
		for _, r := range succ {
			if !an.GuardedBy(fn, nil, r, edges) {
				good = false
			}
		}
		good = good || scanned
		c.Check(good, "O3", "R-TABLE", name, "pb."+g+"~cbor."+want, pos, "success only on the equal edge of pb."+g+" == cbor["+want+"]",
			"the match helper can return nil without the equal edge of pb."+g+" vs cbor["+want+"] (comparison inverted or bypassed)")
	}
	// no rejection other than a failing library call, missing data, or one of the table comparisons being unequal:
	// the helper must accept whatever the constructor writes (the casts uint64<->int64 wrap on both sides)
	mismatch := an.EdgeSet{}
	for _, s := range sites {
		mismatch = mismatch.Union(s.ne)
	}
	mismatch = mismatch.Union(c25RelEdges(fn, func(v ssa.Value) bool {
		b, ok := c25RootBuiltin(v, "len")
		return ok && c25IsPbRead(b.Call.Args[0], "Data", entryPath)
	}, c25IsInt(0), c25EQ, c25LT))
	okRej := true
	at := fn.Pos()
	for _, r := range an.Returns(fn) {
		if an.IsNilConst(r.Results[0]) {
			continue
		}
		for _, root := range an.Roots(r.Results[0], nil) {
			constructed := false
			switch x := root.(type) {
			case *ssa.Call:
				ci := an.Callee(x)
				constructed = ci.Pkg == "fmt" && ci.Name == "Errorf" || ci.Pkg == "errors" && (ci.Name == "New" || ci.Name == "Join")
			case *ssa.UnOp:
				_, constructed = x.X.(*ssa.Global)
			case *ssa.Alloc:
				constructed = true
			}
			if constructed && !an.GuardedBy(fn, nil, r, mismatch) {
				okRej = false
				at = r.Pos()
			}
		}
	}
	c.Check(okRej, "O3", "R-DOM", name, "rejects only on mismatch", at, "every error the helper constructs itself lies on the not-equal edge of a table comparison (or on missing Data)",
		"the match helper constructs an error on a path where none of the five comparisons is known unequal (a value-range or other extra rejection): records the constructor itself produces (e.g. sequence numbers above MaxInt64, stored as negative CBOR integers) fail validation")
}

// c25RowRd: a value read from field fld of element idx of the local literal table arr.
type c25RowRd struct {
	arr *ssa.Alloc
	idx ssa.Value
	fld int
}

// c25RowRead: v is T[idx].fld for a local array/slice literal T, read directly, through a loaded element or
// through the per-iteration copy of a range loop variable.
func c25RowRead(v ssa.Value) (c25RowRd, bool) {
	for {
		switch x := v.(type) {
		case *ssa.Convert:
			v = x.X
			continue
		case *ssa.ChangeType:
			v = x.X
			continue
		case *ssa.ChangeInterface:
			v = x.X
			continue
		}
		break
	}
	elemLoad := func(w ssa.Value) (ssa.Value, ssa.Value, bool) {
		ld, ok := w.(*ssa.UnOp)
		if !ok || ld.Op != token.MUL {
			return nil, nil, false
		}
		ia, ok := ld.X.(*ssa.IndexAddr)
		if !ok {
			return nil, nil, false
		}
		return ia.X, ia.Index, true
	}
	var S, idx ssa.Value
	fld := -1
	switch x := v.(type) {
	case *ssa.Field:
		s0, i0, ok := elemLoad(x.X)
		if !ok {
			return c25RowRd{}, false
		}
		S, idx, fld = s0, i0, x.Field
	case *ssa.UnOp:
		fa, ok := x.X.(*ssa.FieldAddr)
		if !ok || x.Op != token.MUL {
			return c25RowRd{}, false
		}
		fld = fa.Field
		switch b := fa.X.(type) {
		case *ssa.IndexAddr:
			S, idx = b.X, b.Index
		case *ssa.Alloc:
			// the loop variable: one whole-struct store of the element, no field written separately, not escaping
			var whole *ssa.Store
			for _, r := range *b.Referrers() {
				switch y := r.(type) {
				case *ssa.Store:
					if y.Addr != ssa.Value(b) || whole != nil {
						return c25RowRd{}, false
					}
					whole = y
				case *ssa.FieldAddr:
					for _, rr := range *y.Referrers() {
						if u, isU := rr.(*ssa.UnOp); isU && u.Op == token.MUL {
							continue
						}
						if _, isD := rr.(*ssa.DebugRef); isD {
							continue
						}
						return c25RowRd{}, false
					}
				case *ssa.DebugRef:
				case *ssa.UnOp:
				default:
					return c25RowRd{}, false
				}
			}
			if whole == nil || !an.Dominates(whole, x) {
				return c25RowRd{}, false
			}
			s0, i0, ok := elemLoad(whole.Val)
			if !ok {
				return c25RowRd{}, false
			}
			S, idx = s0, i0
		default:
			return c25RowRd{}, false
		}
	default:
		return c25RowRd{}, false
	}
	if sl, ok := S.(*ssa.Slice); ok {
		S = sl.X
	}
	arr, ok := S.(*ssa.Alloc)
	if !ok {
		return c25RowRd{}, false
	}
	return c25RowRd{arr, idx, fld}, true
}

// c25TableRows: arr is a local array of structs filled once, element by element at constant indices (a slice or
// array literal) and afterwards only read (indexed, len) through arr[:]; returns per row the value stored in each
// field.
func c25TableRows(arr *ssa.Alloc) ([]map[int]ssa.Value, bool) {
	return c25TableRowsOpt(arr, false)
}

// c25TableRowsOpt: with asVarargs the array may (only) be handed to a builtin append as its variadic part.
func c25TableRowsOpt(arr *ssa.Alloc, asVarargs bool) ([]map[int]ssa.Value, bool) {
	pt, ok := arr.Type().Underlying().(*types.Pointer)
	if !ok {
		return nil, false
	}
	at, ok := pt.Elem().Underlying().(*types.Array)
	if !ok {
		return nil, false
	}
	if _, isS := at.Elem().Underlying().(*types.Struct); !isS {
		return nil, false
	}
	rows := make([]map[int]ssa.Value, at.Len())
	for i := range rows {
		rows[i] = map[int]ssa.Value{}
	}
	filled := make([]bool, at.Len())
	set := func(k int64, f int, v ssa.Value) bool {
		if _, dup := rows[k][f]; dup {
			return false
		}
		rows[k][f] = v
		return true
	}
	readOnly := func(ia *ssa.IndexAddr) bool {
		for _, r := range *ia.Referrers() {
			switch y := r.(type) {
			case *ssa.UnOp:
				if y.Op != token.MUL {
					return false
				}
			case *ssa.FieldAddr:
				for _, rr := range *y.Referrers() {
					if u, isU := rr.(*ssa.UnOp); !isU || u.Op != token.MUL {
						if _, isD := rr.(*ssa.DebugRef); !isD {
							return false
						}
					}
				}
			case *ssa.DebugRef:
			default:
				return false
			}
		}
		return true
	}
	// fields of a composite-literal temporary: every field stored at most once, the temporary only loaded whole
	tmpFields := func(tmp *ssa.Alloc) (map[int]ssa.Value, bool) {
		out := map[int]ssa.Value{}
		for _, r := range *tmp.Referrers() {
			switch y := r.(type) {
			case *ssa.FieldAddr:
				for _, rr := range *y.Referrers() {
					st, isSt := rr.(*ssa.Store)
					if !isSt || st.Addr != ssa.Value(y) {
						if _, isD := rr.(*ssa.DebugRef); isD {
							continue
						}
						return nil, false
					}
					if _, dup := out[y.Field]; dup {
						return nil, false
					}
					out[y.Field] = st.Val
				}
			case *ssa.UnOp:
				if y.Op != token.MUL {
					return nil, false
				}
			case *ssa.DebugRef:
			default:
				return nil, false
			}
		}
		return out, true
	}
	for _, r := range *arr.Referrers() {
		switch x := r.(type) {
		case *ssa.IndexAddr:
			kc, isK := an.ConstOf(x.Index)
			if !isK || kc.Kind() != constant.Int {
				if !readOnly(x) {
					return nil, false
				}
				continue
			}
			k, _ := constant.Int64Val(kc)
			if k < 0 || k >= at.Len() {
				return nil, false
			}
			for _, rr := range *x.Referrers() {
				switch y := rr.(type) {
				case *ssa.Store:
					if y.Addr != ssa.Value(x) || filled[k] {
						return nil, false
					}
					ld, isL := y.Val.(*ssa.UnOp)
					if !isL || ld.Op != token.MUL {
						return nil, false
					}
					tmp, isA := ld.X.(*ssa.Alloc)
					if !isA {
						return nil, false
					}
					fs, okF := tmpFields(tmp)
					if !okF {
						return nil, false
					}
					for f, v := range fs {
						if !set(k, f, v) {
							return nil, false
						}
					}
					filled[k] = true
				case *ssa.FieldAddr:
					for _, r3 := range *y.Referrers() {
						st, isSt := r3.(*ssa.Store)
						if !isSt || st.Addr != ssa.Value(y) || !set(k, y.Field, st.Val) {
							return nil, false
						}
					}
				case *ssa.DebugRef:
				default:
					return nil, false
				}
			}
		case *ssa.Slice:
			if x.Low != nil || x.High != nil || x.Max != nil {
				return nil, false
			}
			for _, rr := range *x.Referrers() {
				switch y := rr.(type) {
				case *ssa.IndexAddr:
					if !readOnly(y) {
						return nil, false
					}
				case *ssa.Call:
					if _, isLen := an.IsBuiltinCall(y, "len"); !isLen {
						ap, isApp := an.IsBuiltinCall(y, "append")
						if !asVarargs || !isApp || len(ap.Call.Args) != 2 || ap.Call.Args[1] != ssa.Value(x) || ap.Call.Args[0] == ssa.Value(x) {
							return nil, false
						}
					}
				case *ssa.DebugRef:
				default:
					return nil, false
				}
			}
		case *ssa.DebugRef:
		default:
			return nil, false
		}
	}
	return rows, true
}

// c25RowLoop: the range loop over the whole table whose current element rd reads.
func c25RowLoop(fn *ssa.Function, rd *c25RowRd) *an.RangeLoop {
	for _, l := range an.RangeLoops(fn) {
		if l.Idx != rd.idx {
			continue
		}
		sl, ok := l.Slice.(*ssa.Slice)
		if !ok || sl.X != ssa.Value(rd.arr) || sl.Low != nil || sl.High != nil {
			return nil
		}
		return l
	}
	return nil
}

// c25FullScan: the table row read rd belongs to a range loop over the whole table; every success return lies
// behind the loop's exhaustion, and an iteration continues (or ends the loop) only over one of the edges eq.
func c25FullScan(fn *ssa.Function, rd *c25RowRd, eq an.EdgeSet, succ []*ssa.Return) bool {
	if len(eq) == 0 || len(succ) == 0 {
		return false
	}
	if l := c25RowLoop(fn, rd); l != nil {
		for _, r := range succ {
			if !l.After(r) {
				return false
			}
		}
		for _, pred := range l.Header.Preds {
			if !l.Contains(pred.Instrs[len(pred.Instrs)-1]) {
				continue // loop entry
			}
			if !c27EdgeGuarded(fn, pred, l.Header, eq) {
				return false
			}
		}
		return true
	}
	return false
}

// c25DecodedFrom: node = B.Build() where dagcbor.Decode(B, bytes.NewReader(X))
// was called in fn; returns X.
func c25DecodedFrom(fn *ssa.Function, node ssa.Value) (ssa.Value, bool) {
	bld, ok := c25RootCall(node, an.M("", "", "Build"))
	if !ok || !bld.Call.IsInvoke() {
		return nil, false
	}
	builder := bld.Call.Value
	for _, g := range an.WithClosures(c25Outer(fn)) {
		for _, call := range an.Calls(g, an.M("github.com/ipld/go-ipld-prime/codec/dagcbor", "", "Decode")) {
			args := call.Common().Args
			if len(args) != 2 || !c25SameValue(args[0], builder) {
				continue
			}
			rd, ok := c25RootCall(args[1], an.M("bytes", "", "NewReader"), an.M("bytes", "", "NewBuffer"))
			if !ok {
				continue
			}
			// Build must come after a successful decode
			if bld.Parent() == g && !an.OnNilEdgeOf(g, call, bld) {
				continue
			}
			return rd.Call.Args[0], true
		}
	}
	return nil, false
}

// c25DecodedSrc: node is the DAG-CBOR decoding of the bytes value returned (a value of fn). The decoding may be
// done in fn or by a package-local helper called from fn (helper parameters are translated back to the call's
// arguments).
func c25DecodedSrc(fn *ssa.Function, node ssa.Value, depth int) (ssa.Value, bool) {
	if src, ok := c25DecodedFrom(fn, node); ok {
		return src, true
	}
	if depth >= 2 || fn.Pkg == nil {
		return nil, false
	}
	hc, ok := c25RootCall(node, an.M(fn.Pkg.Pkg.Path(), "", ""))
	if !ok || !c25InPkgHelper(c25Outer(fn), hc.Call.StaticCallee()) {
		return nil, false
	}
	h := hc.Call.StaticCallee()
	var res ssa.Value
	n := 0
	for _, r := range an.Returns(h) {
		if len(r.Results) == 0 || an.IsNilConst(r.Results[0]) {
			continue
		}
		n++
		src, ok := c25DecodedSrc(h, r.Results[0], depth+1)
		if !ok {
			return nil, false
		}
		// express src in terms of fn: either a parameter of h, or <param>.GetData() / <param>.Data
		var lifted ssa.Value
		root := c25Root1(src)
		if prm, isP := root.(*ssa.Parameter); isP {
			for i, q := range h.Params {
				if q == prm && i < len(hc.Call.Args) {
					lifted = hc.Call.Args[i]
				}
			}
		} else if pbv, ok := c25PbOfData(src); ok {
			if prm, isP := c25Root1(pbv).(*ssa.Parameter); isP {
				for i, q := range h.Params {
					if q == prm && i < len(hc.Call.Args) {
						lifted = c25DataOf{hc.Call.Args[i]}
					}
				}
			}
		}
		if lifted == nil {
			return nil, false
		}
		if res != nil && !c25SameData(res, lifted) {
			return nil, false
		}
		res = lifted
	}
	return res, n > 0 && res != nil
}

// c25DataOf is a virtual value "<pb>.Data" produced when a helper reads the Data of a protobuf it was handed.
type c25DataOf struct{ ssa.Value }

func c25SameData(a, b ssa.Value) bool {
	da, oka := a.(c25DataOf)
	db, okb := b.(c25DataOf)
	if oka != okb {
		return false
	}
	if oka {
		return c25SameValue(da.Value, db.Value)
	}
	return c25SameValue(a, b)
}

// c25PbOfData: src is <pb>.GetData() or a load of <pb>.Data; returns pb.
func c25PbOfData(src ssa.Value) (ssa.Value, bool) {
	if d, ok := src.(c25DataOf); ok {
		return d.Value, true
	}
	r := c25Root1(src)
	if r == nil {
		return nil, false
	}
	if call, ok := an.IsCallTo(r, an.M(c25PB, "IpnsRecord", "GetData")); ok {
		return an.Recv(call), true
	}
	if u, ok := r.(*ssa.UnOp); ok && u.Op == token.MUL {
		if f, base := an.FieldOf(u.X); f != nil && f.Name() == "Data" && f.Pkg() != nil && f.Pkg().Path() == c25PB {
			return base, true
		}
	}
	return nil, false
}

// c25DecodedFromPB: node is the DAG-CBOR decoding of <pb>.Data; returns pb as a value of fn.
func c25DecodedFromPB(fn *ssa.Function, node ssa.Value, depth int) (ssa.Value, bool) {
	src, ok := c25DecodedSrc(fn, node, depth)
	if !ok {
		return nil, false
	}
	return c25PbOfData(src)
}

func c25Outer(fn *ssa.Function) *ssa.Function {
	for fn.Parent() != nil {
		fn = fn.Parent()
	}
	return fn
}

// ---------------------------------------------------------------- O4

// c25Accessors: nothing reachable (static calls inside package ipns) from a
// method of Record reads a legacy protobuf field.
func c25Accessors(c *an.Ctx, fPB *types.Var) {
	p := c.P
	ms := p.Methods("ipns", "Record")
	c.Min("O4 methods of Record", len(ms), 1)
	for _, m := range ms {
		seen := map[*ssa.Function]bool{}
		var reads []string
		var walk func(f *ssa.Function)
		walk = func(f *ssa.Function) {
			if f == nil || seen[f] || f.Blocks == nil {
				return
			}
			seen[f] = true
			for _, g := range an.WithClosures(f) {
				seen[g] = true
				an.Instrs(g, func(in ssa.Instruction) {
					if call, ok := in.(ssa.CallInstruction); ok {
						ci := an.Callee(call)
						if ci.Pkg == c25PB && ci.Recv == "IpnsRecord" && strings.HasPrefix(ci.Name, "Get") {
							if _, leg := c25Legacy[strings.TrimPrefix(ci.Name, "Get")]; leg {
								reads = append(reads, an.FuncName(g)+":"+ci.Name)
							}
						}
						if sc := call.Common().StaticCallee(); sc != nil && sc.Pkg != nil && sc.Pkg.Pkg.Path() == an.Mod+"/ipns" {
							walk(sc)
						}
					}
					if fa, ok := in.(*ssa.FieldAddr); ok {
						if f, _ := an.FieldOf(fa); f != nil && f.Pkg() != nil && f.Pkg().Path() == c25PB {
							if _, leg := c25Legacy[f.Name()]; leg {
								reads = append(reads, an.FuncName(g)+":."+f.Name())
							}
						}
					}
				})
			}
		}
		walk(m)
		sort.Strings(reads)
		c.Check(len(reads) == 0, "O4", "R-WHO", an.FuncName(m), "no legacy pb field read", m.Pos(),
			"method reads only signed data (no legacy protobuf field reachable)",
			"a method of Record reads unsigned legacy protobuf fields ("+strings.Join(reads, ", ")+"): an accessor can report a value that was not signed")
	}
}

// c25LegacyReaders (who-may-read): outside the generated protobuf package the
// legacy fields are read only by the match helper, by Validate's presence test
// (as operand of len) and by the function computing the V1 signature input.
func c25LegacyReaders(c *an.Ctx, validate, matchFn *ssa.Function) {
	p := c.P
	// functions whose result is handed to a Sign call (V1 signature data)
	signData := map[*ssa.Function]bool{}
	for _, fn := range p.PkgFuncs("ipns") {
		for _, call := range an.Calls(fn, an.M("", "", "Sign")) {
			if !call.Common().IsInvoke() {
				continue
			}
			if h, ok := c25RootCall(an.Args(call)[0], an.M("ipns", "-", "")); ok && h.Call.StaticCallee() != nil {
				signData[h.Call.StaticCallee()] = true
			}
		}
	}
	n := 0
	for _, fn := range p.Funcs {
		if fn.Pkg != nil && fn.Pkg.Pkg.Path() == c25PB {
			continue
		}
		var reads []ssa.Value
		var what []string
		an.Instrs(fn, func(in ssa.Instruction) {
			switch x := in.(type) {
			case *ssa.Call:
				ci := an.Callee(x)
				if ci.Pkg == c25PB && ci.Recv == "IpnsRecord" && strings.HasPrefix(ci.Name, "Get") {
					if _, leg := c25Legacy[strings.TrimPrefix(ci.Name, "Get")]; leg {
						reads = append(reads, x)
						what = append(what, ci.Name)
					}
				}
			case *ssa.UnOp:
				if x.Op == token.MUL {
					if f, _ := an.FieldOf(x.X); f != nil && f.Pkg() != nil && f.Pkg().Path() == c25PB {
						if _, leg := c25Legacy[f.Name()]; leg {
							reads = append(reads, x)
							what = append(what, "."+f.Name())
						}
					}
				}
			}
		})
		if len(reads) == 0 {
			continue
		}
		n++
		top := c25Outer(fn)
		ok := top == matchFn || signData[top]
		if !ok {
			// a presence test (the value is only ever the operand of len) exposes nothing, wherever it lives
			ok = true
			for _, r := range reads {
				for _, u := range *r.Referrers() {
					if call, isCall := u.(*ssa.Call); !isCall || an.Callee(call).Builtin != "len" {
						ok = false
					}
				}
			}
		}
		sort.Strings(what)
		c.Check(ok, "O4", "R-WHO", an.FuncName(fn), "legacy field readers", fn.Pos(), "reads legacy fields ("+strings.Join(what, ",")+") in an allowed role (match helper / presence test / V1 signature input)",
			"legacy protobuf fields ("+strings.Join(what, ",")+") are read outside the CBOR/protobuf match helper, Validate's presence test and the V1 signature input: unsigned values can influence results")
	}
	c.Min("O4 functions reading legacy fields", n, 1)
}

// c25NodeStores: every store to Record.node is the node decoded from, or
// encoded into, the Data bytes of the protobuf stored in the same Record.
func c25NodeStores(c *an.Ctx, fPB, fNode *types.Var) {
	p := c.P
	fData := c25PBField(p, "Data")
	n := 0
	fns := p.PkgFuncs("ipns")
	if c.Tier == "thorough" {
		fns = p.Funcs
	}
	for _, fn := range fns {
		for _, st := range an.FieldStores(fn, fNode) {
			n++
			name := an.FuncName(fn)
			_, base := an.FieldOf(st.Addr)
			pbs := an.StoresToField(fn, fPB, base)
			if len(pbs) == 0 {
				c.Bad("O4", "R-FLOW", name, "decoded node~protobuf Data", st.Pos(), "Record.node is stored without the protobuf of the same Record being set in this function: accessors may report values unrelated to the signed Data")
				continue
			}
			good, why := true, ""
			for _, ps := range pbs {
				pbv := ps.Val
				// (a) decoder idiom
				if srcPB, ok := c25DecodedFromPB(fn, st.Val, 0); ok {
					if c25SameValue(srcPB, pbv) {
						continue
					}
					good, why = false, "node decoded from the Data of "+c25Desc(srcPB)+", not from the Data of the protobuf stored in the Record"
					continue
				} else if src, ok := c25DecodedFrom(fn, st.Val); ok {
					good, why = false, "node decoded from "+c25Desc(src)+", not from the Data of the protobuf stored in the Record"
					continue
				}
				// (b) constructor idiom: pb.Data = enc(node)
				okb := false
				if fData != nil {
					for _, ds := range an.StoresToField(fn, fData, nil) {
						_, dbase := an.FieldOf(ds.Addr)
						if !c25StructIs(dbase, pbv) {
							continue
						}
						if enc, ok := c25RootCall(ds.Val, an.M("ipns", "-", "")); ok && len(enc.Call.Args) == 1 && c25SameValue(enc.Call.Args[0], st.Val) && c25EncodesParam(enc.Call.StaticCallee()) {
							okb = true
						}
					}
				}
				if !okb {
					good, why = false, "node "+c25Desc(st.Val)+" is neither decoded from pb.Data nor the node whose DAG-CBOR encoding is stored in pb.Data"
				}
			}
			c.Check(good, "O4", "R-FLOW", name, "decoded node~protobuf Data", st.Pos(), "Record.node corresponds to Record.pb.Data", "Record.node: "+why+" — accessors would report values that are not the signed ones")
		}
	}
	c.Min("O4 stores to Record.node", n, 1)
	// Record.pb is only ever set together with Record.node (same Record, same function): no later swap of the protobuf
	for _, fn := range fns {
		for _, ps := range an.FieldStores(fn, fPB) {
			_, base := an.FieldOf(ps.Addr)
			c.Check(len(an.StoresToField(fn, fNode, base)) > 0, "O4", "R-PAIR", an.FuncName(fn), "protobuf set together with decoded node", ps.Pos(), "protobuf and decoded node of a Record are set together",
				"Record.pb is stored without Record.node of the same Record being set in the same function: the signed/validated protobuf and the node the accessors read can belong to different records")
		}
	}
}

// c25StructIs: base addresses the struct object ptr points to, or a local
// composite-literal temporary that is copied as a whole into it
// (`x := T{...}` on an escaping x is built in a temporary and copied).
func c25StructIs(base, ptr ssa.Value) bool {
	if c25SameValue(base, ptr) {
		return true
	}
	al, ok := c25Root1(ptr).(*ssa.Alloc)
	if !ok || al.Referrers() == nil {
		return false
	}
	for _, r := range *al.Referrers() {
		if st, ok := r.(*ssa.Store); ok && st.Addr == al {
			if u, ok := st.Val.(*ssa.UnOp); ok && u.Op == token.MUL && u.X == base {
				return true
			}
		}
	}
	return false
}

// c25EncodesParam: f calls dagcbor.Encode(param0, ...).
func c25EncodesParam(f *ssa.Function) bool {
	if f == nil || len(f.Params) != 1 {
		return false
	}
	for _, call := range an.CallsDeep(f, an.M("github.com/ipld/go-ipld-prime/codec/dagcbor", "", "Encode")) {
		if c25RootsIn(call.Common().Args[0], []ssa.Value{f.Params[0]}) {
			return true
		}
	}
	return false
}

// ---------------------------------------------------------------- O5

func c25Keys(c *an.Ctx, validate *ssa.Function) {
	p := c.P
	const ip = "ipns"
	ex := p.Func(ip, "", "ExtractPublicKey")
	if !c.Need(ex != nil && len(ex.Params) == 2, "ipns.ExtractPublicKey(rec, name)") {
		return
	}
	exName := an.FuncName(ex)
	recP, nameP := ex.Params[0], ex.Params[1]
	// matchReq: true edges of name.Equal(NameFromPeer(IDFromPublicKey(k))) for the tracked key, in e.fn
	matchReq := func(extra func(e c25Env) an.EdgeSet) c25Req {
		return func(e c25Env) (an.EdgeSet, []ssa.CallInstruction) {
			namePath, keys := e.path["name"], e.vals["key"]
			out := an.EdgeSet{}
			if extra != nil {
				out = out.Union(extra(e))
			}
			if namePath == "" || len(keys) == 0 {
				return out, nil
			}
			return out.Union(an.CondEdges(e.fn, func(atom ssa.Value) (bool, bool) {
				eq, ok := atom.(*ssa.Call)
				if ok && an.M(c25Peer, "ID", "MatchesPublicKey").Match(an.Callee(eq)) && len(eq.Call.Args) == 2 {
					// name.Peer().MatchesPublicKey(key): the library's own IDFromPublicKey(key) == id
					pc, isP := c25RootCall(eq.Call.Args[0], an.M(ip, "Name", "Peer"))
					if isP && len(pc.Call.Args) == 1 && an.PathOf(pc.Call.Args[0]) == namePath && c25RootsIn(eq.Call.Args[1], keys) {
						return true, false
					}
					return false, false
				}
				if !ok || !an.M(ip, "Name", "Equal").Match(an.Callee(eq)) || len(eq.Call.Args) != 2 {
					return false, false
				}
				a, b := eq.Call.Args[0], eq.Call.Args[1]
				if an.PathOf(b) == namePath {
					a, b = b, a
				}
				if an.PathOf(a) != namePath {
					return false, false
				}
				nf, ok := c25RootCall(b, an.M(ip, "", "NameFromPeer"))
				if !ok {
					return false, false
				}
				idc, ok := c25RootCall(nf.Call.Args[0], an.M(c25Peer, "", "IDFromPublicKey"))
				if !ok || !c25RootsIn(idc.Call.Args[0], keys) || !an.OnNilEdgeOf(e.fn, idc, eq) {
					return false, false
				}
				return true, false
			})), nil
		}
	}
	exEnv := func(keys []ssa.Value) c25Env {
		return c25Env{fn: ex, path: map[string]string{"name": "p:" + nameP.Name()}, vals: map[string][]ssa.Value{"key": keys}}
	}
	// ---- an embedded key, when present, must hash to the name before ANY possibly-successful exit
	// (also the exits that return the key inlined in the name): otherwise a record for an
	// inlined-key name validates with a foreign embedded key and PubKey() reports a key that did not sign.
	{
		var embKeys, embErrs []ssa.Value
		for _, call := range an.Calls(ex, an.M(ip, "Record", "PubKey")) {
			if cv := an.CallValue(call); cv != nil && an.SameObj(an.Recv(call), recP) {
				embKeys = append(embKeys, an.Result(cv, 0)...)
				embErrs = append(embErrs, an.ErrResult(cv)...)
			}
		}
		if len(embKeys) == 0 {
			c.Bad("O5", "R-DOM", exName, "embedded key present => name match before success", ex.Pos(), "ExtractPublicKey no longer looks at the record's embedded public key: a foreign embedded key is never rejected")
		} else {
			absent := an.NilEdges(ex, embErrs, false).Union(an.NilEdges(ex, embKeys, true))
			// errors.Is(err, X) == true implies err != nil
			absent = absent.Union(an.CondEdges(ex, func(atom ssa.Value) (bool, bool) {
				ic, ok := atom.(*ssa.Call)
				if !ok || len(ic.Call.Args) != 2 {
					return false, false
				}
				if ci := an.Callee(ic); ci.Pkg == "errors" && (ci.Name == "Is" || ci.Name == "As") && c25RootsIn(ic.Call.Args[0], embErrs) {
					return true, false
				}
				return false, false
			}))
			mk := matchReq(func(e c25Env) an.EdgeSet {
				if e.fn == ex {
					return absent
				}
				return nil
			})
			succ, undec := c25SuccessReturns(ex, 1)
			good := true
			var at token.Pos = ex.Pos()
			for _, r := range append(append([]*ssa.Return{}, succ...), undec...) {
				if !c25Holds(exEnv(embKeys), r, 1, mk, 0) {
					good = false
					at = r.Pos()
				}
			}
			c.Check(good, "O5", "R-DOM", exName, "embedded key present => name match before success", at,
				"every exit that can succeed is reached either without a usable embedded key or on the true edge of name.Equal(NameFromPeer(IDFromPublicKey(embedded)))",
				"ExtractPublicKey can return without error while the record carries an embedded public key that was not checked against the name (e.g. the key inlined in the name is returned first): swapping the embedded key of a record no longer makes validation fail and Record.PubKey() reports a key that is not the signer's")
		}
	}
	n := 0
	for _, r := range an.Returns(ex) {
		if len(r.Results) != 2 || an.IsNilConst(r.Results[0]) {
			continue
		}
		n++
		v := r.Results[0]
		if call, ok := c25RootCall(v, an.M(c25Peer, "ID", "ExtractPublicKey")); ok {
			pc, ok2 := c25RootCall(an.Recv(call), an.M(ip, "Name", "Peer"))
			c.Check(ok2 && an.SameObj(an.Recv(pc), nameP), "O5", "R-FLOW", exName, "return name.Peer().ExtractPublicKey()", r.Pos(), "key derived from the name itself", "ExtractPublicKey returns a key extracted from "+an.PathOf(an.Recv(call))+", not from the name being validated")
			continue
		}
		if call, ok := c25RootCall(v, an.M(ip, "Record", "PubKey")); ok && an.SameObj(an.Recv(call), recP) {
			// guarded by name.Equal(NameFromPeer(IDFromPublicKey(v))) == true
			c.Check(c25Holds(exEnv(an.Result(call, 0)), r, 1, matchReq(nil), 0), "O5", "R-DOM", exName, "return embedded key <= name.Equal(NameFromPeer(IDFromPublicKey(key)))", r.Pos(),
				"embedded key returned only where its peer ID equals the name", "ExtractPublicKey can return the embedded public key without the true edge of name.Equal(NameFromPeer(IDFromPublicKey(pk))): a record signed by any key validates for any name")
			continue
		}
		c.Bad("O5", "R-FLOW", exName, "return key of unknown origin", r.Pos(), "ExtractPublicKey returns "+an.PathOf(v)+", which is neither the key inlined in the name nor the verified embedded key")
	}
	c.Min("O5 key-returning exits of ExtractPublicKey", n, 1)

	// callers of Validate inside the package: key obtained for the same record and name, result returned
	var keyProviders []*ssa.Function // unexported key look-up helpers found on the way (role: result is handed to Validate)
	nCallers := 0
	for _, fn := range p.PkgFuncs(ip) {
		for _, call := range an.Calls(fn, an.M(ip, "-", "Validate")) {
			cv := an.CallValue(call)
			if cv == nil {
				continue
			}
			nCallers++
			name := an.FuncName(fn)
			recA, pkA := cv.Call.Args[0], cv.Call.Args[1]
			kc, ok := c25RootCall(pkA, an.M(ip, "", ""))
			if ok && (kc.Call.StaticCallee() == nil || kc.Call.StaticCallee().Blocks == nil || len(an.Args(kc)) != 2 || len(an.ErrResult(kc)) == 0) {
				ok = false
			}
			if ok && kc.Call.StaticCallee().Name() != "ExtractPublicKey" {
				keyProviders = append(keyProviders, kc.Call.StaticCallee())
			}
			if !ok {
				c.Bad("O5", "R-FLOW", name, "Validate(rec, key-for-name)", cv.Pos(), "Validate is called with a key ("+an.PathOf(pkA)+") that is not obtained from ExtractPublicKey/getPublicKey for the name")
				continue
			}
			kargs := an.Args(kc)
			good := c25SameValue(kargs[0], recA) && an.OnNilEdgeOf(fn, kc, cv)
			c.Check(good, "O5", "R-FLOW", name, "Validate(rec, key-for-name)", cv.Pos(), "key extracted for the same record on the nil edge", "Validate is called with a key extracted for another record or without checking the extraction error")
			// the name: a parameter of type Name, or parsed from the routing key parameter on the nil edge
			nm := kargs[1]
			okName, why := false, an.PathOf(nm)
			if _, isParam := nm.(*ssa.Parameter); isParam {
				okName = true
			} else if nc, ok := c25RootCall(nm, an.M(ip, "", "NameFromRoutingKey")); ok {
				_, fromParam := c25Root1(nc.Call.Args[0]).(*ssa.Parameter)
				okName = fromParam && an.OnNilEdgeOf(fn, nc, kc)
				why = "NameFromRoutingKey(" + an.PathOf(nc.Call.Args[0]) + ")"
			}
			c.Check(okName, "O5", "R-FLOW", name, "name of the key lookup", cv.Pos(), "name is the caller's name / parsed from the routing key", "the key is looked up for "+why+", not for the name the record is validated against")
			// result of Validate is returned
			ret := false
			for _, r := range an.Returns(fn) {
				for _, res := range r.Results {
					if c25RootsIn(res, []ssa.Value{cv}) {
						ret = true
					}
				}
			}
			c.Check(ret, "O5", "R-FLOW", name, "return Validate(...)", cv.Pos(), "result of Validate is returned", "the result of Validate is dropped: an invalid record is reported valid")
		}
	}
	c.Min("O5 in-package callers of Validate", nCallers, 1)

	// getPublicKey: non-nil key results come from ExtractPublicKey(r, name) on its nil edge or from KeyBook.PubKey(name.Peer())
	for _, gp := range keyProviders {
		if len(gp.Params) < 2 {
			continue
		}
		gname := an.FuncName(gp)
		rP, nP := gp.Params[len(gp.Params)-2], gp.Params[len(gp.Params)-1]
		for _, r := range an.Returns(gp) {
			if len(r.Results) != 2 || an.IsNilConst(r.Results[0]) {
				continue
			}
			for _, root := range an.Roots(r.Results[0], nil) {
				if call, ok := c25RootCall(root, an.M(ip, "", "ExtractPublicKey")); ok {
					a := an.Args(call)
					good := an.SameObj(a[0], rP) && an.SameObj(a[1], nP) && an.GuardedBy(gp, nil, r, an.NilEdges(gp, an.ErrResult(call), true))
					c.Check(good, "O5", "R-DOM", gname, "return ExtractPublicKey(r,name)", r.Pos(), "extracted key returned on the nil edge", "getPublicKey returns the result of ExtractPublicKey for other arguments or without its error being nil")
				} else if call, ok := c25RootCall(root, an.M("", "KeyBook", "PubKey")); ok {
					// the key book is consulted only where the record/name carry no key at all
					var exErrs []ssa.Value
					for _, ec := range an.Calls(gp, an.M(ip, "", "ExtractPublicKey")) {
						exErrs = append(exErrs, an.ErrResult(ec)...)
					}
					isExErr := func(v ssa.Value) bool { return len(exErrs) > 0 && c25RootsIn(v, exErrs) }
					isNoKey := func(v ssa.Value) bool {
						g, ok := c26GlobalOf(c28Root(v))
						return ok && g.Name() == "ErrNoPublicKey"
					}
					noKey := c25RelEdges(gp, isExErr, isNoKey, c25EQ, 0).Union(an.CondEdges(gp, func(atom ssa.Value) (bool, bool) {
						ic, ok := atom.(*ssa.Call)
						if !ok || len(ic.Call.Args) != 2 {
							return false, false
						}
						if ci := an.Callee(ic); ci.Pkg == "errors" && ci.Name == "Is" && isExErr(ic.Call.Args[0]) && isNoKey(ic.Call.Args[1]) {
							return true, false
						}
						return false, false
					}))
					c.Check(len(noKey) > 0 && an.GuardedBy(gp, nil, call, noKey), "O5", "R-DOM", gname, "KeyBook only on ErrNoPublicKey", call.Pos(), "key book consulted only where ExtractPublicKey reported peer.ErrNoPublicKey",
						"getPublicKey falls back to the key book on an edge where ExtractPublicKey's error is not known to be peer.ErrNoPublicKey: a record whose embedded key does not match the name (ErrPublicKeyMismatch) or is malformed is validated with the key-book key instead of being rejected")
					pc, ok2 := c25RootCall(an.Args(call)[0], an.M(ip, "Name", "Peer"))
					c.Check(ok2 && an.SameObj(an.Recv(pc), nP), "O5", "R-FLOW", gname, "return KeyBook.PubKey(name.Peer())", r.Pos(), "key looked up for the peer of the name", "getPublicKey looks the key up for "+an.PathOf(an.Args(call)[0])+", not for name.Peer()")
				} else {
					c.Bad("O5", "R-FLOW", gname, "return key of unknown origin", r.Pos(), "getPublicKey returns "+an.PathOf(root)+", neither ExtractPublicKey(r,name) nor KeyBook.PubKey(name.Peer())")
				}
			}
		}
	}
}

// ---------------------------------------------------------------- deep guards (helper-following)

// c25PBName is the name of the (unexported) field of ipns.Record that holds the protobuf; it is discovered by type
// (c25RecordFields) and only used to spell access paths.
var c25PBName = "pb"

// c25NodeName: same for the field holding the decoded node.
var c25NodeName = "node"

// c25RecordFields finds the fields of ipns.Record by role: the one of type *pb.IpnsRecord and the one holding the
// decoded DAG-CBOR node (an interface type named Node).
func c25RecordFields(p *an.Prog) (pb, node *types.Var) {
	n := p.Named("ipns", "Record")
	if n == nil {
		return nil, nil
	}
	st, ok := n.Underlying().(*types.Struct)
	if !ok {
		return nil, nil
	}
	for i := 0; i < st.NumFields(); i++ {
		f := st.Field(i)
		if an.TypeIs(f.Type(), c25PB, "IpnsRecord") {
			pb = f
			continue
		}
		if _, isIface := f.Type().Underlying().(*types.Interface); isIface {
			if nt, ok := types.Unalias(f.Type()).(*types.Named); ok && nt.Obj().Name() == "Node" {
				node = f
			}
		}
	}
	if pb != nil {
		c25PBName = pb.Name()
	}
	if node != nil {
		c25NodeName = node.Name()
	}
	return
}

// c25Env is a function together with the translation of the tracked roles into it: access paths
// ("p:rec", "p:rec.pb") and/or sets of SSA values.
type c25Env struct {
	fn   *ssa.Function
	path map[string]string
	vals map[string][]ssa.Value
}

// c25Req builds, inside e.fn, the CFG edges on which a fact is established, plus calls whose successful (nil)
// result establishes it (so that `return thatCall(...)` counts).
type c25Req func(e c25Env) (an.EdgeSet, []ssa.CallInstruction)

func c25InPkgHelper(from, h *ssa.Function) bool {
	return h != nil && h.Blocks != nil && h.Pkg != nil && from.Pkg != nil && h.Pkg == from.Pkg && h.Parent() == nil && h != from
}

// c25Translate maps the roles of e through a static call into the callee.
func c25Translate(e c25Env, call ssa.CallInstruction, h *ssa.Function) (c25Env, bool) {
	ne := c25Env{fn: h, path: map[string]string{}, vals: map[string][]ssa.Value{}}
	any := false
	for i, a := range call.Common().Args {
		if i >= len(h.Params) {
			break
		}
		ap := an.PathOf(a)
		pp := "p:" + h.Params[i].Name()
		for role, rp := range e.path {
			if rp == "" || ap != rp {
				continue
			}
			ne.path[role] = pp
			any = true
			if role == "rec" {
				ne.path["pb"] = pp + "." + c25PBName
			}
		}
		for role, vs := range e.vals {
			if len(vs) > 0 && c25RootsIn(a, vs) {
				ne.vals[role] = append(ne.vals[role], h.Params[i])
				ne.path[role] = pp
				any = true
			}
		}
	}
	return ne, any
}

// c25EnvFamily: e and the package-local helpers reachable through calls that hand a tracked role on (depth 2).
func c25EnvFamily(e c25Env) []c25Env {
	out := []c25Env{e}
	seen := map[*ssa.Function]bool{e.fn: true}
	var walk func(cur c25Env, depth int)
	walk = func(cur c25Env, depth int) {
		if depth >= 2 {
			return
		}
		for _, call := range an.AllCalls(cur.fn) {
			h := call.Common().StaticCallee()
			if !c25InPkgHelper(cur.fn, h) || seen[h] {
				continue
			}
			if ne, ok := c25Translate(cur, call, h); ok {
				seen[h] = true
				out = append(out, ne)
				walk(ne, depth+1)
			}
		}
	}
	walk(e, 0)
	return out
}

// c25TailOf: the error (or bool) operand of r at idx is directly the result of call.
func c25TailOf(r *ssa.Return, idx int, call ssa.CallInstruction) bool {
	cv := an.CallValue(call)
	if cv == nil || idx >= len(r.Results) {
		return false
	}
	n := cv.Call.Signature().Results().Len()
	return c25RootsIn(r.Results[idx], an.Result(cv, n-1))
}

// c25Holds: on every path on which return r of e.fn succeeds (its operand idx is nil / true), the fact described by
// mk has been established — by edges in e.fn, by a tail-returned call, or inside a package-local helper whose own
// successful returns all establish it and whose success guards r.
func c25Holds(e c25Env, r *ssa.Return, idx int, mk c25Req, depth int) bool {
	edges, nilCalls := mk(e)
	if len(edges) > 0 && an.GuardedBy(e.fn, nil, r, edges) {
		return true
	}
	for _, call := range nilCalls {
		if c25TailOf(r, idx, call) && an.Dominates(call, r) {
			return true
		}
	}
	if depth >= 2 {
		return false
	}
	// several helpers may each cover part of the paths: cut the edges established so far and require that the
	// remaining paths to r all pass a covering helper
	cut := an.EdgeSet{}.Union(edges)
	covered := false
	for _, call := range an.AllCalls(e.fn) {
		h := call.Common().StaticCallee()
		cv := an.CallValue(call)
		if cv == nil || !c25InPkgHelper(e.fn, h) {
			continue
		}
		res := cv.Call.Signature().Results()
		if res.Len() == 0 {
			continue
		}
		last := res.At(res.Len() - 1).Type()
		isErr := an.IsErrorType(last)
		isBool := false
		if b, ok := last.Underlying().(*types.Basic); ok && b.Kind() == types.Bool {
			isBool = true
		}
		if !isErr && !isBool {
			continue
		}
		ne, ok := c25Translate(e, call, h)
		if !ok {
			continue
		}
		hidx := res.Len() - 1
		all := true
		n := 0
		for _, hr := range an.Returns(h) {
			if hidx >= len(hr.Results) {
				continue
			}
			v := hr.Results[hidx]
			if isErr {
				if !an.IsNilConst(v) && c25AllKnownNonNil(h, v, hr) {
					continue // failure return
				}
			} else if k, isK := an.ConstOf(v); isK && k.Kind() == constant.Bool && !constant.BoolVal(k) {
				continue // returns false
			}
			n++
			if !c25Holds(ne, hr, hidx, mk, depth+1) {
				all = false
			}
		}
		if !all || n == 0 {
			continue
		}
		// the helper establishes the fact whenever it succeeds
		if c25TailOf(r, idx, call) && an.Dominates(call, r) {
			return true
		}
		var okEdges an.EdgeSet
		if isErr {
			okEdges = an.NilEdges(e.fn, an.ErrResult(cv), true)
		} else {
			okEdges = an.BoolEdges(e.fn, an.Result(cv, hidx), true)
		}
		cut = cut.Union(okEdges)
		covered = true
	}
	return covered && len(cut) > 0 && an.GuardedBy(e.fn, nil, r, cut)
}

// c25AllKnownNonNil: every provenance root of error value v is a known non-nil error at return at.
func c25AllKnownNonNil(fn *ssa.Function, v ssa.Value, at ssa.Instruction) bool {
	rs := an.Roots(v, nil)
	if len(rs) == 0 {
		return false
	}
	for _, r := range rs {
		if an.IsNilConst(r) || !c25KnownNonNilErr(fn, r, at) {
			return false
		}
	}
	return true
}

// c25LooksLikeMatch: f reads legacy protobuf fields of its parameter and looks CBOR keys up (the match helper's role).
func c25LooksLikeMatch(f *ssa.Function) bool {
	reads, lookups := false, false
	for _, g := range an.WithClosures(f) {
		for _, call := range an.AllCalls(g) {
			ci := an.Callee(call)
			if ci.Pkg == c25PB && ci.Recv == "IpnsRecord" {
				if _, leg := c25Legacy[strings.TrimPrefix(ci.Name, "Get")]; leg {
					reads = true
				}
			}
			if call.Common().IsInvoke() && call.Common().Method.Name() == "LookupByString" {
				lookups = true
			}
			if h := call.Common().StaticCallee(); c25InPkgHelper(f, h) {
				for _, c2 := range an.AllCalls(h) {
					if c2.Common().IsInvoke() && c2.Common().Method.Name() == "LookupByString" {
						lookups = true
					}
				}
			}
		}
	}
	return reads && lookups
}

// ---------------------------------------------------------------- shared helpers (impl-g: C25..C29)

// relation masks over the three outcomes of comparing A with B
const (
	c25LT = 1
	c25EQ = 2
	c25GT = 4
	c25LE = c25LT | c25EQ
	c25GE = c25GT | c25EQ
	c25NE = c25LT | c25GT
)

func c25OpMask(op token.Token) int {
	switch op {
	case token.LSS:
		return c25LT
	case token.LEQ:
		return c25LE
	case token.GTR:
		return c25GT
	case token.GEQ:
		return c25GE
	case token.EQL:
		return c25EQ
	case token.NEQ:
		return c25NE
	}
	return 0
}

func c25Swap(m int) int {
	r := m & c25EQ
	if m&c25LT != 0 {
		r |= c25GT
	}
	if m&c25GT != 0 {
		r |= c25LT
	}
	return r
}

// c25RelEdges returns the CFG edges on which the relation between a value
// satisfying isA and one satisfying isB is known to lie within `want`
// (normalised over negation and operand order). `impossible` lists outcomes
// that cannot occur (e.g. len(x) < 0).
func c25RelEdges(fn *ssa.Function, isA, isB func(ssa.Value) bool, want, impossible int) an.EdgeSet {
	return an.CondEdges(fn, func(atom ssa.Value) (bool, bool) {
		b, ok := atom.(*ssa.BinOp)
		if !ok {
			return false, false
		}
		k := c25OpMask(b.Op)
		if k == 0 {
			return false, false
		}
		switch {
		case isA(b.X) && isB(b.Y):
		case isA(b.Y) && isB(b.X):
			k = c25Swap(k)
		default:
			return false, false
		}
		t := k &^ impossible
		f := (7 &^ k) &^ impossible
		return t&^want == 0, f&^want == 0
	})
}

func c25IsInt(n int64) func(ssa.Value) bool {
	return func(v ssa.Value) bool {
		k, ok := an.ConstOf(v)
		if !ok || k.Kind() != constant.Int {
			return false
		}
		x, exact := constant.Int64Val(k)
		return exact && x == n
	}
}

func c25ConstInt(p *an.Prog, rel, name string) (int64, bool) {
	pk := p.Pkg(rel)
	if pk == nil {
		return 0, false
	}
	k, ok := pk.Types.Scope().Lookup(name).(*types.Const)
	if !ok || k.Val().Kind() != constant.Int {
		return 0, false
	}
	return constant.Int64Val(k.Val())
}

func c25ConstString(p *an.Prog, rel, name string) (string, bool) {
	pk := p.Pkg(rel)
	if pk == nil {
		return "", false
	}
	k, ok := pk.Types.Scope().Lookup(name).(*types.Const)
	if !ok || k.Val().Kind() != constant.String {
		return "", false
	}
	return constant.StringVal(k.Val()), true
}

// c25Desc renders a value for reports: calls by callee, the rest by access path.
func c25Desc(v ssa.Value) string {
	if r := c25Root1(v); r != nil {
		v = r
	}
	if e, ok := v.(*ssa.Extract); ok {
		v = e.Tuple
	}
	if call, ok := v.(*ssa.Call); ok {
		ci := an.Callee(call)
		if rv := an.Recv(call); rv != nil {
			return c25Desc(rv) + "." + ci.Name + "()"
		}
		return ci.String() + "(...)"
	}
	return an.PathOf(v)
}

// c25Root1 returns the single provenance root of v (through conversions,
// extracts of type asserts, phis and local cells), or nil if there are several.
func c25Root1(v ssa.Value) ssa.Value {
	rs := c29RootsF(v, 0) // also through fields of local struct variables (values carried in a small local struct)
	if len(rs) != 1 {
		return nil
	}
	return rs[0]
}

// c25RootCall: v derives (only) from the result of a call matching ms.
func c25RootCall(v ssa.Value, ms ...an.Matcher) (*ssa.Call, bool) {
	r := c25Root1(v)
	if r == nil {
		return nil, false
	}
	return an.IsCallTo(r, ms...)
}

func c25RootBuiltin(v ssa.Value, name string) (*ssa.Call, bool) {
	r := c25Root1(v)
	call, ok := r.(*ssa.Call)
	if !ok || an.Callee(call).Builtin != name {
		return nil, false
	}
	return call, true
}

// c25RootsIn: every provenance root of v is one of set.
func c25RootsIn(v ssa.Value, set []ssa.Value) bool {
	rs := c29RootsF(v, 0)
	if len(rs) == 0 {
		return false
	}
	for _, r := range rs {
		found := false
		for _, s := range set {
			if r == s {
				found = true
			}
		}
		if !found {
			return false
		}
	}
	return true
}

// c25SameValue: a and b denote the same value: same single root or same access path.
func c25SameValue(a, b ssa.Value) bool {
	if a == b {
		return true
	}
	ra, rb := c25Root1(a), c25Root1(b)
	if ra != nil && ra == rb {
		return true
	}
	if ra != nil && rb != nil {
		return an.PathOf(ra) == an.PathOf(rb)
	}
	return false
}

// c25IsPbRead: v is <pbPath>.Get<field>() or a load of <pbPath>.<field>.
func c25IsPbRead(v ssa.Value, field, pbPath string) bool {
	r := c25Root1(v)
	if r == nil {
		return false
	}
	if call, ok := an.IsCallTo(r, an.M(c25PB, "IpnsRecord", "Get"+field)); ok {
		return an.PathOf(an.Recv(call)) == pbPath
	}
	if u, ok := r.(*ssa.UnOp); ok && u.Op == token.MUL {
		if f, base := an.FieldOf(u.X); f != nil && f.Name() == field && f.Pkg() != nil && f.Pkg().Path() == c25PB {
			return an.PathOf(base) == pbPath
		}
	}
	return false
}

func c25PBField(p *an.Prog, name string) *types.Var {
	pk := p.Pkg("ipns")
	if pk == nil {
		return nil
	}
	for _, imp := range pk.Types.Imports() {
		if imp.Path() != c25PB {
			continue
		}
		tn, ok := imp.Scope().Lookup("IpnsRecord").(*types.TypeName)
		if !ok {
			return nil
		}
		st, ok := tn.Type().Underlying().(*types.Struct)
		if !ok {
			return nil
		}
		for i := 0; i < st.NumFields(); i++ {
			if st.Field(i).Name() == name {
				return st.Field(i)
			}
		}
	}
	return nil
}

// c25SuccessReturns classifies the returns of fn by the error result at idx:
// success (nil constant), failure (known non-nil: global error values, error
// constructors, values tested non-nil on the way) — omitted —, or undecided.
func c25SuccessReturns(fn *ssa.Function, idx int) (succ, undecided []*ssa.Return) {
	for _, r := range an.Returns(fn) {
		if idx >= len(r.Results) {
			continue
		}
		v := r.Results[idx]
		if an.IsNilConst(v) {
			succ = append(succ, r)
			continue
		}
		allFail, allNil := true, true
		for _, root := range an.Roots(v, nil) {
			if an.IsNilConst(root) {
				allFail = false
				continue
			}
			allNil = false
			if !c25KnownNonNilErr(fn, root, r) {
				allFail = false
			}
		}
		switch {
		case allFail:
		case allNil:
			succ = append(succ, r)
		default:
			undecided = append(undecided, r)
		}
	}
	return
}

func c25KnownNonNilErr(fn *ssa.Function, v ssa.Value, at ssa.Instruction) bool {
	switch x := v.(type) {
	case *ssa.UnOp:
		if x.Op == token.MUL {
			if _, ok := x.X.(*ssa.Global); ok {
				return true // package-level error value (Err...)
			}
		}
	case *ssa.Call:
		ci := an.Callee(x)
		if ci.Pkg == "fmt" && ci.Name == "Errorf" || ci.Pkg == "errors" && (ci.Name == "New" || ci.Name == "Join") {
			return true
		}
	case *ssa.Alloc:
		return true
	}
	if v.Parent() == fn {
		return an.GuardedBy(fn, nil, at, an.NilEdges(fn, []ssa.Value{v}, false))
	}
	return false
}
