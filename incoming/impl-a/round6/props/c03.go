package props

import (
	"fmt"
	"go/constant"
	"go/token"
	"go/types"

	"golang.org/x/tools/go/ssa"

	"verif/checker/an"
)

func init() {
	register("C03", Prop{
		Pkgs: []string{"./blockstore", "./filestore"},
		Explain: "Decided (structural necessary conditions of 'verified reads'): " +
			"O1 in ValidatingBlockstore.Get and in every filestore function that reads external bytes into a buffer it returns (readFileDataObj, readURLDataObj) each return of non-nil data is reachable only after <requested CID>.Prefix().Sum(<the very bytes returned>) succeeded and its result compared Equal to the requested CID (the CID parameter / cid.NewCidV1(Raw, <multihash parameter>)); every return without data carries an error; " +
			"O2 readDataObj only forwards the results of verified readers called with its own multihash, and FileManager.Get builds the block from readDataObj(c.Hash(), getDataObj(c.Hash())) of the same c and labels it c; " +
			"O3 error mapping: a hash mismatch is reported as CorruptReferenceError{StatusFileChanged}; every failure of opening/reading the backing file or URL is reported as a CorruptReferenceError, with StatusFileNotFound on the os.IsNotExist edge and StatusFileChanged on the io.EOF / io.ErrUnexpectedEOF edges. " +
			"O4 ownership: the verified byte slice returned by a reader (and wrapped by FileManager.Get into the block) derives from memory allocated for that result (make, a copy, io.ReadAll ..., or a package helper of which the same holds) and is never handed to something that retains or recycles it (sync.Pool.Put incl. deferred, package variables, fields of longer-lived objects, maps, channels; through helpers too). " +
			"NOT decided: that the hash function itself is collision resistant, TOCTOU between verification and use by the caller, behaviour of http.DefaultClient, mutation of the buffer by other goroutines.",
		Assume:    []string{"cid.Prefix.Sum hashes exactly the bytes it is given", "cid.Cid.Equals is equality"},
		Technique: "verify-before-return: condition-edge dominance (R-DOM) + value provenance (R-FLOW); error-mapping table on condition edges (R-TABLE)",
		Run:       runC03,
	})
}

// c03Verified checks that return r of fn returns `data` only after it was
// hashed with the prefix of the requested CID and found equal.
func c03Verified(fn *ssa.Function, r *ssa.Return, data ssa.Value, requested func(ssa.Value) bool) (bool, string) {
	why := "no <requested>.Prefix().Sum(<returned bytes>) call"
	// a copy of verified bytes made after the verification (bytes.Clone(v),
	// append([]byte(nil), v...)) is as good as v itself
	if src := c03CopySource(data); src != nil {
		if ok, _ := c03Verified(fn, r, src, requested); ok {
			return true, ""
		}
	}
	// a package-local verifier helper applied to the same bytes and the requested CID/multihash
	for _, call := range an.AllCalls(fn) {
		h := call.Common().StaticCallee()
		v, ok := c03Verifiers[h]
		if !ok || h == fn {
			continue
		}
		args := call.Common().Args
		if !an.SameObj(args[v.bytesIdx], data) {
			why = "the verifier helper is applied to other bytes than the ones returned"
			continue
		}
		if !requested(args[v.idIdx]) && !c03ReqMh(fn, args[v.idIdx]) {
			why = "the verifier helper is not given the requested CID"
			continue
		}
		if !an.OnNilEdgeOf(fn, call, r) {
			why = "data can be returned although the verifier helper failed"
			continue
		}
		return true, ""
	}
	for _, sc := range an.Calls(fn, an.M(c01Cid, "Prefix", "Sum")) {
		sum := an.CallValue(sc)
		if sum == nil {
			continue
		}
		// bytes hashed = bytes returned
		arg := an.Args(sc)[0]
		same := an.SameObj(arg, data)
		if !same {
			for _, ar := range an.Roots(arg, nil) {
				if rc, ok := ar.(*ssa.Call); ok && an.Callee(rc).Name == "RawData" && an.Recv(rc) != nil {
					al := an.Aliases(an.Roots(data, nil)...)
					if an.SameObj(an.Recv(rc), data) || al[an.Recv(rc)] {
						same = true
					}
				}
			}
		}
		if !same {
			why = "the bytes hashed are not the bytes returned"
			continue
		}
		// prefix of the requested CID
		pc, ok := an.IsCallTo(c01First(an.Roots(an.Recv(sc), nil)), an.M(c01Cid, "Cid", "Prefix"))
		if !ok || !requested(pc.Call.Args[0]) {
			why = "the hash is not computed with the prefix of the requested CID"
			continue
		}
		sumCid := an.Aliases(an.Result(sc, 0)...)
		// equality test between the sum and the requested CID
		var eq []ssa.Value
		for _, ec := range an.Calls(fn, an.M(c01Cid, "Cid", "Equals")) {
			a, b := an.Recv(ec), an.Args(ec)[0]
			if (sumCid[a] && requested(b)) || (sumCid[b] && requested(a)) {
				if cv := an.CallValue(ec); cv != nil {
					eq = append(eq, cv)
				}
			}
		}
		edges := an.BoolEdges(fn, eq, true).Union(an.RelEdges(fn, func(v ssa.Value) bool { return sumCid[v] }, requested, an.RelEQ))
		if len(edges) == 0 {
			why = "the computed CID is never compared with the requested CID"
			continue
		}
		if !an.OnNilEdgeOf(fn, sc, r) {
			why = "data can be returned although Sum failed or was not executed"
			continue
		}
		if !an.GuardedBy(fn, sc, r, edges) {
			why = "data can be returned without the computed CID having compared equal to the requested one"
			continue
		}
		return true, ""
	}
	return false, why
}

// c03Raw: raw reader helpers of the filestore package (see runC03).
var c03Raw = map[*ssa.Function]bool{}

type c03Verifier struct{ idIdx, bytesIdx int }

// c03Verifiers: package-local helpers func(..., <cid or multihash>, ..., []byte, ...) error
// all of whose nil returns are verified in the sense of c03Verified.
var c03Verifiers = map[*ssa.Function]c03Verifier{}

// c03ReqMh: v is a multihash parameter of fn (the requested multihash handed on to a helper).
func c03ReqMh(fn *ssa.Function, v ssa.Value) bool {
	prm, ok := v.(*ssa.Parameter)
	return ok && prm.Parent() == fn && an.TypeIs(prm.Type(), c01MH, "Multihash")
}

// c03RequestedBy builds the "is the requested CID" predicate for an identity
// parameter that is a cid.Cid or a multihash.
func c03RequestedBy(prm *ssa.Parameter) func(ssa.Value) bool {
	if an.TypeIs(prm.Type(), c01Cid, "Cid") {
		return func(v ssa.Value) bool { return v == ssa.Value(prm) }
	}
	return func(v ssa.Value) bool {
		nc, ok := an.IsCallTo(c01First(an.Roots(v, nil)), an.M(c01Cid, "", "NewCidV1"))
		if !ok {
			return false
		}
		for _, r := range an.Roots(nc.Call.Args[1], nil) {
			if r != ssa.Value(prm) {
				return false
			}
		}
		return true
	}
}

func c03FindVerifiers(fns []*ssa.Function) {
	for _, fn := range fns {
		sg := fn.Signature
		if fn.Parent() != nil || sg.Results().Len() != 1 || !an.IsErrorType(sg.Results().At(0).Type()) {
			continue
		}
		idIdx, bytesIdx := -1, -1
		for i, prm := range fn.Params {
			switch {
			case an.TypeIs(prm.Type(), c01Cid, "Cid"), an.TypeIs(prm.Type(), c01MH, "Multihash"):
				idIdx = i
			case c03IsBytes(prm.Type()), an.TypeIs(prm.Type(), c01Blocks, "Block"):
				bytesIdx = i
			}
		}
		if idIdx < 0 || bytesIdx < 0 || len(an.Calls(fn, an.M(c01Cid, "Prefix", "Sum"))) == 0 {
			continue
		}
		requested := c03RequestedBy(fn.Params[idIdx])
		ok, n := true, 0
		for _, r := range an.Returns(fn) {
			if !an.IsNilErrReturn(r) || !an.Reaches(fn, nil, r, nil, nil) {
				continue
			}
			n++
			if v, _ := c03Verified(fn, r, fn.Params[bytesIdx], requested); !v {
				ok = false
			}
		}
		if ok && n > 0 {
			c03Verifiers[fn] = c03Verifier{idIdx, bytesIdx}
		}
	}
}

// c03CopySource: data is a fresh copy of another slice (bytes.Clone / slices.Clone /
// append(<nil or fresh empty>, v...)); returns that slice, or nil.
func c03CopySource(data ssa.Value) ssa.Value {
	rs := an.Roots(data, nil)
	if len(rs) != 1 {
		return nil
	}
	call, ok := rs[0].(*ssa.Call)
	if !ok {
		return nil
	}
	if ci := an.Callee(call); (ci.Pkg == "bytes" || ci.Pkg == "slices") && ci.Name == "Clone" && len(call.Call.Args) == 1 {
		return call.Call.Args[0]
	}
	if _, isApp := an.IsBuiltinCall(call, "append"); isApp && len(call.Call.Args) == 2 {
		if _, listed := an.AppendElems(call); listed {
			return nil
		}
		base := call.Call.Args[0]
		if an.IsNilConst(base) {
			return call.Call.Args[1]
		}
		if mk, isMk := c01First(an.Roots(base, nil)).(*ssa.MakeSlice); isMk {
			if k, isK := an.ConstOf(mk.Len); isK && k.String() == "0" {
				return call.Call.Args[1]
			}
		}
	}
	return nil
}

// c03FreshWhy: the byte slice v (in fn) is backed by memory allocated for it on
// this path and known to nobody else: make, a copy (Clone, append onto
// nil / an empty fresh slice, []byte(string)), io.ReadAll / os.ReadFile, or
// the result of a package function of which the same holds for every slice
// it returns (and which does not let them escape). Returns "" or the reason.
func c03FreshWhy(pkgFns []*ssa.Function, fn *ssa.Function, v ssa.Value, depth int) string {
	stop := &an.FlowOpts{StopAt: func(x ssa.Value) bool {
		if cv, ok := x.(*ssa.Convert); ok {
			if b, ok := cv.X.Type().Underlying().(*types.Basic); ok && b.Info()&types.IsString != 0 {
				return true
			}
		}
		return false
	}, Through: func(c *ssa.Call) ([]ssa.Value, bool) {
		// append(base, ...) keeps base's backing array when it has room
		if _, ok := an.IsBuiltinCall(c, "append"); ok {
			if src := c03CopySource(c); src != nil {
				return nil, false
			}
			return []ssa.Value{c.Call.Args[0]}, true
		}
		return nil, false
	}}
	rs := an.Roots(v, stop)
	if len(rs) == 0 {
		return "the slice has no producer"
	}
	for _, r := range rs {
		switch x := r.(type) {
		case *ssa.Const:
			if x.IsNil() {
				continue
			}
		case *ssa.MakeSlice, *ssa.Convert:
			continue
		case *ssa.Call, *ssa.Extract:
			var call *ssa.Call
			if c, ok := x.(*ssa.Call); ok {
				call = c
			} else if e := x.(*ssa.Extract); e.Index == 0 {
				call, _ = e.Tuple.(*ssa.Call)
			}
			if call == nil {
				break
			}
			if c03CopySource(call) != nil {
				continue
			}
			ci := an.Callee(call)
			if (ci.Pkg == "io" && ci.Name == "ReadAll") || (ci.Pkg == "os" && ci.Name == "ReadFile") {
				continue
			}
			if ci.Pkg == "bytes" && ci.Recv == "Buffer" && ci.Name == "Bytes" {
				if _, local := c01First(an.Roots(an.Recv(call), nil)).(*ssa.Alloc); local {
					continue
				}
			}
			if F := call.Call.StaticCallee(); F != nil && F.Blocks != nil && c01InFns(pkgFns, F) && depth < 3 && F != fn {
				n := 0
				bad := ""
				for _, ret := range an.Returns(F) {
					if !an.Reaches(F, nil, ret, nil, nil) || len(ret.Results) == 0 || !c03IsBytes(ret.Results[0].Type()) {
						continue
					}
					rv := an.RetVal(ret, 0)
					if an.IsNilConst(rv) {
						continue
					}
					n++
					if w := c03FreshWhy(pkgFns, F, rv, depth+1); w != "" {
						bad = "in " + F.Name() + ": " + w
					} else if w := c03EscapeWhy(pkgFns, F, rv, depth+1); w != "" {
						bad = "in " + F.Name() + ": " + w
					}
				}
				if n > 0 && bad == "" {
					continue
				}
				if bad != "" {
					return bad
				}
			}
		}
		return "the bytes come from " + an.PathOf(r) + ", which is not a buffer allocated for this result (recycled, shared or caller-visible memory)"
	}
	return ""
}

// c03EscapeWhy: the slice v (in fn) is handed to something that retains or
// recycles it: sync.Pool.Put (directly, or through the address of the
// variable holding it), a store into a global / a field / an element of a
// non-local object, a map, a channel — on any path, including deferred calls,
// or through a package helper that does so with its parameter.
func c03EscapeWhy(pkgFns []*ssa.Function, fn *ssa.Function, v ssa.Value, depth int) string {
	// values that share v's backing array, and the local cells holding them
	set := map[ssa.Value]bool{}
	cells := map[*ssa.Alloc]bool{}
	var add func(x ssa.Value)
	add = func(x ssa.Value) {
		if x == nil || set[x] {
			return
		}
		set[x] = true
		// backward: where x itself comes from (same backing array)
		switch y := x.(type) {
		case *ssa.Slice:
			add(y.X)
		case *ssa.ChangeType:
			add(y.X)
		case *ssa.MakeInterface:
			add(y.X)
		case *ssa.Phi:
			for _, e := range y.Edges {
				add(e)
			}
		case *ssa.UnOp:
			if y.Op == token.MUL {
				if cell, ok := y.X.(*ssa.Alloc); ok {
					cells[cell] = true
					for _, ref := range *cell.Referrers() {
						if st, ok := ref.(*ssa.Store); ok && st.Addr == ssa.Value(cell) {
							add(st.Val)
						}
					}
				}
			}
		}
		if refs := x.Referrers(); refs != nil {
			for _, ref := range *refs {
				switch y := ref.(type) {
				case *ssa.Slice:
					if y.X == x {
						add(y)
					}
				case *ssa.ChangeType:
					add(y)
				case *ssa.MakeInterface:
					add(y)
				case *ssa.Phi:
					add(y)
				case *ssa.Store:
					if y.Val == x {
						if cell, ok := y.Addr.(*ssa.Alloc); ok {
							cells[cell] = true
							for _, r2 := range *cell.Referrers() {
								if ld, ok := r2.(*ssa.UnOp); ok && ld.Op == token.MUL && ld.X == ssa.Value(cell) {
									add(ld)
								}
							}
						}
					}
				}
			}
		}
	}
	add(v)
	inSet := func(x ssa.Value) bool {
		if set[x] {
			return true
		}
		for _, r := range an.Roots(x, &an.FlowOpts{NoCells: true}) {
			if set[r] {
				return true
			}
			if al, ok := r.(*ssa.Alloc); ok && cells[al] {
				return true // the address of the variable that holds the slice
			}
		}
		return false
	}
	why := ""
	for _, g := range an.WithClosures(fn) {
		an.Instrs(g, func(in ssa.Instruction) {
			if why != "" {
				return
			}
			switch x := in.(type) {
			case *ssa.Store:
				if !set[x.Val] {
					return
				}
				switch a := x.Addr.(type) {
				case *ssa.Global:
					why = "it is stored in the package variable " + a.Name()
				case *ssa.FieldAddr:
					if _, local := c01First(an.Roots(a.X, nil)).(*ssa.Alloc); !local {
						f, _ := an.FieldOf(a)
						why = "it is stored in field " + f.Name() + " of a longer-lived object"
					}
				case *ssa.IndexAddr:
					if _, local := c01First(an.Roots(a.X, nil)).(*ssa.Alloc); !local {
						if _, isMk := c01First(an.Roots(a.X, nil)).(*ssa.MakeSlice); !isMk {
							why = "it is stored in an element of a non-local slice/array"
						}
					}
				}
			case *ssa.MapUpdate:
				if set[x.Value] {
					why = "it is stored in a map"
				}
			case *ssa.Send:
				if set[x.X] {
					why = "it is sent on a channel"
				}
			case ssa.CallInstruction:
				ci := an.Callee(x)
				for i, a := range x.Common().Args {
					if !inSet(a) {
						continue
					}
					if ci.Pkg == "sync" && ci.Recv == "Pool" && ci.Name == "Put" {
						why = "it is put back into a sync.Pool"
						if _, isDefer := x.(*ssa.Defer); isDefer {
							why = "it is put back into a sync.Pool by a deferred call"
						}
						return
					}
					if F := x.Common().StaticCallee(); F != nil && F.Blocks != nil && c01InFns(pkgFns, F) && depth < 2 && i < len(F.Params) && F != fn {
						if w := c03EscapeWhy(pkgFns, F, F.Params[i], depth+1); w != "" {
							why = "in " + F.Name() + ": " + w
							return
						}
					}
				}
			}
		})
	}
	return why
}

// c03Owned checks O4 for a function that returns verified bytes: every
// non-nil data return is a fresh allocation that does not escape.
func c03Owned(c *an.Ctx, pkgFns []*ssa.Function, fn *ssa.Function) {
	name := an.FuncName(fn)
	for _, r := range an.Returns(fn) {
		if !an.Reaches(fn, nil, r, nil, nil) || c03IsNilData(r, 0) {
			continue
		}
		data := an.RetVal(r, 0)
		why := c03FreshWhy(pkgFns, fn, data, 0)
		if why == "" {
			why = c03EscapeWhy(pkgFns, fn, data, 0)
		}
		c.Check(why == "", "O4", "R-OWN", name, "returned-bytes-owned", r.Pos(), "the verified bytes returned are a fresh allocation that nothing else retains",
			"the verified byte slice that is returned is not exclusively owned by the result ("+why+"): the buffer can be reused and overwritten after verification, so the caller ends up with bytes that no longer hash to the requested CID")
	}
}

// c03IsNilData: the data result of r is the nil constant.
func c03IsNilData(r *ssa.Return, i int) bool { return an.IsNilConst(an.RetVal(r, i)) }

func c03IsBytes(t types.Type) bool {
	s, ok := t.Underlying().(*types.Slice)
	return ok && types.Identical(s.Elem(), types.Typ[types.Byte])
}

func runC03(c *an.Ctx) {
	p := c.P

	c03Verifiers = map[*ssa.Function]c03Verifier{}
	c03NIO = 0
	c03FindVerifiers(p.PkgFuncs("blockstore"))
	c03FindVerifiers(p.PkgFuncs("filestore"))

	// ---- O1 ValidatingBlockstore
	if fn := p.Func("blockstore", "ValidatingBlockstore", "Get"); c.Need(fn != nil, "blockstore.ValidatingBlockstore.Get") {
		name := an.FuncName(fn)
		var cidPrm ssa.Value
		for _, prm := range fn.Params {
			if an.TypeIs(prm.Type(), c01Cid, "Cid") {
				cidPrm = prm
			}
		}
		requested := func(v ssa.Value) bool { return cidPrm != nil && v == cidPrm }
		n := 0
		for _, r := range an.Returns(fn) {
			if len(r.Results) != 2 || !an.Reaches(fn, nil, r, nil, nil) {
				continue
			}
			if c03IsNilData(r, 0) {
				c.Check(!an.IsNilConst(an.RetVal(r, 1)), "O1", "R-DOM", name, "no-data=>error", r.Pos(), "a return without a block carries an error",
					"ValidatingBlockstore.Get can return (nil, nil): a failed validation is not reported")
				continue
			}
			n++
			data := an.RetVal(r, 0)
			ok, why := c03Verified(fn, r, data, requested)
			// the block comes from the wrapped store's Get of the same CID
			if ok {
				for _, root := range an.Roots(data, nil) {
					gc, isGet := an.IsCallTo(root, an.M("", "", "Get"))
					if !isGet || !gc.Call.IsInvoke() || len(gc.Call.Args) != 2 || gc.Call.Args[1] != cidPrm {
						ok, why = false, "the block returned is not the wrapped store's answer for the requested CID"
					}
				}
			}
			c.Check(ok, "O1", "R-DOM", name, "return-block<=Sum(RawData)==requested", r.Pos(), "block returned only after its bytes hashed to the requested CID",
				"ValidatingBlockstore.Get can return a block whose bytes were not verified against the requested CID ("+why+")")
		}
		c.Min("O1 data returns of ValidatingBlockstore.Get", n, 1)
	}

	// ---- O1: no other method of ValidatingBlockstore hands out bytes of the wrapped store unverified
	if vb := p.Named("blockstore", "ValidatingBlockstore"); c.Need(vb != nil, "blockstore.ValidatingBlockstore") {
		if st, ok := vb.Underlying().(*types.Struct); ok {
			for _, m := range p.Methods("blockstore", "ValidatingBlockstore") {
				if m.Name() == "Get" {
					continue
				}
				for _, call := range an.AllCalls(m) {
					if !call.Common().IsInvoke() {
						continue
					}
					f, _ := an.FieldOf(c01LoadAddr(call.Common().Value))
					embedded := false
					for i := 0; i < st.NumFields(); i++ {
						if st.Field(i) == f {
							embedded = true
						}
					}
					mn := call.Common().Method.Name()
					if embedded && (mn == "Get" || mn == "View") {
						c.Bad("O1", "R-DOM", an.FuncName(m), "read-path "+mn+" bypasses validation", call.Pos(),
							"ValidatingBlockstore."+m.Name()+" reads block bytes from the wrapped store ("+mn+") without going through the validating Get: corrupted bytes are handed out unverified")
					}
				}
			}
		}
	}

	// ---- O2: Filestore.Get serves the requested CID from the plain store or from the verified FileManager
	if fg := p.Func("filestore", "Filestore", "Get"); c.Need(fg != nil, "filestore.Filestore.Get") {
		var cidPrm ssa.Value
		for _, prm := range fg.Params {
			if an.TypeIs(prm.Type(), c01Cid, "Cid") {
				cidPrm = prm
			}
		}
		n := 0
		for _, r := range an.Returns(fg) {
			if !an.Reaches(fg, nil, r, nil, nil) || c03IsNilData(r, 0) {
				continue
			}
			n++
			ok := true
			for _, root := range an.Roots(an.RetVal(r, 0), nil) {
				gc, isGet := an.IsCallTo(root, an.M("", "", "Get"))
				if !isGet || len(an.Args(gc)) != 2 || an.Args(gc)[1] != cidPrm {
					ok = false
				}
			}
			c.Check(ok, "O2", "R-FLOW", an.FuncName(fg), "return=Get(<requested cid>) of a sub-store", r.Pos(), "the block served is a sub-store's answer for the requested CID",
				"Filestore.Get returns a block that is not the blockstore's / FileManager's answer for the requested CID")
		}
		c.Min("O2 data returns of Filestore.Get", n, 1)
	}

	// ---- O1 filestore readers (role: functions with a []byte result that read external bytes)
	const fsPkg = "filestore"
	fsFns := p.PkgFuncs(fsPkg)
	if !c.Need(len(fsFns) > 0, "package filestore") {
		return
	}
	isReadCall := func(call ssa.CallInstruction) bool {
		ci := an.Callee(call)
		switch {
		case ci.Name == "ReadAt" || ci.Name == "Read":
			return true
		case ci.Pkg == "io" && (ci.Name == "ReadFull" || ci.Name == "ReadAll" || ci.Name == "ReadAtLeast"):
			return true
		case ci.Pkg == "os" && ci.Name == "ReadFile":
			return true
		}
		return false
	}
	readers := map[*ssa.Function]int{} // reader -> index of its multihash parameter
	// raw readers: unexported helpers that read external bytes into a buffer they
	// return but know no multihash; whoever returns their bytes is a reader
	raw := map[*ssa.Function]bool{}
	for changed := true; changed; {
		changed = false
		for _, fn := range fsFns {
			sg := fn.Signature
			if fn.Parent() != nil || sg.Results().Len() != 2 || !c03IsBytes(sg.Results().At(0).Type()) {
				continue
			}
			if _, done := readers[fn]; done || raw[fn] {
				continue
			}
			reads := false
			for _, call := range an.AllCalls(fn) {
				if isReadCall(call) || raw[call.Common().StaticCallee()] {
					reads = true
				}
			}
			if !reads {
				continue
			}
			mi := -1
			for i, prm := range fn.Params {
				if an.TypeIs(prm.Type(), c01MH, "Multihash") {
					mi = i
				}
			}
			if mi < 0 && an.IsLocalHelper(fn) && len(an.CallSitesOf(fsFns, fn)) > 0 {
				raw[fn] = true
			} else {
				readers[fn] = mi
			}
			changed = true
		}
	}
	c03Raw = raw
	c.Min("O1 filestore functions that read external bytes and return them", len(readers), 1)
	cChanged, cNotFound := c03Const(p, fsPkg, "StatusFileChanged"), c03Const(p, fsPkg, "StatusFileNotFound")
	c.Need(cChanged != nil && cNotFound != nil, "constants filestore.StatusFileChanged, StatusFileNotFound")
	verified := map[*ssa.Function]bool{}
	for _, fn := range fsFns {
		mi, isReader := readers[fn]
		if !isReader {
			continue
		}
		name := an.FuncName(fn)
		if mi < 0 {
			c.Bad("O1", "R-DOM", name, "requested-multihash-parameter", fn.Pos(), "a filestore function reads external bytes and returns them but has no multihash parameter to verify them against")
			continue
		}
		requested := c03RequestedBy(fn.Params[mi])
		allOK := true
		n := 0
		for _, r := range an.Returns(fn) {
			if !an.Reaches(fn, nil, r, nil, nil) {
				continue
			}
			if c03IsNilData(r, 0) {
				if !c.Check(!an.IsNilConst(an.RetVal(r, 1)), "O1", "R-DOM", name, "no-data=>error", r.Pos(), "a return without data carries an error",
					"a filestore reader can return (nil, nil): unreadable or mismatching data is not reported") {
					allOK = false
				}
				continue
			}
			n++
			ok, why := c03Verified(fn, r, an.RetVal(r, 0), requested)
			if !c.Check(ok, "O1", "R-DOM", name, "return-bytes<=Sum(bytes)==requested", r.Pos(), "bytes returned only after they hashed to the requested multihash",
				"the filestore can return bytes that were not re-hashed and compared with the requested CID ("+why+"): a changed backing file is served as the block") {
				allOK = false
			}
		}
		c.Min("O1 data returns of "+fn.Name(), n, 1)
		verified[fn] = allOK && n > 0
		c03Owned(c, fsFns, fn)
		c03ErrorMapping(c, fn, requested, cChanged, cNotFound)
	}

	for _, fn := range fsFns {
		if raw[fn] {
			c03IOFailures(c, fn, cChanged, cNotFound)
			// a raw reader returns either data or an error
			for _, r := range an.Returns(fn) {
				if an.Reaches(fn, nil, r, nil, nil) && c03IsNilData(r, 0) {
					c.Check(!an.IsNilConst(an.RetVal(r, 1)), "O1", "R-DOM", an.FuncName(fn), "no-data=>error", r.Pos(), "a return without data carries an error",
						"a filestore read helper can return (nil, nil): unreadable data is not reported")
				}
			}
		}
	}
	c.Min("O3 I/O failure exits of the filestore readers", c03NIO, 1)

	// ---- O2 forwarders and FileManager.Get
	// forwarders: []byte-returning package functions whose data results are
	// results of verified readers/forwarders called with their own multihash
	changed := true
	for changed {
		changed = false
		for _, fn := range fsFns {
			sg := fn.Signature
			if fn.Parent() != nil || verified[fn] || sg.Results().Len() != 2 || !c03IsBytes(sg.Results().At(0).Type()) {
				continue
			}
			if _, isReader := readers[fn]; isReader {
				continue
			}
			var mprm ssa.Value
			for _, prm := range fn.Params {
				if an.TypeIs(prm.Type(), c01MH, "Multihash") || an.TypeIs(prm.Type(), c01Cid, "Cid") {
					mprm = prm
				}
			}
			if mprm == nil {
				continue
			}
			ownID := func(a ssa.Value) bool {
				if a == mprm {
					return true
				}
				hc, isH := an.IsCallTo(c01First(an.Roots(a, nil)), an.M(c01Cid, "Cid", "Hash"))
				return isH && hc.Call.Args[0] == mprm
			}
			ok, n := true, 0
			for _, r := range an.Returns(fn) {
				if !an.Reaches(fn, nil, r, nil, nil) || c03IsNilData(r, 0) {
					continue
				}
				n++
				for _, root := range an.Roots(an.RetVal(r, 0), nil) {
					e, isE := root.(*ssa.Extract)
					var call *ssa.Call
					if isE {
						call, _ = e.Tuple.(*ssa.Call)
					}
					if call == nil || e.Index != 0 {
						ok = false
						continue
					}
					g := call.Call.StaticCallee()
					if g == nil || !(verified[g]) {
						ok = false
						continue
					}
					passed := false
					for _, a := range call.Call.Args {
						if (an.TypeIs(a.Type(), c01MH, "Multihash") || an.TypeIs(a.Type(), c01Cid, "Cid")) && ownID(a) {
							passed = true
						}
					}
					if !passed {
						ok = false
					}
				}
			}
			if ok && n > 0 {
				verified[fn] = true
				changed = true
				c.OK("O2", "R-FLOW", an.FuncName(fn), "forwards-verified-reader(own multihash)", fn.Pos(), "only forwards bytes of verified readers called with its own multihash")
			}
		}
	}
	// every package function returning/forwarding external bytes must now be verified
	for _, fn := range fsFns {
		sg := fn.Signature
		if fn.Parent() != nil || sg.Results().Len() != 2 || !c03IsBytes(sg.Results().At(0).Type()) || verified[fn] {
			continue
		}
		if _, isReader := readers[fn]; isReader {
			continue // already reported
		}
		// does it obtain bytes from a reader at all?
		uses := false
		for _, call := range an.AllCalls(fn) {
			if g := call.Common().StaticCallee(); g != nil {
				if _, isR := readers[g]; isR || verified[g] {
					uses = true
				}
			}
		}
		if uses {
			c.Bad("O2", "R-FLOW", an.FuncName(fn), "forwards-verified-reader(own multihash)", fn.Pos(),
				"a filestore function returns bytes obtained from a file/URL reader without passing its own multihash on every path: the bytes are verified against a different CID than the one requested")
		}
	}

	if get := p.Func(fsPkg, "FileManager", "Get"); c.Need(get != nil, "filestore.FileManager.Get") {
		name := an.FuncName(get)
		var cidPrm ssa.Value
		for _, prm := range get.Params {
			if an.TypeIs(prm.Type(), c01Cid, "Cid") {
				cidPrm = prm
			}
		}
		isOwnHash := func(v ssa.Value) bool {
			hc, ok := an.IsCallTo(c01First(an.Roots(v, nil)), an.M(c01Cid, "Cid", "Hash"))
			return ok && hc.Call.Args[0] == cidPrm
		}
		n := 0
		for _, nb := range an.Calls(get, an.M(c01Blocks, "", "NewBlockWithCid")) {
			n++
			args := nb.Common().Args
			ok, why := args[1] == cidPrm, "block is labelled with a CID other than the requested one"
			if ok {
				for _, root := range an.Roots(args[0], nil) {
					e, isE := root.(*ssa.Extract)
					var rc *ssa.Call
					if isE {
						rc, _ = e.Tuple.(*ssa.Call)
					}
					if rc == nil || e.Index != 0 || rc.Call.StaticCallee() == nil || !verified[rc.Call.StaticCallee()] {
						ok, why = false, "block bytes do not come from a verified reader"
						continue
					}
					if !an.OnNilEdgeOf(get, rc, nb) {
						ok, why = false, "reader error ignored"
					}
					hashOK, objOK := false, true
					for _, a := range rc.Call.Args {
						if an.TypeIs(a.Type(), c01MH, "Multihash") {
							hashOK = isOwnHash(a)
						}
						if an.TypeIs(a.Type(), c01Cid, "Cid") {
							hashOK = a == cidPrm
						}
						if an.TypeIs(a.Type(), "filestore/pb", "DataObj") {
							objOK = false
							for _, dr := range an.Roots(a, nil) {
								de, isDE := dr.(*ssa.Extract)
								var dc *ssa.Call
								if isDE {
									dc, _ = de.Tuple.(*ssa.Call)
								}
								if dc != nil {
									for _, da := range dc.Call.Args {
										if an.TypeIs(da.Type(), c01MH, "Multihash") && isOwnHash(da) {
											objOK = true
										}
									}
								}
							}
						}
					}
					if !hashOK {
						ok, why = false, "reader is given a multihash other than c.Hash()"
					} else if !objOK {
						ok, why = false, "the reference object was looked up under a multihash other than c.Hash()"
					}
				}
			}
			c.Check(ok, "O2", "R-FLOW", name, "block=NewBlockWithCid(read(c.Hash(), ref(c.Hash())), c)", nb.Pos(), "block built from the verified bytes of the requested CID's own reference",
				"FileManager.Get pairs a CID with bytes that were verified against / looked up under another multihash: "+why)
		}
		c.Min("O2 NewBlockWithCid in FileManager.Get", n, 1)
		// O4: the bytes wrapped in the block are owned by the block
		for _, nb := range an.Calls(get, an.M(c01Blocks, "", "NewBlockWithCid")) {
			data := nb.Common().Args[0]
			why := c03FreshWhy(fsFns, get, data, 0)
			if why == "" {
				why = c03EscapeWhy(fsFns, get, data, 0)
			}
			c.Check(why == "", "O4", "R-OWN", name, "block-bytes-owned", nb.Pos(), "the block's bytes are a fresh allocation that nothing else retains",
				"the byte slice wrapped in the returned block is not exclusively owned by it ("+why+"): a later operation can overwrite the verified bytes the caller is holding")
		}
	}
}

func c03Const(p *an.Prog, rel, name string) constant.Value {
	pk := p.Pkg(rel)
	if pk == nil {
		return nil
	}
	k, ok := pk.Types.Scope().Lookup(name).(*types.Const)
	if !ok {
		return nil
	}
	return k.Val()
}

// c03CorruptCode returns the constant stored in the Code field of the
// *CorruptReferenceError returned as error value v (ok=false if v is not such
// an error built in place).
func c03CorruptCode(v ssa.Value) (constant.Value, bool) {
	rs := an.Roots(v, nil)
	if len(rs) != 1 {
		return nil, false
	}
	al, ok := rs[0].(*ssa.Alloc)
	if !ok || !an.TypeIs(al.Type(), "filestore", "CorruptReferenceError") {
		return nil, false
	}
	var code constant.Value
	for _, ref := range *al.Referrers() {
		fa, ok := ref.(*ssa.FieldAddr)
		if !ok {
			continue
		}
		f, _ := an.FieldOf(fa)
		if f == nil || f.Name() != "Code" {
			continue
		}
		for _, rr := range *fa.Referrers() {
			if st, ok := rr.(*ssa.Store); ok && st.Addr == fa {
				if k, ok := an.ConstOf(st.Val); ok {
					code = k
				}
			}
		}
	}
	return code, true
}

// c03ErrorMapping checks O3 for one reader.
func c03ErrorMapping(c *an.Ctx, fn *ssa.Function, requested func(ssa.Value) bool, cChanged, cNotFound constant.Value) {
	// (a) mismatch exit (in the reader itself or in the verifier helpers it uses)
	nMis := 0
	for _, call := range an.AllCalls(fn) {
		if h := call.Common().StaticCallee(); h != nil {
			if v, ok := c03Verifiers[h]; ok {
				nMis += c03Mismatch(c, h, c03RequestedBy(h.Params[v.idIdx]), cChanged)
			}
		}
	}
	nMis += c03Mismatch(c, fn, requested, cChanged)
	c.Min("O3 mismatch exits of "+fn.Name(), nMis, 1)
	c03IOFailures(c, fn, cChanged, cNotFound)
}

func c03IsCode(r *ssa.Return, want constant.Value) (bool, string) {
	code, isCorrupt := c03CorruptCode(an.RetVal(r, -1))
	if !isCorrupt {
		return false, "the error is not a *CorruptReferenceError"
	}
	if want != nil && (code == nil || !constant.Compare(code, token.EQL, want)) {
		return false, fmt.Sprintf("status code is %v, want %v", code, want)
	}
	return true, ""
}

func c03Mismatch(c *an.Ctx, fn *ssa.Function, requested func(ssa.Value) bool, cChanged constant.Value) int {
	name := an.FuncName(fn)
	isCode := c03IsCode
	nMis := 0
	for _, sc := range an.Calls(fn, an.M(c01Cid, "Prefix", "Sum")) {
		sumCid := an.Aliases(an.Result(sc, 0)...)
		var eq []ssa.Value
		for _, ec := range an.Calls(fn, an.M(c01Cid, "Cid", "Equals")) {
			a, b := an.Recv(ec), an.Args(ec)[0]
			if (sumCid[a] && requested(b)) || (sumCid[b] && requested(a)) {
				if cv := an.CallValue(ec); cv != nil {
					eq = append(eq, cv)
				}
			}
		}
		neq := an.BoolEdges(fn, eq, false).Union(an.RelEdges(fn, func(v ssa.Value) bool { return sumCid[v] }, requested, an.RelNE))
		for _, r := range an.Returns(fn) {
			if len(neq) == 0 || !an.Reaches(fn, sc, r, nil, nil) || !an.GuardedBy(fn, sc, r, neq) {
				continue
			}
			nMis++
			ok, why := isCode(r, cChanged)
			c.Check(ok, "O3", "R-TABLE", name, "hash-mismatch=>CorruptReference(FileChanged)", r.Pos(), "hash mismatch reported as corrupt reference / file changed",
				"a hash mismatch of the referenced file region is not reported as CorruptReferenceError{StatusFileChanged} ("+why+")")
		}
	}
	return nMis
}

// c03NIO counts the I/O failure exits found in readers and their helpers.
var c03NIO int

func c03IOFailures(c *an.Ctx, fn *ssa.Function, cChanged, cNotFound constant.Value) {
	name := an.FuncName(fn)
	isCode := c03IsCode
	// (b),(c) I/O failures
	nIO := 0
	for _, call := range an.AllCalls(fn) {
		cv := an.CallValue(call)
		if cv == nil {
			continue
		}
		ci := an.Callee(call)
		kind := ""
		switch {
		case ci.Fn == nil && ci.Builtin == "" && c03ReturnsReader(cv):
			kind = "open"
		case ci.Pkg == "os" && (ci.Name == "Open" || ci.Name == "OpenFile"):
			kind = "open"
		case ci.Name == "Do" && ci.Recv == "Client":
			kind = "fetch"
		case ci.Name == "ReadAt" || (ci.Pkg == "io" && (ci.Name == "ReadFull" || ci.Name == "ReadAtLeast" || ci.Name == "ReadAll")):
			kind = "read"
		}
		if kind == "" {
			continue
		}
		errs := an.ErrResult(call)
		if len(errs) == 0 {
			continue
		}
		al := an.Aliases(errs...)
		nilE := an.NilEdges(fn, errs, true)
		isEOFGlobal := func(v ssa.Value) bool {
			u, ok := v.(*ssa.UnOp)
			if !ok || u.Op != token.MUL {
				return false
			}
			g, ok := u.X.(*ssa.Global)
			return ok && g.Pkg.Pkg.Path() == "io" && (g.Name() == "EOF" || g.Name() == "ErrUnexpectedEOF")
		}
		eof := an.CondEdges(fn, func(atom ssa.Value) (bool, bool) {
			if b, ok := atom.(*ssa.BinOp); ok && (b.Op == token.EQL || b.Op == token.NEQ) {
				if (al[b.X] && isEOFGlobal(b.Y)) || (al[b.Y] && isEOFGlobal(b.X)) {
					return b.Op == token.EQL, b.Op == token.NEQ
				}
			}
			if ec, ok := atom.(*ssa.Call); ok {
				if eci := an.Callee(ec); eci.Pkg == "errors" && eci.Name == "Is" && al[ec.Call.Args[0]] && isEOFGlobal(ec.Call.Args[1]) {
					return true, false
				}
			}
			return false, false
		})
		notExist := an.CallEdges(fn, an.M("os", "", "IsNotExist"), 0, func(v ssa.Value) bool { return al[v] }, true)
		notExist = notExist.Union(an.CondEdges(fn, func(atom ssa.Value) (bool, bool) {
			if ec, ok := atom.(*ssa.Call); ok {
				if eci := an.Callee(ec); eci.Pkg == "errors" && eci.Name == "Is" && al[ec.Call.Args[0]] {
					if u, ok := ec.Call.Args[1].(*ssa.UnOp); ok {
						if g, ok := u.X.(*ssa.Global); ok && g.Name() == "ErrNotExist" {
							return true, false
						}
					}
				}
			}
			return false, false
		}))
		for _, r := range an.Returns(fn) {
			if !an.Reaches(fn, call, r, nilE, nil) || !an.GuardedBy(fn, call, r, an.NilEdges(fn, errs, false).Union(eof).Union(notExist)) {
				continue // not a failure exit of this call
			}
			nIO++
			var want constant.Value
			construct := kind + "-failure=>CorruptReference"
			switch {
			case kind == "open" && len(notExist) > 0 && an.GuardedBy(fn, call, r, notExist):
				want, construct = cNotFound, "file-vanished=>CorruptReference(FileNotFound)"
			case kind == "read" && len(eof) > 0 && an.GuardedBy(fn, call, r, eof):
				want, construct = cChanged, "short-read=>CorruptReference(FileChanged)"
			}
			ok, why := isCode(r, want)
			c.Check(ok && c03IsNilData(r, 0), "O3", "R-TABLE", name, construct, r.Pos(), "I/O failure on the referenced file reported as a corrupt reference with the right status",
				"a failure to open/read the referenced file or URL is not reported as the expected CorruptReferenceError ("+why+"): callers cannot tell a vanished/shrunk/changed file from an internal error")
		}
		// the file-vanished and short-read cases must exist
		if kind == "open" {
			c.Check(len(notExist) > 0, "O3", "R-TABLE", name, "open: IsNotExist distinguished", call.Pos(), "vanished file distinguished", "the reader no longer distinguishes a vanished file (os.IsNotExist) when opening the referenced file")
		}
		if kind == "read" && ci.Name != "ReadAll" { // io.ReadAll never reports EOF: a short body shows in the length / the hash
			c.Check(len(eof) > 0, "O3", "R-TABLE", name, "read: EOF distinguished", call.Pos(), "shrunk file distinguished", "the reader no longer distinguishes a short read (io.EOF / io.ErrUnexpectedEOF) of the referenced region")
		}
	}
	c03NIO += nIO
	// errors of raw reader helpers are passed on (or wrapped as corrupt references)
	for _, call := range an.AllCalls(fn) {
		cv := an.CallValue(call)
		if cv == nil || !c03Raw[call.Common().StaticCallee()] {
			continue
		}
		errs := an.ErrResult(call)
		al := an.Aliases(errs...)
		for _, r := range an.Returns(fn) {
			if !an.Reaches(fn, call, r, an.NilEdges(fn, errs, true), nil) || !an.GuardedBy(fn, call, r, an.NilEdges(fn, errs, false)) {
				continue
			}
			ev := an.RetVal(r, -1)
			ok := c03IsNilData(r, 0)
			if _, isCorrupt := c03CorruptCode(ev); !isCorrupt {
				for _, root := range an.Roots(ev, nil) {
					if !al[root] {
						ok = false
					}
				}
			}
			c.Check(ok, "O3", "R-TABLE", name, "reader-helper-failure=>its error", r.Pos(), "a failure of the reading helper is reported with the helper's (corrupt reference) error",
				"a failure of the helper that reads the referenced region is not reported with the helper's error (or data is returned with it)")
		}
	}
}

// c03ReturnsReader: the (dynamic) call returns (<reader>, error) where the
// reader is the package's FileReader or an *os.File: a file opener.
func c03ReturnsReader(c *ssa.Call) bool {
	sg := c.Call.Signature()
	if sg == nil || sg.Results().Len() != 2 || !an.IsErrorType(sg.Results().At(1).Type()) {
		return false
	}
	t := sg.Results().At(0).Type()
	return an.TypeIs(t, "filestore", "FileReader") || an.TypeIs(t, "os", "File")
}

// c03LoadFieldName: v is a load of a struct field; returns the field name.
func c03LoadFieldName(v ssa.Value) string {
	u, ok := v.(*ssa.UnOp)
	if !ok || u.Op != token.MUL {
		return ""
	}
	f, _ := an.FieldOf(u.X)
	if f == nil {
		return ""
	}
	return f.Name()
}
