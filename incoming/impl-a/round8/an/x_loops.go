package an

// Helpers added for C01..C05/C41: range loops in go/ssa's rotated
// "rangeindex" shape, append chains, relational condition edges, per-return
// result values of functions whose results are spilled (defer + recover),
// channel receives.

import (
	"go/token"
	"go/types"

	"golang.org/x/tools/go/ssa"
)

// RangeLoop is a `for i, e := range S` loop over a slice as emitted by go/ssa:
//
//	pre:    n = len(S); jump header
//	header: i0 = phi [pre: -1, ...: i]; i = i0 + 1; if i < n goto body else done
//	body:   e = *(&S[i]) ...
type RangeLoop struct {
	Fn     *ssa.Function
	Header *ssa.BasicBlock
	If     *ssa.If
	Idx    ssa.Value // the index value valid in the body (i)
	Len    ssa.Value // n
	Slice  ssa.Value // S (nil when n is not len(S) of a slice value)
	Body   *ssa.BasicBlock
	Done   *ssa.BasicBlock
	blocks map[*ssa.BasicBlock]bool
}

// RangeLoops finds all slice range loops of fn.
func RangeLoops(fn *ssa.Function) []*RangeLoop {
	var out []*RangeLoop
	for _, b := range fn.Blocks {
		if len(b.Instrs) == 0 || len(b.Succs) != 2 {
			continue
		}
		ifi, ok := b.Instrs[len(b.Instrs)-1].(*ssa.If)
		if !ok {
			continue
		}
		cmp, ok := ifi.Cond.(*ssa.BinOp)
		if !ok || cmp.Op != token.LSS || cmp.Block() != b {
			continue
		}
		inc, ok := cmp.X.(*ssa.BinOp)
		if !ok || inc.Op != token.ADD || inc.Block() != b {
			continue
		}
		phi, ok := inc.X.(*ssa.Phi)
		if !ok || phi.Block() != b {
			continue
		}
		if k, ok := ConstOf(inc.Y); !ok || k.String() != "1" {
			continue
		}
		// phi edges: -1 from outside, inc from inside
		okPhi := true
		nInit := 0
		for _, e := range phi.Edges {
			if e == inc {
				continue
			}
			if k, ok := ConstOf(e); ok && k.String() == "-1" {
				nInit++
				continue
			}
			okPhi = false
		}
		if !okPhi || nInit != 1 {
			continue
		}
		l := &RangeLoop{Fn: fn, Header: b, If: ifi, Idx: inc, Len: cmp.Y, Body: b.Succs[0], Done: b.Succs[1]}
		if call, ok := cmp.Y.(*ssa.Call); ok {
			if bi, ok := call.Call.Value.(*ssa.Builtin); ok && bi.Name() == "len" && len(call.Call.Args) == 1 {
				if _, isSlice := call.Call.Args[0].Type().Underlying().(*types.Slice); isSlice {
					l.Slice = call.Call.Args[0]
				}
			}
		}
		if l.Slice == nil {
			continue
		}
		l.blocks = loopBlocks(b, l.Body)
		out = append(out, l)
	}
	return out
}

// loopBlocks: blocks reachable from body without passing the header that can
// also reach the header (the natural loop), plus the header.
func loopBlocks(header, body *ssa.BasicBlock) map[*ssa.BasicBlock]bool {
	fwd := map[*ssa.BasicBlock]bool{}
	var f func(b *ssa.BasicBlock)
	f = func(b *ssa.BasicBlock) {
		if b == header || fwd[b] {
			return
		}
		fwd[b] = true
		for _, s := range b.Succs {
			f(s)
		}
	}
	f(body)
	bwd := map[*ssa.BasicBlock]bool{}
	var g func(b *ssa.BasicBlock)
	g = func(b *ssa.BasicBlock) {
		if bwd[b] {
			return
		}
		bwd[b] = true
		if b == header {
			return
		}
		for _, p := range b.Preds {
			g(p)
		}
	}
	for _, p := range header.Preds {
		if fwd[p] {
			g(p)
		}
	}
	out := map[*ssa.BasicBlock]bool{header: true}
	for b := range fwd {
		if bwd[b] {
			out[b] = true
		}
	}
	return out
}

// Contains reports whether the instruction lies inside the loop.
func (l *RangeLoop) Contains(in ssa.Instruction) bool {
	return in.Parent() == l.Fn && l.blocks[in.Block()]
}

// IsElem reports whether v is the element of the current iteration
// (*(&S[i]), possibly through value-preserving conversions).
func (l *RangeLoop) IsElem(v ssa.Value) bool {
	for _, r := range Roots(v, &FlowOpts{NoCells: true}) {
		u, ok := r.(*ssa.UnOp)
		if !ok || u.Op != token.MUL {
			return false
		}
		ia, ok := u.X.(*ssa.IndexAddr)
		if !ok || ia.Index != l.Idx || !l.sameSlice(ia.X) {
			return false
		}
	}
	return true
}

// RangeLoopOfElem returns the range loop of fn whose element v is.
func RangeLoopOfElem(fn *ssa.Function, v ssa.Value) *RangeLoop {
	for _, l := range RangeLoops(fn) {
		if l.IsElem(v) {
			return l
		}
	}
	return nil
}

// EveryIteration reports whether every path from the start of an iteration
// to the start of the next one (or to the loop's normal completion) executes
// one of the instructions in set: no `continue` can skip them.
func (l *RangeLoop) EveryIteration(set ...ssa.Instruction) bool {
	blocked := map[ssa.Instruction]bool{}
	for _, s := range set {
		blocked[s] = true
	}
	cut := EdgeSet{Edge{l.Header, 1}: true}
	return !Reaches(l.Fn, l.If, l.Header.Instrs[0], cut, blocked)
}

// ExitEdges lists the CFG edges leaving the loop other than the header's
// "range exhausted" edge (break, return, goto, panic).
func (l *RangeLoop) ExitEdges() []Edge {
	var out []Edge
	for b := range l.blocks {
		for si, s := range b.Succs {
			if l.blocks[s] {
				continue
			}
			if b == l.Header && si == 1 {
				continue
			}
			out = append(out, Edge{b, si})
		}
	}
	return out
}

// AbruptExits lists the instructions that terminate the function from inside
// the loop (blocks without successors: return / panic).
func (l *RangeLoop) AbruptExits() []ssa.Instruction {
	var out []ssa.Instruction
	for b := range l.blocks {
		if len(b.Succs) == 0 && len(b.Instrs) > 0 {
			out = append(out, b.Instrs[len(b.Instrs)-1])
		}
	}
	return out
}

// After reports whether site can only be reached once the loop has run to
// exhaustion: the header dominates it, it is outside the loop, and every
// path from the loop body to it goes through the header's done edge.
func (l *RangeLoop) After(site ssa.Instruction) bool {
	if site.Parent() != l.Fn || l.blocks[site.Block()] {
		return false
	}
	if !(l.Header == site.Block() || l.Header.Dominates(site.Block())) {
		return false
	}
	// from the first instruction of the body, reach site without re-entering the header
	blocked := map[ssa.Instruction]bool{l.Header.Instrs[0]: true}
	if len(l.Body.Instrs) == 0 {
		return true
	}
	first := l.Body.Instrs[0]
	if first == site {
		return false
	}
	return !Reaches(l.Fn, first, site, nil, blocked)
}

// AppendElems returns the values appended by a builtin append call of the
// form append(s, e1, e2...) (not the spread form append(s, t...)); ok=false
// if c is not such a call.
func AppendElems(c *ssa.Call) (elems []ssa.Value, ok bool) {
	bi, isB := c.Call.Value.(*ssa.Builtin)
	if !isB || bi.Name() != "append" || len(c.Call.Args) != 2 {
		return nil, false
	}
	sl, isS := c.Call.Args[1].(*ssa.Slice)
	if !isS {
		return nil, false
	}
	arr, isA := sl.X.(*ssa.Alloc)
	if !isA || arr.Comment != "varargs" {
		return nil, false
	}
	for _, r := range *arr.Referrers() {
		ia, isIA := r.(*ssa.IndexAddr)
		if !isIA {
			continue
		}
		for _, rr := range *ia.Referrers() {
			if st, isSt := rr.(*ssa.Store); isSt && st.Addr == ia {
				elems = append(elems, st.Val)
			}
		}
	}
	return elems, len(elems) > 0
}

// IsBuiltinCall reports whether v is a call of the named builtin.
func IsBuiltinCall(v ssa.Value, name string) (*ssa.Call, bool) {
	c, ok := v.(*ssa.Call)
	if !ok {
		return nil, false
	}
	bi, ok := c.Call.Value.(*ssa.Builtin)
	if !ok || bi.Name() != name {
		return nil, false
	}
	return c, true
}

// SliceChain walks backward from a slice value through phis, local cells,
// re-slicing and append(s, ...) calls. It returns the producers the chain
// starts from (make, parameters, calls, ...) and every append on the way.
func SliceChain(v ssa.Value) (roots []ssa.Value, appends []*ssa.Call) {
	seenApp := map[*ssa.Call]bool{}
	roots = Roots(v, &FlowOpts{Through: func(c *ssa.Call) ([]ssa.Value, bool) {
		if _, ok := IsBuiltinCall(c, "append"); ok {
			if !seenApp[c] {
				seenApp[c] = true
				appends = append(appends, c)
			}
			return []ssa.Value{c.Call.Args[0]}, true
		}
		return nil, false
	}})
	return roots, appends
}

// RetVal returns the value returned as the i-th result by r (i<0 counts from
// the end). When results are spilled to locals (functions with defer and a
// recover block: `*t = v; rundefers; x = *t; return x`) the value of the
// store reaching the load inside the returning block is given.
func RetVal(r *ssa.Return, i int) ssa.Value {
	if i < 0 {
		i = len(r.Results) + i
	}
	if i < 0 || i >= len(r.Results) {
		return nil
	}
	v := r.Results[i]
	u, ok := v.(*ssa.UnOp)
	if !ok || u.Op != token.MUL {
		return v
	}
	cell, ok := u.X.(*ssa.Alloc)
	if !ok || u.Block() != r.Block() {
		return v
	}
	// last store to the cell before the load, in the same block
	var last *ssa.Store
	for _, in := range r.Block().Instrs {
		if in == ssa.Instruction(u) {
			break
		}
		if st, ok := in.(*ssa.Store); ok && st.Addr == cell {
			last = st
		}
	}
	if last != nil {
		return last.Val
	}
	// single reaching store through dominance
	for _, st := range storesTo(cell) {
		if storeReachesOnly(st, u, cell) {
			return st.Val
		}
	}
	return v
}

// IsNilErrReturn: the last result of r is the nil error constant.
func IsNilErrReturn(r *ssa.Return) bool {
	if len(r.Results) == 0 {
		return false
	}
	v := RetVal(r, -1)
	return v != nil && IsErrorType(v.Type()) && IsNilConst(v)
}

// Rel is a normalised order relation between two value classes A and B.
type Rel int

const (
	RelNone Rel = iota
	RelLT       // A <  B
	RelLE       // A <= B
	RelGT       // A >  B
	RelGE       // A >= B
	RelEQ       // A == B
	RelNE       // A != B
)

func relOf(op token.Token) Rel {
	switch op {
	case token.LSS:
		return RelLT
	case token.LEQ:
		return RelLE
	case token.GTR:
		return RelGT
	case token.GEQ:
		return RelGE
	case token.EQL:
		return RelEQ
	case token.NEQ:
		return RelNE
	}
	return RelNone
}

func (r Rel) negate() Rel {
	switch r {
	case RelLT:
		return RelGE
	case RelLE:
		return RelGT
	case RelGT:
		return RelLE
	case RelGE:
		return RelLT
	case RelEQ:
		return RelNE
	case RelNE:
		return RelEQ
	}
	return RelNone
}

func (r Rel) swap() Rel {
	switch r {
	case RelLT:
		return RelGT
	case RelLE:
		return RelGE
	case RelGT:
		return RelLT
	case RelGE:
		return RelLE
	}
	return r
}

// RelEdges returns the CFG edges on which exactly the relation `A want B`
// is established by a comparison whose operands satisfy isA / isB (in
// either operand order, under any number of negations).
func RelEdges(fn *ssa.Function, isA, isB func(ssa.Value) bool, want Rel) EdgeSet {
	return CondEdges(fn, func(atom ssa.Value) (bool, bool) {
		b, ok := atom.(*ssa.BinOp)
		if !ok {
			return false, false
		}
		r := relOf(b.Op)
		if r == RelNone {
			return false, false
		}
		switch {
		case isA(b.X) && isB(b.Y):
		case isA(b.Y) && isB(b.X):
			r = r.swap()
		default:
			return false, false
		}
		return r == want, r.negate() == want
	})
}

// RecvChan returns the channel a value was received from: `<-ch`, `v, ok :=
// <-ch`, or a receive case of a select; nil otherwise.
func RecvChan(v ssa.Value) ssa.Value {
	switch x := v.(type) {
	case *ssa.UnOp:
		if x.Op == token.ARROW {
			return x.X
		}
	case *ssa.Extract:
		switch t := x.Tuple.(type) {
		case *ssa.UnOp:
			if t.Op == token.ARROW && x.Index == 0 {
				return t.X
			}
		case *ssa.Select:
			// tuple: (index, recvOk, r_0 ... r_n-1) for the receive states in order
			k := x.Index - 2
			if k < 0 {
				return nil
			}
			n := 0
			for _, st := range t.States {
				if st.Dir == types.RecvOnly {
					if n == k {
						return st.Chan
					}
					n++
				}
			}
		}
	}
	return nil
}

// SelectSends lists (select instruction, channel, value) for the send cases
// of selects and plain send statements in fn.
type SendSite struct {
	Instr ssa.Instruction
	Chan  ssa.Value
	Val   ssa.Value
}

func Sends(fn *ssa.Function) []SendSite {
	var out []SendSite
	Instrs(fn, func(in ssa.Instruction) {
		switch x := in.(type) {
		case *ssa.Send:
			out = append(out, SendSite{x, x.Chan, x.X})
		case *ssa.Select:
			for _, st := range x.States {
				if st.Dir == types.SendOnly {
					out = append(out, SendSite{x, st.Chan, st.Send})
				}
			}
		}
	})
	return out
}

// InfeasibleEdges returns CFG edges that cannot be taken because the same SSA
// condition was already decided the other way on every path: an If in block B
// on atom a whose block is dominated by the single-predecessor successor S of
// an earlier If on the same atom has only the agreeing edge feasible (typical
// source: `!ok || (ok && !has)`). Adding these edges to a cut set only removes
// infeasible paths.
func InfeasibleEdges(fn *ssa.Function) EdgeSet {
	out := EdgeSet{}
	type ifInfo struct {
		atom ssa.Value
		neg  bool
	}
	ifs := map[*ssa.BasicBlock]ifInfo{}
	for _, b := range fn.Blocks {
		if len(b.Instrs) == 0 {
			continue
		}
		if ifi, ok := b.Instrs[len(b.Instrs)-1].(*ssa.If); ok {
			a, neg := atomOf(ifi.Cond)
			if _, isConst := a.(*ssa.Const); !isConst {
				ifs[b] = ifInfo{a, neg}
			}
		}
	}
	for b, bi := range ifs {
		for d := b.Idom(); d != nil; d = d.Idom() {
			di, ok := ifs[d]
			if !ok || di.atom != bi.atom {
				continue
			}
			for si, s := range d.Succs {
				if len(s.Preds) != 1 || !(s == b || s.Dominates(b)) {
					continue
				}
				// edge si of d taken: cond(d) == (si == 0); atom == cond != neg
				atomTrue := (si == 0) != di.neg
				// in b: cond(b) = atom != neg(b); edge 0 taken iff cond true
				condB := atomTrue != bi.neg
				if condB {
					out[Edge{b, 1}] = true
				} else {
					out[Edge{b, 0}] = true
				}
			}
			break
		}
	}
	return out
}

// sameSlice: x denotes the slice the loop runs over: the same SSA value, or
// (for loops that re-read a variable, as `for i := 0; i < len(s); i++ { s[i] }`
// does when s lives in a cell) another load of the same cell, provided no
// store to that cell happens inside the loop.
func (l *RangeLoop) sameSlice(x ssa.Value) bool {
	if x == l.Slice {
		return true
	}
	a, ok1 := x.(*ssa.UnOp)
	b, ok2 := l.Slice.(*ssa.UnOp)
	if !ok1 || !ok2 || a.Op != token.MUL || b.Op != token.MUL {
		return false
	}
	ca, cb := CellOf(a.X), CellOf(b.X)
	if ca == nil || ca != cb {
		return false
	}
	for blk := range l.blocks {
		for _, in := range blk.Instrs {
			if st, ok := in.(*ssa.Store); ok && CellOf(st.Addr) == ca {
				return false
			}
		}
	}
	return true
}

// IndexLoops finds the classic counting loops over a slice,
//
//	for i := 0; i < len(S); i++ { ... S[i] ... }
//
// in go/ssa's shape (header: i = phi [0, i+1]; if i < len(S) goto body else
// done; the increment sits in the post block). They are described like range
// loops: Idx is the index valid in the body, Slice the operand of len.
func IndexLoops(fn *ssa.Function) []*RangeLoop {
	var out []*RangeLoop
	for _, b := range fn.Blocks {
		if len(b.Instrs) == 0 || len(b.Succs) != 2 {
			continue
		}
		ifi, ok := b.Instrs[len(b.Instrs)-1].(*ssa.If)
		if !ok {
			continue
		}
		cmp, ok := ifi.Cond.(*ssa.BinOp)
		if !ok || cmp.Op != token.LSS || cmp.Block() != b {
			continue
		}
		phi, ok := cmp.X.(*ssa.Phi)
		if !ok || phi.Block() != b {
			continue
		}
		nInit, nInc, okPhi := 0, 0, true
		for _, e := range phi.Edges {
			if k, isK := ConstOf(e); isK && k.String() == "0" {
				nInit++
				continue
			}
			if inc, isB := e.(*ssa.BinOp); isB && inc.Op == token.ADD && inc.X == ssa.Value(phi) {
				if k, isK := ConstOf(inc.Y); isK && k.String() == "1" {
					nInc++
					continue
				}
			}
			okPhi = false
		}
		if !okPhi || nInit != 1 || nInc < 1 {
			continue
		}
		call, ok := cmp.Y.(*ssa.Call)
		if !ok {
			continue
		}
		bi, ok := call.Call.Value.(*ssa.Builtin)
		if !ok || bi.Name() != "len" || len(call.Call.Args) != 1 {
			continue
		}
		if _, isSlice := call.Call.Args[0].Type().Underlying().(*types.Slice); !isSlice {
			continue
		}
		l := &RangeLoop{Fn: fn, Header: b, If: ifi, Idx: phi, Len: call, Slice: call.Call.Args[0], Body: b.Succs[0], Done: b.Succs[1]}
		l.blocks = loopBlocks(b, l.Body)
		// the increment must happen inside the loop
		okInc := true
		for _, e := range phi.Edges {
			if inc, isB := e.(*ssa.BinOp); isB && !l.blocks[inc.Block()] {
				okInc = false
			}
		}
		if okInc {
			out = append(out, l)
		}
	}
	return out
}

// SliceLoops lists range loops and classic counting loops over slices.
func SliceLoops(fn *ssa.Function) []*RangeLoop {
	return append(RangeLoops(fn), IndexLoops(fn)...)
}
