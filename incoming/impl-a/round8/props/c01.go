package props

import (
	"fmt"
	"go/token"
	"go/types"
	"sort"
	"strings"

	"golang.org/x/tools/go/ssa"

	"verif/checker/an"
)

func init() {
	register("C01", Prop{
		Pkgs: []string{"./blockstore", "./datastore/dshelp", "./filestore"},
		Explain: "Decided (structural necessary conditions of 'multihash-keyed block map' and of the identity-store wrapper): " +
			"O1 every datastore key used by blockstore.blockstore (Get/Put/Has/GetSize/Delete, Batch.Put) is dshelp.MultihashToDsKey(X.Hash()) with X the CID parameter or the Cid() of the block parameter / ranged block, the value written is RawData() of that same block, and the block returned by Get is NewBlockWithCid(<bytes read under that key>, <the requested CID>); " +
			"O2 every forward from idstore to the wrapped store (b.bs.*, b.viewer.View) is reachable only where extractContents of the very CID involved said 'not identity'; PutMany forwards only a slice built from blocks appended on that edge; " +
			"O3 on the identity edge Has answers (true,nil), GetSize len(digest), Get NewBlockWithCid(digest, k), View callback(digest), Put/DeleteBlock nil, with digest the second result of the same extractContents; " +
			"O4 extractContents answers true only where multihash.Decode of k.Hash() succeeded and the decoded code is IDENTITY, returning that decoding's Digest; it answers false only where the hash type / decoded code is not IDENTITY or decoding failed; " +
			"O5 Filestore's FileManager derives every datastore key the same way (multihash parameters of unexported helpers are traced to X.Hash() at all their call sites); " +
			"O6 a write is skipped (success without datastore Put) only where Has on the same key returned (true, nil); O7 a batch write reports success only after Commit returned nil; " +
			"O8 keys enumerated by AllKeysChan are cid.NewCidV1(Raw, <bytes decoded from the entry key by the dshelp decoder>); O9 dshelp encodes and decodes keys with one and the same base32 encoding; " +
			"O10 Get/GetSize (and FileManager's reference lookup) report a datastore miss (datastore.ErrNotFound edge) as ipld.ErrNotFound carrying the requested CID. " +
			"NOT decided: equivalence of whole histories with a map, completeness of AllKeysChan, effect of WriteThrough/NoPrefix on the namespace, behaviour of the datastore itself.",
		Assume:    []string{"go-datastore implementations behave as maps on ds.Key", "blocks.Block.Cid()/RawData() are pure accessors"},
		Technique: "SSA value provenance (R-FLOW), condition-edge dominance (R-DOM), must-follow (R-POST), sibling sweep over FileManager (R-SIB), callee identity (R-API)",
		Run:       runC01,
	})
}

const (
	c01DS     = "github.com/ipfs/go-datastore"
	c01Cid    = "github.com/ipfs/go-cid"
	c01Blocks = "github.com/ipfs/go-block-format"
	c01MH     = "github.com/multiformats/go-multihash"
)

// c01KeySrc describes where a datastore key comes from.
type c01KeySrc struct {
	Kind string    // "cid" (a CID value), "block" (Cid() of a block), "mh" (multihash parameter)
	Obj  ssa.Value // the CID value / the block / the parameter
	Key  *ssa.Call // the MultihashToDsKey call
}

func c01IsParamPath(v ssa.Value) bool { return strings.HasPrefix(an.PathOf(v), "p:") }

// c01HashSrc classifies the receiver X of X.Hash().
func c01HashSrc(x ssa.Value) (kind string, obj ssa.Value, why string) {
	rs := an.Roots(x, nil)
	if len(rs) != 1 {
		return "", nil, fmt.Sprintf("CID has %d producers", len(rs))
	}
	r := rs[0]
	if _, ok := r.(*ssa.Parameter); ok && an.TypeIs(r.Type(), c01Cid, "Cid") {
		return "cid", r, ""
	}
	if c, ok := r.(*ssa.Call); ok {
		ci := an.Callee(c)
		if ci.Name == "Cid" && len(an.Args(c)) == 0 {
			b := an.Recv(c)
			if b != nil && c01IsParamPath(b) {
				return "block", b, ""
			}
			return "", nil, "Cid() of a value that is not (an element/field of) a parameter: " + an.PathOf(b)
		}
	}
	return "", nil, "CID is neither a cid.Cid parameter nor <block parameter>.Cid(): " + an.PathOf(r)
}

// c01KeySources resolves a ds.Key value to its sources; why != "" on failure.
// Multihash parameters of package-local helpers are traced to their callers.
func c01KeySources(p *an.Prog, pkgFns []*ssa.Function, key ssa.Value, depth int) (out []c01KeySrc, why string) {
	for _, r := range an.Roots(key, nil) {
		kc, ok := an.IsCallTo(r, an.M("datastore/dshelp", "", "MultihashToDsKey"), an.M("datastore/dshelp", "", "NewKeyFromBinary"))
		if !ok {
			// a package helper that derives the key from its CID / block parameter
			if hc, isCall := r.(*ssa.Call); isCall && depth > -3 {
				if F := hc.Call.StaticCallee(); F != nil && F.Blocks != nil && c01InFns(pkgFns, F) && F.Signature.Results().Len() == 1 {
					srcs, w := c01KeyHelper(p, pkgFns, F, hc, depth)
					if w == "" {
						out = append(out, srcs...)
						continue
					}
					return nil, "helper " + F.Name() + ": " + w
				}
			}
			// a key parameter of an unexported helper: every caller must derive it properly
			if prm, isP := r.(*ssa.Parameter); isP && an.TypeIs(prm.Type(), c01DS, "Key") && an.IsLocalHelper(prm.Parent()) && depth > -3 {
				sites := an.CallSitesOf(pkgFns, prm.Parent())
				if len(sites) == 0 {
					return nil, "key parameter of " + prm.Parent().Name() + " has no package-local caller"
				}
				for _, cs := range sites {
					if _, w := c01KeySources(p, pkgFns, cs.Call.Common().Args[an.RawParamIndex(prm)], depth-1); w != "" {
						return nil, "caller " + an.FuncName(cs.Caller) + ": " + w
					}
				}
				out = append(out, c01KeySrc{Kind: "keyparam", Obj: prm})
				continue
			}
			return nil, "key is not built by dshelp.MultihashToDsKey: " + an.PathOf(r)
		}
		srcs, w := c01MhSources(p, pkgFns, kc.Call.Args[0], depth)
		if w != "" {
			return nil, w
		}
		for i := range srcs {
			srcs[i].Key = kc
		}
		out = append(out, srcs...)
	}
	if len(out) == 0 {
		return nil, "key has no producer"
	}
	return out, ""
}

// c01IsRequestedCid: v is the requested CID of its function: a cid.Cid
// parameter or cid.NewCidV1(_, <multihash parameter>).
func c01IsRequestedCid(v ssa.Value) bool {
	for _, cr := range an.Roots(v, nil) {
		if prm, isP := cr.(*ssa.Parameter); isP && an.TypeIs(prm.Type(), c01Cid, "Cid") {
			continue
		}
		if nc, isN := an.IsCallTo(cr, an.M(c01Cid, "", "NewCidV1")); isN {
			if prm, isP := c01First(an.Roots(nc.Call.Args[1], nil)).(*ssa.Parameter); isP && an.TypeIs(prm.Type(), c01MH, "Multihash") {
				continue
			}
		}
		return false
	}
	return true
}

// c01NotFoundOfRequest: error value ev is ipld.ErrNotFound{Cid: <requested CID>},
// built in place or by a package helper applied to the requested CID.
// It returns "" or the reason why not.
func c01NotFoundOfRequest(p *an.Prog, pkgFns []*ssa.Function, ev ssa.Value, depth int) string {
	root := c01First(an.Roots(ev, &an.FlowOpts{StopAt: func(v ssa.Value) bool { _, m := v.(*ssa.MakeInterface); return m }}))
	if hc, isCall := root.(*ssa.Call); isCall && depth > 0 {
		F := hc.Call.StaticCallee()
		if F != nil && F.Blocks != nil && c01InFns(pkgFns, F) {
			// constructor helper: all its returns are ErrNotFound of one of its CID parameters
			n := 0
			for _, r := range an.Returns(F) {
				if !an.Reaches(F, nil, r, nil, nil) {
					continue
				}
				n++
				if w := c01NotFoundOfRequest(p, pkgFns, an.RetVal(r, -1), depth-1); w != "" {
					return w
				}
			}
			okArg := n > 0
			for _, a := range hc.Call.Args {
				if an.TypeIs(a.Type(), c01Cid, "Cid") && !c01IsRequestedCid(a) {
					okArg = false
				}
			}
			if okArg {
				return ""
			}
			return "the not-found helper is not applied to the requested CID"
		}
	}
	mi, isMI := root.(*ssa.MakeInterface)
	if !isMI || !an.TypeIs(mi.X.Type(), "github.com/ipfs/go-ipld-format", "ErrNotFound") {
		return "the miss is returned as " + an.PathOf(ev) + ", not as ipld.ErrNotFound"
	}
	if ld, isLd := mi.X.(*ssa.UnOp); isLd {
		if lit, isAl := ld.X.(*ssa.Alloc); isAl {
			for _, ref := range *lit.Referrers() {
				fa2, isFA := ref.(*ssa.FieldAddr)
				if !isFA {
					continue
				}
				for _, rr := range *fa2.Referrers() {
					if st, isSt := rr.(*ssa.Store); isSt && st.Addr == ssa.Value(fa2) && c01IsRequestedCid(st.Val) {
						return ""
					}
				}
			}
		}
	}
	return "ipld.ErrNotFound does not carry the requested CID"
}

// c01PresenceHelper: H(…, key ds.Key, …) bool is true only where the datastore's
// Has(<that key parameter>) returned (true, nil).
func c01PresenceHelper(p *an.Prog, pkgFns []*ssa.Function, H *ssa.Function) bool {
	if !an.IsLocalHelper(H) || H.Signature.Results().Len() != 1 || !types.Identical(H.Signature.Results().At(0).Type(), types.Typ[types.Bool]) {
		return false
	}
	var keyPrm *ssa.Parameter
	for _, q := range H.Params {
		if an.TypeIs(q.Type(), c01DS, "Key") {
			keyPrm = q
		}
	}
	if keyPrm == nil {
		return false
	}
	var errs, oks []ssa.Value
	for _, h := range an.AllCalls(H) {
		hk := c01KeyArgs(h)
		if an.Callee(h).Name == "Has" && len(hk) == 1 && c01First(an.Roots(hk[0], nil)) == ssa.Value(keyPrm) {
			errs = append(errs, an.ErrResult(h)...)
			oks = append(oks, an.Result(h, 0)...)
		}
	}
	if len(errs) == 0 {
		return false
	}
	okAl := an.Aliases(oks...)
	return an.TrueImplies(H, 0, []an.EdgeSet{an.NilEdges(H, errs, true), an.BoolEdges(H, oks, true)}, func(i int, v ssa.Value) bool {
		return i == 1 && okAl[v]
	})
}

// ---- role-based resolution of unexported types and fields -----------------

// c01StructTypes lists the named struct types declared in a root package.
func c01StructTypes(p *an.Prog, rel string) []*types.Named {
	pk := p.Pkg(rel)
	if pk == nil {
		return nil
	}
	var out []*types.Named
	sc := pk.Types.Scope()
	for _, nm := range sc.Names() {
		tn, ok := sc.Lookup(nm).(*types.TypeName)
		if !ok || tn.IsAlias() {
			continue
		}
		n, ok := tn.Type().(*types.Named)
		if !ok {
			continue
		}
		if _, ok := n.Underlying().(*types.Struct); ok {
			out = append(out, n)
		}
	}
	return out
}

// c01Implements: T or *T implements the named interface pkgRel.iface.
func c01Implements(p *an.Prog, n *types.Named, pkgRel, iface string) bool {
	pk := p.Pkg(pkgRel)
	if pk == nil {
		return false
	}
	tn, _ := pk.Types.Scope().Lookup(iface).(*types.TypeName)
	if tn == nil {
		return false
	}
	it, ok := tn.Type().Underlying().(*types.Interface)
	if !ok {
		return false
	}
	return types.Implements(n, it) || types.Implements(types.NewPointer(n), it)
}

// c01FieldBy returns the fields of struct type n whose type satisfies pred.
func c01FieldBy(n *types.Named, pred func(types.Type) bool) []*types.Var {
	st, ok := n.Underlying().(*types.Struct)
	if !ok {
		return nil
	}
	var out []*types.Var
	for i := 0; i < st.NumFields(); i++ {
		if pred(st.Field(i).Type()) {
			out = append(out, st.Field(i))
		}
	}
	return out
}

func c01One(fs []*types.Var) *types.Var {
	if len(fs) == 1 {
		return fs[0]
	}
	return nil
}

// c01TypeByField: the single struct type of the package that implements
// blockstore.Blockstore (when wantBS) and has exactly one field satisfying pred.
func c01TypeByField(p *an.Prog, rel string, wantBS bool, pred func(types.Type) bool) *types.Named {
	var found *types.Named
	for _, n := range c01StructTypes(p, rel) {
		if wantBS && !c01Implements(p, n, "blockstore", "Blockstore") {
			continue
		}
		if len(c01FieldBy(n, pred)) >= 1 {
			if found != nil {
				return nil
			}
			found = n
		}
	}
	return found
}

// c01ResultType: the struct type behind the (interface) result of an exported constructor.
func c01ResultType(p *an.Prog, rel, ctor string) *types.Named {
	fn := p.Func(rel, "", ctor)
	if fn == nil {
		return nil
	}
	for _, r := range an.Returns(fn) {
		if len(r.Results) == 0 {
			continue
		}
		for _, root := range an.Roots(r.Results[0], nil) {
			t := root.Type()
			if pt, ok := t.(*types.Pointer); ok {
				t = pt.Elem()
			}
			if n, ok := types.Unalias(t).(*types.Named); ok {
				if _, isSt := n.Underlying().(*types.Struct); isSt {
					return n
				}
			}
		}
	}
	return nil
}

// c01MethodsOf: SSA methods of a named type of a root package.
func c01MethodsOf(p *an.Prog, rel string, n *types.Named) []*ssa.Function {
	if n == nil {
		return nil
	}
	return p.Methods(rel, n.Obj().Name())
}

func c01IsBlockstoreT(t types.Type) bool { return an.TypeIs(t, "blockstore", "Blockstore") }
func c01IsViewerT(t types.Type) bool     { return an.TypeIs(t, "blockstore", "Viewer") }

// the datastore-backed blockstore, the identity store, the two caches
func c01TBlockstore(p *an.Prog) *types.Named {
	if n := c01ResultType(p, "blockstore", "NewBlockstore"); n != nil {
		return n
	}
	return c01TypeByField(p, "blockstore", true, func(t types.Type) bool { return an.TypeIs(t, c01DS, "Batching") })
}

func c01TIdstore(p *an.Prog) *types.Named { return c01ResultType(p, "blockstore", "NewIdStore") }

func c01TTqcache(p *an.Prog) *types.Named {
	return c01TypeByField(p, "blockstore", true, func(t types.Type) bool {
		return an.TypeIs(t, "github.com/hashicorp/golang-lru/v2", "TwoQueueCache")
	})
}

func c01TBloomcache(p *an.Prog) *types.Named {
	return c01TypeByField(p, "blockstore", true, func(t types.Type) bool {
		return an.TypeIs(t, "sync/atomic", "Pointer") && strings.Contains(t.String(), "bbloom.Bloom")
	})
}

func c01InFns(fns []*ssa.Function, f *ssa.Function) bool {
	for _, g := range fns {
		if g == f {
			return true
		}
	}
	return false
}

// c01KeyHelper: F returns the datastore key of one of its parameters (a CID
// or a block); the sources are re-expressed in terms of the call's arguments.
func c01KeyHelper(p *an.Prog, pkgFns []*ssa.Function, F *ssa.Function, call *ssa.Call, depth int) (out []c01KeySrc, why string) {
	n := 0
	for _, r := range an.Returns(F) {
		if !an.Reaches(F, nil, r, nil, nil) {
			continue
		}
		n++
		srcs, w := c01KeySources(p, pkgFns, r.Results[0], depth-1)
		if w != "" {
			return nil, w
		}
		for _, sr := range srcs {
			prm, isP := sr.Obj.(*ssa.Parameter)
			if !isP || prm.Parent() != F {
				return nil, "key does not derive from a parameter of the helper"
			}
			arg := call.Call.Args[an.RawParamIndex(prm)]
			switch sr.Kind {
			case "cid":
				kind, obj, w2 := c01HashSrc(arg)
				if w2 != "" {
					return nil, w2
				}
				out = append(out, c01KeySrc{Kind: kind, Obj: obj, Key: call})
			case "block":
				if !c01IsParamPath(arg) {
					return nil, "helper applied to a block that is not (an element of) a parameter"
				}
				out = append(out, c01KeySrc{Kind: "block", Obj: arg, Key: call})
			default:
				return nil, "unsupported key helper"
			}
		}
	}
	if n == 0 || len(out) == 0 {
		return nil, "helper returns no key"
	}
	return out, ""
}

func c01MhSources(p *an.Prog, pkgFns []*ssa.Function, mh ssa.Value, depth int) (out []c01KeySrc, why string) {
	for _, r := range an.Roots(mh, nil) {
		if hc, ok := an.IsCallTo(r, an.M(c01Cid, "Cid", "Hash")); ok {
			kind, obj, w := c01HashSrc(hc.Call.Args[0])
			if w != "" {
				return nil, w
			}
			out = append(out, c01KeySrc{Kind: kind, Obj: obj})
			continue
		}
		if prm, ok := r.(*ssa.Parameter); ok && an.TypeIs(prm.Type(), c01MH, "Multihash") {
			fn := prm.Parent()
			if depth <= 0 || fn.Object() == nil || fn.Object().Exported() {
				return nil, "multihash parameter " + prm.Name() + " of " + an.FuncName(fn) + " cannot be traced to a CID"
			}
			idx := -1
			for i, q := range fn.Params {
				if q == prm {
					idx = i
				}
			}
			n := 0
			for _, g := range pkgFns {
				for _, call := range an.AllCalls(g) {
					if call.Common().StaticCallee() != fn {
						continue
					}
					n++
					if _, w := c01MhSources(p, pkgFns, call.Common().Args[idx], depth-1); w != "" {
						return nil, "caller " + an.FuncName(g) + ": " + w
					}
				}
			}
			if n == 0 {
				return nil, "multihash parameter of " + an.FuncName(fn) + " has no package-local caller"
			}
			out = append(out, c01KeySrc{Kind: "mh", Obj: prm})
			continue
		}
		return nil, "multihash is not X.Hash() of a CID: " + an.PathOf(r)
	}
	if len(out) == 0 {
		return nil, "multihash has no producer"
	}
	return out, ""
}

// c01KeyArgs returns the arguments of type go-datastore.Key of a call made
// through an interface (datastore, batch, putter ...).
func c01KeyArgs(call ssa.CallInstruction) []ssa.Value {
	if !call.Common().IsInvoke() {
		return nil
	}
	var out []ssa.Value
	for _, a := range call.Common().Args {
		if an.TypeIs(a.Type(), c01DS, "Key") {
			out = append(out, a)
		}
	}
	return out
}

func c01Closure(fns []*ssa.Function) []*ssa.Function {
	var out []*ssa.Function
	for _, f := range fns {
		out = append(out, an.WithClosures(f)...)
	}
	return out
}

func runC01(c *an.Ctx) {
	p := c.P
	c01BatchSeen = map[*ssa.Function]bool{}
	const bsPkg = "blockstore"
	tBS, tID := c01TBlockstore(p), c01TIdstore(p)
	if !c.Need(tBS != nil && tID != nil, "the struct types behind blockstore.NewBlockstore and blockstore.NewIdStore") {
		return
	}
	bsFns := c01Closure(c01MethodsOf(p, bsPkg, tBS))
	if !c.Need(len(bsFns) > 0, "methods of blockstore.blockstore") {
		return
	}
	pkgBS := p.PkgFuncs(bsPkg)

	// ---- O1 / O5: key derivation (blockstore.blockstore, filestore.FileManager)
	type fam struct {
		ob, what string
		fns      []*ssa.Function
		pkgFns   []*ssa.Function
		min      int
	}
	fams := []fam{{"O1", "blockstore.blockstore", bsFns, pkgBS, 7}}
	if fm := p.Methods("filestore", "FileManager"); c.Need(len(fm) > 0, "methods of filestore.FileManager") {
		fams = append(fams, fam{"O5", "filestore.FileManager", c01Closure(fm), p.PkgFuncs("filestore"), 4})
	}
	for _, fa := range fams {
		n := 0
		for _, fn := range fa.fns {
			for _, call := range an.AllCalls(fn) {
				keys := c01KeyArgs(call)
				if len(keys) == 0 {
					continue
				}
				ci := an.Callee(call)
				name := an.FuncName(fn)
				for _, k := range keys {
					n++
					srcs, why := c01KeySources(p, fa.pkgFns, k, 3)
					construct := ci.Recv + "." + ci.Name + "(key)"
					if !c.Check(why == "", fa.ob, "R-FLOW", name, construct, call.Pos(),
						"datastore key = MultihashToDsKey(<cid/block parameter>.Hash())",
						"datastore key of "+ci.String()+" is not derived from the multihash of the CID/block parameter ("+why+"): CIDv0/CIDv1 aliases of one multihash would address different entries") {
						continue
					}
					// value written under a block-derived key must be that block's RawData()
					if fa.ob == "O1" && ci.Name == "Put" {
						args := call.Common().Args
						val := args[len(args)-1]
						okVal, whyV := true, ""
						for _, s := range srcs {
							if s.Kind != "block" {
								okVal, whyV = false, "key of a write does not come from the block being written"
								break
							}
							for _, r := range an.Roots(val, nil) {
								rc, ok := r.(*ssa.Call)
								if !ok || an.Callee(rc).Name != "RawData" || !an.SameObj(an.Recv(rc), s.Obj) {
									okVal, whyV = false, "value is "+an.PathOf(r)+", key comes from block "+an.PathOf(s.Obj)
								}
							}
						}
						c.Check(okVal, "O1", "R-FLOW", name, ci.Recv+"."+ci.Name+"(value)", call.Pos(),
							"bytes written are RawData() of the block whose multihash is the key",
							"datastore write stores bytes of a different object than the one that keys it: "+whyV)
					}
				}
			}
		}
		c.Min(fa.ob+" datastore calls with a key in "+fa.what, n, 1)
	}

	// O1: block returned by Get
	nNB := 0
	for _, fn := range bsFns {
		for _, call := range an.Calls(fn, an.M(c01Blocks, "", "NewBlockWithCid")) {
			nNB++
			args := call.Common().Args
			ok, why := true, ""
			var getCall *ssa.Call
			for _, r := range an.Roots(args[0], nil) {
				gc, isGet := an.IsCallTo(r, an.M(c01DS, "", "Get"))
				if e, isE := r.(*ssa.Extract); !isGet || !isE || e.Index != 0 || len(c01KeyArgs(gc)) != 1 {
					ok, why = false, "data is not the value read from the datastore: "+an.PathOf(r)
					break
				}
				getCall = gc
			}
			if ok && getCall != nil {
				srcs, w := c01KeySources(p, pkgBS, c01KeyArgs(getCall)[0], 0)
				if w != "" {
					ok, why = false, w
				}
				for _, s := range srcs {
					if s.Kind != "cid" || !an.SameObj(s.Obj, args[1]) {
						ok, why = false, "block is labelled with "+an.PathOf(args[1])+" but was read under the key of "+an.PathOf(s.Obj)
					}
				}
			}
			c.Check(ok, "O1", "R-FLOW", an.FuncName(fn), "NewBlockWithCid(read-bytes, requested-cid)", call.Pos(),
				"returned block = bytes read under the key of k, labelled k",
				"block returned by the blockstore does not pair the requested CID with the bytes read under its key: "+why)
		}
	}
	c.Min("O1 NewBlockWithCid in blockstore.blockstore", nNB, 1)

	// ---- O6 / O7: skipping a write, committing a batch
	nO6, nO7 := 0, 0
	for _, fn := range bsFns {
		name := an.FuncName(fn)
		var nilRets []ssa.Instruction
		for _, r := range an.Returns(fn) {
			if an.IsNilErrReturn(r) {
				nilRets = append(nilRets, r)
			}
		}
		for _, call := range an.AllCalls(fn) {
			ci := an.Callee(call)
			keys := c01KeyArgs(call)
			if ci.Name != "Put" || len(keys) != 1 {
				continue
			}
			srcs, why := c01KeySources(p, pkgBS, keys[0], 0)
			if why != "" || len(srcs) != 1 {
				continue // reported by O1
			}
			nO6++
			kc := srcs[0].Key
			var hasErr, hasOK []ssa.Value
			for _, h := range an.AllCalls(fn) {
				hk := c01KeyArgs(h)
				if an.Callee(h).Name != "Has" || len(hk) != 1 {
					continue
				}
				hs, w := c01KeySources(p, pkgBS, hk[0], 0)
				if w != "" || len(hs) != 1 || hs[0].Key != kc {
					continue
				}
				hasErr = append(hasErr, an.ErrResult(h)...)
				hasOK = append(hasOK, an.Result(h, 0)...)
			}
			// a package helper `present(ctx, key) bool` that is true only where Has(key) returned (true, nil)
			var present []ssa.Value
			for _, h := range an.AllCalls(fn) {
				hv := an.CallValue(h)
				H := h.Common().StaticCallee()
				if hv == nil || !c01PresenceHelper(p, pkgBS, H) {
					continue
				}
				for _, a := range h.Common().Args {
					if an.TypeIs(a.Type(), c01DS, "Key") {
						if hs, w := c01KeySources(p, pkgBS, a, 0); w == "" && len(hs) == 1 && hs[0].Key == kc {
							present = append(present, hv)
						}
					}
				}
			}
			presentT := an.BoolEdges(fn, present, true)
			blocked := map[ssa.Instruction]bool{call: true}
			targets := append([]ssa.Instruction{kc}, nilRets...)
			okSkip := true
			inf := an.InfeasibleEdges(fn)
			for _, t := range targets {
				if an.Reaches(fn, kc, t, an.NilEdges(fn, hasErr, true).Union(inf).Union(presentT), blocked) ||
					an.Reaches(fn, kc, t, an.BoolEdges(fn, hasOK, true).Union(inf).Union(presentT), blocked) {
					okSkip = false
				}
			}
			c.Check(okSkip, "O6", "R-DOM", name, ci.Recv+".Put<=skip-only-if-Has", call.Pos(),
				"the datastore write is skipped only where Has(same key) returned (true, nil)",
				"a block can be reported stored (or the next block processed) without writing it and without Has(key) having returned (true,nil): a put block would be absent")
			// the write's own error must not be ignored
			okErr := true
			nilW := an.NilEdges(fn, an.ErrResult(call), true)
			for _, r := range nilRets {
				if an.Reaches(fn, call, r, nil, nil) && !an.GuardedBy(fn, call, r, nilW) {
					okErr = false
				}
			}
			c.Check(okErr, "O6", "R-DOM", name, ci.Recv+".Put-error-not-ignored", call.Pos(),
				"success is reported only where the datastore write returned nil",
				"the error of the datastore write is ignored on a path that reports success: a block whose write failed is acknowledged as stored")
		}
		// O7
		for _, bc := range an.Calls(fn, an.M(c01DS, "", "Batch")) {
			if !bc.Common().IsInvoke() {
				continue
			}
			bcall := an.CallValue(bc)
			if bcall == nil {
				continue
			}
			nO7++
			al := an.Aliases(an.Result(bc, 0)...)
			var commits []ssa.CallInstruction
			for _, cm := range an.Calls(fn, an.M(c01DS, "", "Commit")) {
				if al[an.Recv(cm)] {
					commits = append(commits, cm)
				}
			}
			for _, r := range an.Returns(fn) {
				if !an.IsNilErrReturn(r) || !an.Reaches(fn, bc, r, nil, nil) {
					continue
				}
				ok := false
				for _, cm := range commits {
					if an.OnNilEdgeOf(fn, cm, r) {
						ok = true
					}
				}
				c.Check(ok, "O7", "R-POST", name, "Batch=>Commit-ok-before-success", r.Pos(),
					"success is returned only after Batch.Commit returned nil",
					"a batched put can return success without a successful Commit of the batch: acknowledged blocks are not stored")
			}
		}
	}
	c.Min("O6 datastore writes", nO6, 1)
	c.Min("O7 batches", nO7, 1)

	// ---- O11: batched puts process every block of the batch
	nO11 := 0
	for _, fn := range append(append([]*ssa.Function{}, c01MethodsOf(p, bsPkg, tBS)...), c01MethodsOf(p, bsPkg, tID)...) {
		nO11 += c01BatchComplete(c, fn, "O11")
	}
	c.Min("O11 batched puts (blockstore, idstore)", nO11, 1)

	// ---- O12: datastore errors of reads/deletes are not swallowed
	nO12 := 0
	for _, fa := range fams {
		for _, fn := range fa.fns {
			for _, call := range an.AllCalls(fn) {
				ci := an.Callee(call)
				if len(c01KeyArgs(call)) != 1 {
					continue
				}
				switch {
				case ci.Name == "Get", ci.Name == "GetSize", ci.Name == "Delete":
				case ci.Name == "Has" && fn.Name() == "Has":
				default:
					continue
				}
				errs := an.ErrResult(call)
				if len(errs) == 0 {
					continue
				}
				nO12++
				ok := true
				var at token.Pos = call.Pos()
				for _, r := range an.Returns(fn) {
					if len(r.Results) == 0 || !an.Reaches(fn, call, r, an.NilEdges(fn, errs, true), nil) {
						continue
					}
					if ev := an.RetVal(r, -1); ev != nil && an.IsErrorType(ev.Type()) && an.IsNilConst(ev) {
						ok, at = false, r.Pos()
					}
				}
				c.Check(ok, "O12", "R-DOM", an.FuncName(fn), ci.Recv+"."+ci.Name+"-error-propagated", at,
					"a failing datastore access is never turned into a successful answer",
					"a path on which the datastore "+ci.Name+" may have failed returns a nil error: a failed lookup/delete is reported as a definite answer (absent/present/deleted)")
			}
		}
	}
	c.Min("O12 datastore reads/deletes", nO12, 1)

	// ---- O10: a datastore miss is reported as ipld.ErrNotFound of the requested CID
	nO10 := 0
	for _, fa := range fams {
		for _, fn := range fa.fns {
			for _, call := range an.AllCalls(fn) {
				ci := an.Callee(call)
				if len(c01KeyArgs(call)) != 1 || (ci.Name != "Get" && ci.Name != "GetSize") {
					continue
				}
				nO10++
				name := an.FuncName(fn)
				errs := an.ErrResult(call)
				al := an.Aliases(errs...)
				isNF := func(v ssa.Value) bool {
					u, ok := v.(*ssa.UnOp)
					if !ok || u.Op != token.MUL {
						return false
					}
					g, ok := u.X.(*ssa.Global)
					return ok && g.Name() == "ErrNotFound" && g.Pkg.Pkg.Path() == c01DS
				}
				nf := an.CondEdges(fn, func(atom ssa.Value) (bool, bool) {
					if b, ok := atom.(*ssa.BinOp); ok && (b.Op == token.EQL || b.Op == token.NEQ) {
						if (al[b.X] && isNF(b.Y)) || (al[b.Y] && isNF(b.X)) {
							return b.Op == token.EQL, b.Op == token.NEQ
						}
					}
					if ec, ok := atom.(*ssa.Call); ok {
						if eci := an.Callee(ec); eci.Pkg == "errors" && eci.Name == "Is" && al[ec.Call.Args[0]] && isNF(ec.Call.Args[1]) {
							return true, false
						}
					}
					return false, false
				})
				ok, why, n := len(nf) > 0, "the datastore error is never compared with datastore.ErrNotFound", 0
				for _, r := range an.Returns(fn) {
					if len(nf) == 0 || !an.Reaches(fn, call, r, nil, nil) || !an.GuardedBy(fn, call, r, nf) {
						continue
					}
					n++
					ev := an.RetVal(r, -1)
					if w := c01NotFoundOfRequest(p, fa.pkgFns, ev, 2); w != "" {
						ok, why = false, w
					}
				}
				if ok && n == 0 {
					ok, why = false, "no return on the datastore.ErrNotFound edge"
				}
				c.Check(ok, "O10", "R-TABLE", name, ci.Recv+"."+ci.Name+": ErrNotFound=>ipld.ErrNotFound{requested}", call.Pos(),
					"a miss in the datastore is reported as ipld.ErrNotFound for the requested CID",
					"a datastore miss is not translated into ipld.ErrNotFound{<requested CID>} ("+why+"): absent blocks are reported as internal errors, caches cannot record the miss and the block service does not fall back to the exchange")
			}
		}
	}
	c.Min("O10 datastore reads with a miss mapping", nO10, 1)

	// ---- O2 / O3 / O4: idstore
	c01Idstore(c)

	// ---- O8: enumerated keys
	nO8 := 0
	// role: functions of the two packages that iterate over datastore query
	// results and send CIDs on a channel
	for _, pkgRel := range []string{bsPkg, "filestore"} {
		for _, fn := range p.PkgFuncs(pkgRel) {
			iterates := false
			for _, call := range an.AllCalls(fn) {
				if ci := an.Callee(call); (ci.Name == "NextSync" || ci.Name == "Next") && call.Common().IsInvoke() {
					iterates = true
				}
			}
			if !iterates {
				continue
			}
			for _, s := range an.Sends(fn) {
				if !an.TypeIs(s.Val.Type(), c01Cid, "Cid") {
					continue
				}
				nO8++
				ok, why := true, ""
				for _, r := range an.Roots(s.Val, nil) {
					nc, isNew := an.IsCallTo(r, an.M(c01Cid, "", "NewCidV1"))
					if !isNew {
						ok, why = false, "not cid.NewCidV1(...): "+an.PathOf(r)
						break
					}
					if k, isK := an.ConstOf(nc.Call.Args[0]); !isK || k.String() != "85" {
						ok, why = false, "codec is not cid.Raw"
					}
					for _, hr := range an.Roots(nc.Call.Args[1], nil) {
						dc, isDec := an.IsCallTo(hr, an.M("datastore/dshelp", "", "BinaryFromDsKey"), an.M("datastore/dshelp", "", "DsKeyToMultihash"))
						if !isDec {
							ok, why = false, "multihash is not decoded from the datastore key by dshelp: "+an.PathOf(hr)
							continue
						}
						// the key decoded is ds.RawKey(<entry>.Key) of a query result
						for _, kr := range an.Roots(dc.Call.Args[0], nil) {
							rk, isRK := an.IsCallTo(kr, an.M(c01DS, "", "RawKey"))
							if !isRK || !strings.HasSuffix(an.PathOf(rk.Call.Args[0]), ".Key") {
								ok, why = false, "decoded key is not ds.RawKey(<query entry>.Key)"
							}
						}
					}
				}
				c.Check(ok, "O8", "R-FLOW", an.FuncName(fn), "send(NewCidV1(Raw, decoded-key))", s.Instr.Pos(),
					"enumerated CID = NewCidV1(Raw, multihash decoded from the entry key)",
					"AllKeysChan emits a CID that is not rebuilt from the stored key's multihash: "+why)
			}
		}
	}
	c.Min("O8 key sends", nO8, 1)

	// ---- O9: one base32 encoding in dshelp
	if c.Need(p.Pkg("datastore/dshelp") != nil, "package datastore/dshelp") {
		encs := map[string]int{}
		for _, fn := range p.PkgFuncs("datastore/dshelp") {
			for _, call := range an.AllCalls(fn) {
				ci := an.Callee(call)
				if !strings.HasSuffix(ci.Pkg, "go-base32") || ci.Recv != "Encoding" {
					continue
				}
				recv := an.Recv(call)
				encs[an.PathOf(recv)]++
			}
		}
		n := 0
		var names []string
		for k, v := range encs {
			n += v
			names = append(names, k)
		}
		sort.Strings(names)
		c.Min("O9 base32 calls in dshelp", n, 1)
		fnKey := p.Func("datastore/dshelp", "", "NewKeyFromBinary")
		pos := token.NoPos
		if fnKey != nil {
			pos = fnKey.Pos()
		}
		c.Check(len(encs) == 1, "O9", "R-MIRROR", "datastore/dshelp", "base32-encoding-object", pos,
			"key encoder and decoder use the same base32 encoding "+strings.Join(names, ","),
			"dshelp encodes and decodes datastore keys with different base32 encodings ("+strings.Join(names, ", ")+"): stored keys do not decode back to their multihash")
	}
}

// c01Idstore checks O2, O3, O4.
func c01Idstore(c *an.Ctx) {
	p := c.P
	const bsPkg = "blockstore"
	tID := c01TIdstore(p)
	if !c.Need(tID != nil, "the struct type behind blockstore.NewIdStore") {
		return
	}
	fBs, fViewer := c01One(c01FieldBy(tID, c01IsBlockstoreT)), c01One(c01FieldBy(tID, c01IsViewerT))
	meths := c01MethodsOf(p, bsPkg, tID)
	if !c.Need(fBs != nil && fViewer != nil && len(meths) > 0, "blockstore.idstore fields bs, viewer and methods") {
		return
	}
	// role-based discovery of the identity extractor: the package function
	// func(cid.Cid) (bool, []byte) called by idstore methods
	// candidates: package functions/methods (cid.Cid) (bool, []byte); the base
	// extractor is the one that decodes the multihash, the others are accepted
	// as aliases when they return the two results of a call to an extractor
	// applied to their own CID parameter
	isCand := func(f *ssa.Function) bool {
		if f == nil || f.Blocks == nil || f.Pkg == nil || f.Pkg.Pkg.Path() != an.Mod+"/"+bsPkg {
			return false
		}
		sg := f.Signature
		return sg.Params().Len() == 1 && an.TypeIs(sg.Params().At(0).Type(), c01Cid, "Cid") && sg.Results().Len() == 2 &&
			types.Identical(sg.Results().At(0).Type(), types.Typ[types.Bool])
	}
	var ext *ssa.Function
	cands := map[*ssa.Function]bool{}
	var grow func(f *ssa.Function)
	grow = func(f *ssa.Function) {
		if !isCand(f) || cands[f] {
			return
		}
		cands[f] = true
		for _, call := range an.AllCalls(f) {
			grow(call.Common().StaticCallee())
		}
	}
	for _, fn := range meths {
		for _, call := range an.AllCalls(fn) {
			grow(call.Common().StaticCallee())
		}
	}
	for f := range cands {
		if len(an.Calls(f, an.M(c01MH, "", "Decode"))) > 0 {
			if ext != nil && ext != f {
				c.Problem("two candidate identity extractors: %s, %s", ext.Name(), f.Name())
				return
			}
			ext = f
		}
	}
	if !c.Need(ext != nil, "identity extractor func(cid.Cid)(bool, []byte) used by idstore") {
		return
	}
	exts := map[*ssa.Function]bool{ext: true}
	for changed := true; changed; {
		changed = false
		for f := range cands {
			if exts[f] {
				continue
			}
			prm := f.Params[len(f.Params)-1]
			ok, n := true, 0
			for _, r := range an.Returns(f) {
				if !an.Reaches(f, nil, r, nil, nil) {
					continue
				}
				n++
				e0, ok0 := r.Results[0].(*ssa.Extract)
				e1, ok1 := r.Results[1].(*ssa.Extract)
				if !ok0 || !ok1 || e0.Tuple != e1.Tuple || e0.Index != 0 || e1.Index != 1 {
					ok = false
					continue
				}
				ic, isCall := e0.Tuple.(*ssa.Call)
				if !isCall || !exts[ic.Call.StaticCallee()] || ic.Call.Args[len(ic.Call.Args)-1] != ssa.Value(prm) {
					ok = false
				}
			}
			if ok && n > 0 {
				exts[f] = true
				changed = true
			}
		}
	}
	isExt := func(call ssa.CallInstruction) bool { f := call.Common().StaticCallee(); return f != nil && exts[f] }
	extArg := func(call *ssa.Call) ssa.Value { return call.Call.Args[len(call.Call.Args)-1] }

	// extractor call in fn whose argument is the CID `cidv` or Cid() of block `blk`
	findExt := func(fn *ssa.Function, cidv, blk ssa.Value) *ssa.Call {
		for _, call := range an.AllCalls(fn) {
			if !isExt(call) {
				continue
			}
			a := call.Common().Args[len(call.Common().Args)-1]
			if cidv != nil && an.SameObj(a, cidv) {
				return an.CallValue(call)
			}
			if blk != nil {
				for _, r := range an.Roots(a, nil) {
					if rc, ok := r.(*ssa.Call); ok && an.Callee(rc).Name == "Cid" && an.Recv(rc) != nil && an.SameObj(an.Recv(rc), blk) {
						return an.CallValue(call)
					}
				}
			}
		}
		return nil
	}
	notIDEdges := func(fn *ssa.Function, e *ssa.Call) an.EdgeSet { return an.BoolEdges(fn, an.Result(e, 0), false) }

	nO2 := 0
	for _, fn := range meths {
		name := an.FuncName(fn)
		for _, call := range an.AllCalls(fn) {
			if !call.Common().IsInvoke() {
				continue
			}
			rf, _ := an.FieldOf(c01LoadAddr(call.Common().Value))
			if rf != fBs && rf != fViewer {
				continue
			}
			ci := an.Callee(call)
			var cidv, blk, slice ssa.Value
			for _, a := range call.Common().Args {
				switch {
				case an.TypeIs(a.Type(), c01Cid, "Cid"):
					cidv = a
				case an.TypeIs(a.Type(), c01Blocks, "Block"):
					blk = a
				default:
					if s, ok := a.Type().Underlying().(*types.Slice); ok && an.TypeIs(s.Elem(), c01Blocks, "Block") {
						slice = a
					}
				}
			}
			if cidv == nil && blk == nil && slice == nil {
				continue // AllKeysChan, Close ...
			}
			nO2++
			construct := "forward " + rf.Name() + "." + ci.Name
			if slice != nil {
				// filtered: the slice is fresh and only receives blocks on the not-identity
				// edge of the extractor applied to their own CID; it may be built by a
				// package function of which this holds for every slice it returns
				var filtered func(g *ssa.Function, sv ssa.Value, depth int) (bool, string)
				filtered = func(g *ssa.Function, sv ssa.Value, depth int) (bool, string) {
					roots, apps := an.SliceChain(sv)
					ok, why := true, ""
					nProd := 0
					for _, r := range roots {
						if _, isMake := r.(*ssa.MakeSlice); isMake || an.IsNilConst(r) {
							continue
						}
						var pc *ssa.Call
						switch x := r.(type) {
						case *ssa.Call:
							pc = x
						case *ssa.Extract:
							if x.Index == 0 {
								pc, _ = x.Tuple.(*ssa.Call)
							}
						}
						if pc != nil && depth < 3 {
							if H := pc.Call.StaticCallee(); H != nil && H.Blocks != nil && H.Pkg == g.Pkg && H != g {
								n := 0
								for _, ret := range an.Returns(H) {
									if !an.Reaches(H, nil, ret, nil, nil) || len(ret.Results) == 0 {
										continue
									}
									rv := an.RetVal(ret, 0)
									if an.IsNilConst(rv) {
										continue
									}
									n++
									if okH, whyH := filtered(H, rv, depth+1); !okH {
										ok, why = false, "in "+H.Name()+": "+whyH
									}
								}
								if n > 0 {
									nProd++
									continue
								}
							}
						}
						ok, why = false, "forwarded slice starts from "+an.PathOf(r)+" (not a fresh slice)"
					}
					for _, ap := range apps {
						elems, isList := an.AppendElems(ap)
						if !isList {
							ok, why = false, "append of a whole slice"
							continue
						}
						for _, e := range elems {
							ec := findExt(g, nil, e)
							if ec == nil || !an.Dominates(ec, ap) || !an.GuardedBy(g, ec, ap, notIDEdges(g, ec)) {
								ok, why = false, "a block is appended without the not-identity answer of the extractor for its own CID"
							}
						}
					}
					if len(apps) == 0 && nProd == 0 {
						ok, why = false, "no filtered append found"
					}
					return ok, why
				}
				ok, why := filtered(fn, slice, 0)
				c.Check(ok, "O2", "R-DOM", name, construct, call.Pos(),
					"batch forwarded to the wrapped store contains only blocks appended on the not-identity edge",
					"idstore forwards a batch that may contain identity-hash blocks ("+why+"): identity blocks would be written to the backing store")
				continue
			}
			ec := findExt(fn, cidv, blk)
			ok := ec != nil && an.Dominates(ec, call) && an.GuardedBy(fn, ec, call, notIDEdges(fn, ec))
			c.Check(ok, "O2", "R-DOM", name, construct, call.Pos(),
				"forward to the wrapped store only on the not-identity edge of the extractor applied to the same CID",
				"idstore forwards "+ci.Name+" to the wrapped store without extractContents(<same CID>) having answered false: identity CIDs reach (or are looked up in) the backing store")
		}
	}
	c.Min("O2 idstore forwards carrying a CID/block", nO2, 1)

	// O3: identity answers
	nO3 := 0
	want := map[string]bool{"Has": true, "GetSize": true, "Get": true, "View": true, "Put": true, "DeleteBlock": true}
	seen := map[string]bool{}
	for _, fn := range meths {
		if !want[fn.Name()] {
			continue
		}
		seen[fn.Name()] = true
		name := an.FuncName(fn)
		var ecs []*ssa.Call
		for _, call := range an.AllCalls(fn) {
			if isExt(call) {
				ecs = append(ecs, an.CallValue(call))
			}
		}
		if len(ecs) != 1 {
			c.Bad("O3", "R-FLOW", name, "identity-answer", fn.Pos(), fmt.Sprintf("%d extractor calls in %s: cannot identify the identity branch", len(ecs), fn.Name()))
			continue
		}
		ec := ecs[0]
		digest := func(v ssa.Value) bool {
			for _, r := range an.Roots(v, nil) {
				e, ok := r.(*ssa.Extract)
				if !ok || e.Tuple != ssa.Value(ec) || e.Index != 1 {
					return false
				}
			}
			return true
		}
		for _, r := range an.Returns(fn) {
			if !an.Reaches(fn, ec, r, notIDEdges(fn, ec), nil) {
				continue
			}
			nO3++
			ok, why := true, ""
			res := func(i int) ssa.Value { return an.RetVal(r, i) }
			switch fn.Name() {
			case "Has":
				k, isK := an.ConstOf(res(0))
				if !isK || k.String() != "true" || !an.IsNilConst(res(1)) {
					ok, why = false, "Has on an identity CID does not answer (true, nil)"
				}
			case "Put", "DeleteBlock":
				if !an.IsNilConst(res(0)) {
					ok, why = false, fn.Name()+" on an identity CID does not return nil"
				}
			case "GetSize":
				lc, isLen := an.IsBuiltinCall(res(0), "len")
				if !isLen || !digest(lc.Call.Args[0]) || !an.IsNilConst(res(1)) {
					ok, why = false, "GetSize on an identity CID is not (len(<inlined bytes>), nil)"
				}
			case "Get":
				nb, isNB := an.IsCallTo(c01First(an.Roots(res(0), nil)), an.M(c01Blocks, "", "NewBlockWithCid"))
				if !isNB || !digest(nb.Call.Args[0]) || !an.SameObj(nb.Call.Args[1], extArg(ec)) {
					ok, why = false, "Get on an identity CID is not NewBlockWithCid(<inlined bytes>, <that CID>)"
				} else if eb, isEB := an.IsCallTo(res(1), an.M(c01Blocks, "", "NewBlockWithCid")); !isEB || eb != nb {
					ok, why = false, "Get on an identity CID drops NewBlockWithCid's error"
				}
			case "View":
				cb, isCall := res(0).(*ssa.Call)
				if !isCall || len(cb.Call.Args) != 1 || !digest(cb.Call.Args[0]) {
					ok, why = false, "View on an identity CID does not return callback(<inlined bytes>)"
				} else if _, isParam := cb.Call.Value.(*ssa.Parameter); !isParam {
					ok, why = false, "View on an identity CID does not call the callback parameter"
				}
			}
			c.Check(ok, "O3", "R-FLOW", name, "identity-answer", r.Pos(),
				"identity CID answered from its inlined bytes", why+": an identity CID must always be present with its inlined bytes")
		}
	}
	for m := range want {
		c.Need(seen[m], "idstore."+m)
	}
	c.Min("O3 identity returns", nO3, 1)

	// O4: the extractor itself
	name := an.FuncName(ext)
	prm := ext.Params[0]
	var dec *ssa.Call
	for _, call := range an.Calls(ext, an.M(c01MH, "", "Decode")) {
		dec = an.CallValue(call)
	}
	if !c.Need(dec != nil, "multihash.Decode call in "+ext.Name()) {
		return
	}
	okArg := true
	for _, r := range an.Roots(dec.Call.Args[0], nil) {
		hc, ok := an.IsCallTo(r, an.M(c01Cid, "Cid", "Hash"))
		if !ok || hc.Call.Args[0] != ssa.Value(prm) {
			okArg = false
		}
	}
	c.Check(okArg, "O4", "R-FLOW", name, "Decode(k.Hash())", dec.Pos(), "decodes the multihash of the CID parameter",
		"identity extractor decodes something else than k.Hash()")
	decoded := an.Aliases(an.Result(dec, 0)...)
	isCode := func(v ssa.Value) bool {
		u, ok := v.(*ssa.UnOp)
		if !ok || u.Op != token.MUL {
			return false
		}
		f, base := an.FieldOf(u.X)
		return f != nil && f.Name() == "Code" && decoded[base]
	}
	isMhType := func(v ssa.Value) bool {
		f, base := an.FieldOf(v)
		if f == nil || f.Name() != "MhType" {
			return false
		}
		pc, ok := an.IsCallTo(base, an.M(c01Cid, "Cid", "Prefix"))
		return ok && pc.Call.Args[0] == ssa.Value(prm)
	}
	isZero := func(v ssa.Value) bool { k, ok := an.ConstOf(v); return ok && k.String() == "0" }
	codeIsID := an.RelEdges(ext, isCode, isZero, an.RelEQ)
	codeNotID := an.RelEdges(ext, isCode, isZero, an.RelNE)
	typeNotID := an.RelEdges(ext, isMhType, isZero, an.RelNE)
	decFailed := an.NilEdges(ext, an.ErrResult(dec), false)
	nT, nF := 0, 0
	for _, r := range an.Returns(ext) {
		k, ok := an.ConstOf(an.RetVal(r, 0))
		if !ok {
			c.Bad("O4", "R-DOM", name, "return-nonconstant", r.Pos(), "identity extractor returns a computed flag; cannot decide on which edges it says 'identity'")
			continue
		}
		if k.String() == "true" {
			nT++
			okT := an.OnNilEdgeOf(ext, dec, r) && an.GuardedBy(ext, nil, r, codeIsID)
			c.Check(okT, "O4", "R-DOM", name, "true<=Decode-ok&&Code==IDENTITY", r.Pos(),
				"answers 'identity' only after a successful Decode whose Code is IDENTITY",
				"identity extractor can answer true without a successful multihash.Decode with Code == IDENTITY: non-identity blocks would be dropped on Put and fabricated on Get")
			okD := false
			if u, isU := an.RetVal(r, 1).(*ssa.UnOp); isU && u.Op == token.MUL {
				f, base := an.FieldOf(u.X)
				okD = f != nil && f.Name() == "Digest" && decoded[base]
			}
			c.Check(okD, "O4", "R-FLOW", name, "true=>Digest-of-that-decode", r.Pos(),
				"inlined bytes are the Digest of the decoded multihash", "identity extractor returns bytes that are not the decoded Digest")
		} else {
			nF++
			okF := an.GuardedBy(ext, nil, r, typeNotID.Union(codeNotID).Union(decFailed))
			c.Check(okF, "O4", "R-DOM", name, "false<=not-identity-evidence", r.Pos(),
				"answers 'not identity' only where the hash type/code differs from IDENTITY or decoding failed",
				"identity extractor can answer false for an identity multihash: identity CIDs would be written to / looked up in the backing store")
		}
	}
	c.Min("O4 true returns of the extractor", nT, 1)
	c.Min("O4 false returns of the extractor", nF, 1)
}

// c01LoadAddr returns the address operand of a load, or nil.
func c01LoadAddr(v ssa.Value) ssa.Value {
	if u, ok := v.(*ssa.UnOp); ok && u.Op == token.MUL {
		return u.X
	}
	return nil
}

func c01First(vs []ssa.Value) ssa.Value {
	if len(vs) == 1 {
		return vs[0]
	}
	return nil
}

// c01PossiblySuccess: return r may report success: its error value is the nil
// constant, or the result of a call that is not known to have failed (r is not
// confined to that call's non-nil error edge).
func c01PossiblySuccess(fn *ssa.Function, r *ssa.Return) bool {
	ev := an.RetVal(r, -1)
	if ev == nil || !an.IsErrorType(ev.Type()) {
		return false
	}
	if an.IsNilConst(ev) {
		return true
	}
	for _, root := range an.Roots(ev, nil) {
		var call *ssa.Call
		switch x := root.(type) {
		case *ssa.Call:
			call = x
		case *ssa.Extract:
			call, _ = x.Tuple.(*ssa.Call)
		}
		if call == nil {
			if an.IsNilConst(root) {
				return true
			}
			continue // a constructed error value
		}
		if ci := an.Callee(call); (ci.Pkg == "fmt" && ci.Name == "Errorf") || (ci.Pkg == "errors" && ci.Name == "New") {
			continue // a freshly constructed error
		}
		if errs := an.ErrResult(call); len(errs) > 0 && an.GuardedBy(fn, call, r, an.NilEdges(fn, errs, false)) {
			continue // failure return of that call
		}
		return true
	}
	return false
}

// c01BatchComplete checks, for a method with a []blocks.Block parameter, that
// every return which may report success is reached only after the whole batch
// was consumed: after a range loop over the parameter that has no `break`
// (its only other exits are failure returns), after a call that is handed the
// whole slice, or through the single-element delegation idiom
// `if len(bs) == 1 { return x.Put(ctx, bs[0]) }`. For loops that build a
// filtered batch it also requires that an element is left out only on the
// identity edge of the extractor (idstore).
var c01BatchSeen = map[*ssa.Function]bool{}

func c01BatchComplete(c *an.Ctx, fn *ssa.Function, ob string) int {
	var prm *ssa.Parameter
	for _, q := range fn.Params {
		if s, ok := q.Type().Underlying().(*types.Slice); ok && an.TypeIs(s.Elem(), c01Blocks, "Block") {
			prm = q
		}
	}
	if prm == nil {
		return 0
	}
	name := an.FuncName(fn)
	var loops []*an.RangeLoop
	for _, l := range an.RangeLoops(fn) {
		if l.Slice == ssa.Value(prm) {
			loops = append(loops, l)
		}
	}
	// loops must not be left early except by returning a failure
	cleanLoop := func(l *an.RangeLoop) bool {
		for _, e := range l.ExitEdges() {
			tgt := e.From.Succs[e.Succ]
			if len(tgt.Succs) != 0 || len(tgt.Instrs) == 0 {
				return false
			}
			r, isRet := tgt.Instrs[len(tgt.Instrs)-1].(*ssa.Return)
			if !isRet || c01PossiblySuccess(fn, r) {
				return false
			}
			// a function without an error result cannot report the early exit as a failure
			if rs := fn.Signature.Results(); rs.Len() == 0 || !an.IsErrorType(rs.At(rs.Len()-1).Type()) {
				return false
			}
		}
		return true
	}
	var whole []ssa.Instruction
	nHelper := 0
	for _, call := range an.AllCalls(fn) {
		for _, a := range call.Common().Args {
			if a == ssa.Value(prm) {
				if _, isB := call.Common().Value.(*ssa.Builtin); !isB {
					whole = append(whole, call)
					// a package helper that is handed the whole batch is held to the same rule
					if H := call.Common().StaticCallee(); an.IsLocalHelper(H) && H != fn && H.Pkg == fn.Pkg && !c01BatchSeen[H] {
						c01BatchSeen[H] = true
						nHelper += c01BatchComplete(c, H, ob)
					}
				}
			}
		}
	}
	isLen := func(v ssa.Value) bool {
		lc, ok := an.IsBuiltinCall(v, "len")
		return ok && lc.Call.Args[0] == ssa.Value(prm)
	}
	isOne := func(v ssa.Value) bool { k, ok := an.ConstOf(v); return ok && k.String() == "1" }
	single := an.RelEdges(fn, isLen, isOne, an.RelEQ)
	empty := an.RelEdges(fn, isLen, func(v ssa.Value) bool { k, ok := an.ConstOf(v); return ok && k.String() == "0" }, an.RelEQ)
	n := 0
	for _, r := range an.Returns(fn) {
		if !an.Reaches(fn, nil, r, nil, nil) || !c01PossiblySuccess(fn, r) {
			continue
		}
		n++
		ok := false
		for _, l := range loops {
			if l.After(r) && cleanLoop(l) {
				ok = true
			}
		}
		for _, w := range whole {
			if an.Dominates(w, r) {
				ok = true
			}
		}
		if !ok && len(empty) > 0 && an.GuardedBy(fn, nil, r, empty) {
			ok = true // empty batch
		}
		if !ok && len(single) > 0 && an.GuardedBy(fn, nil, r, single) {
			// delegation of the single element to a method of the same receiver
			for _, root := range an.Roots(an.RetVal(r, -1), nil) {
				dc, isCall := root.(*ssa.Call)
				if !isCall || dc.Call.StaticCallee() == nil || len(dc.Call.Args) == 0 || dc.Call.Args[0] != ssa.Value(fn.Params[0]) {
					continue
				}
				for _, a := range dc.Call.Args[1:] {
					if u, isU := a.(*ssa.UnOp); isU {
						if ia, isIA := u.X.(*ssa.IndexAddr); isIA && ia.X == ssa.Value(prm) {
							if k, isK := an.ConstOf(ia.Index); isK && k.String() == "0" {
								ok = true
							}
						}
					}
				}
			}
		}
		c.Check(ok, ob, "R-POST", name, "success=>whole-batch-consumed", r.Pos(),
			"success is reported only after every block of the batch was consumed",
			"a batched put can report success although not every block of the batch was processed (early return / fast path / break out of the loop over the batch): acknowledged blocks are not stored")
	}
	// filtered batches: an element is dropped only on the identity edge
	for _, l := range loops {
		var apps []ssa.Instruction
		var ext []*ssa.Call
		for _, call := range an.AllCalls(fn) {
			cv := an.CallValue(call)
			if cv == nil || !l.Contains(cv) {
				continue
			}
			if ac, isApp := an.IsBuiltinCall(cv, "append"); isApp {
				if elems, okE := an.AppendElems(ac); okE && len(elems) == 1 && l.IsElem(elems[0]) {
					apps = append(apps, ac)
				}
			}
			sg := cv.Call.Signature()
			if f := cv.Call.StaticCallee(); f != nil && sg.Params().Len() == 1 && an.TypeIs(sg.Params().At(0).Type(), c01Cid, "Cid") &&
				sg.Results().Len() == 2 && types.Identical(sg.Results().At(0).Type(), types.Typ[types.Bool]) {
				ext = append(ext, cv)
			}
		}
		if len(apps) == 0 {
			continue
		}
		n++
		var flags []ssa.Value
		for _, e := range ext {
			flags = append(flags, an.Result(e, 0)...)
		}
		blocked := map[ssa.Instruction]bool{}
		for _, a := range apps {
			blocked[a] = true
		}
		cut := an.BoolEdges(fn, flags, true).Union(an.EdgeSet{an.Edge{From: l.Header, Succ: 1}: true})
		ok := !an.Reaches(fn, l.If, l.Header.Instrs[0], cut, blocked) && cleanLoop(l)
		c.Check(ok, ob, "R-POST", name, "filtered-batch: dropped only if identity", apps[0].Pos(),
			"every block of the batch is kept unless the extractor said identity",
			"a block of the batch can be left out of the forwarded batch without the identity extractor having answered true for it (or the loop is left early): a non-identity block is acknowledged but never written")
	}
	return n + nHelper
}
