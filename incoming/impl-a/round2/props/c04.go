package props

import (
	"fmt"
	"go/constant"
	"go/token"
	"go/types"

	"golang.org/x/tools/go/ssa"

	"verif/checker/an"
)

func init() {
	register("C04", Prop{
		Pkgs: []string{"./verifcid", "./blockservice"},
		Explain: "Decided (structural necessary conditions of 'only allowlisted hashes enter or leave the block service'): " +
			"O1 in package blockservice every call that stores, looks up or fetches blocks (Blockstore.Get/GetSize/Has/View/Put/PutMany, Fetcher.GetBlock/GetBlocks, NotifyNewBlocks) receives only CIDs / blocks / slices that are validated at that point: verifcid.ValidateCid(<allowlist>, <that CID or block.Cid()>) returned nil on every path, or the value is an element of a slice all of whose elements were validated (validating range loop that leaves the function on the first error), or a block obtained from the exchange for validated CIDs; the allowlist passed is the service's own (s.allowlist / grabAllowlistFromBlockservice) and grabAllowlistFromBlockservice returns the bounded service's Allowlist() or the default; " +
			"O2 getBlocks' filter: the key slice consumed after the filter is, on every path, either the filtered copy (prefix copied up to the index reached by a validating scan that only advances past valid CIDs, plus elements appended on ValidateCid's nil edge) or the original slice on the edge where that scan index equals its length (nothing unvalidated left); " +
			"O3 ValidateCid returns nil only where allowlist.IsAllowed(prefix.MhType) was true and MhLength >= MinDigestSize(MhType) and MhLength <= MaxDigestSize(MhType) (exact inclusive bounds, same allowlist, same prefix of the CID parameter), and non-nil on the complementary edges; the custom allowlist answers only from its map, its override or false; default bounds: DefaultMinDigestSize <= DefaultMaxDigestSize, identity minimum 0, identity maximum DefaultMaxIdentityDigestSize > 0. " +
			"NOT decided: the content of the default allowlist table (data), callers that bypass the block service through Blockstore()/Exchange(), DeleteBlock (does not store, fetch or return a block).",
		Assume:    []string{"blocks returned by the exchange carry the requested CIDs (the unchecked flows are reported by C05 O3)", "cid.Cid.Prefix() reports the multihash code and digest length of the CID"},
		Technique: "condition-edge dominance (R-DOM), loop-all / prefix-scan idioms over go/ssa range loops, value provenance through append chains and captured cells (R-FLOW), exact relational edges (R-CMP), constant facts (R-CONST)",
		Run:       runC04,
	})
}

const (
	c04Verifcid = "verifcid"
	c04BS       = "blockstore"
	c04Ex       = "exchange"
)

// c04v is the validation oracle for one function.
type c04v struct {
	c   *an.Ctx
	fn  *ssa.Function
	inf an.EdgeSet
	// why collects the reason of the last failure
	why string
}

func (v *c04v) fail(format string, a ...any) bool {
	v.why = fmt.Sprintf(format, a...)
	return false
}

func c04IsCidSlice(t types.Type) bool {
	s, ok := t.Underlying().(*types.Slice)
	return ok && an.TypeIs(s.Elem(), c01Cid, "Cid")
}

func c04IsBlockSlice(t types.Type) bool {
	s, ok := t.Underlying().(*types.Slice)
	return ok && an.TypeIs(s.Elem(), c01Blocks, "Block")
}

func (v *c04v) validateCalls() []*ssa.Call {
	var out []*ssa.Call
	for _, call := range an.Calls(v.fn, an.M(c04Verifcid, "", "ValidateCid")) {
		if cv := an.CallValue(call); cv != nil {
			out = append(out, cv)
		}
	}
	return out
}

// validatesCid: V validates the CID value x (same value) or, for a block b,
// b.Cid().
func c04Validates(V *ssa.Call, cidv, blk ssa.Value) bool {
	a := V.Call.Args[1]
	if cidv != nil && (a == cidv || an.SameObj(a, cidv)) {
		return true
	}
	if blk != nil && c02IsCidOf(a, blk) {
		return true
	}
	return false
}

// guarded: site is reached, after V, only on V's nil edge.
func (v *c04v) onNil(V *ssa.Call, site ssa.Instruction) bool {
	return an.OnNilEdgeOf(v.fn, V, site)
}

// validCID: the CID value x is validated at site.
func (v *c04v) validCID(x ssa.Value, site ssa.Instruction, depth int) bool {
	if depth > 6 {
		return v.fail("validation chain too deep")
	}
	for _, V := range v.validateCalls() {
		if c04Validates(V, x, nil) && v.onNil(V, site) {
			return true
		}
	}
	// element of a validated CID slice
	for _, l := range an.RangeLoops(v.fn) {
		if l.IsElem(x) {
			if v.validSlice(l.Slice, site, depth+1) {
				return true
			}
			return false
		}
	}
	// Cid() of a validated block
	rs := an.Roots(x, nil)
	if len(rs) == 1 {
		if rc, ok := rs[0].(*ssa.Call); ok && an.Callee(rc).Name == "Cid" && len(an.Args(rc)) == 0 && an.Recv(rc) != nil {
			if v.validBlock(an.Recv(rc), site, depth+1) {
				return true
			}
			return false
		}
	}
	return v.fail("CID %s reaches the call without a successful ValidateCid on every path", an.PathOf(x))
}

// exchangeOrigin: b was produced by the exchange: result of Fetcher.GetBlock
// or received from the channel returned by Fetcher.GetBlocks. It returns the
// originating call.
func c04ExchangeOrigin(b ssa.Value) *ssa.Call {
	for _, r := range an.Roots(b, nil) {
		if gc, ok := an.IsCallTo(r, an.M(c04Ex, "", "GetBlock")); ok && gc.Call.IsInvoke() {
			return gc
		}
		if ch := an.RecvChan(r); ch != nil {
			for _, cr := range an.Roots(ch, nil) {
				if gc, ok := an.IsCallTo(cr, an.M(c04Ex, "", "GetBlocks")); ok && gc.Call.IsInvoke() {
					return gc
				}
			}
		}
	}
	return nil
}

// validBlock: block b carries a validated CID at site.
func (v *c04v) validBlock(b ssa.Value, site ssa.Instruction, depth int) bool {
	if depth > 6 {
		return v.fail("validation chain too deep")
	}
	for _, V := range v.validateCalls() {
		if c04Validates(V, nil, b) && v.onNil(V, site) {
			return true
		}
	}
	for _, l := range an.RangeLoops(v.fn) {
		if l.IsElem(b) {
			return v.validSlice(l.Slice, site, depth+1)
		}
	}
	if gc := c04ExchangeOrigin(b); gc != nil {
		// every root must be that exchange result
		for _, r := range an.Roots(b, nil) {
			if c04ExchangeOrigin(r) != gc {
				return v.fail("block %s has several producers", an.PathOf(b))
			}
		}
		arg := an.Args(gc)[1]
		if c04IsCidSlice(arg.Type()) {
			return v.validSlice(arg, gc, depth+1)
		}
		return v.validCID(arg, gc, depth+1)
	}
	return v.fail("block %s reaches the call without a successful ValidateCid of its CID on every path", an.PathOf(b))
}

// scanLoop describes a range loop that validates its elements and only
// advances past valid ones.
func (v *c04v) isScan(l *an.RangeLoop) bool {
	var V *ssa.Call
	for _, cand := range v.validateCalls() {
		if !l.Contains(cand) {
			continue
		}
		a := cand.Call.Args[1]
		if l.IsElem(a) {
			V = cand
		} else if rs := an.Roots(a, nil); len(rs) == 1 {
			if rc, ok := rs[0].(*ssa.Call); ok && an.Callee(rc).Name == "Cid" && an.Recv(rc) != nil && l.IsElem(an.Recv(rc)) {
				V = cand
			}
		}
	}
	if V == nil {
		return false
	}
	// next iteration only via V's nil edge
	nilE := an.NilEdges(v.fn, an.ErrResult(V), true)
	if an.Reaches(v.fn, l.If, l.Header.Instrs[0], nilE.Union(an.EdgeSet{an.Edge{From: l.Header, Succ: 1}: true}), nil) {
		return false
	}
	return true
}

// fullyValidated: slice value s (a parameter or another immutable value) has
// been scanned to exhaustion by a validating loop before site.
func (v *c04v) fullyValidated(s ssa.Value, site ssa.Instruction) bool {
	for _, l := range an.RangeLoops(v.fn) {
		if (l.Slice == s || an.SameObj(l.Slice, s)) && v.isScan(l) && l.After(site) {
			return true
		}
	}
	return false
}

// prefixLen: x is an index value that never exceeds the number of elements of
// l's slice validated so far: 0, the loop index, or phis of those.
func c04PrefixLen(l *an.RangeLoop, x ssa.Value, seen map[ssa.Value]bool) bool {
	if seen[x] {
		return true
	}
	seen[x] = true
	if x == l.Idx {
		return true
	}
	if k, ok := an.ConstOf(x); ok && k.String() == "0" {
		return true
	}
	if phi, ok := x.(*ssa.Phi); ok {
		if phi == l.Idx.(*ssa.BinOp).X {
			return false // the pre-increment index (-1 initially)
		}
		for _, e := range phi.Edges {
			if !c04PrefixLen(l, e, seen) {
				return false
			}
		}
		return true
	}
	return false
}

// validSlice: every element of slice value s is validated at site.
func (v *c04v) validSlice(s ssa.Value, site ssa.Instruction, depth int) bool {
	if depth > 6 {
		return v.fail("validation chain too deep")
	}
	// variadic pack / fixed array: slice of a local array
	if sl, ok := s.(*ssa.Slice); ok {
		if arr, ok := sl.X.(*ssa.Alloc); ok {
			if _, isArr := arr.Type().Underlying().(*types.Pointer).Elem().Underlying().(*types.Array); isArr {
				n := 0
				for _, ref := range *arr.Referrers() {
					ia, ok := ref.(*ssa.IndexAddr)
					if !ok {
						continue
					}
					for _, rr := range *ia.Referrers() {
						st, ok := rr.(*ssa.Store)
						if !ok || st.Addr != ia || an.IsNilConst(st.Val) {
							continue
						}
						n++
						okE := false
						if an.TypeIs(st.Val.Type(), c01Cid, "Cid") {
							okE = v.validCID(st.Val, site, depth+1)
						} else {
							okE = v.validBlock(st.Val, site, depth+1)
						}
						if !okE {
							return false
						}
					}
				}
				return n > 0 || v.fail("empty variadic pack")
			}
		}
	}
	// a load of a (captured) cell: path-sensitive treatment
	if u, ok := s.(*ssa.UnOp); ok && u.Op == token.MUL {
		if cell := an.CellOf(u.X); cell != nil {
			if _, isSlice := cell.Type().Underlying().(*types.Pointer).Elem().Underlying().(*types.Slice); isSlice {
				return v.validCell(cell, u, site, depth)
			}
		}
	}
	roots, apps := an.SliceChain(s)
	for _, r := range roots {
		switch x := r.(type) {
		case *ssa.Const:
			if !x.IsNil() {
				return v.fail("slice constant")
			}
		case *ssa.MakeSlice:
			if k, ok := an.ConstOf(x.Len); ok && k.String() == "0" {
				continue
			}
			if !v.prefixCopy(x, site) {
				return false
			}
		default:
			if !v.fullyValidated(r, site) {
				return v.fail("slice %s is used without every element having passed ValidateCid (no validating loop that runs to completion before the call)", an.PathOf(r))
			}
		}
	}
	for _, ap := range apps {
		elems, ok := an.AppendElems(ap)
		if !ok {
			// append(a, b...): b must be validated as a whole
			if !v.validSlice(ap.Call.Args[1], ap, depth+1) {
				return false
			}
			continue
		}
		for _, e := range elems {
			okE := false
			if an.TypeIs(e.Type(), c01Cid, "Cid") {
				okE = v.validCID(e, ap, depth+1)
			} else {
				okE = v.validBlock(e, ap, depth+1)
			}
			if !okE {
				return v.fail("an element is appended to the slice without a successful ValidateCid (%s)", v.why)
			}
		}
	}
	return true
}

// prefixCopy: make([]T, L, ..) followed by copy(dst, S[:L]) where L is a
// validated-prefix length of a scan loop over S.
func (v *c04v) prefixCopy(mk *ssa.MakeSlice, site ssa.Instruction) bool {
	for _, l := range an.RangeLoops(v.fn) {
		if !v.isScan(l) || !c04PrefixLen(l, mk.Len, map[ssa.Value]bool{}) {
			continue
		}
		// copy(mk, S'[:L]) dominating site, S' the same slice as the scanned one
		for _, ref := range *mk.Referrers() {
			cp, ok := ref.(*ssa.Call)
			if !ok {
				continue
			}
			if _, isCopy := an.IsBuiltinCall(cp, "copy"); !isCopy || cp.Call.Args[0] != ssa.Value(mk) {
				continue
			}
			src, ok := cp.Call.Args[1].(*ssa.Slice)
			if !ok || src.Low != nil || src.High != mk.Len {
				continue
			}
			if !c04SameSlice(v.fn, src.X, l.Slice) {
				continue
			}
			if an.Dominates(cp, site) || cp.Block().Dominates(site.Block()) {
				return true
			}
		}
	}
	return v.fail("a slice is created with a non-zero length that is not the validated prefix of a scanned slice (or the prefix is never copied)")
}

// c04SameSlice: a and b denote the same slice value: identical SSA value, or
// two loads of the same cell with no store to the cell in between.
func c04SameSlice(fn *ssa.Function, a, b ssa.Value) bool {
	if a == b {
		return true
	}
	ua, ok1 := a.(*ssa.UnOp)
	ub, ok2 := b.(*ssa.UnOp)
	if !ok1 || !ok2 || ua.Op != token.MUL || ub.Op != token.MUL {
		return an.SameObj(a, b)
	}
	ca, cb := an.CellOf(ua.X), an.CellOf(ub.X)
	if ca == nil || ca != cb {
		return false
	}
	for _, st := range c04CellStores(fn, ca) {
		for _, pair := range [][2]ssa.Instruction{{ua, ub}, {ub, ua}} {
			if an.Reaches(fn, pair[0], st, nil, nil) && an.Reaches(fn, st, pair[1], nil, nil) {
				return false
			}
		}
	}
	return true
}

// c04CellStores: stores to the cell made inside fn.
func c04CellStores(fn *ssa.Function, cell *ssa.Alloc) []*ssa.Store {
	var out []*ssa.Store
	an.Instrs(fn, func(in ssa.Instruction) {
		if st, ok := in.(*ssa.Store); ok && an.CellOf(st.Addr) == cell {
			out = append(out, st)
		}
	})
	return out
}

// validCell: the slice loaded from a captured cell at `load` is validated at
// site: every store to the cell inside this function stores a validated
// chain, and the initial (outer) value reaches the load only across an edge
// where a validated-prefix length of a scan over that value equals its len.
func (v *c04v) validCell(cell *ssa.Alloc, load *ssa.UnOp, site ssa.Instruction, depth int) bool {
	fn := v.fn
	if load.Parent() != fn {
		return v.fail("slice cell loaded in another function")
	}
	stores := c04CellStores(fn, cell)
	blocked := map[ssa.Instruction]bool{}
	for _, st := range stores {
		if an.Reaches(fn, st, load, nil, nil) {
			if !v.validSlice(st.Val, st, depth+1) {
				return false
			}
		}
		blocked[st] = true
	}
	// loads of the cell that still see the initial value
	initial := func(x ssa.Value) bool {
		u, ok := x.(*ssa.UnOp)
		if !ok || u.Op != token.MUL || an.CellOf(u.X) != cell || u.Parent() != fn {
			return false
		}
		for _, st := range stores {
			if an.Reaches(fn, st, u, nil, nil) {
				return false
			}
		}
		return true
	}
	// is the initial value stored by an enclosing function a plain parameter, and does this function run it only once? (closure)
	edges := an.EdgeSet{}
	for _, l := range an.RangeLoops(fn) {
		if !initial(l.Slice) || !v.isScan(l) {
			continue
		}
		isL := func(x ssa.Value) bool { return c04PrefixLen(l, x, map[ssa.Value]bool{}) && x != l.Idx }
		isLen := func(x ssa.Value) bool {
			lc, ok := an.IsBuiltinCall(x, "len")
			return ok && initial(lc.Call.Args[0])
		}
		for e := range an.RelEdges(fn, isL, isLen, an.RelEQ) {
			// the comparison must happen after the scan loop is left
			if in := e.From.Instrs[len(e.From.Instrs)-1]; l.After(in) || c04AfterAnyExit(l, in) {
				edges[e] = true
			}
		}
		// the loop run to exhaustion also validates everything
		if l.After(load) {
			return true
		}
	}
	if an.Reaches(fn, nil, load, edges.Union(v.inf), blocked) {
		return v.fail("the unfiltered key slice can reach the lookup/fetch loop on a path where neither the filtered copy was installed nor the validating scan covered the whole slice")
	}
	return true
}

// c04AfterAnyExit: instruction in is outside the loop and dominated by the
// loop header (reached only after the loop was entered and left).
func c04AfterAnyExit(l *an.RangeLoop, in ssa.Instruction) bool {
	return !l.Contains(in) && (l.Header.Dominates(in.Block()))
}

func runC04(c *an.Ctx) {
	c04Service(c)
	c04Validate(c)
}

// c04Sensitive: the call stores, looks up or fetches blocks.
func c04Sensitive(call ssa.CallInstruction) (string, bool) {
	if !call.Common().IsInvoke() {
		return "", false
	}
	ci := an.Callee(call)
	recvT := call.Common().Value.Type()
	isBS := an.TypeIs(recvT, c04BS, "Blockstore") || an.TypeIs(recvT, c04BS, "Viewer") || an.TypeIs(recvT, c04BS, "GCBlockstore")
	isEx := an.TypeIs(recvT, c04Ex, "Fetcher") || an.TypeIs(recvT, c04Ex, "Interface") || an.TypeIs(recvT, c04Ex, "SessionExchange")
	switch {
	case isBS && (ci.Name == "Get" || ci.Name == "GetSize" || ci.Name == "Has" || ci.Name == "View" || ci.Name == "Put" || ci.Name == "PutMany"):
		return "Blockstore." + ci.Name, true
	case isEx && (ci.Name == "GetBlock" || ci.Name == "GetBlocks" || ci.Name == "NotifyNewBlocks"):
		return "exchange." + ci.Name, true
	}
	return "", false
}

func c04Service(c *an.Ctx) {
	p := c.P
	const pkg = "blockservice"
	fns := p.PkgFuncs(pkg)
	if !c.Need(len(fns) > 0, "package blockservice") {
		return
	}
	// role: the package function func(BlockService) verifcid.Allowlist, and the
	// Allowlist-typed field of the service
	var grab *ssa.Function
	for _, fn := range fns {
		sg := fn.Signature
		if fn.Parent() == nil && sg.Recv() == nil && sg.Params().Len() == 1 && sg.Results().Len() == 1 &&
			an.TypeIs(sg.Params().At(0).Type(), pkg, "BlockService") && an.TypeIs(sg.Results().At(0).Type(), c04Verifcid, "Allowlist") {
			grab = fn
		}
	}
	var fAllow *types.Var
	if n := p.Named(pkg, "blockService"); n != nil {
		if st, ok := n.Underlying().(*types.Struct); ok {
			for i := 0; i < st.NumFields(); i++ {
				if an.TypeIs(st.Field(i).Type(), c04Verifcid, "Allowlist") {
					fAllow = st.Field(i)
				}
			}
		}
	}
	c.Need(grab != nil && fAllow != nil, "blockservice: func(BlockService) verifcid.Allowlist and the Allowlist field of blockService")

	nSites, nV := 0, 0
	for _, fn := range fns {
		name := an.FuncName(fn)
		v := &c04v{c: c, fn: fn, inf: an.InfeasibleEdges(fn)}
		// allowlist argument of every ValidateCid
		for _, V := range v.validateCalls() {
			nV++
			ok := false
			for _, r := range an.Roots(V.Call.Args[0], nil) {
				if gc, isG := r.(*ssa.Call); isG && grab != nil && gc.Call.StaticCallee() == grab {
					ok = true
				} else if c02LoadOfField(r, fAllow) != nil {
					ok = true
				} else {
					ok = false
					break
				}
			}
			c.Check(ok, "O1", "R-FLOW", name, "ValidateCid(<service allowlist>, _)", V.Pos(), "validation uses the service's own allowlist",
				"ValidateCid is called with an allowlist that is not the block service's configured one: CIDs the service is configured to refuse are accepted")
		}
		for _, call := range an.AllCalls(fn) {
			what, ok := c04Sensitive(call)
			if !ok {
				continue
			}
			for _, a := range an.Args(call) {
				var good bool
				kind := ""
				switch {
				case an.TypeIs(a.Type(), c01Cid, "Cid"):
					kind, good = "cid", v.validCID(a, call, 0)
				case an.TypeIs(a.Type(), c01Blocks, "Block"):
					kind, good = "block", v.validBlock(a, call, 0)
				case c04IsCidSlice(a.Type()), c04IsBlockSlice(a.Type()):
					kind, good = "slice", v.validSlice(a, call, 0)
				default:
					continue
				}
				nSites++
				c.Check(good, "O1", "R-DOM", name, what+"("+kind+")<=ValidateCid-ok", call.Pos(),
					"argument validated against the allowlist on every path",
					what+" is reached with a "+kind+" that did not pass verifcid.ValidateCid on every path ("+v.why+"): a block with a disallowed hash function or digest size is stored, fetched or returned")
			}
		}
	}
	c.Min("O1 ValidateCid calls in blockservice", nV, 4)
	c.Min("O1 store/fetch call arguments in blockservice", nSites, 12)

	// sessions are embedded in and looked up from a context under the block
	// service they belong to, so a session of another (laxer) service is never used
	nKey := 0
	for _, fn := range fns {
		name := an.FuncName(fn)
		for _, call := range an.Calls(fn, an.M("context", "", "WithValue")) {
			args := call.Common().Args
			if len(args) != 3 {
				continue
			}
			var ses ssa.Value
			for _, r := range an.Roots(args[2], nil) {
				if an.TypeIs(r.Type(), pkg, "Session") {
					ses = r
				}
			}
			if ses == nil {
				continue
			}
			nKey++
			ok := false
			for _, r := range an.Roots(args[1], nil) {
				if u, isU := r.(*ssa.UnOp); isU && u.Op == token.MUL {
					if f, base := an.FieldOf(u.X); f != nil && an.TypeIs(f.Type(), pkg, "BlockService") && base == ses {
						ok = true
					}
				}
			}
			c.Check(ok, "O1", "R-FLOW", name, "WithValue(key=<session>.bs)", call.Pos(), "a session is embedded under its own block service",
				"a session is stored in the context under a key that is not its own block service: a lookup by another service finds it and fetches/stores through it with the wrong allowlist")
		}
		for _, call := range an.AllCalls(fn) {
			cs := call.Common()
			if !cs.IsInvoke() || cs.Method.Name() != "Value" || !an.TypeIs(cs.Value.Type(), "context", "Context") {
				continue
			}
			// only lookups whose result becomes a *Session
			isSes := false
			for _, u := range an.Uses(call.(ssa.Value)) {
				if ta, isTA := u.(*ssa.TypeAssert); isTA && an.TypeIs(ta.AssertedType, pkg, "Session") {
					isSes = true
				}
			}
			if !isSes {
				continue
			}
			nKey++
			var keyPrm *ssa.Parameter
			for _, r := range an.Roots(cs.Args[0], nil) {
				if prm, isP := r.(*ssa.Parameter); isP && an.TypeIs(prm.Type(), pkg, "BlockService") {
					keyPrm = prm
				}
			}
			if !c.Check(keyPrm != nil, "O1", "R-FLOW", name, "ctx.Value(<block service parameter>)", call.Pos(), "sessions are looked up by block service",
				"a session is looked up in the context under something else than the block service asking for it") {
				continue
			}
			idx := -1
			for i, q := range fn.Params {
				if q == keyPrm {
					idx = i
				}
			}
			for _, g := range fns {
				for _, gc := range an.AllCalls(g) {
					if gc.Common().StaticCallee() != fn {
						continue
					}
					nKey++
					okA := false
					for _, r := range an.Roots(gc.Common().Args[idx], nil) {
						if prm, isP := r.(*ssa.Parameter); isP && (prm == g.Params[0] || an.TypeIs(prm.Type(), pkg, "BlockService")) {
							okA = true
						}
					}
					c.Check(okA, "O1", "R-FLOW", an.FuncName(g), "session-lookup(<own service>)", gc.Pos(), "the caller looks up sessions of its own service",
						an.FuncName(g)+" looks up an embedded session for something else than its own block service (receiver / BlockService parameter)")
				}
			}
		}
	}
	c.Min("O1 session embedding/lookup sites", nKey, 5)

	// grabAllowlistFromBlockservice
	if grab != nil {
		ok := true
		n := 0
		for _, r := range an.Returns(grab) {
			n++
			for _, root := range an.Roots(r.Results[0], nil) {
				switch x := root.(type) {
				case *ssa.Call:
					if an.Callee(x).Name != "Allowlist" || !x.Call.IsInvoke() {
						ok = false
					}
				case *ssa.UnOp:
					g, isG := x.X.(*ssa.Global)
					if !isG || g.Name() != "DefaultAllowlist" {
						ok = false
					}
				default:
					ok = false
				}
			}
		}
		c.Check(ok && n > 0, "O1", "R-FLOW", an.FuncName(grab), "returns bs.Allowlist() | DefaultAllowlist", grab.Pos(), "allowlist source is the bounded service or the default",
			"grabAllowlistFromBlockservice returns something else than the bounded service's Allowlist() or verifcid.DefaultAllowlist")
	}
}

// ---------------------------------------------------------------------------
// O3 verifcid

func c04Validate(c *an.Ctx) {
	p := c.P
	fn := p.Func(c04Verifcid, "", "ValidateCid")
	if !c.Need(fn != nil, "verifcid.ValidateCid") {
		return
	}
	name := an.FuncName(fn)
	alw, cidPrm := fn.Params[0], fn.Params[1]
	// prefix of the parameter
	isPrefixField := func(v ssa.Value, field string) bool {
		for _, r := range an.Roots(v, nil) {
			f, base := an.FieldOf(r)
			if u, ok := r.(*ssa.UnOp); ok && u.Op == token.MUL {
				f, base = an.FieldOf(u.X)
			}
			if f == nil || f.Name() != field {
				return false
			}
			okBase := false
			for _, br := range an.Roots(base, nil) {
				if pc, ok := an.IsCallTo(br, an.M(c01Cid, "Cid", "Prefix")); ok && pc.Call.Args[0] == ssa.Value(cidPrm) {
					okBase = true
				} else if al, ok := br.(*ssa.Alloc); ok {
					// local copy of the prefix: `pref := c.Prefix()` spilled
					for _, ref := range *al.Referrers() {
						if st, ok := ref.(*ssa.Store); ok && st.Addr == ssa.Value(al) {
							if pc, ok := an.IsCallTo(st.Val, an.M(c01Cid, "Cid", "Prefix")); ok && pc.Call.Args[0] == ssa.Value(cidPrm) {
								okBase = true
							}
						}
					}
				}
			}
			if !okBase {
				return false
			}
		}
		return true
	}
	allowCall := func(v ssa.Value, meth string) bool {
		cl, ok := v.(*ssa.Call)
		if !ok || !cl.Call.IsInvoke() || cl.Call.Method.Name() != meth || cl.Call.Value != ssa.Value(alw) {
			return false
		}
		return len(cl.Call.Args) == 1 && isPrefixField(cl.Call.Args[0], "MhType")
	}
	var allowed []ssa.Value
	for _, call := range an.AllCalls(fn) {
		if cv := an.CallValue(call); cv != nil && allowCall(cv, "IsAllowed") {
			allowed = append(allowed, cv)
		}
	}
	isLen := func(v ssa.Value) bool { return isPrefixField(v, "MhLength") }
	isMin := func(v ssa.Value) bool {
		for _, r := range an.Roots(v, nil) {
			if !allowCall(r, "MinDigestSize") {
				return false
			}
		}
		return true
	}
	isMax := func(v ssa.Value) bool {
		for _, r := range an.Roots(v, nil) {
			if !allowCall(r, "MaxDigestSize") {
				return false
			}
		}
		return true
	}
	okAllowed := an.BoolEdges(fn, allowed, true)
	geMin := an.RelEdges(fn, isLen, isMin, an.RelGE)
	leMax := an.RelEdges(fn, isLen, isMax, an.RelLE)
	notAllowed := an.BoolEdges(fn, allowed, false)
	ltMin := an.RelEdges(fn, isLen, isMin, an.RelLT)
	gtMax := an.RelEdges(fn, isLen, isMax, an.RelGT)
	nOK, nErr := 0, 0
	for _, r := range an.Returns(fn) {
		if an.IsNilErrReturn(r) {
			nOK++
			c.Check(len(allowed) > 0 && an.GuardedBy(fn, nil, r, okAllowed), "O3", "R-DOM", name, "accept<=IsAllowed(MhType)", r.Pos(),
				"accepts only allowlisted hash functions", "ValidateCid can accept a CID without allowlist.IsAllowed(prefix.MhType) having answered true")
			c.Check(an.GuardedBy(fn, nil, r, geMin), "O3", "R-CMP", name, "accept<=MhLength>=MinDigestSize(MhType)", r.Pos(),
				"accepts only digests of at least the minimum size (inclusive)", "ValidateCid can accept a CID whose digest length was not established to be >= allowlist.MinDigestSize(MhType) (exact inclusive bound expected)")
			c.Check(an.GuardedBy(fn, nil, r, leMax), "O3", "R-CMP", name, "accept<=MhLength<=MaxDigestSize(MhType)", r.Pos(),
				"accepts only digests of at most the maximum size (inclusive)", "ValidateCid can accept a CID whose digest length was not established to be <= allowlist.MaxDigestSize(MhType) (exact inclusive bound expected)")
		} else {
			nErr++
			c.Check(an.GuardedBy(fn, nil, r, notAllowed.Union(ltMin).Union(gtMax)), "O3", "R-CMP", name, "reject<=!IsAllowed|len<min|len>max", r.Pos(),
				"rejects only disallowed functions or out-of-range digests", "ValidateCid rejects a CID on a path where the hash is allowed and the digest length is within [min,max]: allowed CIDs are refused")
		}
	}
	c.Min("O3 accepting returns of ValidateCid", nOK, 1)
	c.Min("O3 rejecting returns of ValidateCid", nErr, 3)

	// custom allowlist: answers from the map, the override, or false
	if isA := p.Func(c04Verifcid, "allowlist", "IsAllowed"); c.Need(isA != nil, "verifcid.allowlist.IsAllowed") {
		code := isA.Params[1]
		ok := true
		for _, r := range an.Returns(isA) {
			for _, root := range an.Roots(r.Results[0], nil) {
				switch x := root.(type) {
				case *ssa.Const:
					if x.Value == nil || x.Value.String() != "false" {
						ok = false
					}
				case *ssa.Extract:
					lk, isLk := x.Tuple.(*ssa.Lookup)
					if !isLk || x.Index != 0 || lk.Index != ssa.Value(code) {
						ok = false
					}
				case *ssa.Lookup:
					if x.Index != ssa.Value(code) {
						ok = false
					}
				case *ssa.Call:
					if !x.Call.IsInvoke() || x.Call.Method.Name() != "IsAllowed" || x.Call.Args[0] != ssa.Value(code) {
						ok = false
					}
				default:
					ok = false
				}
			}
		}
		c.Check(ok, "O3", "R-FLOW", an.FuncName(isA), "answer=map[code]|override.IsAllowed(code)|false", isA.Pos(), "custom allowlist answers from its table, its override, or false",
			"the custom allowlist can answer 'allowed' from something else than its map entry for that code or its override (e.g. a constant true default)")
	}

	// default bounds (constants)
	pk := p.Pkg(c04Verifcid)
	getC := func(n string) constant.Value {
		k, _ := pk.Types.Scope().Lookup(n).(*types.Const)
		if k == nil {
			return nil
		}
		return k.Val()
	}
	dmin, dmax, dimax := getC("DefaultMinDigestSize"), getC("DefaultMaxDigestSize"), getC("DefaultMaxIdentityDigestSize")
	if c.Need(dmin != nil && dmax != nil && dimax != nil, "verifcid default size constants") {
		c.Check(constant.Compare(dmin, token.LEQ, dmax) && constant.Sign(dmin) > 0, "O3", "R-CONST", c04Verifcid, "0<DefaultMinDigestSize<=DefaultMaxDigestSize", token.NoPos,
			fmt.Sprintf("min %v <= max %v", dmin, dmax), fmt.Sprintf("DefaultMinDigestSize=%v, DefaultMaxDigestSize=%v: the default accepted range is empty or has no lower bound", dmin, dmax))
		c.Check(constant.Sign(dimax) > 0, "O3", "R-CONST", c04Verifcid, "DefaultMaxIdentityDigestSize>0", token.NoPos, "identity digests are capped at a positive size",
			"DefaultMaxIdentityDigestSize is not positive")
	}
	// defaultAllowlist.Min/MaxDigestSize: identity case
	for _, spec := range []struct {
		meth        string
		idWant      string // constant name expected on the identity edge ("" = literal 0)
		otherWant   string
		description string
	}{{"MinDigestSize", "", "DefaultMinDigestSize", "identity exempt from the minimum"}, {"MaxDigestSize", "DefaultMaxIdentityDigestSize", "DefaultMaxDigestSize", "identity capped"}} {
		m := p.Func(c04Verifcid, "defaultAllowlist", spec.meth)
		if !c.Need(m != nil, "verifcid.defaultAllowlist."+spec.meth) {
			continue
		}
		code := m.Params[1]
		isCode := func(v ssa.Value) bool { return v == ssa.Value(code) }
		isID := func(v ssa.Value) bool { k, ok := an.ConstOf(v); return ok && k.String() == "0" }
		idEdges := an.RelEdges(m, isCode, isID, an.RelEQ)
		notID := an.RelEdges(m, isCode, isID, an.RelNE)
		okID, okOther := false, false
		var idVal, otherVal constant.Value
		for _, r := range an.Returns(m) {
			k, isK := an.ConstOf(r.Results[0])
			if !isK {
				continue
			}
			if len(idEdges) > 0 && an.GuardedBy(m, nil, r, idEdges) {
				idVal = k
			} else if an.GuardedBy(m, nil, r, notID) {
				otherVal = k
			}
		}
		if spec.idWant == "" {
			okID = idVal != nil && constant.Sign(idVal) == 0
		} else {
			okID = idVal != nil && constant.Sign(idVal) > 0 // capped by some positive constant
		}
		okOther = otherVal != nil && constant.Compare(otherVal, token.EQL, getC(spec.otherWant))
		c.Check(okID, "O3", "R-CONST", an.FuncName(m), "identity=>"+spec.description, m.Pos(), spec.description,
			fmt.Sprintf("default allowlist %s: on the IDENTITY edge it returns %v — expected %s", spec.meth, idVal, map[bool]string{true: "0", false: "a positive cap"}[spec.idWant == ""]))
		c.Check(okOther, "O3", "R-CONST", an.FuncName(m), "non-identity=>"+spec.otherWant, m.Pos(), "cryptographic hashes use "+spec.otherWant,
			fmt.Sprintf("default allowlist %s: for non-identity codes it returns %v — expected %s", spec.meth, otherVal, spec.otherWant))
	}
}
