package props

import (
	"fmt"
	"go/constant"
	"go/token"
	"go/types"
	"strings"

	"golang.org/x/tools/go/ssa"

	"verif/checker/an"
)

func init() {
	register("C15", Prop{
		Pkgs: []string{"./ipld/unixfs/hamt", "./ipld/unixfs/io"},
		Explain: "Decided (structural necessary conditions of 'basic, HAMT and dynamic directories behave as name->entry maps'): " +
			"O1 (R-SIB, not-found mapping) BasicDirectory.Find/RemoveChild return the raw error of ProtoNode.GetNodeLink/RemoveNodeLink only where errors.Is(err, ErrLinkNotFound) is false (or after a successful GetNodeLink of the same name) and return os.ErrNotExist on the true edge; hamt: getValue never returns a nil error without having called the callback, swapValue returns os.ErrNotExist where value == nil and the slot holds another key, a removal (value == nil) never creates a shard, childer.insert stores nothing and returns os.ErrNotExist for a nil link; " +
			"O2 (R-PAIR) childer keeps children, links and the bitfield coordinated: a function replacing the children slice replaces links by the same slices operation with the same index operands, and sets/clears the bit of the child index the slice index was derived from; element stores go to children[i] and links[i] with the same i and exactly one of the two is nil; " +
			"O3 (R-EXH) every use of childLinkType distinguishes shard links from value links, and walkChildren continues only for the two known link types (anything else is an error); " +
			"O4 swapValue: the fork creates the sub-shard with the receiver's tableSize and builder and re-inserts the displaced entry with its own key, its own value and hash bits consumed up to the current level; after a removal in a sub-shard the collapse cases exist: length()==0 removes the sub-shard, length()==1 replaces it by its single value child (loaded) or value link (unloaded) at the same slice index; " +
			"O5 (R-FLOW) link-name prefix: prefixPadStr and maxpadlen are built from the same len(hex(size-1)) and tableSize/tableSizeLg2 from the same size; every place that strips the prefix slices at maxpadlen; every hashBits.Next in a Shard method consumes the receiver's tableSizeLg2; " +
			"O6 conversions and dynamic switching: switchToSharding/switchToBasic add every enumerated link under its own name (x.Name, x) and propagate an error of the insertion; DynamicDirectory applies the requested AddChild/RemoveChild (same name, same node) to the new directory before installing it; " +
			"O7 (R-SIB) every enumeration path of the HAMT hands out links named by Shard.key (prefix stripped): walkTrie/ForEachLink and both branches of walkChildren. " +
			"O8 (R-FLOW, serialisation) Shard.Node writes every child under linkNamePrefix(slot)+label where slot is the very index tested with childer.has on that path, label is the child's key (loaded child, whose Link() is written) or the stored link's name cut at maxpadlen (unloaded child, whose stored link is written); the child/link is taken at the dense slice counter, which is advanced exactly on the has()==true paths; the UnixFS data carries this shard's bitfield and tableSize; " +
			"O9 (R-FLOW, reload) NewHamtFromDag builds the shard with the node's own Fanout() and fills the childer from the same node's Data()/Links(); makeChilder sizes children by len(links), loads the bitfield from the data and keeps the links; " +
			"NOT decided: equivalence with a map model, reload equality, bit extraction arithmetic of hashBits.next, concurrency of parallelShardWalk.",
		Assume: []string{
			"slices.Insert/Delete and go-bitfield behave as documented",
			"unexported fields of hamt.Shard/childer are only reachable from package hamt (Go visibility)",
		},
		Technique: "error provenance on guard edges (R-DOM/R-SIB), coordinated stores with operand identity (R-PAIR), constant comparisons on CFG edges (R-EXH), value provenance (R-FLOW)",
		Run:       runC15,
	})
}

const c15H = "ipld/unixfs/hamt"

func c15IsGlobalLoad(v ssa.Value, pkg, name string) bool {
	for _, r := range an.Roots(v, nil) {
		u, ok := r.(*ssa.UnOp)
		if !ok || u.Op != token.MUL {
			return false
		}
		g, ok := u.X.(*ssa.Global)
		if !ok || g.Name() != name || g.Pkg.Pkg.Path() != pkg {
			return false
		}
	}
	return true
}

func runC15(c *an.Ctx) {
	c15NotFoundBasic(c)
	c15NotFoundHamt(c)
	c15Childer(c)
	c15LinkTypes(c)
	c15Swap(c)
	c15Prefix(c)
	c15Conversions(c)
	c15Enumerations(c)
	c15Serialise(c)
	c15Reload(c)
}

// ---- O1 (io)
func c15NotFoundBasic(c *an.Ctx) {
	p := c.P
	const md = "ipld/merkledag"
	fNode := p.Field(c16IO, "BasicDirectory", "node")
	if !c.Need(fNode != nil, "BasicDirectory.node") {
		return
	}
	iface := p.Named(c16IO, "Directory")
	it, _ := iface.Underlying().(*types.Interface)
	if !c.Need(it != nil, "io.Directory interface") {
		return
	}
	n := 0
	for i := 0; i < it.NumMethods(); i++ {
		f := p.Func(c16IO, "BasicDirectory", it.Method(i).Name())
		if f == nil {
			continue
		}
		res := f.Signature.Results()
		if res.Len() == 0 || !an.IsErrorType(res.At(res.Len()-1).Type()) {
			continue
		}
		lookups := an.Calls(f, an.M(md, "ProtoNode", "GetNodeLink"), an.M(md, "ProtoNode", "RemoveNodeLink"))
		if len(lookups) == 0 {
			continue
		}
		name := an.FuncName(f)
		mapped := false
		for _, rs := range an.ResultSites(f, res.Len()-1) {
			if an.IsNilConst(rs.Val) {
				continue
			}
			for _, k := range lookups {
				errs := an.ErrResult(k)
				al := an.Aliases(errs...)
				notFound := func(want bool) an.EdgeSet {
					e := an.CallEdges(f, an.M("errors", "", "Is"), 0, func(v ssa.Value) bool { return al[v] }, want)
					// restrict to errors.Is(err, ErrLinkNotFound)
					for _, cc := range an.Calls(f, an.M("errors", "", "Is")) {
						if al[an.Args(cc)[0]] && !c15IsGlobalLoad(an.Args(cc)[1], an.Mod+"/"+md, "ErrLinkNotFound") {
							return an.EdgeSet{}
						}
					}
					return e
				}
				if !an.Reaches(f, k, rs.At, nil, nil) {
					continue
				}
				isNE := func(v ssa.Value) bool { return c15IsGlobalLoad(v, "os", "ErrNotExist") }
				if fnd, grd := an.ValueGuardedBy(f, k, rs.At, rs.Val, isNE, notFound(true)); fnd && grd && len(notFound(true)) > 0 {
					mapped = true
				}
				isRaw := func(v ssa.Value) bool {
					for _, r := range an.Roots(v, &an.FlowOpts{NoCells: true}) {
						if al[r] {
							return true
						}
					}
					return al[v]
				}
				fnd, ok := an.ValueGuardedBy(f, k, rs.At, rs.Val, isRaw, notFound(false))
				if !fnd {
					continue
				}
				n++
				ok = ok && len(notFound(false)) > 0
				if !ok && an.Callee(k).Name == "RemoveNodeLink" {
					// cannot be "not found": a successful GetNodeLink of the same name precedes it
					for _, g := range an.Calls(f, an.M(md, "ProtoNode", "GetNodeLink")) {
						if an.SameObj(an.Args(g)[0], an.Args(k)[0]) && an.OnNilEdgeOf(f, g, k) {
							ok = true
						}
					}
				}
				c.Check(ok, "O1", "R-SIB", name, an.Callee(k).Name+"-error=>not-ErrLinkNotFound", rs.At.Pos(),
					"raw ProtoNode error leaves the method only where it is not ErrLinkNotFound",
					"BasicDirectory."+f.Name()+" can return merkledag.ErrLinkNotFound from "+an.Callee(k).Name+" unmapped: the Directory interface promises os.ErrNotExist for a missing name (callers test errors.Is(err, os.ErrNotExist); AddChild of a new name would fail)")
			}
		}
		c.Check(mapped, "O1", "R-SIB", name, "ErrLinkNotFound=>os.ErrNotExist", f.Pos(),
			"os.ErrNotExist returned where errors.Is(err, ErrLinkNotFound)",
			"BasicDirectory."+f.Name()+" has no return of os.ErrNotExist on the errors.Is(err, ErrLinkNotFound) edge")
	}
	c.Min("O1 raw error returns of BasicDirectory lookups", n, 2)
}

// ---- O1 (hamt)
func c15NotFoundHamt(c *an.Ctx) {
	p := c.P
	getV, swapV, ins := p.Func(c15H, "Shard", "getValue"), p.Func(c15H, "Shard", "swapValue"), p.Func(c15H, "childer", "insert")
	fChildren := p.Field(c15H, "childer", "children")
	if !c.Need(getV != nil && swapV != nil && ins != nil && fChildren != nil, "hamt.Shard.getValue, swapValue, childer.insert, childer.children") {
		return
	}
	// getValue: no nil error without the callback
	okG := true
	for _, rs := range an.ResultSites(getV, 0) {
		if an.IsNilConst(rs.Val) {
			okG = false
		}
	}
	hasNE := false
	for _, rs := range an.ResultSites(getV, 0) {
		if c15IsGlobalLoad(rs.Val, "os", "ErrNotExist") {
			hasNE = true
		}
	}
	c.Check(okG && hasNE, "O1", "R-DOM", an.FuncName(getV), "miss=>os.ErrNotExist", getV.Pos(),
		"getValue returns os.ErrNotExist for a miss and never a constant nil",
		"Shard.getValue can return nil without having found the key (or no longer returns os.ErrNotExist): Find then reports success with a nil link for a missing name")
	// swapValue
	var value *ssa.Parameter
	for _, par := range swapV.Params {
		if an.TypeIs(par.Type(), "github.com/ipfs/go-ipld-format", "Link") {
			value = par
		}
	}
	if c.Need(value != nil, "link parameter of swapValue") {
		isNil := an.NilEdges(swapV, []ssa.Value{value}, true)
		notNil := an.NilEdges(swapV, []ssa.Value{value}, false)
		found := false
		for _, rs := range an.ResultSites(swapV, 1) {
			if c15IsGlobalLoad(rs.Val, "os", "ErrNotExist") && an.GuardedBy(swapV, nil, rs.At, isNil) {
				found = true
			}
		}
		c.Check(found, "O1", "R-DOM", an.FuncName(swapV), "remove-other-key=>os.ErrNotExist", swapV.Pos(),
			"swapValue returns os.ErrNotExist where value == nil and the slot holds a different key",
			"Shard.swapValue has no os.ErrNotExist return on the value == nil edge: removing a name whose hash slot holds another entry does not report 'not exist'")
		for _, ns := range an.Calls(swapV, an.M(c15H, "", "NewShard"), an.M(c15H, "", "makeShard"), an.M(c15H, "", "NewShardValue")) {
			c.Check(an.GuardedBy(swapV, nil, ns, notNil), "O1", "R-DOM", an.FuncName(swapV), "fork<=value!=nil", ns.Pos(),
				"a sub-shard is created only when a value is inserted",
				"Shard.swapValue can fork a slot into a sub-shard while removing (value == nil): removing a missing name would insert a nil value instead of reporting 'not exist'")
		}
	}
	// insert
	var lnk *ssa.Parameter
	for _, par := range ins.Params {
		if an.TypeIs(par.Type(), "github.com/ipfs/go-ipld-format", "Link") {
			lnk = par
		}
	}
	if c.Need(lnk != nil, "link parameter of childer.insert") {
		notNil := an.NilEdges(ins, []ssa.Value{lnk}, false)
		isNil := an.NilEdges(ins, []ssa.Value{lnk}, true)
		ok := len(an.FieldStores(ins, fChildren)) > 0
		for _, st := range an.FieldStores(ins, fChildren) {
			if !an.GuardedBy(ins, nil, st, notNil) {
				ok = false
			}
		}
		ne := false
		for _, rs := range an.ResultSites(ins, 0) {
			if c15IsGlobalLoad(rs.Val, "os", "ErrNotExist") && an.GuardedBy(ins, nil, rs.At, isNil) {
				ne = true
			}
		}
		c.Check(ok && ne, "O1", "R-DOM", an.FuncName(ins), "insert(nil)=>os.ErrNotExist", ins.Pos(),
			"childer.insert stores only a non-nil link and returns os.ErrNotExist for nil",
			"childer.insert can store a nil link or does not return os.ErrNotExist for it: removing a name whose hash slot is empty creates an entry / does not report 'not exist'")
	}
}

// ---- O2
func c15Childer(c *an.Ctx) {
	p := c.P
	fCh, fLn, fBf := p.Field(c15H, "childer", "children"), p.Field(c15H, "childer", "links"), p.Field(c15H, "childer", "bitfield")
	sliceIdx := p.Func(c15H, "childer", "sliceIndex")
	if !c.Need(fCh != nil && fLn != nil && fBf != nil && sliceIdx != nil, "childer.{children,links,bitfield,sliceIndex}") {
		return
	}
	fns := p.PkgFuncs(c15H)
	nSlice, nElem := 0, 0
	for _, f := range fns {
		name := an.FuncName(f)
		// whole-slice replacement
		for _, st := range an.FieldStores(f, fCh) {
			_, base := an.FieldOf(st.Addr)
			if an.IsFresh(base) {
				continue
			}
			nSlice++
			opC, argsC := c15SliceOp(st.Val)
			var mate *ssa.Store
			for _, s2 := range an.StoresToField(f, fLn, base) {
				mate = s2
			}
			ok, why := mate != nil, "links is not replaced in the same function"
			if ok {
				opL, argsL := c15SliceOp(mate.Val)
				switch {
				case opC == "" || opC != opL:
					ok, why = false, fmt.Sprintf("children is replaced by %q but links by %q", opC, opL)
				case opC == "Insert" || opC == "Delete":
					for i := range argsC {
						if i >= len(argsL) || !c15SameExpr(argsC[i], argsL[i]) {
							ok, why = false, fmt.Sprintf("index operand %d of slices.%s differs between children and links", i+1, opC)
						}
					}
				}
				if ok && (opC == "Insert" || opC == "Delete") {
					// paired with every path: both stores execute or neither
					if okF, _ := an.MustFollow(f, st, []ssa.Instruction{mate}); !okF && !an.MustPrecede(f, st, []ssa.Instruction{mate}) {
						ok, why = false, "children and links are not replaced on the same paths"
					}
					// bitfield: SetBit / UnsetBit of the child index the slice index came from
					wantBit := map[string]string{"Insert": "SetBit", "Delete": "UnsetBit"}[opC]
					bitOK := false
					for _, bc := range an.AllCalls(f) {
						ci := an.Callee(bc)
						if ci.Name != wantBit || !strings.Contains(ci.Pkg, "go-bitfield") {
							continue
						}
						if fl, b := an.LoadedField(an.Recv(bc)); fl != fBf || !an.SameObj(b, base) {
							continue
						}
						// slice index = sliceIndex(<bit argument>)
						bitArg := an.Args(bc)[0]
						for _, r := range an.Roots(argsC[0], nil) {
							if sc, isSI := an.IsCallTo(r, an.M(c15H, "childer", "sliceIndex")); isSI && an.SameObj(an.Args(sc)[0], bitArg) {
								bitOK = true
							}
						}
						if okF, _ := an.MustFollow(f, st, []ssa.Instruction{bc}); !okF && !an.MustPrecede(f, st, []ssa.Instruction{bc}) {
							bitOK = false
						}
					}
					if !bitOK {
						ok, why = false, "the bitfield is not updated with "+wantBit+"(childIndex) for the childIndex whose sliceIndex is used"
					}
				}
			}
			c.Check(ok, "O2", "R-PAIR", name, "children-replaced=>links+bitfield", st.Pos(),
				"children, links and bitfield changed together with the same indices",
				"childer.children is replaced but "+why+": slice index and bitfield no longer agree, so names resolve to the wrong child / entries are lost")
		}
		// element stores
		for _, st := range c15ElemStores(f, fCh) {
			nElem++
			idx, base := st.idx, st.base
			var mate *c15Elem
			for _, s2 := range c15ElemStores(f, fLn) {
				if an.SameObj(s2.base, base) {
					m := s2
					mate = &m
				}
			}
			ok, why := mate != nil, "links[i] is not assigned in the same function"
			if ok {
				if !c15SameExpr(idx, mate.idx) {
					ok, why = false, "children and links are assigned at different indices"
				} else if an.IsNilConst(st.st.Val) == an.IsNilConst(mate.st.Val) {
					ok, why = false, "children[i] and links[i] are both nil or both non-nil ('only one of links/children is non-nil for every child')"
				}
			}
			c.Check(ok, "O2", "R-PAIR", name, "children[i]=>links[i]", st.st.Pos(),
				"children[i] and links[i] assigned together, exactly one non-nil",
				"childer.children[i] is assigned but "+why+": a stale link or shard survives at that position and the entry resolves to outdated content")
		}
	}
	c.Min("O2 replacements of childer.children", nSlice, 2)
	c.Min("O2 element stores to childer.children", nElem, 2)
}

type c15Elem struct {
	st   *ssa.Store
	idx  ssa.Value
	base ssa.Value
}

func c15ElemStores(f *ssa.Function, fld *types.Var) []c15Elem {
	var out []c15Elem
	an.Instrs(f, func(in ssa.Instruction) {
		st, ok := in.(*ssa.Store)
		if !ok {
			return
		}
		ia, ok := st.Addr.(*ssa.IndexAddr)
		if !ok {
			return
		}
		if fl, base := an.LoadedField(ia.X); fl == fld {
			out = append(out, c15Elem{st, ia.Index, base})
		}
	})
	return out
}

// c15SliceOp classifies the value stored into a slice field.
func c15SliceOp(v ssa.Value) (string, []ssa.Value) {
	call, ok := v.(*ssa.Call)
	if !ok {
		if _, isMake := v.(*ssa.MakeSlice); isMake {
			return "make", nil
		}
		if sl, isSl := v.(*ssa.Slice); isSl {
			if _, isAlloc := sl.X.(*ssa.Alloc); isAlloc {
				return "make", nil
			}
		}
		return "", nil
	}
	ci := an.Callee(call)
	if ci.Pkg == "slices" {
		switch ci.Name {
		case "Insert":
			return "Insert", call.Call.Args[1:2]
		case "Delete":
			return "Delete", call.Call.Args[1:3]
		case "Clone":
			return "make", nil
		}
	}
	if ci.Builtin == "append" {
		return "append", nil
	}
	return ci.Name, nil
}

// c15SameExpr: structural equality of small index expressions (same SSA
// value, same access path, or the same operator over equal operands).
func c15SameExpr(a, b ssa.Value) bool {
	if a == b {
		return true
	}
	ba, ok1 := a.(*ssa.BinOp)
	bb, ok2 := b.(*ssa.BinOp)
	if ok1 && ok2 {
		return ba.Op == bb.Op && c15SameExpr(ba.X, bb.X) && c15SameExpr(ba.Y, bb.Y)
	}
	ca, ok1 := a.(*ssa.Const)
	cb, ok2 := b.(*ssa.Const)
	if ok1 && ok2 {
		return ca.Value != nil && cb.Value != nil && constant.Compare(ca.Value, token.EQL, cb.Value)
	}
	if ok1 != ok2 {
		return false
	}
	la, ok1 := a.(*ssa.Call)
	lb, ok2 := b.(*ssa.Call)
	if ok1 && ok2 {
		if an.Callee(la).String() != an.Callee(lb).String() || len(la.Call.Args) != len(lb.Call.Args) {
			return false
		}
		for i := range la.Call.Args {
			if !c15SameExpr(la.Call.Args[i], lb.Call.Args[i]) {
				return false
			}
		}
		return true
	}
	if _, isP := a.(*ssa.Parameter); isP {
		return false
	}
	switch a.(type) {
	case *ssa.UnOp, *ssa.FieldAddr, *ssa.Field:
		return an.PathOf(a) == an.PathOf(b)
	}
	return false
}

func c15LinkTypeConst(c *an.Ctx, name string) constant.Value {
	pk := c.P.Pkg(c15H)
	if pk == nil {
		return nil
	}
	if k, ok := pk.Types.Scope().Lookup(name).(*types.Const); ok {
		return k.Val()
	}
	return nil
}

// c15TypeEdges: edges on which the link type returned by call equals one of ks.
func c15TypeEdges(f *ssa.Function, call ssa.CallInstruction, ks ...constant.Value) an.EdgeSet {
	al := an.Aliases(an.Result(call, 0)...)
	return an.CmpEdges(f, func(op token.Token, a, b ssa.Value) (bool, bool) {
		if op != token.EQL && op != token.NEQ {
			return false, false
		}
		var kv constant.Value
		if al[a] {
			k, ok := an.ConstOf(b)
			if !ok {
				return false, false
			}
			kv = k
		} else if al[b] {
			k, ok := an.ConstOf(a)
			if !ok {
				return false, false
			}
			kv = k
		} else {
			return false, false
		}
		for _, k := range ks {
			if constant.Compare(kv, token.EQL, k) {
				return op == token.EQL, op == token.NEQ
			}
		}
		return false, false
	})
}

// ---- O3
func c15LinkTypes(c *an.Ctx) {
	p := c.P
	kShard, kValue := c15LinkTypeConst(c, "shardLink"), c15LinkTypeConst(c, "shardValueLink")
	clt := p.Func(c15H, "Shard", "childLinkType")
	if !c.Need(kShard != nil && kValue != nil && clt != nil, "hamt.shardLink, shardValueLink, Shard.childLinkType") {
		return
	}
	n := 0
	for _, f := range p.PkgFuncs(c15H) {
		for _, call := range an.LocalCallers([]*ssa.Function{f}, clt) {
			n++
			known := c15TypeEdges(f, call, kShard, kValue)
			c.Check(len(known) > 0, "O3", "R-EXH", an.FuncName(f), "childLinkType-result-distinguished", call.Pos(),
				"the link type is compared with shardLink / shardValueLink",
				"the result of childLinkType is not compared with shardLink or shardValueLink: shard links and value links are treated alike (a sub-shard would be listed as an entry or an entry descended into)")
			if f.Name() != "walkChildren" {
				continue
			}
			// exhaustive: without taking a known-type edge the walk neither
			// continues with the next child nor succeeds
			ok := len(known) > 0 && !an.Reaches(f, call, call, known, nil)
			for _, rs := range an.ResultSites(f, f.Signature.Results().Len()-1) {
				if an.IsNilConst(rs.Val) && an.Reaches(f, call, rs.At, known, nil) {
					// the final `return res, nil` is reachable from the loop
					// header only; reaching it from the call needs the back edge
					ok = false
				}
			}
			c.Check(ok, "O3", "R-EXH", an.FuncName(f), "walkChildren-unknown-link-type=>error", call.Pos(),
				"walkChildren goes on only for shardLink / shardValueLink",
				"walkChildren can continue past a child link that is neither a shard link nor a value link without reporting an error: entries of that child silently disappear from Links/EnumLinksAsync")
		}
	}
	c.Min("O3 uses of childLinkType", n, 3)
}

// ---- O4
func c15Swap(c *an.Ctx) {
	p := c.P
	swapV := p.Func(c15H, "Shard", "swapValue")
	fTS, fB, fKey, fVal, fCons := p.Field(c15H, "Shard", "tableSize"), p.Field(c15H, "Shard", "builder"), p.Field(c15H, "Shard", "key"), p.Field(c15H, "Shard", "val"), p.Field(c15H, "hashBits", "consumed")
	if !c.Need(swapV != nil && fTS != nil && fB != nil && fKey != nil && fVal != nil && fCons != nil, "swapValue, Shard.{tableSize,builder,key,val}, hashBits.consumed") {
		return
	}
	name := an.FuncName(swapV)
	recv := swapV.Params[0]
	var hv, key *ssa.Parameter
	for _, par := range swapV.Params[1:] {
		if an.TypeIs(par.Type(), c15H, "hashBits") {
			hv = par
		}
		if an.IsString(par.Type()) {
			key = par
		}
	}
	if !c.Need(hv != nil && key != nil, "hashBits and key parameters of swapValue") {
		return
	}
	fieldOf := func(v ssa.Value, fld *types.Var, base ssa.Value) bool {
		fl, b := an.LoadedField(v)
		return fl == fld && (base == nil || an.SameObj(b, base))
	}
	// fork
	nFork := 0
	for _, ns := range an.Calls(swapV, an.M(c15H, "", "NewShard")) {
		nFork++
		sub := an.Result(ns, 0)
		c.Check(fieldOf(an.Args(ns)[1], fTS, recv), "O4", "R-FLOW", name, "fork:NewShard(size=ds.tableSize)", ns.Pos(),
			"sub-shard created with the receiver's table size",
			"the sub-shard created when two names share a slot is not created with ds.tableSize: its links use a different prefix width / bits per level than the rest of the tree, so names below it do not resolve after a reload")
		okB := false
		for _, st := range an.FieldStores(swapV, fB) {
			_, b := an.FieldOf(st.Addr)
			for _, s := range sub {
				if an.SameObj(b, s) && fieldOf(st.Val, fB, recv) {
					okB = true
				}
			}
		}
		c.Check(okB, "O4", "R-FLOW", name, "fork:builder-copied", ns.Pos(), "sub-shard inherits the CID builder",
			"the sub-shard created on a collision does not get ds.builder: its node is hashed with a different CID builder than the rest of the directory")
		// the displaced entry is re-inserted with its own key/value and consumed bits
		var displaced ssa.Value // the value child found in the slot
		okRe := false
		for _, rc := range an.LocalCallers([]*ssa.Function{swapV}, swapV) {
			isSub := false
			for _, s := range sub {
				if an.SameObj(an.Recv(rc), s) {
					isSub = true
				}
			}
			if !isSub {
				continue
			}
			args := an.Args(rc) // ctx, hv, key, value
			if len(args) != 4 || args[1] == ssa.Value(hv) {
				continue
			}
			nh, isNH := an.IsCallTo(args[1], an.M(c15H, "", "newConsumedHashBits"))
			if !isNH {
				continue
			}
			flK, bK := an.LoadedField(args[2])
			flV, bV := an.LoadedField(args[3])
			flH, bH := an.LoadedField(nh.Call.Args[0])
			if flK == fKey && flV == fVal && flH == fKey && an.SameObj(bK, bV) && an.SameObj(bK, bH) && fieldOf(nh.Call.Args[1], fCons, hv) {
				displaced = bK
				okRe = true
			}
		}
		_ = displaced
		c.Check(okRe, "O4", "R-FLOW", name, "fork:displaced-entry-reinserted(key,val,consumed)", ns.Pos(),
			"displaced entry re-inserted under its own key and value with hash bits consumed up to this level",
			"on a slot collision the displaced entry is not re-inserted into the sub-shard as swapValue(newConsumedHashBits(old.key, hv.consumed), old.key, old.val): it lands in the wrong slot (or is lost) and can no longer be found")
		okNew := false
		for _, rc := range an.LocalCallers([]*ssa.Function{swapV}, swapV) {
			for _, s := range sub {
				args := an.Args(rc)
				if an.SameObj(an.Recv(rc), s) && len(args) == 4 && args[1] == ssa.Value(hv) && args[2] == ssa.Value(key) {
					okNew = true
				}
			}
		}
		c.Check(okNew, "O4", "R-FLOW", name, "fork:new-entry-inserted(hv,key,value)", ns.Pos(),
			"new entry inserted into the sub-shard with the running hash bits", "on a slot collision the new entry is not inserted into the sub-shard with the running hash bits and its key")
	}
	c.Min("O4 forks in swapValue", nFork, 1)
	// collapse
	var value *ssa.Parameter
	for _, par := range swapV.Params {
		if an.TypeIs(par.Type(), "github.com/ipfs/go-ipld-format", "Link") {
			value = par
		}
	}
	isNil := an.NilEdges(swapV, []ssa.Value{value}, true)
	lenEdges := func(k int64) an.EdgeSet {
		var lens []ssa.Value
		for _, lc := range an.Calls(swapV, an.M(c15H, "childer", "length")) {
			lens = append(lens, an.CallValue(lc))
		}
		al := an.Aliases(lens...)
		return an.CmpEdges(swapV, func(op token.Token, a, b ssa.Value) (bool, bool) {
			if op != token.EQL && op != token.NEQ {
				return false, false
			}
			x, y := a, b
			if al[y] {
				x, y = y, x
			}
			if !al[x] {
				return false, false
			}
			kv, ok := an.ConstOf(y)
			if !ok {
				return false, false
			}
			if v, exact := constant.Int64Val(kv); !exact || v != k {
				return false, false
			}
			return op == token.EQL, op == token.NEQ
		})
	}
	exists := func(what string, calls []ssa.CallInstruction, guards ...an.EdgeSet) bool {
		for _, call := range calls {
			ok := true
			for _, g := range guards {
				if len(g) == 0 || !an.GuardedBy(swapV, nil, call, g) {
					ok = false
				}
			}
			if ok {
				return true
			}
		}
		return false
	}
	rm := an.Calls(swapV, an.M(c15H, "childer", "rm"))
	set := an.Calls(swapV, an.M(c15H, "childer", "set"))
	setLink := an.Calls(swapV, an.M(c15H, "childer", "setLink"))
	c.Check(exists("rm", rm, isNil, lenEdges(0)), "O4", "R-DOM", name, "collapse:length==0=>rm", swapV.Pos(),
		"an emptied sub-shard is removed", "swapValue has no childer.rm on the value==nil && sub.length()==0 edge: empty sub-shards stay in the tree, so the layout (and CID) depends on the edit history")
	isVal := an.CallEdges(swapV, an.M(c15H, "Shard", "isValueNode"), -1, nil, true)
	c.Check(exists("set", set, isNil, lenEdges(1), isVal), "O4", "R-DOM", name, "collapse:length==1=>set(value-child)", swapV.Pos(),
		"a sub-shard left with one loaded value child is replaced by that child", "swapValue has no childer.set(valueChild) on the value==nil && sub.length()==1 && child.isValueNode() edge: single-entry sub-shards are not collapsed, so the layout (and CID) depends on the edit history")
	kValue := c15LinkTypeConst(c, "shardValueLink")
	var isValLink an.EdgeSet = an.EdgeSet{}
	for _, cl := range an.Calls(swapV, an.M(c15H, "Shard", "childLinkType")) {
		isValLink = isValLink.Union(c15TypeEdges(swapV, cl, kValue))
	}
	c.Check(exists("setLink", setLink, isNil, lenEdges(1), isValLink), "O4", "R-DOM", name, "collapse:length==1=>setLink(value-link)", swapV.Pos(),
		"a sub-shard left with one unloaded value link is replaced by that link", "swapValue has no childer.setLink(valueLink) on the value==nil && sub.length()==1 && linkType==shardValueLink edge: single-entry sub-shards loaded from disk are not collapsed")
	// the collapse puts the single child at the slice index of the sub-shard
	si := an.Calls(swapV, an.M(c15H, "childer", "sliceIndex"))
	okIdx := len(si) > 0
	for _, call := range append(append([]ssa.CallInstruction{}, set...), setLink...) {
		args := an.Args(call)
		isSI := false
		for _, s := range si {
			if args[len(args)-1] == ssa.Value(an.CallValue(s)) {
				isSI = true
			}
		}
		if !isSI {
			okIdx = false
		}
	}
	c.Check(okIdx, "O4", "R-FLOW", name, "set/setLink-at-sliceIndex(idx)", swapV.Pos(), "children are replaced at the slice index of the hashed slot",
		"swapValue replaces a child at an index that is not childer.sliceIndex(idx) of the slot the key hashes to: another entry is overwritten")
}

// ---- O5
func c15Prefix(c *an.Ctx) {
	p := c.P
	fPad, fMax, fTS, fLg := p.Field(c15H, "Shard", "prefixPadStr"), p.Field(c15H, "Shard", "maxpadlen"), p.Field(c15H, "Shard", "tableSize"), p.Field(c15H, "Shard", "tableSizeLg2")
	if !c.Need(fPad != nil && fMax != nil && fTS != nil && fLg != nil, "Shard.{prefixPadStr,maxpadlen,tableSize,tableSizeLg2}") {
		return
	}
	fns := p.PkgFuncs(c15H)
	nCtor := 0
	for _, f := range fns {
		pads := an.FieldStores(f, fPad)
		if len(pads) == 0 {
			continue
		}
		nCtor++
		name := an.FuncName(f)
		for _, st := range pads {
			_, base := an.FieldOf(st.Addr)
			// prefixPadStr = Sprintf("%%0%dX", W)
			var w ssa.Value
			okFmt := false
			if sp, ok := an.IsCallTo(st.Val, an.M("fmt", "", "Sprintf")); ok {
				if k, ok := an.ConstOf(sp.Call.Args[0]); ok && constant.StringVal(k) == "%%0%dX" {
					okFmt = true
					for _, l := range an.Deps(sp.Call.Args[1], nil) {
						if _, isConst := l.(*ssa.Const); !isConst {
							w = l
						}
					}
					// W as written: the single vararg
					w = c15Vararg(sp.Call.Args[1])
				}
			}
			var m ssa.Value
			for _, s2 := range an.StoresToField(f, fMax, base) {
				m = s2.Val
			}
			ok := okFmt && w != nil && m != nil && c15SameExpr(w, m)
			c.Check(ok, "O5", "R-FLOW", name, "prefixPadStr-width=maxpadlen", st.Pos(),
				"prefix format width and maxpadlen are the same expression",
				"Shard.prefixPadStr is not fmt.Sprintf(\"%%0%dX\", W) with W the very expression stored to maxpadlen: link names are written with a prefix of one width and stripped/classified with another, so entries are misnamed or taken for sub-shards after a reload")
			// tableSize and tableSizeLg2 from the same size
			var ts, lg ssa.Value
			for _, s2 := range an.StoresToField(f, fTS, base) {
				ts = s2.Val
			}
			for _, s2 := range an.StoresToField(f, fLg, base) {
				lg = s2.Val
			}
			okT := false
			if lt, isLT := an.IsCallTo(lg, an.M(c15H, "", "Logtwo")); isLT && ts != nil && an.SameObj(lt.Call.Args[0], ts) {
				okT = true
			}
			c.Check(okT, "O5", "R-FLOW", name, "tableSizeLg2=Logtwo(tableSize)", st.Pos(), "bits per level derived from the same size as the table size",
				"Shard.tableSizeLg2 is not Logtwo of the value stored to tableSize: the number of hash bits consumed per level does not match the fanout, so names hash to slots outside / not covering the table")
			// the width is len(hex(size-1))
			okW := false
			if w != nil {
				if lc, isCall := w.(*ssa.Call); isCall {
					if bi, isB := lc.Call.Value.(*ssa.Builtin); isB && bi.Name() == "len" {
						if sp, isSp := an.IsCallTo(lc.Call.Args[0], an.M("fmt", "", "Sprintf")); isSp {
							if k, ok := an.ConstOf(sp.Call.Args[0]); ok && constant.StringVal(k) == "%X" {
								if b, isBin := c15Vararg(sp.Call.Args[1]).(*ssa.BinOp); isBin && b.Op == token.SUB && ts != nil && an.SameObj(b.X, ts) {
									if k1, ok := an.ConstOf(b.Y); ok && k1.String() == "1" {
										okW = true
									}
								}
							}
						}
					}
				}
			}
			c.Check(okW, "O5", "R-FLOW", name, "maxpadlen=len(hex(size-1))", st.Pos(), "prefix width is the number of hex digits of size-1",
				"the link-name prefix width is not len(fmt.Sprintf(\"%X\", size-1)) of the table size: prefixes of different child indices get different lengths or collide")
		}
	}
	c.Min("O5 Shard constructors", nCtor, 1)
	// strip sites: string slices of a link Name
	nStrip := 0
	for _, f := range fns {
		an.Instrs(f, func(in ssa.Instruction) {
			sl, ok := in.(*ssa.Slice)
			if !ok || !an.IsString(sl.X.Type()) || sl.Low == nil {
				return
			}
			fl, b := an.LoadedField(sl.X)
			if fl == nil || fl.Name() != "Name" || !an.TypeIs(b.Type(), "github.com/ipfs/go-ipld-format", "Link") {
				return
			}
			nStrip++
			flo, _ := an.LoadedField(sl.Low)
			c.Check(flo == fMax && sl.High == nil, "O5", "R-FLOW", an.FuncName(f), "strip-prefix-at-maxpadlen", sl.Pos(),
				"link name stripped at maxpadlen", "a link name is cut at an offset that is not Shard.maxpadlen: the entry name keeps part of the prefix or loses its first characters for some shard width")
		})
	}
	c.Min("O5 prefix strip sites", nStrip, 2)
	// hash bits per level
	nNext := 0
	for _, f := range p.Methods(c15H, "Shard") {
		for _, call := range an.Calls(f, an.M(c15H, "hashBits", "Next")) {
			nNext++
			fl, b := an.LoadedField(an.Args(call)[0])
			c.Check(fl == fLg && an.SameObj(b, f.Params[0]), "O5", "R-FLOW", an.FuncName(f), "Next(ds.tableSizeLg2)", call.Pos(),
				"each level consumes the receiver's tableSizeLg2 hash bits", "a Shard method consumes a number of hash bits that is not its own tableSizeLg2: lookups and insertions descend through different slots, so stored names are not found")
		}
	}
	c.Min("O5 hashBits.Next calls in Shard methods", nNext, 2)
}

// c15Vararg returns the single element of a one-element variadic argument.
func c15Vararg(v ssa.Value) ssa.Value {
	sl, ok := v.(*ssa.Slice)
	if !ok {
		return nil
	}
	al, ok := sl.X.(*ssa.Alloc)
	if !ok {
		return nil
	}
	var out ssa.Value
	n := 0
	for _, r := range *al.Referrers() {
		if ia, ok := r.(*ssa.IndexAddr); ok {
			for _, rr := range *ia.Referrers() {
				if st, ok := rr.(*ssa.Store); ok && st.Addr == ssa.Value(ia) {
					n++
					out = st.Val
				}
			}
		}
	}
	if n != 1 {
		return nil
	}
	if mi, ok := out.(*ssa.MakeInterface); ok {
		return mi.X
	}
	return out
}

// ---- O6
func c15Conversions(c *an.Ctx) {
	p := c.P
	fns := p.PkgFuncs(c16IO)
	fDir := p.Field(c16IO, "DynamicDirectory", "Directory")
	if !c.Need(fDir != nil, "DynamicDirectory.Directory") {
		return
	}
	// (a) the per-entry insertion of a conversion
	nIns := 0
	for _, conv := range []struct{ typ, fn string }{{"BasicDirectory", "switchToSharding"}, {"HAMTDirectory", "switchToBasic"}} {
		f := p.Func(c16IO, conv.typ, conv.fn)
		if !c.Need(f != nil, conv.typ+"."+conv.fn) {
			continue
		}
		for _, g := range an.WithClosures(f) {
			for _, call := range an.Calls(g, an.M(c15H, "Shard", "SetLink"), an.M(c16IO, "BasicDirectory", "addLinkChild"), an.M(c15H, "Shard", "Set"), an.M(c16IO, "BasicDirectory", "AddChild")) {
				nIns++
				args := an.Args(call)
				var nm, lk ssa.Value
				for _, a := range args {
					if an.IsString(a.Type()) {
						nm = a
					}
					if an.TypeIs(a.Type(), "github.com/ipfs/go-ipld-format", "Link") {
						lk = a
					}
				}
				ok := false
				if nm != nil && lk != nil {
					if fl, b := an.LoadedField(nm); fl != nil && fl.Name() == "Name" && an.SameObj(b, lk) {
						ok = true
					}
				}
				c.Check(ok, "O6", "R-FLOW", an.FuncName(g), an.Callee(call).Name+"(x.Name,x)", call.Pos(),
					"every link is re-inserted under its own name", "a Basic<->HAMT conversion inserts a link under a name that is not that link's own Name: entries are renamed or overwrite each other when the directory switches representation")
				// an insertion error aborts the conversion
				errNonNil := an.NilEdges(g, an.ErrResult(call), false)
				okErr := len(errNonNil) > 0
				for _, rs := range an.ResultSites(g, g.Signature.Results().Len()-1) {
					if an.IsNilConst(rs.Val) && an.EdgeLeadsTo(errNonNil, rs.At, nil, nil) {
						okErr = false
					}
				}
				if okErr && an.EdgeLeadsTo(errNonNil, call, nil, nil) {
					okErr = false // continues with the next link
				}
				c.Check(okErr, "O6", "R-DOM", an.FuncName(g), an.Callee(call).Name+"-error-aborts", call.Pos(),
					"a failed insertion aborts the conversion", "a Basic<->HAMT conversion goes on (or reports success) after inserting one entry failed: the converted directory silently lacks entries")
			}
		}
	}
	c.Min("O6 per-entry insertions in conversions", nIns, 2)
	// (b) the requested operation is applied to the new directory before it is installed
	nSites := 0
	for _, f := range fns {
		for _, st := range an.FieldStores(f, fDir) {
			_, base := an.FieldOf(st.Addr)
			if an.IsFresh(base) || f.Signature.Recv() == nil {
				continue
			}
			nSites++
			var newDir ssa.Value
			for _, r := range an.Roots(st.Val, nil) {
				newDir = r
			}
			op := f.Name() // AddChild / RemoveChild
			ok := false
			for _, call := range an.AllCalls(f) {
				if an.Callee(call).Name != op || an.Recv(call) == nil || !an.SameObj(an.Recv(call), newDir) {
					continue
				}
				// same operands as the request (all non-receiver parameters)
				same := true
				args := an.Args(call)
				for i, par := range f.Params[1:] {
					if i >= len(args) || args[i] != ssa.Value(par) {
						same = false
					}
				}
				if same && an.OnNilEdgeOf(f, call, st) {
					ok = true
				}
			}
			c.Check(ok, "O6", "R-DOM", an.FuncName(f), "converted-directory:"+op+"-applied-before-install", st.Pos(),
				"the requested operation is applied to the converted directory (same operands) and succeeded before it replaces the old one",
				"DynamicDirectory."+op+" installs the converted directory without having applied "+op+" with the caller's operands to it successfully: the requested edit is lost (or a half-edited directory is installed after an error)")
		}
	}
	c.Min("O6 conversion sites", nSites, 3)
}

// ---- O7
func c15Enumerations(c *an.Ctx) {
	p := c.P
	fKey := p.Field(c15H, "Shard", "key")
	if !c.Need(fKey != nil, "Shard.key") {
		return
	}
	n := 0
	for _, f := range p.PkgFuncs(c15H) {
		root := f
		for root.Parent() != nil {
			root = root.Parent()
		}
		if root.Name() != "walkChildren" && root.Name() != "ForEachLink" && root.Name() != "walkTrie" {
			continue
		}
		for _, call := range an.AllCalls(f) {
			// dynamic call of a func(*Link) error value
			if an.Callee(call).Fn != nil || an.Callee(call).Builtin != "" || call.Common().IsInvoke() {
				continue
			}
			args := call.Common().Args
			if len(args) != 1 || !an.TypeIs(args[0].Type(), "github.com/ipfs/go-ipld-format", "Link") {
				continue
			}
			n++
			lk := args[0]
			var named []ssa.Instruction
			okVal := true
			an.Instrs(f, func(in ssa.Instruction) {
				if st, ok := in.(*ssa.Store); ok {
					if fl, b := an.FieldOf(st.Addr); fl != nil && fl.Name() == "Name" && an.SameObj(b, lk) {
						named = append(named, st)
						if flv, _ := an.LoadedField(st.Val); flv != fKey {
							okVal = false
						}
					}
				}
			})
			c.Check(len(named) > 0 && okVal && an.MustPrecede(f, call, named), "O7", "R-SIB", an.FuncName(f), "emitted-link.Name=Shard.key", call.Pos(),
				"links handed to the enumeration callback are named by Shard.key",
				"an enumeration path of the HAMT hands a link to the callback whose Name was not set from Shard.key on every path: Links/ForEachLink/EnumLinksAsync report names with the hex prefix (or stale names), so the enumeration APIs disagree with Find")
		}
	}
	c.Min("O7 enumeration callback sites", n, 3)
}

// ---- O8: serialisation of a shard
func c15Serialise(c *an.Ctx) {
	p := c.P
	const md = "ipld/merkledag"
	fKey, fMax, fBf, fTS := p.Field(c15H, "Shard", "key"), p.Field(c15H, "Shard", "maxpadlen"), p.Field(c15H, "childer", "bitfield"), p.Field(c15H, "Shard", "tableSize")
	if !c.Need(fKey != nil && fMax != nil && fBf != nil && fTS != nil, "Shard.{key,maxpadlen,tableSize}, childer.bitfield") {
		return
	}
	nAdd := 0
	for _, f := range p.Methods(c15H, "Shard") {
		adds := an.Calls(f, an.M(md, "ProtoNode", "AddRawLink"), an.M(md, "ProtoNode", "AddNodeLink"))
		if len(adds) == 0 {
			continue
		}
		name := an.FuncName(f)
		recv := f.Params[0]
		for _, a := range adds {
			nAdd++
			args := an.Args(a)
			nm, lk := args[0], args[1]
			ok, why := false, "the name is not linkNamePrefix(slot) + label"
			var slot ssa.Value
			if b, isB := nm.(*ssa.BinOp); isB && b.Op == token.ADD {
				if pc, isP := an.IsCallTo(b.X, an.M(c15H, "Shard", "linkNamePrefix")); isP && an.Recv(pc) == ssa.Value(recv) {
					slot = an.Args(pc)[0]
					why = "the prefix is not that of the slot tested with childer.has on this path"
					hasTrue := an.CallEdges(f, an.M(c15H, "childer", "has"), 0, func(v ssa.Value) bool { return v == slot }, true)
					if len(hasTrue) > 0 && an.GuardedBy(f, nil, a, hasTrue) {
						why = "the label is neither the key of the child whose Link() is written nor the written link's own name cut at maxpadlen"
						// label
						if fl, base := an.LoadedField(b.Y); fl == fKey {
							if lc, isL := an.IsCallTo(lk, an.M(c15H, "Shard", "Link")); isL && an.SameObj(an.Recv(lc), base) {
								ok = true
							}
						} else if sl, isS := b.Y.(*ssa.Slice); isS && sl.Low != nil && sl.High == nil {
							flN, baseN := an.LoadedField(sl.X)
							flL, _ := an.LoadedField(sl.Low)
							if flN != nil && flN.Name() == "Name" && an.SameObj(baseN, lk) && flL == fMax {
								ok = true
							}
						}
					}
				}
			}
			c.Check(ok, "O8", "R-FLOW", name, an.Callee(a).Name+"(linkNamePrefix(slot)+label,link)", a.Pos(),
				"child written under the prefix of its own slot and its own label",
				"Shard."+f.Name()+" writes a child link whose name is not built as linkNamePrefix(<slot tested with has()>)+<label of that very child>: "+why+". The i-th set bit of the bitfield is matched with the i-th link after sorting by name, so a link carrying a stale or foreign prefix is attributed to the wrong slot after a reload (names no longer resolve, or resolve to another entry)")
			// the written child/link is taken at the dense slice counter
			var at ssa.Value
			if lc, isL := an.IsCallTo(lk, an.M(c15H, "Shard", "Link")); isL {
				if cc, isC := an.IsCallTo(an.Recv(lc), an.M(c15H, "childer", "child")); isC {
					at = an.Args(cc)[0]
				}
			} else if cc, isC := an.IsCallTo(lk, an.M(c15H, "childer", "link")); isC {
				at = an.Args(cc)[0]
			}
			if slot == nil {
				continue // reported above
			}
			okAt, whyAt := false, "the link written is not childer.child(i).Link() / childer.link(i)"
			if at != nil {
				whyAt = "the slice position is the table index itself"
				if at != slot {
					whyAt = "the slice counter is not advanced exactly on the has()==true paths"
					okAt = c15DenseCounter(f, at, slot)
				}
			}
			c.Check(okAt, "O8", "R-FLOW", name, an.Callee(a).Name+":child-at-dense-slice-counter", a.Pos(),
				"children are read at the counter of set bits seen so far",
				"Shard."+f.Name()+" reads the child to serialise at a position that is not the number of occupied slots before it ("+whyAt+"): links are written under the prefixes of other slots")
		}
		// data: bitfield and fanout of this shard
		for _, dc := range an.Calls(f, an.M("ipld/unixfs", "", "HAMTShardDataWithStat"), an.M("ipld/unixfs", "", "HAMTShardData")) {
			as := an.Args(dc)
			okB, okT := false, false
			for _, l := range an.Deps(as[0], nil) {
				if fl, _ := an.LoadedField(l); fl == fBf {
					okB = true
				}
			}
			for _, l := range an.Deps(as[1], nil) {
				if fl, b := an.LoadedField(l); fl == fTS && an.SameObj(b, recv) {
					okT = true
				}
			}
			c.Check(okB && okT, "O8", "R-FLOW", name, "shard-data(bitfield,tableSize)", dc.Pos(),
				"UnixFS shard data carries this shard's bitfield and table size",
				"the UnixFS data written for a shard does not carry its own childer.bitfield and tableSize: after a reload the links are matched with the wrong slots / hashed with the wrong width")
		}
	}
	c.Min("O8 links written by Shard.Node", nAdd, 2)
}

// c15DenseCounter: ctr is a loop-carried counter that is incremented by one
// exactly on the iterations where childer.has(slot) was true.
func c15DenseCounter(f *ssa.Function, ctr, slot ssa.Value) bool {
	phi, ok := ctr.(*ssa.Phi)
	if !ok {
		return false
	}
	hasCalls := an.Calls(f, an.M(c15H, "childer", "has"))
	var has ssa.CallInstruction
	for _, h := range hasCalls {
		if an.Args(h)[0] == slot {
			has = h
		}
	}
	if has == nil {
		return false
	}
	hasTrue := an.CallEdges(f, an.M(c15H, "childer", "has"), 0, func(v ssa.Value) bool { return v == slot }, true)
	blocked := map[ssa.Instruction]bool{has: true}
	okAll, nInc := true, 0
	seen := map[*ssa.Phi]bool{}
	var visit func(p *ssa.Phi, top bool)
	visit = func(p *ssa.Phi, top bool) {
		if seen[p] {
			return
		}
		seen[p] = true
		for i, e := range p.Edges {
			pred := p.Block().Preds[i]
			term := pred.Instrs[len(pred.Instrs)-1]
			if k, isConst := e.(*ssa.Const); isConst && top {
				if k.Value == nil || k.Value.String() != "0" {
					okAll = false
				}
				continue
			}
			if q, isPhi := e.(*ssa.Phi); isPhi && q != phi {
				visit(q, false)
				continue
			}
			switch {
			case e == ssa.Value(phi):
				// unchanged: must not be a has()==true iteration
				for ed := range hasTrue {
					if pred == ed.To() || an.ReachesFromBlock(ed.To(), term, nil, blocked) {
						okAll = false
					}
				}
			default:
				b, isB := e.(*ssa.BinOp)
				k, isK := ssa.Value(nil), false
				if isB {
					_, isK = b.Y.(*ssa.Const)
					k = b.Y
				}
				if !isB || b.Op != token.ADD || b.X != ssa.Value(phi) || !isK || k.(*ssa.Const).Value.String() != "1" {
					okAll = false
					continue
				}
				nInc++
				if !an.GuardedBy(f, has, term, hasTrue) {
					okAll = false
				}
			}
		}
	}
	visit(phi, true)
	return okAll && nInc > 0
}

// ---- O9: reload
func c15Reload(c *an.Ctx) {
	p := c.P
	load := p.Func(c15H, "", "NewHamtFromDag")
	mk := p.Func(c15H, "childer", "makeChilder")
	fCh, fLn, fBf := p.Field(c15H, "childer", "children"), p.Field(c15H, "childer", "links"), p.Field(c15H, "childer", "bitfield")
	if !c.Need(load != nil && mk != nil && fCh != nil && fLn != nil && fBf != nil, "NewHamtFromDag, childer.makeChilder") {
		return
	}
	name := an.FuncName(load)
	isFS := func(n string) func(ssa.Value) bool {
		return func(v ssa.Value) bool { _, ok := an.IsCallTo(v, an.M("ipld/unixfs", "FSNode", n)); return ok }
	}
	from := func(v ssa.Value, pred func(ssa.Value) bool) *ssa.Call {
		for _, l := range an.Deps(v, &an.DepOpts{Stop: pred}) {
			if pred(l) {
				if e, isE := l.(*ssa.Extract); isE {
					l = e.Tuple
				}
				cc, _ := l.(*ssa.Call)
				return cc
			}
		}
		return nil
	}
	var fsn ssa.Value
	for _, ms := range an.Calls(load, an.M(c15H, "", "makeShard"), an.M(c15H, "", "NewShard")) {
		fo := from(an.Args(ms)[1], isFS("Fanout"))
		c.Check(fo != nil, "O9", "R-FLOW", name, "makeShard(size=node.Fanout())", ms.Pos(),
			"a loaded shard gets the fanout recorded in its node",
			"NewHamtFromDag does not build the shard with the Fanout() recorded in the node: names are hashed with another width than the one they were stored with, so stored names do not resolve")
		if fo != nil {
			fsn = an.Recv(fo)
		}
	}
	nMk := 0
	for _, mc := range an.LocalCallers([]*ssa.Function{load}, mk) {
		nMk++
		as := an.Args(mc)
		dc := from(as[0], isFS("Data"))
		lc := from(as[1], func(v ssa.Value) bool {
			_, ok := an.IsCallTo(v, an.M("ipld/merkledag", "ProtoNode", "Links"))
			return ok
		})
		ok := dc != nil && lc != nil && fsn != nil && an.SameObj(an.Recv(dc), fsn)
		if ok {
			// fsn was parsed from the Data() of the node whose Links() are used
			parsed := from(fsn, func(v ssa.Value) bool { _, ok := an.IsCallTo(v, an.M("ipld/unixfs", "", "FSNodeFromBytes")); return ok })
			ok = false
			if parsed != nil {
				if d2 := from(parsed.Call.Args[0], func(v ssa.Value) bool {
					_, ok := an.IsCallTo(v, an.M("ipld/merkledag", "ProtoNode", "Data"))
					return ok
				}); d2 != nil && an.SameObj(an.Recv(d2), an.Recv(lc)) {
					ok = true
				}
			}
		}
		c.Check(ok, "O9", "R-FLOW", name, "makeChilder(node.bitfield,node.Links())", mc.Pos(),
			"bitfield and links of a loaded shard come from the same node",
			"NewHamtFromDag fills the childer with a bitfield and a link list that do not come from one and the same node (fsn.Data() of the node whose Links() are used): set bits and links no longer correspond")
	}
	c.Min("O9 makeChilder calls in NewHamtFromDag", nMk, 1)
	// makeChilder itself
	var dataPar, linksPar *ssa.Parameter
	for _, par := range mk.Params[1:] {
		if sl, ok := par.Type().Underlying().(*types.Slice); ok {
			if b, ok := sl.Elem().Underlying().(*types.Basic); ok && b.Kind() == types.Byte {
				dataPar = par
			} else {
				linksPar = par
			}
		}
	}
	if c.Need(dataPar != nil && linksPar != nil, "parameters of makeChilder") {
		okLen, okLinks, okBits := false, false, false
		for _, st := range an.FieldStores(mk, fCh) {
			if ms, ok := st.Val.(*ssa.MakeSlice); ok {
				if lc, ok := ms.Len.(*ssa.Call); ok {
					if bi, ok := lc.Call.Value.(*ssa.Builtin); ok && bi.Name() == "len" && lc.Call.Args[0] == ssa.Value(linksPar) {
						okLen = true
					}
				}
			}
		}
		for _, st := range an.FieldStores(mk, fLn) {
			for _, l := range an.Deps(st.Val, nil) {
				if l == ssa.Value(linksPar) {
					okLinks = true
				}
			}
		}
		for _, bc := range an.AllCalls(mk) {
			if an.Callee(bc).Name == "SetBytes" && len(an.Args(bc)) == 1 && an.Args(bc)[0] == ssa.Value(dataPar) {
				if fl, _ := an.LoadedField(an.Recv(bc)); fl == fBf {
					okBits = true
				}
			}
		}
		c.Check(okLen && okLinks && okBits, "O9", "R-FLOW", an.FuncName(mk), "children=len(links),links,bitfield=data", mk.Pos(),
			"makeChilder sizes children by the link count, keeps the links and loads the bitfield",
			fmt.Sprintf("childer.makeChilder does not set children to len(links) entries (%v), links to the given links (%v) and the bitfield to the given bytes (%v): slice indices derived from the bitfield do not address the loaded links", okLen, okLinks, okBits))
	}
}
