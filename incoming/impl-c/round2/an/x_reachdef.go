package an

import (
	"go/token"

	"golang.org/x/tools/go/ssa"
)

// Reaching definitions of non-escaping local cells, restricted to the paths
// that start at a given instruction ("what can this variable hold at this
// load, on executions that passed through `from`, and was it written since?").
// go/ssa keeps named results and variables of functions with defer/closures in
// Alloc cells, so `return written, nil` is a load whose defining store may sit
// several blocks earlier; Roots() would merge every store of the function.

// cellIsLocal: the cell is only stored to / loaded from directly (its address
// does not escape into calls, closures or other memory).
func cellIsLocal(a *ssa.Alloc) bool {
	for _, r := range *a.Referrers() {
		switch x := r.(type) {
		case *ssa.Store:
			if x.Addr != ssa.Value(a) {
				return false
			}
		case *ssa.UnOp:
			if x.Op != token.MUL {
				return false
			}
		case *ssa.DebugRef:
		default:
			return false
		}
	}
	return true
}

// DefsSince returns the stores to cell that can be the last write before
// `load` on some path from just after `from` to `load`; stale is true when
// some such path contains no store at all (the cell still holds what it held
// at `from`).
func DefsSince(from ssa.Instruction, load *ssa.UnOp, cell *ssa.Alloc) (defs []*ssa.Store, stale bool) {
	type state struct {
		b   *ssa.BasicBlock
		def *ssa.Store
	}
	seen := map[state]bool{}
	got := map[*ssa.Store]bool{}
	var scan func(b *ssa.BasicBlock, start int, def *ssa.Store)
	scan = func(b *ssa.BasicBlock, start int, def *ssa.Store) {
		for i := start; i < len(b.Instrs); i++ {
			in := b.Instrs[i]
			if in == ssa.Instruction(load) {
				if def == nil {
					stale = true
				} else if !got[def] {
					got[def] = true
					defs = append(defs, def)
				}
				// the same load can be reached again around a loop: keep going
			}
			if st, ok := in.(*ssa.Store); ok && st.Addr == ssa.Value(cell) {
				def = st
			}
		}
		for _, s := range b.Succs {
			k := state{s, def}
			if seen[k] {
				continue
			}
			seen[k] = true
			scan(s, 0, def)
		}
	}
	scan(from.Block(), idxOf(from)+1, nil)
	return defs, stale
}

// ValuesSince resolves v, as observed at its own program point on executions
// that passed `from`, to the values it can hold: loads of local cells are
// replaced by the values stored since `from` (transitively); value-preserving
// conversions are looked through. stale reports that on some path a cell on
// the way was not written since `from`.
func ValuesSince(from ssa.Instruction, v ssa.Value) (vals []ssa.Value, stale bool) {
	seen := map[ssa.Value]bool{}
	var walk func(v ssa.Value)
	walk = func(v ssa.Value) {
		if v == nil || seen[v] {
			return
		}
		seen[v] = true
		switch x := v.(type) {
		case *ssa.ChangeType:
			walk(x.X)
			return
		case *ssa.MakeInterface:
			walk(x.X)
			return
		case *ssa.UnOp:
			if cell, ok := x.X.(*ssa.Alloc); ok && x.Op == token.MUL && cellIsLocal(cell) && x.Parent() == from.Parent() {
				defs, st := DefsSince(from, x, cell)
				if st {
					stale = true
				}
				for _, d := range defs {
					walk(d.Val)
				}
				return
			}
		}
		vals = append(vals, v)
	}
	walk(v)
	return vals, stale
}

// SortedInstrs lists a set of instructions in deterministic program order
// (block index, position in block), so that obligation ordinals are stable.
func SortedInstrs(set map[ssa.Instruction]bool) []ssa.Instruction {
	out := make([]ssa.Instruction, 0, len(set))
	for in := range set {
		out = append(out, in)
	}
	key := func(in ssa.Instruction) (int, int) { return in.Block().Index, idxOf(in) }
	sortInstrs(out, key)
	return out
}

func sortInstrs(xs []ssa.Instruction, key func(ssa.Instruction) (int, int)) {
	for i := 1; i < len(xs); i++ {
		for j := i; j > 0; j-- {
			a1, a2 := key(xs[j-1])
			b1, b2 := key(xs[j])
			if a1 < b1 || (a1 == b1 && a2 <= b2) {
				break
			}
			xs[j-1], xs[j] = xs[j], xs[j-1]
		}
	}
}
