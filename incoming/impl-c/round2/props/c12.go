package props

import (
	"fmt"
	"go/token"
	"go/types"

	"golang.org/x/tools/go/ssa"

	"verif/checker/an"
)

func init() {
	register("C12", Prop{
		Pkgs: []string{"./ipld/merkledag"},
		Explain: "Decided (structural necessary conditions of 'walks visit the reachable nodes and report the right CIDs'): " +
			"O1 in every function that calls a GetLinks value with CID X: walkOptions.ErrorHandler is invoked only on the error's non-nil edge, with X and with that very error, and every multihash given to Provider.StartProviding is X.Hash(); the provider is only reached where the (handler-filtered) error is nil; in walks that return an error, the (handler-filtered) getLinks error and the error of a recursive child walk are returned on their non-nil edge; " +
			"O2 every store to walkOptions.ErrorHandler on a live options object either replaces nil (guarded by ErrorHandler==nil) or stores a closure that captured the previous handler, calls it and the new handler with the CID it received, and never re-loads walkOptions.ErrorHandler at call time (self-reference = unbounded recursion when two handler options are combined); " +
			"O3 sequential and concurrent walk agree on SkipRoot: the visit callback is suppressed exactly when SkipRoot && depth==0, is asked about the very CID that is fetched next, and links are fetched only on the callback's true edge; " +
			"O4 FetchGraphWithDepthLimit's visit closure records set[c]=depth exactly when it returns true, only where !seen || oldDepth > depth, never beyond the depth limit, and never re-visits when the depth is unlimited; " +
			"O5 the depth handed to the visit callback is 0 for the root and parent depth + 1 for children (field-based flow through the dispatcher's queue records); " +
			"O6 a visit callback invoked from a fetch goroutine runs under a mutex; " +
			"O7 every link returned by getLinks is handed on: the loop over the links (found by field-based flow from the getLinks result, also across the dispatcher's queue records) ranges over the whole list, and every path of its body passes the link's CID to the recursive walk or stores it into a queue record that is then stored as next item / pushed to the queue — the walker never filters links itself, pruning belongs to the depth-aware visit callback; the loop is never left early; the dispatcher reports success only where its pending-item cell is undefined and its in-flight counter is 0. " +
			"NOT decided: exactness of the visited set under concurrency, termination/accounting of the concurrent dispatcher (inProgress), behaviour of user callbacks.",
		Assume:    []string{"walkOptions is unexported: only package merkledag can write ErrorHandler/Provider", "GetLinks values report the error of the CID they were called with"},
		Technique: "SSA rules: value provenance (R-FLOW), edge dominance (R-DOM), self-referential closure (R-CLOSURE), sibling agreement on guard edges (R-SIB), normalised comparison edges (R-CMP), lock-state dataflow (R-GUARD)",
		Run:       runC12,
	})
}

const c12cid = "github.com/ipfs/go-cid"

func runC12(c *an.Ctx) {
	p := c.P
	const md = "ipld/merkledag"
	fHandler, fProvider, fSkip := p.Field(md, "walkOptions", "ErrorHandler"), p.Field(md, "walkOptions", "Provider"), p.Field(md, "walkOptions", "SkipRoot")
	if !c.Need(fHandler != nil && fProvider != nil && fSkip != nil, "merkledag.walkOptions fields ErrorHandler,Provider,SkipRoot") {
		return
	}
	fns := p.PkgFuncs(md)

	// ---- the walk functions: every function calling a GetLinks-typed value
	type walk struct {
		fn *ssa.Function
		gl []*ssa.Call
	}
	var walks []walk
	for _, fn := range fns {
		var gl []*ssa.Call
		for _, call := range an.AllCalls(fn) {
			cv := an.CallValue(call)
			if cv == nil || cv.Call.IsInvoke() || an.Callee(call).Fn != nil || an.Callee(call).Static != nil {
				continue
			}
			if an.TypeIs(cv.Call.Value.Type(), md, "GetLinks") && len(cv.Call.Args) == 2 {
				gl = append(gl, cv)
			}
		}
		if len(gl) > 0 {
			walks = append(walks, walk{fn, gl})
		}
	}
	c.Min("functions calling a GetLinks value (sequential and concurrent walk)", len(walks), 2)

	nH, nP, nV := 0, 0, 0
	for _, w := range walks {
		fn, name := w.fn, an.FuncName(w.fn)
		// handler and provider calls of this function
		var handlers []*ssa.Call
		var providers []ssa.CallInstruction
		for _, call := range an.AllCalls(fn) {
			if cv := an.CallValue(call); cv != nil && !cv.Call.IsInvoke() && c12LoadsField(cv.Call.Value, fHandler) {
				handlers = append(handlers, cv)
			}
		}
		providers = an.Calls(fn, an.M("provider", "MultihashProvider", "StartProviding"))
		for _, g := range w.gl {
			x := g.Call.Args[1]
			errs := an.ErrResult(g)
			// the error as it stands after an optional handler: values whose
			// provenance is {getLinks error, handler result}
			isFinalErr := func(v ssa.Value) bool {
				sawG := false
				ok, _ := an.AllRoots(v, nil, func(r ssa.Value) bool {
					for _, e := range errs {
						if r == e {
							sawG = true
							return true
						}
					}
					for _, h := range handlers {
						if r == ssa.Value(h) {
							return true
						}
					}
					return false
				})
				return ok && sawG
			}
			finalNil := an.CondEdges(fn, func(atom ssa.Value) (bool, bool) {
				b, ok := atom.(*ssa.BinOp)
				if !ok || (b.Op != token.EQL && b.Op != token.NEQ) {
					return false, false
				}
				var subj ssa.Value
				switch {
				case an.IsNilConst(b.Y):
					subj = b.X
				case an.IsNilConst(b.X):
					subj = b.Y
				default:
					return false, false
				}
				if !isFinalErr(subj) {
					return false, false
				}
				return b.Op == token.EQL, b.Op == token.NEQ
			})
			for _, h := range handlers {
				if !an.Dominates(g, h) {
					continue
				}
				nH++
				c.Check(an.SameVal(h.Call.Args[0], x), "O1", "R-FLOW", name, "ErrorHandler.cid==getLinks.cid", h.Pos(),
					"the error handler receives the CID that was passed to getLinks",
					fmt.Sprintf("ErrorHandler is called with %s but the failed fetch was getLinks(ctx, %s): OnMissing/OnError/IgnoreMissing callbacks are told the wrong CID", an.ShowPath(h.Call.Args[0]), an.ShowPath(x)))
				okErr := len(errs) > 0
				if okErr {
					okErr, _ = an.AllRoots(h.Call.Args[1], nil, func(r ssa.Value) bool {
						for _, e := range errs {
							if r == e {
								return true
							}
						}
						return false
					})
				}
				c.Check(okErr, "O1", "R-FLOW", name, "ErrorHandler.err==getLinks.err", h.Pos(),
					"the error handler receives the error returned by getLinks", "ErrorHandler is called with an error that is not the one returned by the getLinks call it reports on")
				c.Check(len(errs) > 0 && an.GuardedBy(fn, g, h, an.NilEdges(fn, errs, false)), "O1", "R-DOM", name, "ErrorHandler<=err!=nil", h.Pos(),
					"the error handler is only invoked where getLinks failed", "ErrorHandler can be invoked although getLinks succeeded (handlers such as OnError would see a nil error / OnMissing fire spuriously)")
			}
			for _, pc := range providers {
				if !an.Dominates(g, pc) {
					continue
				}
				nP++
				elems := c12VarargElems(an.Args(pc)[1])
				okP := len(elems) > 0
				bad := ""
				for _, e := range elems {
					hc, ok := an.IsCallTo(e, an.M(c12cid, "Cid", "Hash"))
					if !ok || !an.SameVal(an.Recv(hc), x) {
						okP = false
						if ok {
							bad = an.ShowPath(an.Recv(hc)) + ".Hash()"
						} else {
							bad = an.ShowPath(e)
						}
					}
				}
				c.Check(okP, "O1", "R-FLOW", name, "StartProviding.mh==getLinks.cid.Hash()", pc.Pos(),
					"the provider is given the multihash of the CID that was just fetched",
					fmt.Sprintf("Provider.StartProviding is given %s but the node fetched was %s: the wrong node is announced (and the visited ones are not)", bad, an.ShowPath(x)))
				c.Check(an.GuardedBy(fn, g, pc, finalNil), "O1", "R-DOM", name, "StartProviding<=err==nil", pc.Pos(),
					"the provider is only reached where the (handler-filtered) getLinks error is nil",
					"Provider.StartProviding is reachable although getLinks failed and the error was not cleared by a handler: nodes that abort the walk are announced")
			}
		}

		// ---- O1: the walk error is the (handler-filtered) getLinks error / the child walk's error
		if rs := fn.Signature.Results(); rs.Len() == 1 && an.IsErrorType(rs.At(0).Type()) {
			type src struct {
				what string
				call ssa.CallInstruction
				isE  func(ssa.Value) bool
			}
			var srcs []src
			for _, g := range w.gl {
				errs := an.ErrResult(g)
				hs := handlers
				srcs = append(srcs, src{"getLinks", g, func(v ssa.Value) bool {
					saw := false
					ok, _ := an.AllRoots(v, nil, func(r ssa.Value) bool {
						for _, e := range errs {
							if r == e {
								saw = true
								return true
							}
						}
						for _, h := range hs {
							if r == ssa.Value(h) {
								saw = true
								return true
							}
						}
						return false
					})
					return ok && saw
				}})
			}
			for _, call := range an.AllCalls(fn) {
				if an.Callee(call).Static == fn {
					errs := an.ErrResult(call)
					srcs = append(srcs, src{"child walk", call, func(v ssa.Value) bool {
						ok, _ := an.AllRoots(v, nil, func(r ssa.Value) bool {
							for _, e := range errs {
								if r == e {
									return true
								}
							}
							return false
						})
						return ok
					}})
				}
			}
			for _, sr := range srcs {
				nonNil := an.CondEdges(fn, func(atom ssa.Value) (bool, bool) {
					b, ok := atom.(*ssa.BinOp)
					if !ok || (b.Op != token.EQL && b.Op != token.NEQ) {
						return false, false
					}
					var subj ssa.Value
					switch {
					case an.IsNilConst(b.Y):
						subj = b.X
					case an.IsNilConst(b.X):
						subj = b.Y
					default:
						return false, false
					}
					if !sr.isE(subj) {
						return false, false
					}
					return b.Op == token.NEQ, b.Op == token.EQL
				})
				// an edge "error is non-nil" that is final: its target returns
				nEdges, okAll := 0, true
				for e := range nonNil {
					tb := e.From.Succs[e.Succ]
					r, isRet := tb.Instrs[len(tb.Instrs)-1].(*ssa.Return)
					if !isRet {
						continue // e.g. the `err != nil && handler != nil` test: not final
					}
					nEdges++
					if !sr.isE(r.Results[0]) {
						okAll = false
					}
				}
				c.Check(nEdges > 0 && okAll, "O1", "R-DOM", name, sr.what+" error is returned", sr.call.Pos(),
					"a failing "+sr.what+" aborts the walk with that error",
					"the error of "+sr.what+" is not returned on its non-nil edge (dropped, replaced, or never tested): the walk reports success although nodes could not be fetched")
			}
		}

		// ---- O3 SkipRoot agreement, O5 depth, O6 lock
		var visits []*ssa.Call
		for _, call := range an.AllCalls(fn) {
			if cv := an.CallValue(call); cv != nil && c12IsVisitCall(cv) {
				visits = append(visits, cv)
			}
		}
		if len(visits) == 0 {
			c.Bad("O3", "R-SIB", name, "visit-callback", fn.Pos(), "a walk function fetches links without ever consulting the visit callback: every reachable node would be fetched unconditionally")
			continue
		}
		skipLoads := an.FieldReads(fn, fSkip)
		eSkipT, eSkipF := an.BoolEdges(fn, skipLoads, true), an.BoolEdges(fn, skipLoads, false)
		blockedVisits := map[ssa.Instruction]bool{}
		for _, v := range visits {
			blockedVisits[v] = true
		}
		for _, v := range visits {
			nV++
			d := v.Call.Args[1]
			isD := func(x ssa.Value) bool { return an.SameVal(x, d) }
			eD0, eDn0 := an.TokRelEdges(fn, isD, an.IsIntConst(0), token.EQL), an.TokRelEdges(fn, isD, an.IsIntConst(0), token.NEQ)
			c.Check(len(skipLoads) > 0 && an.GuardedBy(fn, nil, v, eSkipF.Union(eDn0)), "O3", "R-SIB", name, "visit<=!SkipRoot||depth!=0", v.Pos(),
				"the visit callback is only invoked where !SkipRoot or depth != 0",
				"the visit callback can be invoked for the root although SkipRoot is set (or SkipRoot is not consulted at all by this walk)")
			for _, g := range w.gl {
				c.Check(an.SameVal(v.Call.Args[0], g.Call.Args[1]), "O3", "R-FLOW", name, "visit.cid==getLinks.cid", v.Pos(),
					"the visit callback is asked about the CID that is fetched next",
					"the visit callback is asked about "+an.ShowPath(v.Call.Args[0])+" but the node fetched is "+an.ShowPath(g.Call.Args[1])+": the callback prunes/records the wrong nodes")
				okB := !an.Reaches(fn, nil, g, eSkipT, blockedVisits) && !an.Reaches(fn, nil, g, eD0, blockedVisits)
				c.Check(okB, "O3", "R-SIB", name, "getLinks-without-visit<=SkipRoot&&depth==0", g.Pos(),
					"links are fetched without asking the visit callback only where SkipRoot && depth == 0",
					"getLinks can be reached without the visit callback having been asked on a path that is not (SkipRoot && depth == 0): nodes are fetched/descended although the callback was never consulted")
				if an.Dominates(v, g) || an.Reaches(fn, v, g, nil, nil) {
					visitTrue := an.CondEdges(fn, func(atom ssa.Value) (bool, bool) {
						saw := false
						ok, _ := an.AllRoots(atom, nil, func(r ssa.Value) bool {
							if r == ssa.Value(v) {
								saw = true
								return true
							}
							k, isK := an.ConstOf(r)
							return isK && k.String() == "true"
						})
						return ok && saw, false
					})
					c.Check(an.GuardedBy(fn, v, g, visitTrue), "O3", "R-DOM", name, "getLinks<=visit()==true", g.Pos(),
						"links are fetched only where the visit callback returned true",
						"getLinks is reachable after the visit callback returned false: pruned nodes (already seen / beyond the depth limit) are fetched and descended")
				}
			}
			// O5 depth provenance
			ok5, why := c12DepthOK(p, fn, d)
			c.Check(ok5, "O5", "R-FLOW", name, "visit.depth=0|parent+1", v.Pos(),
				"the depth given to the visit callback is 0 at the root and parent depth + 1 for children", "depth bookkeeping: "+why)
			// O6 lock when running as a goroutine body
			if c12IsGoroutineBody(fn) {
				lf := an.Locks(fn, an.SyncModel, nil, true)
				held := false
				for _, m := range lf.Before[v] {
					if m == an.LWrite {
						held = true
					}
				}
				c.Check(held, "O6", "R-GUARD", name, "visit-under-mutex", v.Pos(),
					"the visit callback runs under a mutex in the fetch goroutines", "the visit callback is invoked from concurrent fetch goroutines without a mutex held: callbacks (e.g. the depth map of FetchGraphWithDepthLimit) race")
			}
		}
	}
	// ---- O7: every link returned by getLinks is walked / queued
	walkFns := map[*ssa.Function]bool{}
	famRoots := map[*ssa.Function]map[ssa.Value]bool{}
	var famOrder []*ssa.Function
	for _, w := range walks {
		walkFns[w.fn] = true
		root := w.fn
		for root.Parent() != nil {
			root = root.Parent()
		}
		if famRoots[root] == nil {
			famRoots[root] = map[ssa.Value]bool{}
			famOrder = append(famOrder, root)
		}
		for _, g := range w.gl {
			for _, r := range an.Result(g, 0) {
				famRoots[root][r] = true
			}
		}
	}
	nLoops := 0
	for _, root := range famOrder {
		nLoops += c12LinksWalked(c, p, walkFns, root, famRoots[root])
	}
	c.Min("O7 loops over the links returned by getLinks", nLoops, 2)
	c.Min("O1 ErrorHandler invocations after getLinks", nH, 2)
	c.Min("O1 StartProviding calls after getLinks", nP, 2)
	c.Min("O3 visit callback invocations", nV, 2)

	// ---- O2: composition of error handlers
	nO2 := 0
	for _, fn := range fns {
		for _, st := range an.FieldStores(fn, fHandler) {
			_, base := an.FieldOf(st.Addr)
			if an.IsFresh(base) {
				continue
			}
			nO2++
			name := an.FuncName(fn)
			mc, isClosure := st.Val.(*ssa.MakeClosure)
			if !isClosure {
				loads := c12FieldLoads(fn, fHandler, base)
				c.Check(len(loads) > 0 && an.GuardedBy(fn, nil, st, an.NilEdges(fn, loads, true)), "O2", "R-DOM", name, "ErrorHandler=handler<=ErrorHandler==nil", st.Pos(),
					"a plain handler is stored only where no handler was installed yet",
					"walkOptions.ErrorHandler is overwritten with a plain handler although one may already be installed: an earlier OnError/OnMissing/IgnoreMissing option is silently dropped")
				continue
			}
			g := mc.Fn.(*ssa.Function)
			selfRef := false
			for _, h := range an.WithClosures(g) {
				if len(an.FieldReads(h, fHandler)) > 0 {
					selfRef = true
				}
			}
			c.Check(!selfRef, "O2", "R-CLOSURE", name, "ErrorHandler=closure(no self-load)", st.Pos(),
				"the composed handler does not re-load walkOptions.ErrorHandler when called",
				"the closure stored into walkOptions.ErrorHandler loads walkOptions.ErrorHandler when it is called, i.e. itself: combining two handler options (e.g. IgnoreMissing()+OnMissing()) recurses until the stack overflows")
			if selfRef {
				continue
			}
			// composition: calls the previous handler (captured before the store) and the new one, with its own CID
			prevLoads := c12FieldLoads(fn, fHandler, base)
			callsPrev, callsNew, cidOK := false, false, true
			var inner, outer *ssa.Call
			for _, call := range an.AllCalls(g) {
				cv := an.CallValue(call)
				if cv == nil || cv.Call.IsInvoke() || an.Callee(call).Fn != nil || an.Callee(call).Static != nil {
					continue
				}
				if !c12IsHandlerSig(cv.Call.Value.Type()) {
					continue
				}
				isPrev, _ := an.AllRoots(cv.Call.Value, nil, func(r ssa.Value) bool {
					for _, l := range prevLoads {
						if r == l && an.Dominates(l.(ssa.Instruction), st) {
							return true
						}
					}
					return false
				})
				isNew, _ := an.AllRoots(cv.Call.Value, nil, func(r ssa.Value) bool {
					pr, ok := r.(*ssa.Parameter)
					return ok && pr.Parent() == fn
				})
				if isPrev {
					callsPrev, inner = true, cv
				}
				if isNew {
					callsNew, outer = true, cv
				}
				if len(g.Params) == 0 || !an.SameVal(cv.Call.Args[0], g.Params[0]) {
					cidOK = false
				}
			}
			c.Check(callsPrev && callsNew, "O2", "R-FLOW", name, "ErrorHandler=closure(prev,new)", st.Pos(),
				"the composed handler calls the previously installed handler (captured before the store) and the new one",
				fmt.Sprintf("the closure stored into walkOptions.ErrorHandler calls previous handler=%v new handler=%v: one of the combined walk options is dropped", callsPrev, callsNew))
			c.Check(cidOK, "O2", "R-FLOW", name, "ErrorHandler=closure(cid passthrough)", st.Pos(),
				"both handlers receive the CID the composed handler was called with", "a composed handler passes a different CID to an inner handler than the one it received")
			if inner != nil && outer != nil {
				chained, _ := an.AllRoots(outer.Call.Args[1], nil, func(r ssa.Value) bool { return r == ssa.Value(inner) })
				c.Check(chained, "O2", "R-FLOW", name, "ErrorHandler=closure(new(prev(err)))", st.Pos(),
					"the new handler receives the error as filtered by the previous handler", "the new handler does not receive the result of the previous handler: IgnoreMissing()/IgnoreErrors() installed earlier no longer filter what OnError/OnMissing see")
			}
		}
	}
	c.Min("O2 stores to walkOptions.ErrorHandler on a live object", nO2, 2)

	// ---- O4: depth-aware visited set of FetchGraphWithDepthLimit
	if fg := p.Func(md, "", "FetchGraphWithDepthLimit"); c.Need(fg != nil, "merkledag.FetchGraphWithDepthLimit") {
		var vis *ssa.Function
		for _, a := range fg.AnonFuncs {
			if c12IsVisitSig(a.Signature) {
				n := 0
				an.Instrs(a, func(in ssa.Instruction) {
					if _, ok := in.(*ssa.MapUpdate); ok {
						n++
					}
				})
				if n > 0 {
					vis = a
				}
			}
		}
		if c.Need(vis != nil, "the visit closure of FetchGraphWithDepthLimit (func(cid.Cid,int) bool updating a map)") {
			c12CheckDepthSet(c, fg, vis)
		}
	}
}

// c12LoadsField: v is a load of struct field fld.
func c12LoadsField(v ssa.Value, fld *types.Var) bool {
	ok, _ := an.AllRoots(v, nil, func(r ssa.Value) bool {
		switch u := r.(type) {
		case *ssa.UnOp:
			if u.Op == token.MUL {
				f, _ := an.FieldOf(u.X)
				return f == fld
			}
		case *ssa.Field:
			f, _ := an.FieldOf(u)
			return f == fld
		}
		return false
	})
	return ok
}

func c12FieldLoads(fn *ssa.Function, fld *types.Var, base ssa.Value) []ssa.Value {
	var out []ssa.Value
	for _, l := range an.FieldReads(fn, fld) {
		if u, ok := l.(*ssa.UnOp); ok {
			if _, b := an.FieldOf(u.X); an.SameObj(b, base) {
				out = append(out, l)
			}
		}
	}
	return out
}

func c12IsCid(t types.Type) bool { return an.TypeIs(t, c12cid, "Cid") }

// c12IsVisitSig: func(cid.Cid, int) bool
func c12IsVisitSig(sig *types.Signature) bool {
	if sig == nil || sig.Params().Len() != 2 || sig.Results().Len() != 1 {
		return false
	}
	b, ok := sig.Results().At(0).Type().Underlying().(*types.Basic)
	i, ok2 := sig.Params().At(1).Type().Underlying().(*types.Basic)
	return ok && ok2 && b.Kind() == types.Bool && i.Kind() == types.Int && c12IsCid(sig.Params().At(0).Type())
}

// c12IsHandlerSig: func(cid.Cid, error) error
func c12IsHandlerSig(t types.Type) bool {
	sig, ok := t.Underlying().(*types.Signature)
	if !ok || sig.Params().Len() != 2 || sig.Results().Len() != 1 {
		return false
	}
	return c12IsCid(sig.Params().At(0).Type()) && an.IsErrorType(sig.Params().At(1).Type()) && an.IsErrorType(sig.Results().At(0).Type())
}

// c12IsVisitCall: a dynamic call of a func(cid.Cid,int) bool value that is a
// parameter (possibly captured) — the user's visit callback.
func c12IsVisitCall(cv *ssa.Call) bool {
	if cv.Call.IsInvoke() || an.Callee(cv).Fn != nil || an.Callee(cv).Static != nil {
		return false
	}
	sig, ok := cv.Call.Value.Type().Underlying().(*types.Signature)
	if !ok || !c12IsVisitSig(sig) {
		return false
	}
	isParam, _ := an.AllRoots(cv.Call.Value, nil, func(r ssa.Value) bool {
		_, ok := r.(*ssa.Parameter)
		return ok
	})
	return isParam
}

// c12VarargElems returns the values stored into the backing array of a
// variadic argument slice built at the call site.
func c12VarargElems(v ssa.Value) []ssa.Value {
	sl, ok := v.(*ssa.Slice)
	if !ok {
		return nil
	}
	al, ok := sl.X.(*ssa.Alloc)
	if !ok {
		return nil
	}
	var out []ssa.Value
	for _, r := range *al.Referrers() {
		ia, ok := r.(*ssa.IndexAddr)
		if !ok {
			continue
		}
		for _, r2 := range *ia.Referrers() {
			if st, ok := r2.(*ssa.Store); ok && st.Addr == ia {
				out = append(out, st.Val)
			}
		}
	}
	return out
}

// c12IsGoroutineBody: fn is a closure started with `go` or (*sync.WaitGroup).Go
// / errgroup.Go in its parent.
func c12IsGoroutineBody(fn *ssa.Function) bool {
	par := fn.Parent()
	if par == nil {
		return false
	}
	found := false
	an.Instrs(par, func(in ssa.Instruction) {
		switch x := in.(type) {
		case *ssa.Go:
			if mc, ok := x.Call.Value.(*ssa.MakeClosure); ok && mc.Fn == fn {
				found = true
			}
		case *ssa.Call:
			if an.Callee(x).Name != "Go" {
				return
			}
			for _, a := range x.Call.Args {
				if mc, ok := a.(*ssa.MakeClosure); ok && mc.Fn == fn {
					found = true
				}
			}
		}
	})
	return found
}

// c12DepthOK decides O5 by a field-based backward flow: struct fields are
// abstract locations (all stores to the field anywhere in the function family
// feed every load), parameters are resolved through the static call sites of
// their function. The provenance of the depth must be {0, y+1 ...} with every
// y again rooted in the same set.
func c12DepthOK(p *an.Prog, fn *ssa.Function, d ssa.Value) (bool, string) {
	root := fn
	for root.Parent() != nil {
		root = root.Parent()
	}
	family := an.WithClosures(root)
	flow := func(v ssa.Value, seen map[ssa.Value]bool, roots *[]ssa.Value) { c12Flow(p, family, v, seen, roots) }
	var roots []ssa.Value
	flow(d, map[ssa.Value]bool{}, &roots)
	zero, incs := false, 0
	for _, r := range roots {
		switch x := r.(type) {
		case *ssa.Const:
			if !an.IsIntConst(0)(x) {
				return false, "a walk starts at depth " + x.String() + " instead of 0"
			}
			zero = true
		case *ssa.BinOp:
			var y ssa.Value
			switch {
			case x.Op == token.ADD && an.IsIntConst(1)(x.Y):
				y = x.X
			case x.Op == token.ADD && an.IsIntConst(1)(x.X):
				y = x.Y
			default:
				return false, "a child depth is computed as " + x.String() + " (" + x.Op.String() + "), not parent depth + 1"
			}
			// y must itself be a depth of the same family
			var yr []ssa.Value
			flow(y, map[ssa.Value]bool{}, &yr)
			for _, q := range yr {
				switch q.(type) {
				case *ssa.Const, *ssa.BinOp:
				default:
					return false, "the incremented value derives from " + an.ShowPath(q) + ", which is not a walk depth"
				}
			}
			incs++
		default:
			return false, "the depth derives from " + an.ShowPath(r) + " (neither 0 nor an incremented depth)"
		}
	}
	if !zero {
		return false, "no path gives the root depth 0"
	}
	if incs == 0 {
		return false, "children are never given parent depth + 1 (the increment is missing): depth limits and shortest-distance revisits break"
	}
	return true, ""
}

func c12CheckDepthSet(c *an.Ctx, outer, vis *ssa.Function) {
	name := an.FuncName(vis)
	pc, pd := vis.Params[0], vis.Params[1]
	isDepth := func(v ssa.Value) bool { return an.SameVal(v, pd) }
	isLim := func(v ssa.Value) bool {
		ok, _ := an.AllRoots(v, nil, func(r ssa.Value) bool {
			pr, ok := r.(*ssa.Parameter)
			if !ok || pr.Parent() != outer {
				return false
			}
			b, ok := pr.Type().Underlying().(*types.Basic)
			return ok && b.Kind() == types.Int
		})
		return ok
	}
	var lookups []*ssa.Lookup
	var updates []*ssa.MapUpdate
	an.Instrs(vis, func(in ssa.Instruction) {
		switch x := in.(type) {
		case *ssa.Lookup:
			if x.CommaOk && an.SameVal(x.Index, pc) {
				lookups = append(lookups, x)
			}
		case *ssa.MapUpdate:
			updates = append(updates, x)
		}
	})
	if !c.Need(len(lookups) > 0 && len(updates) > 0, "visit closure: comma-ok lookup set[c] and update set[c]=depth") {
		return
	}
	var olds, oks []ssa.Value
	for _, l := range lookups {
		for _, r := range *l.Referrers() {
			if e, ok := r.(*ssa.Extract); ok {
				if e.Index == 0 {
					olds = append(olds, e)
				} else {
					oks = append(oks, e)
				}
			}
		}
	}
	isOld := func(v ssa.Value) bool {
		for _, o := range olds {
			if v == o {
				return true
			}
		}
		return false
	}
	notSeen := an.BoolEdges(vis, oks, false)
	shallower := an.TokRelEdges(vis, isOld, isDepth, token.GTR)
	limOff := an.TokRelEdges(vis, isLim, an.IsIntConst(0), token.LSS)
	limOn := an.TokRelEdges(vis, isLim, an.IsIntConst(0), token.GEQ)
	within := an.TokRelEdges(vis, isDepth, isLim, token.LEQ)
	var upd []ssa.Instruction
	for _, u := range updates {
		upd = append(upd, u)
		c.Check(an.SameVal(u.Key, pc) && an.SameVal(u.Value, pd) && an.SameVal(u.Map, lookups[0].X), "O4", "R-FLOW", name, "set[c]=depth", u.Pos(),
			"the visited map records the visited CID with the depth it was seen at", "the depth map is updated with a key/value other than (c, depth) of this visit")
		c.Check(an.GuardedBy(vis, nil, u, notSeen.Union(shallower)), "O4", "R-CMP", name, "set[c]=depth<=!ok||oldDepth>depth", u.Pos(),
			"the recorded depth is only replaced by a strictly smaller one (shortest distance)",
			"set[c]=depth is reachable where the CID was already recorded at the same or a smaller depth: the recorded distance is no longer the shortest one (nodes within the limit are pruned, or revisited forever)")
		c.Check(an.GuardedBy(vis, nil, u, limOff.Union(within)), "O4", "R-CMP", name, "set[c]=depth<=depthLim<0||depth<=depthLim", u.Pos(),
			"nothing is recorded/explored beyond the depth limit", "a node deeper than the depth limit can be recorded and explored (the depth > depthLim rejection does not guard the update)")
		c.Check(an.GuardedBy(vis, nil, u, notSeen.Union(limOn)), "O4", "R-CMP", name, "set[c]=depth<=!ok||depthLim>=0", u.Pos(),
			"with unlimited depth a CID is explored once", "with depthLim<0 an already recorded CID can be recorded again: shared subtrees are re-walked")
		for _, in := range an.SortedInstrs(an.ReachSet(vis, u, nil, nil)) {
			if r, ok := in.(*ssa.Return); ok {
				k, isK := an.ConstOf(r.Results[0])
				c.Check(isK && k.String() == "true", "O4", "R-POST", name, "set[c]=depth=>return true", r.Pos(),
					"after recording, the closure returns true (explore)", "the closure records set[c]=depth and then returns false: the node is marked but never explored")
			}
		}
	}
	nT := 0
	for _, r := range an.Returns(vis) {
		if k, isK := an.ConstOf(r.Results[0]); isK && k.String() == "true" {
			nT++
			c.Check(an.MustPrecede(vis, r, upd), "O4", "R-DOM", name, "return true<=set[c]=depth", r.Pos(),
				"returning true is always preceded by recording the CID", "the closure can return true without recording the CID: the node is explored again on every later encounter")
		} else if !isK {
			c.Bad("O4", "R-DOM", name, "return non-constant", r.Pos(), "the visit closure returns a computed value; the record/return coupling cannot be decided")
		}
	}
	c.Min("O4 `return true` sites of the depth-limit visit closure", nT, 1)
}

// c12Flow: field-based backward flow. Struct fields are abstract locations
// (every store to the field anywhere in the function family feeds every load),
// parameters are resolved through the static call sites of their function.
func c12Flow(p *an.Prog, family []*ssa.Function, v ssa.Value, seen map[ssa.Value]bool, roots *[]ssa.Value) {
	fieldStores := func(f *types.Var) []ssa.Value {
		var out []ssa.Value
		for _, g := range family {
			for _, st := range an.FieldStores(g, f) {
				out = append(out, st.Val)
			}
		}
		return out
	}
	for _, r := range an.Roots(v, nil) {
		if seen[r] {
			continue
		}
		seen[r] = true
		switch x := r.(type) {
		case *ssa.UnOp:
			if x.Op == token.MUL {
				if f, _ := an.FieldOf(x.X); f != nil {
					for _, sv := range fieldStores(f) {
						c12Flow(p, family, sv, seen, roots)
					}
					continue
				}
			}
			*roots = append(*roots, r)
		case *ssa.Field:
			f, _ := an.FieldOf(x)
			for _, sv := range fieldStores(f) {
				c12Flow(p, family, sv, seen, roots)
			}
		case *ssa.Parameter:
			callee := x.Parent()
			idx := -1
			for i, pp := range callee.Params {
				if pp == x {
					idx = i
				}
			}
			n := 0
			for _, g := range p.Funcs {
				for _, call := range an.AllCalls(g) {
					if an.Callee(call).Static == callee && idx >= 0 && idx < len(call.Common().Args) {
						n++
						c12Flow(p, family, call.Common().Args[idx], seen, roots)
					}
				}
			}
			if n == 0 {
				*roots = append(*roots, r)
			}
		default:
			*roots = append(*roots, r)
		}
	}
}

// c12FromLink: v is (a conversion of) a load of a field of the link element el.
func c12FromLink(v ssa.Value, el ssa.Value) bool {
	ok, _ := an.AllRoots(v, nil, func(r ssa.Value) bool {
		u, ok := r.(*ssa.UnOp)
		if !ok || u.Op != token.MUL {
			return false
		}
		f, b := an.FieldOf(u.X)
		return f != nil && f.Name() == "Cid" && b == el
	})
	return ok
}

// c12LinksWalked (O7): every link returned by getLinks is handed on — to the
// recursive walk, or as a queue record that is then stored/queued — on every
// path of the loop that iterates over the links. The walker must not decide
// by itself that a link needs no visit: that decision (which depends on the
// depth) belongs to the visit callback.
func c12LinksWalked(c *an.Ctx, p *an.Prog, walkFns map[*ssa.Function]bool, root *ssa.Function, glResults map[ssa.Value]bool) int {
	family := an.WithClosures(root)
	n := 0
	termDone := map[*ssa.Alloc]bool{}
	for _, fn := range family {
		an.Instrs(fn, func(in ssa.Instruction) {
			ia, ok := in.(*ssa.IndexAddr)
			if !ok {
				return
			}
			sl, ok := ia.X.Type().Underlying().(*types.Slice)
			if !ok || !an.TypeIs(sl.Elem(), "github.com/ipfs/go-ipld-format", "Link") {
				return
			}
			var roots []ssa.Value
			c12Flow(p, family, ia.X, map[ssa.Value]bool{}, &roots)
			if len(roots) == 0 {
				return
			}
			for _, r := range roots {
				if !glResults[r] {
					return
				}
			}
			name := an.FuncName(fn)
			n++
			// whole slice, range loop
			whole := true
			for _, r := range an.Roots(ia.X, &an.FlowOpts{StopAt: func(x ssa.Value) bool { _, isSl := x.(*ssa.Slice); return isSl }}) {
				if _, isSl := r.(*ssa.Slice); isSl {
					whole = false
				}
			}
			if !c13IsRangeIndex(ia.Index, ia.X) {
				c.Problem("undecided: %s iterates over the links returned by getLinks with a hand-written index; the every-link-is-walked rule only knows range loops", name)
				return
			}
			c.Check(whole, "O7", "R-POST", name, "range over all links", ia.Pos(), "the loop ranges over the whole link list", "the walk iterates over a sub-slice of the links returned by getLinks: some children are never visited")
			header := ia.Index.(*ssa.BinOp).X.(*ssa.Phi).Block()
			var leave []ssa.Instruction
			leave = append(leave, header.Instrs[0])
			for _, sb := range header.Succs {
				if sb != ia.Block() && !ia.Block().Dominates(sb) && len(sb.Instrs) > 0 && sb != header {
					leave = append(leave, sb.Instrs[0])
				}
			}
			// no early exit: the loop's exit block is entered from the header only
			if len(header.Succs) == 2 {
				done := header.Succs[1]
				early := false
				for _, pb := range done.Preds {
					if pb != header && header.Dominates(pb) {
						early = true
					}
				}
				c.Check(!early, "O7", "R-POST", name, "no early exit from the links loop", ia.Pos(), "the loop over the links ends only when the list is exhausted (or by returning an error)",
					"the loop over the links returned by getLinks can be left early (break): the remaining children are never walked")
			}
			for _, ref := range *ia.Referrers() {
				el, ok := ref.(*ssa.UnOp)
				if !ok || el.Op != token.MUL {
					continue
				}
				consumers := map[ssa.Instruction]bool{}
				var records []*ssa.Alloc
				an.Instrs(fn, func(x ssa.Instruction) {
					switch y := x.(type) {
					case ssa.CallInstruction:
						if g := an.Callee(y).Static; g != nil && walkFns[g] {
							for _, a := range y.Common().Args {
								if c12FromLink(a, el) {
									consumers[x] = true
								}
							}
						}
					case *ssa.Store:
						if fa, ok := y.Addr.(*ssa.FieldAddr); ok && c12FromLink(y.Val, el) {
							if al, ok := fa.X.(*ssa.Alloc); ok {
								consumers[x] = true
								records = append(records, al)
							}
						}
					}
				})
				okAll := len(consumers) > 0
				for _, lv := range leave {
					if an.Reaches(fn, el, lv, nil, consumers) {
						okAll = false
					}
				}
				c.Check(okAll, "O7", "R-POST", name, "every link is handed on", ia.Pos(),
					"each link of a fetched node reaches the recursive walk / the dispatcher queue on every path of the loop body",
					"an iteration over the links returned by getLinks can end (continue/break/filter) without the link's CID being passed to the recursive walk or put into a queue record: the walker itself drops children, so the visit callback is never asked about them (e.g. a node re-reached at a smaller depth is not re-visited, depth limits are no longer measured by shortest distance)")
				for _, rec := range records {
					uses := map[ssa.Instruction]bool{}
					var recStore ssa.Instruction
					for _, rr := range *rec.Referrers() {
						if l, ok := rr.(*ssa.UnOp); ok && l.Op == token.MUL {
							for _, lr := range *l.Referrers() {
								switch z := lr.(type) {
								case *ssa.Store:
									if z.Val == ssa.Value(l) {
										uses[z] = true
									}
								case ssa.CallInstruction:
									uses[z] = true
								case *ssa.Send:
									uses[z] = true
								}
							}
						}
						if fa, ok := rr.(*ssa.FieldAddr); ok {
							for _, fr := range *fa.Referrers() {
								if st, ok := fr.(*ssa.Store); ok && c12FromLink(st.Val, el) {
									recStore = st
								}
							}
						}
					}
					okQ := recStore != nil && len(uses) > 0
					if okQ {
						for _, lv := range leave {
							if an.Reaches(fn, recStore, lv, nil, uses) {
								okQ = false
							}
						}
					}
					// the dispatcher may only report success when nothing is pending:
					// the pending-item cell is undefined and the in-flight counter is 0
					for u := range uses {
						st, ok := u.(*ssa.Store)
						if !ok {
							continue
						}
						pend, ok := st.Addr.(*ssa.Alloc)
						if !ok {
							continue
						}
						if !termDone[pend] {
							termDone[pend] = true
							c12Termination(c, fn, name, pend)
						}
					}
					c.Check(okQ, "O7", "R-POST", name, "every queue record is enqueued", rec.Pos(),
						"a queue record built for a link is stored as next item or pushed to the queue on every path",
						"a queue record built for a link can be discarded (an iteration ends without storing it as the next item or pushing it to the queue): that child is never visited")
				}
			}
		})
	}
	return n
}

// c12IsCounter: v is an int that is counted up and down by 1 around a loop
// (the dispatcher's in-flight counter), possibly already decremented.
func c12IsCounter(v ssa.Value) bool {
	seen := map[ssa.Value]bool{}
	add, sub := false, false
	var walk func(v ssa.Value, d int)
	walk = func(v ssa.Value, d int) {
		if v == nil || seen[v] || d > 16 {
			return
		}
		seen[v] = true
		switch x := v.(type) {
		case *ssa.Phi:
			for _, e := range x.Edges {
				walk(e, d+1)
			}
		case *ssa.BinOp:
			if !an.IsIntConst(1)(x.Y) {
				return
			}
			switch x.Op {
			case token.ADD:
				add = true
			case token.SUB:
				sub = true
			default:
				return
			}
			walk(x.X, d+1)
		}
	}
	if b, ok := v.Type().Underlying().(*types.Basic); !ok || b.Kind() != types.Int {
		return false
	}
	walk(v, 0)
	return add && sub
}

// c12Termination: in the dispatcher fn every success return is guarded by
// "no pending item" (Defined()==false on the pending cell the queue records are
// stored into) and by "nothing in flight" (counter == 0).
func c12Termination(c *an.Ctx, fn *ssa.Function, name string, pend *ssa.Alloc) {
	isPendCid := func(v ssa.Value) bool {
		u, ok := v.(*ssa.UnOp)
		if !ok || u.Op != token.MUL {
			return false
		}
		fa, ok := u.X.(*ssa.FieldAddr)
		return ok && fa.X == ssa.Value(pend) && c12IsCid(u.Type())
	}
	noPending := an.CallEdges(fn, an.M(c12cid, "Cid", "Defined"), -1, isPendCid, false)
	idle := an.TokRelEdges(fn, c12IsCounter, an.IsIntConst(0), token.EQL)
	hasCounter := false
	an.Instrs(fn, func(in ssa.Instruction) {
		if b, ok := in.(*ssa.BinOp); ok && c12IsCounter(b) {
			hasCounter = true
		}
	})
	for _, r := range an.Returns(fn) {
		if len(r.Results) != 1 || !an.IsErrorType(r.Results[0].Type()) {
			continue
		}
		vals := an.ValuesUnder(r.Results[0], an.ReachSet(fn, nil, nil, nil), nil)
		success := len(vals) > 0
		for _, v := range vals {
			if !an.IsNilConst(v) {
				success = false
			}
		}
		if !success {
			continue
		}
		c.Check(an.GuardedBy(fn, nil, r, noPending), "O7", "R-DOM", name, "success<=no pending item", r.Pos(), "the walk only reports success when no item waits to be fed to a worker",
			"the concurrent walk can return nil while an item is still pending (the !next.cid.Defined() test does not guard the success return): queued children are silently never visited")
		if hasCounter {
			c.Check(an.GuardedBy(fn, nil, r, idle), "O7", "R-DOM", name, "success<=nothing in flight", r.Pos(), "the walk only reports success when no fetch is in flight",
				"the concurrent walk can return nil while fetches are still in flight (the in-flight counter == 0 test does not guard the success return): their children are never visited and their errors are lost")
		}
	}
}
