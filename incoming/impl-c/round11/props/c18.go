package props

import (
	"fmt"
	"go/constant"
	"go/token"
	"go/types"
	"math/bits"
	"sort"
	"strings"

	"golang.org/x/tools/go/ssa"

	"verif/checker/an"
)

func init() {
	register("C18", Prop{
		Pkgs: []string{"./ipld/unixfs", "./files", "./ipld/unixfs/pb"},
		Explain: "Decided (structural necessary conditions of 'mode and mtime round-trip; size accessors report content length'): " +
			"O1 bit provenance (abstract evaluation of &,|,<<,>>,&^,+ with constants over the SSA of the pure bit functions): files.ModePermsToUnixPerms maps permission bits 0-8 identically and setuid/setgid/sticky (positions taken from the os constants) to 0o4000/0o2000/0o1000 and nothing else; files.UnixPermsToModePerms is its exact inverse on the 12 bits; FSNode.Mode decodes exactly the low 12 bits of the stored mode; SetModeFromUnixPermissions stores (old & ^0xFFF) | (perms & 0xFFF); ExtendedMode/SetExtendedMode use exactly the upper 20 bits; every store to pb.Data.Mode in the package is nil, proto.Uint32(ModePermsToUnixPerms(m)) or one of those bit mixes, and in every setter the nil (unset) store is reached only where each bit of the combined word that would be stored is covered by an ==0 test (the decision is a function of (old&keep)|(arg&set), not of one operand); SetMode passes ModePermsToUnixPerms(m); " +
			"O2 every mtime encoder (function storing pb.IPFSTimestamp.Seconds/Nanos or a non-nil pb.Data.Mtime) stores Seconds=t.Unix() and Nanos=uint32(t.Nanosecond()) of its time argument, the Nanos store is guarded by Nanosecond()>0 and everything by !t.IsZero(); a re-used timestamp object gets Nanos (re)written on every path; FSNode methods clear Mtime on the IsZero edge; the decoder returns time.Unix(*Seconds, 0) when Nanos is absent and time.Unix(*Seconds, int64(*Nanos)) otherwise, from the same timestamp, or the zero time, and rejects (zero time) only Nanos values outside 1..999999999; " +
			"O3 size() per UnixFS data type (abstract execution per enumerator): File,Raw => GetFilesize(); Symlink => len(GetData()); Directory,HAMTShard,Metadata => error. " +
			"NOT decided: value ranges (seconds overflow), protobuf marshalling itself, the type bits OR-ed into Mode() for directories/symlinks.",
		Assume:    []string{"google.golang.org/protobuf marshals pb.Data faithfully", "time.Unix(sec,nsec) is the inverse of (Unix(),Nanosecond()) for 0<=nsec<1e9"},
		Technique: "abstract bit evaluation over SSA (R-BITS), sibling agreement of encoders (R-SIB), edge dominance (R-DOM), must-follow (R-PAIR), abstract execution per enumerator (R-EXH)",
		Run:       runC18,
	})
}

// ---- bit domain

type c18Bit struct {
	kind byte // '0','1','i' (input bit), 'T' (unknown)
	src  string
	k    int
}

type c18Vec [64]c18Bit

func c18Zero() c18Vec {
	var v c18Vec
	for i := range v {
		v[i] = c18Bit{kind: '0'}
	}
	return v
}

func (b c18Bit) String() string {
	switch b.kind {
	case '0', '1':
		return string(b.kind)
	case 'i':
		return fmt.Sprintf("%s[%d]", b.src, b.k)
	}
	return "?"
}

func c18Width(t types.Type) int {
	if b, ok := t.Underlying().(*types.Basic); ok {
		switch b.Kind() {
		case types.Uint8, types.Int8:
			return 8
		case types.Uint16, types.Int16:
			return 16
		case types.Uint32, types.Int32:
			return 32
		}
	}
	return 64
}

func c18Signed(t types.Type) bool {
	b, ok := t.Underlying().(*types.Basic)
	return ok && b.Info()&types.IsInteger != 0 && b.Info()&types.IsUnsigned == 0
}

// c18Eval evaluates an integer SSA value to a bit vector. Values it cannot
// decompose become named inputs (parameters by name, calls by callee name and
// receiver path), so that two calls of the same getter on the same object are
// the same input.
func c18Eval(v ssa.Value, depth int) c18Vec { return c18EvalEnv(v, depth, nil) }

// c18EvalEnv: env binds parameters of an inlined straight-line helper to the
// vectors of the actual arguments.
func c18EvalEnv(v ssa.Value, depth int, env map[*ssa.Parameter]c18Vec) c18Vec {
	input := func(name string, t types.Type) c18Vec {
		out := c18Zero()
		w := c18Width(t)
		for i := 0; i < w; i++ {
			out[i] = c18Bit{kind: 'i', src: name, k: i}
		}
		return out
	}
	top := func() c18Vec {
		var out c18Vec
		for i := range out {
			out[i] = c18Bit{kind: 'T'}
		}
		return out
	}
	trunc := func(x c18Vec, t types.Type) c18Vec {
		for i := c18Width(t); i < 64; i++ {
			x[i] = c18Bit{kind: '0'}
		}
		return x
	}
	if depth > 40 {
		return top()
	}
	switch x := v.(type) {
	case *ssa.Const:
		out := c18Zero()
		if x.Value == nil || x.Value.Kind() != constant.Int {
			return top()
		}
		u, ok := constant.Uint64Val(x.Value)
		if !ok {
			i, ok2 := constant.Int64Val(x.Value)
			if !ok2 {
				return top()
			}
			u = uint64(i)
		}
		for i := 0; i < 64; i++ {
			if u>>uint(i)&1 == 1 {
				out[i] = c18Bit{kind: '1'}
			}
		}
		return trunc(out, x.Type())
	case *ssa.Parameter:
		if vec, ok := env[x]; ok {
			return trunc(vec, x.Type())
		}
		return input("param:"+x.Name(), x.Type())
	case *ssa.ChangeType:
		return trunc(c18EvalEnv(x.X, depth+1, env), x.Type())
	case *ssa.Convert:
		if c18Signed(x.X.Type()) && c18Width(x.Type()) > c18Width(x.X.Type()) {
			return top()
		}
		return trunc(c18EvalEnv(x.X, depth+1, env), x.Type())
	case *ssa.Call:
		ci := an.Callee(x)
		// a straight-line helper of the module returning one integer is inlined
		if h := x.Common().StaticCallee(); h != nil && len(h.Blocks) == 1 && h.Pkg != nil && strings.HasPrefix(h.Pkg.Pkg.Path(), an.Mod) && depth < 30 {
			if rets := an.Returns(h); len(rets) == 1 && len(rets[0].Results) == 1 {
				if _, isInt := rets[0].Results[0].Type().Underlying().(*types.Basic); isInt {
					nenv := map[*ssa.Parameter]c18Vec{}
					for i, hp := range h.Params {
						if i < len(x.Call.Args) {
							if _, isIntP := hp.Type().Underlying().(*types.Basic); isIntP {
								nenv[hp] = c18EvalEnv(x.Call.Args[i], depth+1, env)
							}
						}
					}
					return trunc(c18EvalEnv(rets[0].Results[0], depth+1, nenv), x.Type())
				}
			}
		}
		name := "call:" + ci.Name
		if r := an.Recv(x); r != nil {
			name += "(" + an.ShowPath(r) + ")"
		} else if ci.Fn == nil {
			return top()
		}
		return input(name, x.Type())
	case *ssa.UnOp:
		if x.Op == token.MUL {
			if al, ok := x.X.(*ssa.Alloc); ok {
				var vals []ssa.Value
				for _, r := range *al.Referrers() {
					if st, ok := r.(*ssa.Store); ok && st.Addr == al {
						vals = append(vals, st.Val)
					}
				}
				if len(vals) == 1 {
					return c18EvalEnv(vals[0], depth+1, env)
				}
			}
			return input("load:"+an.ShowPath(x.X), x.Type())
		}
		if x.Op == token.XOR { // ^x
			in := c18EvalEnv(x.X, depth+1, env)
			for i := 0; i < c18Width(x.Type()); i++ {
				switch in[i].kind {
				case '0':
					in[i] = c18Bit{kind: '1'}
				case '1':
					in[i] = c18Bit{kind: '0'}
				default:
					in[i] = c18Bit{kind: 'T'}
				}
			}
			return in
		}
	case *ssa.Phi:
		var out c18Vec
		for i, e := range x.Edges {
			ev := c18EvalEnv(e, depth+1, env)
			if i == 0 {
				out = ev
				continue
			}
			for k := range out {
				if out[k] != ev[k] {
					out[k] = c18Bit{kind: 'T'}
				}
			}
		}
		return out
	case *ssa.BinOp:
		a, b := c18EvalEnv(x.X, depth+1, env), c18EvalEnv(x.Y, depth+1, env)
		out := c18Zero()
		w := c18Width(x.Type())
		switch x.Op {
		case token.AND:
			for i := 0; i < w; i++ {
				switch {
				case a[i].kind == '0' || b[i].kind == '0':
				case a[i].kind == '1':
					out[i] = b[i]
				case b[i].kind == '1':
					out[i] = a[i]
				case a[i] == b[i]:
					out[i] = a[i]
				default:
					out[i] = c18Bit{kind: 'T'}
				}
			}
			return out
		case token.AND_NOT:
			for i := 0; i < w; i++ {
				switch {
				case a[i].kind == '0' || b[i].kind == '1':
				case b[i].kind == '0':
					out[i] = a[i]
				default:
					out[i] = c18Bit{kind: 'T'}
				}
			}
			return out
		case token.OR, token.XOR, token.ADD:
			for i := 0; i < w; i++ {
				switch {
				case a[i].kind == '0':
					out[i] = b[i]
				case b[i].kind == '0':
					out[i] = a[i]
				case x.Op == token.OR && (a[i].kind == '1' || b[i].kind == '1'):
					out[i] = c18Bit{kind: '1'}
				case x.Op == token.OR && a[i] == b[i]:
					out[i] = a[i]
				default:
					if x.Op == token.ADD { // a carry may disturb every higher bit
						for j := i; j < w; j++ {
							out[j] = c18Bit{kind: 'T'}
						}
						return out
					}
					out[i] = c18Bit{kind: 'T'}
				}
			}
			return out
		case token.SHL, token.SHR:
			k, ok := an.ConstOf(x.Y)
			if !ok {
				return top()
			}
			n64, _ := constant.Int64Val(k)
			n := int(n64)
			if x.Op == token.SHR && c18Signed(x.X.Type()) {
				return top()
			}
			for i := 0; i < w; i++ {
				var from int
				if x.Op == token.SHL {
					from = i - n
				} else {
					from = i + n
				}
				if from >= 0 && from < w {
					out[i] = a[from]
				}
			}
			return out
		}
	}
	if _, isInt := v.Type().Underlying().(*types.Basic); isInt {
		return input("val:"+an.ShowPath(v), v.Type())
	}
	return top()
}

// c18Spec: expected vector as a function of the output bit.
type c18Spec func(k int) c18Bit

// c18Compare returns ("", true) when got matches the spec on every bit;
// undecided=true when a mismatch involves an unknown bit.
func c18Compare(got c18Vec, spec c18Spec, width int) (diff string, undecided bool) {
	for k := 0; k < 64; k++ {
		want := c18Bit{kind: '0'}
		if k < width {
			want = spec(k)
		}
		if got[k] == want {
			continue
		}
		if got[k].kind == 'T' {
			return fmt.Sprintf("bit %d cannot be evaluated", k), true
		}
		return fmt.Sprintf("output bit %d is %s, expected %s", k, got[k], want), false
	}
	return "", false
}

func c18CheckVec(c *an.Ctx, ob, fn, construct string, pos token.Pos, got c18Vec, spec c18Spec, okMsg, badMsg string) {
	diff, und := c18Compare(got, spec, 32)
	if und {
		c.Problem("undecided: %s %s: %s (the bit evaluator does not understand the expression)", fn, construct, diff)
		return
	}
	c.Check(diff == "", ob, "R-BITS", fn, construct, pos, okMsg, badMsg+" ("+diff+")")
}

func c18OsBit(from *types.Package, name string) (int, bool) {
	for _, path := range []string{"io/fs", "os"} {
		if k, ok := c13Const(from, path, name); ok {
			if u, ok := constant.Uint64Val(k); ok && bits.OnesCount64(u) == 1 {
				return bits.TrailingZeros64(u), true
			}
		}
	}
	return 0, false
}

func runC18(c *an.Ctx) {
	p := c.P
	const ux, fl, pbr = "ipld/unixfs", "files", "ipld/unixfs/pb"
	uxp, flp, pbp := p.Pkg(ux), p.Pkg(fl), p.Pkg(pbr)
	if !c.Need(uxp != nil && flp != nil && pbp != nil, "packages ipld/unixfs, files, ipld/unixfs/pb") {
		return
	}
	fMode, fMtime := p.Field(pbr, "Data", "Mode"), p.Field(pbr, "Data", "Mtime")
	fSec, fNanos := p.Field(pbr, "IPFSTimestamp", "Seconds"), p.Field(pbr, "IPFSTimestamp", "Nanos")
	if !c.Need(fMode != nil && fMtime != nil && fSec != nil && fNanos != nil, "pb.Data.Mode, pb.Data.Mtime, pb.IPFSTimestamp.Seconds/Nanos") {
		return
	}

	// ---------------- O1 bits
	m2u, u2m := p.Func(fl, "", "ModePermsToUnixPerms"), p.Func(fl, "", "UnixPermsToModePerms")
	su, ok1 := c18OsBit(flp.Types, "ModeSetuid")
	sg, ok2 := c18OsBit(flp.Types, "ModeSetgid")
	st, ok3 := c18OsBit(flp.Types, "ModeSticky")
	if !c.Need(m2u != nil && u2m != nil && ok1 && ok2 && ok3, "files.ModePermsToUnixPerms, files.UnixPermsToModePerms, os.ModeSetuid/ModeSetgid/ModeSticky") {
		return
	}
	inName := func(fn *ssa.Function, i int) string { return "param:" + fn.Params[i].Name() }
	// forward map
	fwd := map[int]int{9: st, 10: sg, 11: su}
	for i := 0; i < 9; i++ {
		fwd[i] = i
	}
	var m2uVec c18Vec
	for _, r := range an.Returns(m2u) {
		m2uVec = c18Eval(r.Results[0], 0)
		src := inName(m2u, 0)
		c18CheckVec(c, "O1", an.FuncName(m2u), "perm bits 0-8 identical; setuid/setgid/sticky -> 04000/02000/01000", r.Pos(), m2uVec, func(k int) c18Bit {
			if from, ok := fwd[k]; ok {
				return c18Bit{kind: 'i', src: src, k: from}
			}
			return c18Bit{kind: '0'}
		}, "ModePermsToUnixPerms maps the 12 permission bits as specified and produces no other bit",
			"ModePermsToUnixPerms does not map os.FileMode permission bits to unix bits as specified: a mode set through SetMode is stored/read back with different bits")
	}
	c.Min("O1 returns of ModePermsToUnixPerms", len(an.Returns(m2u)), 1)
	// inverse
	nInv := 0
	for _, r := range an.Returns(u2m) {
		if k, ok := an.ConstOf(r.Results[0]); ok {
			// constant return: must be 0 on the perms==0 edge (consistent with a linear bit map)
			isP := func(v ssa.Value) bool { return v == ssa.Value(u2m.Params[0]) }
			zero := an.TokRelEdges(u2m, isP, an.IsIntConst(0), token.EQL)
			c.Check(constant.Sign(k) == 0 && an.GuardedBy(u2m, nil, r, zero), "O1", "R-BITS", an.FuncName(u2m), "return 0 <= perms==0", r.Pos(),
				"the constant return is 0 and only taken for perms==0", "UnixPermsToModePerms returns a constant for non-zero permissions")
			continue
		}
		nInv++
		got := c18Eval(r.Results[0], 0)
		src := inName(u2m, 0)
		inv := map[int]int{}
		for out, from := range fwd {
			inv[from] = out
		}
		c18CheckVec(c, "O1", an.FuncName(u2m), "inverse of ModePermsToUnixPerms on 12 bits", r.Pos(), got, func(k int) c18Bit {
			if from, ok := inv[k]; ok {
				return c18Bit{kind: 'i', src: src, k: from}
			}
			return c18Bit{kind: '0'}
		}, "UnixPermsToModePerms is the exact inverse bit map", "UnixPermsToModePerms is not the inverse of ModePermsToUnixPerms: Mode() after SetMode(m) differs from m's permission bits")
	}
	c.Min("O1 computed returns of UnixPermsToModePerms", nInv, 1)

	// FSNode.Mode: decodes exactly the low 12 bits
	nDecode := 0
	for _, fn := range p.PkgFuncs(ux) {
		calls := an.Calls(fn, an.M(fl, "", "UnixPermsToModePerms"))
		for _, call := range calls {
			nDecode++
			got := c18Eval(an.Args(call)[0], 0)
			src := ""
			for k := 0; k < 12; k++ {
				if got[k].kind == 'i' {
					src = got[k].src
				}
			}
			c18CheckVec(c, "O1", an.FuncName(fn), "decodes stored mode & 0xFFF", call.Pos(), got, func(k int) c18Bit {
				if k < 12 {
					return c18Bit{kind: 'i', src: src, k: k}
				}
				return c18Bit{kind: '0'}
			}, "Mode() decodes exactly bits 0-11 of the stored mode", "Mode() does not decode exactly the low 12 bits of the stored mode")
			c.Check(len(src) > 13 && src[:13] == "call:GetMode(", "O1", "R-FLOW", an.FuncName(fn), "mode source is format.GetMode()", call.Pos(), "the decoded value is the stored pb mode", "Mode() decodes something other than the stored pb.Data mode ("+src+")")
		}
	}
	c.Min("O1 UnixPermsToModePerms calls in package unixfs (mode decoders)", nDecode, 1)
	// a mode value that is only used where some expression E is non-zero must not be
	// wider than E: every input bit of the value has to occur in E, otherwise a mode
	// whose only set bits are outside E (setuid/setgid/sticky) is silently dropped
	for _, fn := range p.PkgFuncs(ux) {
		var sites []struct {
			at  ssa.Instruction
			val ssa.Value
		}
		for _, call := range an.Calls(fn, an.M(fl, "", "UnixPermsToModePerms"), an.M(fl, "", "ModePermsToUnixPerms")) {
			sites = append(sites, struct {
				at  ssa.Instruction
				val ssa.Value
			}{call, an.Args(call)[0]})
		}
		for _, site := range sites {
			vec := c18Eval(site.val, 0)
			for _, b := range fn.Blocks {
				ifi, ok := b.Instrs[len(b.Instrs)-1].(*ssa.If)
				if !ok {
					continue
				}
				bo, ok := ifi.Cond.(*ssa.BinOp)
				if !ok || (bo.Op != token.NEQ && bo.Op != token.EQL) {
					continue
				}
				var e ssa.Value
				switch {
				case an.IsIntConst(0)(bo.Y):
					e = bo.X
				case an.IsIntConst(0)(bo.X):
					e = bo.Y
				default:
					continue
				}
				if _, isInt := e.Type().Underlying().(*types.Basic); !isInt {
					continue
				}
				nz := 0
				if bo.Op == token.EQL {
					nz = 1
				}
				if !an.GuardedBy(fn, nil, site.at, an.EdgeSet{an.Edge{From: b, Succ: nz}: true}) {
					continue // this test does not guard the use
				}
				ev := c18Eval(e, 0)
				has := map[c18Bit]bool{}
				for k := 0; k < 64; k++ {
					has[ev[k]] = true
				}
				missing := ""
				for k := 0; k < 32; k++ {
					if vec[k].kind == 'i' && !has[vec[k]] {
						missing = vec[k].String()
						break
					}
				}
				c.Check(missing == "", "O1", "R-BITS", an.FuncName(fn), "mode used only where a test covering all its bits is non-zero", site.at.Pos(),
					"the non-zero guard in front of the mode conversion covers every bit of the converted value",
					"a mode is converted/stored only where a narrower expression is non-zero (bit "+missing+" of the value is not part of the tested expression): modes whose only set bits are setuid/setgid/sticky are treated as unset")
			}
		}
	}
	// stores to pb.Data.Mode anywhere in the loaded packages. The stored word is
	// classified by its evaluated bit vector (not by the name of the function):
	//   perm-mix: bits 0-11 from one new input, bits 12-31 from the old GetMode()
	//   ext-mix : bits 0-11 from the old GetMode(), bits 12-31 = new input << 12
	// a helper that merely stores its integer parameter is judged at its call sites.
	isGet := func(src string) bool { return strings.HasPrefix(src, "call:GetMode(") }
	classify := func(v c18Vec) (kind, why string, undecided bool) {
		for k := 0; k < 32; k++ {
			if v[k].kind == 'T' {
				return "", fmt.Sprintf("bit %d cannot be evaluated", k), true
			}
		}
		lowSrc, highSrc := v[0].src, v[12].src
		lowOK, highSame, highShift := v[0].kind == 'i', v[12].kind == 'i', v[12].kind == 'i'
		for k := 0; k < 12; k++ {
			if v[k].kind != 'i' || v[k].src != lowSrc || v[k].k != k {
				lowOK = false
				why = fmt.Sprintf("output bit %d is %s", k, v[k])
			}
		}
		for k := 12; k < 32; k++ {
			if v[k].kind != 'i' || v[k].src != highSrc || v[k].k != k {
				highSame = false
			}
			if v[k].kind != 'i' || v[k].src != highSrc || v[k].k != k-12 {
				highShift = false
			}
			if !highSame && !highShift && why == "" {
				why = fmt.Sprintf("output bit %d is %s", k, v[k])
			}
		}
		switch {
		case lowOK && highSame && lowSrc == highSrc && !isGet(lowSrc):
			return "passthrough " + lowSrc, "", false
		case lowOK && highSame && isGet(highSrc) && !isGet(lowSrc):
			return "perm-mix", "", false
		case lowOK && highShift && isGet(lowSrc) && !isGet(highSrc):
			return "ext-mix", "", false
		}
		if why == "" {
			why = "permission bits and extended bits do not come from (new input, old GetMode()) as specified"
		}
		return "", why, false
	}
	var judge func(fn *ssa.Function, val ssa.Value, pos token.Pos, depth int)
	judge = func(fn *ssa.Function, val ssa.Value, pos token.Pos, depth int) {
		name := an.FuncName(fn)
		kind, why, und := classify(c18Eval(val, 0))
		switch {
		case und:
			c.Problem("undecided: %s stores a pb.Data.Mode word the bit evaluator cannot evaluate (%s)", name, why)
		case strings.HasPrefix(kind, "passthrough param:") && depth > 0:
			// the word is the function's own parameter: judge the actual arguments
			var pr *ssa.Parameter
			for _, q := range fn.Params {
				if "passthrough param:"+q.Name() == kind {
					pr = q
				}
			}
			obj := fn.Object()
			n := 0
			if pr != nil && obj != nil && !obj.Exported() {
				idx := 0
				for i, q := range fn.Params {
					if q == pr {
						idx = i
					}
				}
				for _, g := range p.Funcs {
					for _, call := range an.AllCalls(g) {
						if an.Callee(call).Static == fn && idx < len(call.Common().Args) {
							n++
							judge(g, call.Common().Args[idx], call.Pos(), depth-1)
						}
					}
				}
			}
			if n == 0 {
				c.Bad("O1", "R-BITS", name, "pb.Data.Mode=bit mix", pos, "pb.Data.Mode is stored from a raw parameter of a function whose callers cannot be enumerated: the permission/extended bit groups are not kept apart")
			}
		case kind == "perm-mix" || kind == "ext-mix":
			c.OK("O1", "R-BITS", name, "pb.Data.Mode="+kind, pos, "the stored mode keeps the other bit group of the old mode and takes the new bits from the argument")
		default:
			c.Bad("O1", "R-BITS", name, "pb.Data.Mode=bit mix", pos, "the mode word is not assembled as specified: permission bits and extended bits overwrite or leak into each other ("+why+")")
		}
	}
	nModeStores := 0
	for _, fn := range p.Funcs {
		for _, stv := range an.FieldStores(fn, fMode) {
			nModeStores++
			name := an.FuncName(fn)
			if an.IsNilConst(stv.Val) {
				c.OK("O1", "R-SIB", name, "pb.Data.Mode=nil", stv.Pos(), "mode cleared")
				continue
			}
			if pc, ok := an.IsCallTo(stv.Val, an.M("google.golang.org/protobuf/proto", "", "Uint32")); ok {
				if _, okM := an.IsCallTo(an.Args(pc)[0], an.M(fl, "", "ModePermsToUnixPerms")); okM {
					c.OK("O1", "R-SIB", name, "pb.Data.Mode=Uint32(ModePermsToUnixPerms(m))", stv.Pos(), "the stored mode is ModePermsToUnixPerms(mode)")
				} else if kind, _, _ := classify(c18Eval(an.Args(pc)[0], 0)); kind == "perm-mix" || kind == "ext-mix" {
					c.OK("O1", "R-BITS", name, "pb.Data.Mode="+kind, stv.Pos(), "a verified bit mix")
				} else {
					c.Bad("O1", "R-SIB", name, "pb.Data.Mode=Uint32(ModePermsToUnixPerms(m))", stv.Pos(),
						"a pb.Data.Mode is stored that was not converted with files.ModePermsToUnixPerms: Mode() (which decodes with UnixPermsToModePerms) returns different bits")
				}
				continue
			}
			al, isCell := stv.Val.(*ssa.Alloc)
			if !isCell {
				c.Bad("O1", "R-SIB", name, "pb.Data.Mode=?", stv.Pos(), "pb.Data.Mode is stored from a value that is neither nil, proto.Uint32(ModePermsToUnixPerms(m)) nor a bit mix in a local: "+an.ShowPath(stv.Val))
				continue
			}
			for _, r := range *al.Referrers() {
				if cs, ok := r.(*ssa.Store); ok && cs.Addr == al {
					judge(fn, cs.Val, cs.Pos(), 2)
				}
			}
		}
	}
	c.Min("O1 stores to pb.Data.Mode", nModeStores, 1)
	// the "unset" decision of every setter of the mode word: Mode = nil only
	// where the whole combined word that would be stored is known to be zero.
	// The combined word W is the value of the local that the same function stores
	// (perm-mix, ext-mix, or a passed-through parameter); a nil store must, for
	// every bit of W, be guarded by the ==0 edge of a test on an expression that
	// contains that bit.
	nUnset := 0
	for _, fn := range p.Funcs {
		var nilStores []*ssa.Store
		var words []ssa.Value
		for _, stv := range an.FieldStores(fn, fMode) {
			if an.IsNilConst(stv.Val) {
				nilStores = append(nilStores, stv)
				continue
			}
			if al, ok := stv.Val.(*ssa.Alloc); ok {
				for _, r := range *al.Referrers() {
					if cs, ok := r.(*ssa.Store); ok && cs.Addr == al {
						words = append(words, cs.Val)
					}
				}
			}
		}
		if len(nilStores) == 0 || len(words) == 0 {
			continue
		}
		name := an.FuncName(fn)
		// zero-test edges per input bit
		zeroEdges := func(want c18Bit) an.EdgeSet {
			return an.CondEdges(fn, func(atom ssa.Value) (bool, bool) {
				bo, ok := atom.(*ssa.BinOp)
				if !ok || (bo.Op != token.EQL && bo.Op != token.NEQ) {
					return false, false
				}
				var e ssa.Value
				switch {
				case an.IsIntConst(0)(bo.Y):
					e = bo.X
				case an.IsIntConst(0)(bo.X):
					e = bo.Y
				default:
					return false, false
				}
				if _, isInt := e.Type().Underlying().(*types.Basic); !isInt {
					return false, false
				}
				vec := c18Eval(e, 0)
				has := false
				for k := 0; k < 64; k++ {
					if vec[k] == want {
						has = true
					}
				}
				if !has {
					return false, false
				}
				return bo.Op == token.EQL, bo.Op == token.NEQ
			})
		}
		for _, ns := range nilStores {
			for _, w := range words {
				nUnset++
				wv := c18Eval(w, 0)
				missing := ""
				und := false
				for k := 0; k < 32; k++ {
					switch wv[k].kind {
					case '0':
					case 'i':
						if !an.GuardedBy(fn, nil, ns, zeroEdges(wv[k])) && missing == "" {
							missing = fmt.Sprintf("bit %d of the combined word (%s) is not known to be 0", k, wv[k])
						}
					case '1':
						missing = fmt.Sprintf("bit %d of the combined word is always 1", k)
					default:
						und = true
					}
				}
				if und {
					c.Problem("undecided: %s clears pb.Data.Mode but its combined mode word cannot be evaluated", name)
					continue
				}
				c.Check(missing == "", "O1", "R-BITS", name, "pb.Data.Mode=nil<=combined word==0", ns.Pos(),
					"the stored mode is only cleared where the whole combined word (kept bits | new bits) is zero",
					"pb.Data.Mode is set to nil although the combined mode word may be non-zero ("+missing+"): the decision tests one operand instead of (old & keepMask) | (arg & setMask), so clearing one bit group wipes the other (e.g. SetExtendedMode(0) drops the permission bits)")
			}
		}
	}
	c.Min("O1 mode setters with an unset (nil) decision", nUnset, 1)
	if fn := p.Func(ux, "FSNode", "ExtendedMode"); c.Need(fn != nil, "FSNode.ExtendedMode") {
		for _, r := range an.Returns(fn) {
			got := c18Eval(r.Results[0], 0)
			src := got[0].src
			c18CheckVec(c, "O1", an.FuncName(fn), "returns stored mode >> 12", r.Pos(), got, func(k int) c18Bit {
				if k < 20 {
					return c18Bit{kind: 'i', src: src, k: k + 12}
				}
				return c18Bit{kind: '0'}
			}, "ExtendedMode returns bits 12-31 of the stored mode", "ExtendedMode does not return exactly bits 12-31 of the stored mode")
		}
	}
	if fn := p.Func(ux, "FSNode", "SetMode"); c.Need(fn != nil, "FSNode.SetMode") {
		calls := an.Calls(fn, an.M(ux, "FSNode", "SetModeFromUnixPermissions"))
		okS := len(calls) > 0
		for _, call := range calls {
			mc, ok := an.IsCallTo(an.Args(call)[0], an.M(fl, "", "ModePermsToUnixPerms"))
			if !ok || !an.SameVal(an.Args(mc)[0], fn.Params[1]) {
				okS = false
			}
		}
		c.Check(okS, "O1", "R-FLOW", an.FuncName(fn), "SetModeFromUnixPermissions(ModePermsToUnixPerms(m))", fn.Pos(), "SetMode converts its os.FileMode with ModePermsToUnixPerms", "SetMode does not store ModePermsToUnixPerms(m) of its argument")
	}

	// ---------------- O2 mtime
	c18Mtime(c, fMtime, fSec, fNanos)

	// ---------------- O3 size()
	c18Size(c, pbp.Types)
}

// c18Pointee: the value(s) a freshly made pointer points to: proto.Int64(x) /
// proto.Uint32(x) => x; new(T) cell => its stored values.
func c18Pointee(v ssa.Value) []ssa.Value {
	var out []ssa.Value
	for _, r := range an.RootsX(v, nil) {
		switch x := r.(type) {
		case *ssa.Call:
			ci := an.Callee(x)
			if ci.Pkg == "google.golang.org/protobuf/proto" && len(x.Call.Args) == 1 {
				out = append(out, x.Call.Args[0])
				continue
			}
			return nil
		case *ssa.Alloc:
			n := 0
			for _, ref := range *x.Referrers() {
				if st, ok := ref.(*ssa.Store); ok && st.Addr == x {
					out = append(out, st.Val)
					n++
				}
			}
			if n == 0 {
				return nil
			}
		case *ssa.FieldAddr:
			// &local.f : pointer to a field of a local struct carrying the value
			cell, isCell := x.X.(*ssa.Alloc)
			if !isCell {
				return nil
			}
			vals, whole := an.LocalFieldStores(cell, x.Field)
			if whole || len(vals) == 0 {
				return nil
			}
			out = append(out, vals...)
		default:
			return nil
		}
	}
	return out
}

func c18IsTime(t types.Type) bool { return an.TypeIs(t, "time", "Time") }

func c18Mtime(c *an.Ctx, fMtime, fSec, fNanos *types.Var) {
	p := c.P
	nEnc := 0
	for _, fn := range p.Funcs {
		secStores, nanoStores, mtStores := an.FieldStores(fn, fSec), an.FieldStores(fn, fNanos), an.FieldStores(fn, fMtime)
		nonNilMt := 0
		for _, s := range mtStores {
			if !an.IsNilConst(s.Val) {
				nonNilMt++
			}
		}
		if len(secStores)+len(nanoStores)+nonNilMt == 0 {
			continue
		}
		name := an.FuncName(fn)
		// the time being encoded: the function's time.Time parameter, or — when the
		// time travels inside a struct (parameter or local) — the one value on which
		// Unix()/Nanosecond()/IsZero() are called
		var tp *ssa.Parameter
		var tv ssa.Value
		nT := 0
		for _, pr := range fn.Params {
			if c18IsTime(pr.Type()) {
				tp = pr
				nT++
			}
		}
		if nT == 1 {
			tv = tp
		} else {
			tp = nil
			nT = 0
			for _, call := range an.Calls(fn, an.M("time", "Time", "Unix"), an.M("time", "Time", "Nanosecond"), an.M("time", "Time", "IsZero")) {
				r := an.Recv(call)
				if r == nil {
					continue
				}
				if tv == nil {
					tv, nT = r, 1
				} else if !an.SameVal(tv, r) {
					nT = 2
				}
			}
		}
		if nT != 1 {
			c.Problem("undecided: %s writes a UnixFS mtime from %d distinct time values; the encoder rule needs exactly one", name, nT)
			continue
		}
		nEnc++
		isT := func(v ssa.Value) bool { return an.SameVal(v, tv) }
		notZero := an.CallEdges(fn, an.M("time", "Time", "IsZero"), -1, isT, false)
		// a conversion helper (unexported, only called statically) may rely on its
		// callers: the !IsZero guard then has to hold at every call site for the
		// actual time argument
		callersGuard := tp != nil && c18CallersGuardNotZero(p, fn, tp)
		guardedNZ := func(site ssa.Instruction) bool {
			return an.GuardedBy(fn, nil, site, notZero) || callersGuard
		}
		isZero := an.CallEdges(fn, an.M("time", "Time", "IsZero"), -1, isT, true)
		isNano := func(v ssa.Value) bool {
			ok, _ := an.AllRootsX(v, nil, func(r ssa.Value) bool {
				nc, ok := an.IsCallTo(r, an.M("time", "Time", "Nanosecond"))
				return ok && isT(an.Recv(nc))
			})
			return ok
		}
		nanoPos := an.TokRelEdges(fn, isNano, an.IsIntConst(0), token.GTR)
		for _, s := range secStores {
			pv := c18Pointee(s.Val)
			okV := len(pv) > 0
			for _, x := range pv {
				uc, ok := an.IsCallTo(x, an.M("time", "Time", "Unix"))
				if !ok || !isT(an.Recv(uc)) {
					okV = false
				}
			}
			c.Check(okV, "O2", "R-SIB", name, "Seconds=t.Unix()", s.Pos(), "Seconds is the Unix() seconds of the time argument", "IPFSTimestamp.Seconds is not stored from t.Unix() of the function's time argument: ModTime() returns another instant")
			c.Check(guardedNZ(s), "O2", "R-DOM", name, "Seconds<=!t.IsZero()", s.Pos(), "written only for a set time", "Seconds is written although t.IsZero(): an unset time is stored as an instant (year 1) instead of staying unset")
			_, base := an.FieldOf(s.Addr)
			if !an.IsFresh(base) {
				ok, _ := an.MustFollow(fn, s, an.AsInstrs(nanoStores))
				c.Check(ok, "O2", "R-PAIR", name, "Seconds=>Nanos rewritten", s.Pos(), "a re-used timestamp gets its Nanos rewritten (value or nil) on every path",
					"Seconds is overwritten on an existing timestamp object without (re)writing Nanos on some path: the nanoseconds of the previous time survive")
			}
		}
		for _, s := range nanoStores {
			if an.IsNilConst(s.Val) {
				c.OK("O2", "R-SIB", name, "Nanos=nil", s.Pos(), "nanoseconds cleared")
				continue
			}
			pv := c18Pointee(s.Val)
			okV := len(pv) > 0
			for _, x := range pv {
				if !isNano(x) {
					okV = false
				}
			}
			c.Check(okV, "O2", "R-SIB", name, "Nanos=uint32(t.Nanosecond())", s.Pos(), "Nanos is the Nanosecond() of the time argument", "IPFSTimestamp.Nanos is not stored from t.Nanosecond() of the function's time argument")
			c.Check(len(nanoPos) > 0 && an.GuardedBy(fn, nil, s, nanoPos), "O2", "R-DOM", name, "Nanos<=Nanosecond()>0", s.Pos(), "Nanos is only written when > 0",
				"Nanos can be written as 0: the decoder treats a present Nanos < 1 as invalid and returns the zero time, so whole-second mtimes do not round-trip")
			c.Check(guardedNZ(s), "O2", "R-DOM", name, "Nanos<=!t.IsZero()", s.Pos(), "written only for a set time", "Nanos is written although t.IsZero()")
		}
		for _, s := range mtStores {
			if an.IsNilConst(s.Val) {
				continue
			}
			c.Check(guardedNZ(s), "O2", "R-DOM", name, "Mtime=&ts<=!t.IsZero()", s.Pos(), "a timestamp is attached only for a set time", "a non-nil pb.Data.Mtime is stored although t.IsZero(): unset stays not unset")
		}
		if len(secStores) > 0 {
			// a set time is always written: no return is reachable on the !IsZero
			// side without a Seconds store (no fast path that keeps the old time)
			blockedS := map[ssa.Instruction]bool{}
			for _, s := range secStores {
				blockedS[s] = true
			}
			r := an.ReachesAnyReturn(fn, nil, isZero, blockedS)
			c.Check(r == nil, "O2", "R-POST", name, "!t.IsZero()=>Seconds written", fn.Pos(), "for a set time every path writes Seconds",
				"with a non-zero time the function can return without writing Seconds (an early return / fast path in front of the store): the stored mtime is not the one that was set")
		}
		if fn.Signature.Recv() != nil {
			// method on a live node: the zero time must clear the field
			blocked := map[ssa.Instruction]bool{}
			for _, s := range mtStores {
				if an.IsNilConst(s.Val) {
					blocked[s] = true
				}
			}
			r := an.ReachesAnyReturn(fn, nil, notZero, blocked)
			c.Check(len(isZero) > 0 && r == nil, "O2", "R-POST", name, "t.IsZero()=>Mtime=nil", fn.Pos(), "setting the zero time clears the stored timestamp",
				"with t.IsZero() the method can return without storing Mtime=nil: the previous mtime survives although the caller asked for 'unset'")
		}
	}
	c.Min("O2 mtime encoders", nEnc, 1)

	// decoder(s): functions calling time.Unix on a loaded Seconds field
	nDec := 0
	for _, fn := range p.Funcs {
		var ucalls []*ssa.Call
		for _, call := range an.Calls(fn, an.M("time", "-", "Unix")) {
			if cv := an.CallValue(call); cv != nil {
				ucalls = append(ucalls, cv)
			}
		}
		if len(ucalls) == 0 || len(an.FieldAddrs(fn, fSec)) == 0 {
			continue
		}
		name := an.FuncName(fn)
		// *ts.Seconds / *ts.Nanos of which timestamp
		derefOf := func(v ssa.Value, fld *types.Var) ssa.Value {
			for {
				switch x := v.(type) {
				case *ssa.Convert:
					v = x.X
					continue
				case *ssa.ChangeType:
					v = x.X
					continue
				}
				break
			}
			u, ok := v.(*ssa.UnOp)
			if !ok || u.Op != token.MUL {
				return nil
			}
			u2, ok := u.X.(*ssa.UnOp)
			if !ok || u2.Op != token.MUL {
				return nil
			}
			f, base := an.FieldOf(u2.X)
			if f != fld {
				return nil
			}
			return base
		}
		var nanoLoads []ssa.Value
		for _, l := range an.FieldReads(fn, fNanos) {
			nanoLoads = append(nanoLoads, l)
		}
		nanosNil := an.NilEdges(fn, nanoLoads, true)
		sawNoNanos := false
		for _, uc := range ucalls {
			nDec++
			ts := derefOf(uc.Call.Args[0], fSec)
			okSec := ts != nil
			okN := false
			if an.IsIntConst(0)(uc.Call.Args[1]) {
				okN = an.GuardedBy(fn, nil, uc, nanosNil)
				if okN {
					sawNoNanos = true
				}
			} else if nb := derefOf(uc.Call.Args[1], fNanos); nb != nil && ts != nil && an.SameVal(nb, ts) {
				okN = true
			}
			c.Check(okSec, "O2", "R-FLOW", name, "time.Unix(*ts.Seconds,...)", uc.Pos(), "the decoded seconds are the stored Seconds", "ModTime builds the time from something other than the stored Seconds field")
			c.Check(okN, "O2", "R-FLOW", name, "time.Unix(..., 0 | int64(*ts.Nanos))", uc.Pos(), "the decoded nanoseconds are the stored Nanos of the same timestamp (0 only where Nanos is absent)",
				"ModTime builds the time with nanoseconds that are neither the stored Nanos of the same timestamp nor 0-when-absent: sub-second mtimes do not round-trip")
		}
		// range test on the stored nanoseconds: only values outside 1..999999999
		// (which no encoder produces) may be rejected
		isNanosVal := func(v ssa.Value) bool { return derefOf(v, fNanos) != nil }
		for _, b := range fn.Blocks {
			ifi, ok := b.Instrs[len(b.Instrs)-1].(*ssa.If)
			if !ok {
				continue
			}
			bo, ok := ifi.Cond.(*ssa.BinOp)
			if !ok {
				continue
			}
			var kv ssa.Value
			op := bo.Op
			switch {
			case isNanosVal(bo.X):
				kv = bo.Y
			case isNanosVal(bo.Y):
				kv = bo.X
				switch op {
				case token.LSS:
					op = token.GTR
				case token.LEQ:
					op = token.GEQ
				case token.GTR:
					op = token.LSS
				case token.GEQ:
					op = token.LEQ
				}
			default:
				continue
			}
			kc, isK := an.ConstOf(kv)
			if !isK || kc.Kind() != constant.Int {
				continue
			}
			k, _ := constant.Int64Val(kc)
			for si, want := range []token.Token{op, c18NegRel(op)} {
				tb := b.Succs[si]
				ret, isRet := tb.Instrs[len(tb.Instrs)-1].(*ssa.Return)
				if !isRet || len(ret.Results) != 1 {
					continue
				}
				if zk, isZ := ret.Results[0].(*ssa.Const); !isZ || zk.Value != nil {
					continue
				}
				// on this edge `nanos want k` holds and the zero time is returned
				hits := false
				switch want {
				case token.LSS:
					hits = k > 1
				case token.LEQ:
					hits = k >= 1
				case token.GTR:
					hits = k < 999999999
				case token.GEQ:
					hits = k <= 999999999
				case token.EQL:
					hits = k >= 1 && k <= 999999999
				case token.NEQ:
					hits = true
				}
				c.Check(!hits, "O2", "R-CMP", name, "Nanos range rejection "+want.String()+" "+kc.String(), bo.Pos(), "only nanosecond values outside 1..999999999 decode as the zero time",
					"the decoder returns the zero time for stored Nanos "+want.String()+" "+kc.String()+", which includes values in 1..999999999 that the encoders write: those mtimes do not round-trip")
			}
		}
		c.Check(sawNoNanos, "O2", "R-TABLE", name, "Nanos absent => time.Unix(sec,0)", fn.Pos(), "an absent Nanos decodes as whole seconds (the encoders omit Nanos when it is 0)",
			"the decoder has no time.Unix(sec, 0) return for an absent Nanos although every encoder omits Nanos when it is 0: whole-second mtimes are lost")
		for _, r := range an.Returns(fn) {
			if len(r.Results) != 1 || !c18IsTime(r.Results[0].Type()) {
				continue
			}
			ok, _ := an.AllRootsX(r.Results[0], nil, func(x ssa.Value) bool {
				if k, isK := x.(*ssa.Const); isK && k.Value == nil {
					return true // time.Time{}
				}
				for _, uc := range ucalls {
					if x == ssa.Value(uc) {
						return true
					}
				}
				return false
			})
			c.Check(ok, "O2", "R-FLOW", name, "return zero|time.Unix(...)", r.Pos(), "the result is the zero time or built by time.Unix from the stored fields", "ModTime returns a time that is neither the zero time nor time.Unix(stored fields)")
		}
	}
	c.Min("O2 time.Unix decoding calls", nDec, 1)
}

func c18Size(c *an.Ctx, pbt *types.Package) {
	p := c.P
	const ux, pbr = "ipld/unixfs", "ipld/unixfs/pb"
	dt := pbt.Scope().Lookup("Data_DataType")
	if !c.Need(dt != nil, "pb.Data_DataType") {
		return
	}
	var names []string
	for _, n := range pbt.Scope().Names() {
		if k, ok := pbt.Scope().Lookup(n).(*types.Const); ok && types.Identical(k.Type(), dt.Type()) {
			names = append(names, n)
		}
	}
	sort.Strings(names)
	want := map[string]string{"Data_File": "filesize", "Data_Raw": "filesize", "Data_Symlink": "len(data)"}
	// the size function(s): (…) (uint64, error) dispatching on a pb.Data_DataType value
	n := 0
	sizers := map[*ssa.Function]bool{}
	isSubj := func(v ssa.Value) bool { return types.Identical(v.Type(), dt.Type()) }
	for _, fn := range p.PkgFuncs(ux) {
		rs := fn.Signature.Results()
		if rs.Len() != 2 || !an.IsErrorType(rs.At(1).Type()) {
			continue
		}
		if b, ok := rs.At(0).Type().Underlying().(*types.Basic); !ok || b.Kind() != types.Uint64 {
			continue
		}
		if len(an.InfeasibleUnderV(fn, isSubj, constant.MakeInt64(0))) == 0 {
			continue
		}
		sizers[fn] = true
		name := an.FuncName(fn)
		var from ssa.Instruction
		for _, call := range an.AllCalls(fn) {
			if cv := an.CallValue(call); cv != nil && isSubj(cv) {
				from = cv
			}
		}
		for _, dn := range names {
			k := pbt.Scope().Lookup(dn).(*types.Const)
			cut := an.InfeasibleUnderV(fn, isSubj, k.Val())
			reach := an.ReachSet(fn, from, cut, nil)
			for _, in := range an.SortedInstrs(reach) {
				r, ok := in.(*ssa.Return)
				if !ok || len(r.Results) != 2 {
					continue
				}
				n++
				errNil := true
				for _, ev := range an.ValuesUnder(r.Results[1], reach, cut) {
					if !an.IsNilConst(ev) {
						errNil = false
					}
				}
				kind := "other"
				vals := an.ValuesUnder(r.Results[0], reach, cut)
				if len(vals) == 1 {
					v := vals[0]
					if cv, ok := v.(*ssa.Convert); ok {
						v = cv.X
					}
					if call, ok := v.(*ssa.Call); ok {
						ci := an.Callee(call)
						switch {
						case ci.Name == "GetFilesize" && ci.Recv == "Data":
							kind = "filesize"
						case ci.Builtin == "len":
							if _, ok := an.IsCallTo(call.Call.Args[0], an.M(pbr, "Data", "GetData")); ok {
								kind = "len(data)"
							}
						}
					}
				}
				w := want[dn]
				if w == "" {
					c.Check(!errNil, "O3", "R-EXH", name, "size(pb."+dn+")=error", r.Pos(), "no content size for pb."+dn, "size() reports a content size without error for pb."+dn+", which has none")
				} else {
					c.Check(errNil && kind == w, "O3", "R-EXH", name, "size(pb."+dn+")="+w, r.Pos(), "size of pb."+dn+" is "+w,
						fmt.Sprintf("size() for pb.%s returns %s (err==nil: %v), expected %s: FileSize()/DataSize() do not report the content length", dn, kind, errNil, w))
				}
			}
		}
	}
	c.Min("O3 size() rows", n, 1)
	// functions that merely forward a sizer's results count as sizers too
	for changed := true; changed; {
		changed = false
		for _, fn := range p.PkgFuncs(ux) {
			if sizers[fn] || fn.Signature.Results().Len() != 2 {
				continue
			}
			rets := an.Returns(fn)
			all := len(rets) > 0
			for _, r := range rets {
				e, isE := r.Results[0].(*ssa.Extract)
				if !isE || e.Index != 0 {
					all = false
					break
				}
				sc, ok := e.Tuple.(*ssa.Call)
				if !ok || sc.Common().StaticCallee() == nil || !sizers[sc.Common().StaticCallee()] {
					all = false
					break
				}
			}
			if all {
				sizers[fn] = true
				changed = true
			}
		}
	}
	if fs := p.Func(ux, "FSNode", "FileSize"); c.Need(fs != nil, "FSNode.FileSize") {
		okF := false
		for _, r := range an.Returns(fs) {
			if e, isE := r.Results[0].(*ssa.Extract); isE && e.Index == 0 {
				if sc, ok := e.Tuple.(*ssa.Call); ok && sc.Common().StaticCallee() != nil && sizers[sc.Common().StaticCallee()] {
					okF = true
				}
			}
		}
		c.Check(okF, "O3", "R-FLOW", an.FuncName(fs), "FileSize=size(&format)#0", fs.Pos(), "FileSize returns the size function's value", "FSNode.FileSize no longer returns the value computed by the size function")
	}
}

func c18NegRel(op token.Token) token.Token {
	switch op {
	case token.EQL:
		return token.NEQ
	case token.NEQ:
		return token.EQL
	case token.LSS:
		return token.GEQ
	case token.LEQ:
		return token.GTR
	case token.GTR:
		return token.LEQ
	case token.GEQ:
		return token.LSS
	}
	return op
}

// c18CallersGuardNotZero: fn is an unexported function that is only called
// statically, it has at least one caller, and every call site is reached only
// where !IsZero() of the actual argument bound to tp holds.
func c18CallersGuardNotZero(p *an.Prog, fn *ssa.Function, tp *ssa.Parameter) bool {
	obj := fn.Object()
	if obj == nil || obj.Exported() || fn.Parent() != nil {
		return false
	}
	idx := -1
	for i, pr := range fn.Params {
		if pr == tp {
			idx = i
		}
	}
	if idx < 0 {
		return false
	}
	// used as a value anywhere (stored, passed)? then callers are unknown
	if refs := fn.Referrers(); refs != nil {
		for _, r := range *refs {
			if call, ok := r.(ssa.CallInstruction); !ok || call.Common().Value != ssa.Value(fn) {
				return false
			}
		}
	}
	n := 0
	for _, g := range p.Funcs {
		for _, call := range an.AllCalls(g) {
			if an.Callee(call).Static != fn {
				continue
			}
			if _, isCall := call.(*ssa.Call); !isCall {
				return false // go/defer: not a plain call
			}
			n++
			args := call.Common().Args
			if idx >= len(args) {
				return false
			}
			actual := args[idx]
			edges := an.CallEdges(g, an.M("time", "Time", "IsZero"), -1, func(v ssa.Value) bool { return an.SameVal(v, actual) }, false)
			if !an.GuardedBy(g, nil, call, edges) {
				return false
			}
		}
	}
	return n > 0
}
