package props

import (
	"fmt"
	"go/constant"
	"go/token"
	"go/types"
	"sort"

	"golang.org/x/tools/go/ssa"

	"verif/checker/an"
)

func init() {
	register("C39", Prop{
		Pkgs: []string{"./files"},
		Explain: "Decided (structural necessary conditions of 'multipart serialization round-trips'): " +
			"O1 encoder/decoder tables agree: the url.Values keys added by the part-header encoder (mode, mtime, mtime-nsecs) are exactly the keys looked up by the decoder, each with the same radix (FormatInt/FormatUint vs ParseInt/ParseUint) and fed from Mode()/ModTime().Unix()/Nanosecond(); every Content-Type literal the encoder emits for a node kind (type switch: *Symlink, Directory, File) equals the decoder's named constant for that kind, and the decoder builds a symlink / directory / file node for it (abstract execution per literal), each carrying fileInfo(name, part) (symlink target = part body); the part's filename parameter reaches the header only through url.QueryEscape and is read back through url.QueryUnescape; every extra header key the encoder sets is read by the decoder with matching (un)escaping; the encoder writes params.Encode() behind exactly the separator at which the decoder cuts part.FormName(); " +
			"O2 presence symmetry: the encoder adds mode only when != 0, mtime only when !IsZero(), mtime-nsecs only when > 0 (nested in mtime); on every decoder path on which the primary key of a stored field (mode; mtime for {mtime, mtime-nsecs}) is absent, the store to the file info's mode/mtime is unreachable or stores the zero value (an absent mtime must stay the zero time), time.Unix is fed (mtime, mtime-nsecs|0) in that order. " +
			"O3 byte accounting of the serializer: in every Read([]byte)(int,error) method of package files, after an inner X.Read(buf) into the caller's own buffer every reachable return reports exactly that call's byte count (resolved through named-result cells by reaching definitions since the call): bytes delivered together with io.EOF or with a later Close error are not dropped, and no stale count is reported. " +
			"NOT decided: equality of whole trees, MIME boundary handling (mime/multipart), path normalisation of names, mixed-mode (attachment) parts carry no mode/mtime by design.",
		Assume:    []string{"url.QueryEscape/QueryUnescape and url.Values.Encode/ParseQuery are mutual inverses", "mime.ParseMediaType returns the parameters written by the encoder"},
		Technique: "writer/reader key tables with radix and escaping attributes (R-TABLE), presence symmetry by edge dominance (R-DOM), abstract execution per literal (R-EXH), value provenance (R-FLOW)",
		Run:       runC39,
	})
}

type c39Enc struct {
	call     ssa.CallInstruction
	fn       *ssa.Function
	radix    int64
	src      string // "Mode", "Unix", "Nanosecond", "?"
	srcValue ssa.Value
}

func runC39(c *an.Ctx) {
	p := c.P
	const fl = "files"
	pk := p.Pkg(fl)
	if !c.Need(pk != nil, "package files") {
		return
	}
	fns := p.PkgFuncs(fl)
	strConst := func(v ssa.Value) (string, bool) {
		k, ok := an.ConstOf(v)
		if !ok || k.Kind() != constant.String {
			return "", false
		}
		return constant.StringVal(k), true
	}

	// ---------------- encoder side: url.Values.Add(key, value)
	enc := map[string]c39Enc{}
	for _, fn := range fns {
		for _, call := range an.Calls(fn, an.M("net/url", "Values", "Add"), an.M("net/url", "Values", "Set")) {
			args := an.Args(call)
			key, ok := strConst(args[0])
			if !ok {
				continue
			}
			e := c39Enc{call: call, fn: fn, src: "?"}
			// find the strconv.Format* call inside the (possibly concatenated) value
			var find func(v ssa.Value, d int)
			find = func(v ssa.Value, d int) {
				if d > 6 {
					return
				}
				switch x := v.(type) {
				case *ssa.BinOp:
					find(x.X, d+1)
					find(x.Y, d+1)
				case *ssa.Call:
					ci := an.Callee(x)
					if ci.Pkg == "strconv" && (ci.Name == "FormatInt" || ci.Name == "FormatUint") {
						if k, ok := an.ConstOf(x.Call.Args[1]); ok {
							e.radix, _ = constant.Int64Val(k)
						}
						for _, r := range an.RootsX(x.Call.Args[0], nil) {
							if sc, ok := r.(*ssa.Call); ok {
								e.src, e.srcValue = an.Callee(sc).Name, sc
							}
						}
					}
				}
			}
			find(args[1], 0)
			enc[key] = e
		}
	}
	// ---------------- decoder side: lookups on url.Values with constant keys
	type decKey struct {
		fn     *ssa.Function
		lookup *ssa.Lookup
		radix  int64
		bits   int64
		parse  *ssa.Call
	}
	dec := map[string]decKey{}
	for _, fn := range fns {
		an.Instrs(fn, func(in ssa.Instruction) {
			l, ok := in.(*ssa.Lookup)
			if !ok || !an.TypeIs(l.X.Type(), "net/url", "Values") {
				return
			}
			key, ok := strConst(l.Index)
			if !ok {
				return
			}
			d := decKey{fn: fn, lookup: l}
			for _, call := range an.Calls(fn, an.M("strconv", "", "ParseInt"), an.M("strconv", "", "ParseUint")) {
				cv := an.CallValue(call)
				if cv == nil || !c39FromLookup(cv.Call.Args[0], l) {
					continue
				}
				if k, ok := an.ConstOf(cv.Call.Args[1]); ok {
					d.radix, _ = constant.Int64Val(k)
				}
				if len(cv.Call.Args) > 2 {
					if k, ok := an.ConstOf(cv.Call.Args[2]); ok {
						d.bits, _ = constant.Int64Val(k)
					}
				}
				d.parse = cv
			}
			dec[key] = d
		})
	}
	c.Min("O1 url.Values keys written by the encoder", len(enc), 1)
	c.Min("O1 url.Values keys read by the decoder", len(dec), 1)
	var keys []string
	seenK := map[string]bool{}
	for k := range enc {
		if !seenK[k] {
			seenK[k] = true
			keys = append(keys, k)
		}
	}
	for k := range dec {
		if !seenK[k] {
			seenK[k] = true
			keys = append(keys, k)
		}
	}
	sort.Strings(keys)
	wantSrc := map[string]string{"mode": "Mode", "mtime": "Unix", "mtime-nsecs": "Nanosecond"}
	for _, k := range keys {
		e, okE := enc[k]
		d, okD := dec[k]
		pos := token.NoPos
		fname := "files"
		if okE {
			pos, fname = e.call.Pos(), an.FuncName(e.fn)
		} else if okD {
			pos, fname = d.lookup.Pos(), an.FuncName(d.fn)
		}
		c.Check(okE && okD, "O1", "R-TABLE", fname, "param "+k+" written and read", pos, "the part parameter is written by the encoder and read by the decoder",
			"part parameter \""+k+"\": written by encoder="+boolStr(okE)+", read by decoder="+boolStr(okD)+" — the metadata it carries is lost or never set")
		if !okE || !okD {
			continue
		}
		c.Check(e.radix != 0 && d.parse != nil && e.radix == d.radix, "O1", "R-TABLE", fname, "param "+k+" radix", pos, "encoder and decoder use the same radix",
			"part parameter \""+k+"\" is formatted in base "+constant.MakeInt64(e.radix).String()+" but parsed in base "+constant.MakeInt64(d.radix).String())
		// the parse width must hold what the encoder formats: int64 seconds /
		// nanoseconds (FormatInt of an int64), uint32 mode
		if e.srcValue != nil && d.parse != nil {
			need := int64(64)
			if b, ok := e.srcValue.Type().Underlying().(*types.Basic); ok && (b.Kind() == types.Uint32 || b.Kind() == types.Int32) {
				need = 32
			}
			c.Check(d.bits == 0 || d.bits >= need, "O1", "R-TABLE", fname, "param "+k+" width", pos, "the value is parsed with a width that holds every value the encoder writes",
				fmt.Sprintf("part parameter \"%s\" is formatted from a %d-bit value but parsed with bitSize %d: large values (e.g. times after 2038) are rejected or truncated", k, need, d.bits))
		}
		if w := wantSrc[k]; w != "" {
			c.Check(e.src == w, "O1", "R-FLOW", fname, "param "+k+" source", pos, "the value is taken from "+w+"()", "part parameter \""+k+"\" is encoded from "+e.src+"(), expected "+w+"()")
		}
	}

	// ---------------- O2 presence symmetry — encoder guards
	if e, ok := enc["mode"]; ok && e.srcValue != nil {
		al := an.Aliases(e.srcValue)
		nz := an.TokRelEdges(e.fn, func(v ssa.Value) bool { return al[v] }, an.IsIntConst(0), token.NEQ)
		c.Check(an.GuardedBy(e.fn, nil, e.call, nz), "O2", "R-DOM", an.FuncName(e.fn), "Add(mode)<=mode!=0", e.call.Pos(), "mode is only sent when set", "the mode parameter is sent although Mode()==0: an unset mode arrives as an explicit 0")
	}
	var mtimeVal ssa.Value
	if e, ok := enc["mtime"]; ok && e.srcValue != nil {
		if uc, ok := e.srcValue.(*ssa.Call); ok {
			mtimeVal = an.Recv(uc)
		}
		isT := func(v ssa.Value) bool { return mtimeVal != nil && an.SameVal(v, mtimeVal) }
		nz := an.CallEdges(e.fn, an.M("time", "Time", "IsZero"), -1, isT, false)
		c.Check(an.GuardedBy(e.fn, nil, e.call, nz), "O2", "R-DOM", an.FuncName(e.fn), "Add(mtime)<=!IsZero()", e.call.Pos(), "mtime is only sent when set", "the mtime parameter is sent although ModTime().IsZero(): an unset time arrives as an instant")
	}
	if e, ok := enc["mtime-nsecs"]; ok && e.srcValue != nil {
		al := an.Aliases(e.srcValue)
		pos := an.TokRelEdges(e.fn, func(v ssa.Value) bool { return al[v] }, an.IsIntConst(0), token.GTR)
		c.Check(an.GuardedBy(e.fn, nil, e.call, pos), "O2", "R-DOM", an.FuncName(e.fn), "Add(mtime-nsecs)<=nsec>0", e.call.Pos(), "nanoseconds only sent when > 0", "mtime-nsecs is sent for a zero nanosecond part")
		if m, ok := enc["mtime"]; ok && m.fn == e.fn {
			c.Check(an.Dominates(m.call, e.call), "O2", "R-DOM", an.FuncName(e.fn), "Add(mtime-nsecs) nested in Add(mtime)", e.call.Pos(), "nanoseconds are only sent together with mtime", "mtime-nsecs can be sent without mtime")
			if nc, ok := e.srcValue.(*ssa.Call); ok && mtimeVal != nil {
				c.Check(an.SameVal(an.Recv(nc), mtimeVal), "O1", "R-FLOW", an.FuncName(e.fn), "mtime and mtime-nsecs from the same time value", e.call.Pos(), "seconds and nanoseconds come from the same ModTime()", "mtime and mtime-nsecs are taken from different time values")
			}
		}
	}

	// ---------------- O2 presence symmetry — decoder stores
	// the decoder's file-info struct, by role: the struct type of the package that
	// implements fs.FileInfo and is allocated by a function of the parameter
	// decoder family; its mode field is the os.FileMode field, its mtime field the
	// time.Time field
	var fMode, fMtime *types.Var
	for _, n := range pk.Types.Scope().Names() {
		tn, ok := pk.Types.Scope().Lookup(n).(*types.TypeName)
		if !ok || tn.IsAlias() {
			continue
		}
		st, ok := tn.Type().Underlying().(*types.Struct)
		if !ok || !c39IsFileInfo(types.NewPointer(tn.Type())) {
			continue
		}
		var m, t *types.Var
		for i := 0; i < st.NumFields(); i++ {
			f := st.Field(i)
			switch {
			case an.TypeIs(f.Type(), "io/fs", "FileMode") || an.TypeIs(f.Type(), "os", "FileMode"):
				m = f
			case an.TypeIs(f.Type(), "time", "Time"):
				t = f
			}
		}
		if m != nil && t != nil {
			fMode, fMtime = m, t
		}
	}
	if !c.Need(fMode != nil && fMtime != nil, "the fs.FileInfo implementation of package files with a FileMode and a time.Time field (decoded part info)") {
		return
	}
	roleOf := map[*types.Var]string{fMode: "mode", fMtime: "mtime"}
	nStores := 0
	for _, fn := range fns {
		for _, fld := range []*types.Var{fMode, fMtime} {
			for _, st := range an.FieldStores(fn, fld) {
				if _, isLit := st.Val.(*ssa.Const); isLit {
					continue
				}
				// which keys feed the stored value — parsed here, or in a package-local
				// parse helper h whose first result is stored (h: (value[, ok bool]))
				fed := map[string]bool{}
				for k, d := range dec {
					if d.fn == fn && d.parse != nil && c39FlowsInto(st.Val, d.parse) {
						fed[k] = true
					}
				}
				var helper *ssa.Function
				var helperCall *ssa.Call
				if len(fed) == 0 {
					for _, r := range an.RootsX(c39StripConv(st.Val), nil) {
						var hc *ssa.Call
						if e, isE := r.(*ssa.Extract); isE && e.Index == 0 {
							hc, _ = e.Tuple.(*ssa.Call)
						} else {
							hc, _ = r.(*ssa.Call)
						}
						if hc == nil || hc.Common().StaticCallee() == nil || hc.Common().StaticCallee().Pkg != fn.Pkg {
							continue
						}
						for k, d := range dec {
							if d.fn == hc.Common().StaticCallee() && d.parse != nil {
								fed[k] = true
								helper, helperCall = d.fn, hc
							}
						}
					}
				}
				if len(fed) == 0 {
					// the parsed value may reach the field only unchanged (through
					// conversions): a masked / shifted / offset value does not round-trip
					for k, d := range dec {
						if d.fn != fn || d.parse == nil {
							continue
						}
						if c39OperandTreeHas(st.Val, d.parse, 0) {
							c.Bad("O1", "R-FLOW", an.FuncName(fn), "info."+roleOf[fld]+" is the parsed value", st.Pos(),
								"the decoded "+roleOf[fld]+" is computed from the parsed \""+k+"\" parameter by an arithmetic/bit operation instead of being taken over unchanged: bits sent by the encoder (e.g. setuid/setgid/sticky or type bits of the mode) are lost")
						}
					}
					continue
				}
				nStores++
				name := an.FuncName(fn)
				// primary key: one whose encoder Add is not dominated by the Add of another feeding key
				var primary []string
				for k := range fed {
					if enc[k].call == nil {
						continue // not written by the encoder: reported by the key table
					}
					isPrimary := true
					for k2 := range fed {
						if k2 != k && enc[k].call != nil && enc[k2].call != nil && enc[k].fn == enc[k2].fn && an.Dominates(enc[k2].call, enc[k].call) {
							isPrimary = false
						}
					}
					if isPrimary {
						primary = append(primary, k)
					}
				}
				sort.Strings(primary)
				for _, k := range primary {
					if helper != nil {
						// inside the helper: with the key absent every return hands back the
						// zero value, or says ok=false and the caller stores only on ok
						present := c39Present(helper, dec[k].lookup)
						reach := an.ReachSet(helper, nil, present, nil)
						okAbsent := true
						for _, in := range an.SortedInstrs(reach) {
							r, isRet := in.(*ssa.Return)
							if !isRet || len(r.Results) == 0 {
								continue
							}
							zero := true
							for _, x := range an.ValuesUnder(c39StripConv(r.Results[0]), reach, present) {
								if kc, isK := c39StripConv(x).(*ssa.Const); !isK || !(kc.Value == nil || an.IsIntConst(0)(kc)) {
									zero = false
								}
							}
							notOK := false
							if len(r.Results) == 2 {
								notOK = true
								for _, x := range an.ValuesUnder(r.Results[1], reach, present) {
									if kc, isK := an.ConstOf(x); !isK || kc.String() != "false" {
										notOK = false
									}
								}
								if notOK {
									oks := an.Result(helperCall, 1)
									if !an.GuardedBy(fn, helperCall, st, an.BoolEdges(fn, oks, true)) {
										notOK = false
									}
								}
							}
							if !zero && !notOK {
								okAbsent = false
							}
						}
						c.Check(okAbsent, "O2", "R-DOM", name, "info."+roleOf[fld]+"<=present("+k+")", st.Pos(),
							"without parameter \""+k+"\" the "+fld.Name()+" of the file info keeps its zero value",
							"the decoded "+roleOf[fld]+" is stored with a non-zero value on a path where the part carries no \""+k+"\" parameter: an unset "+roleOf[fld]+" does not stay unset (a mode-only part decodes with mtime = 1970-01-01)")
						continue
					}
					present := c39Present(fn, dec[k].lookup)
					// assume the key absent: the store is either unreachable or stores the zero value
					reach := an.ReachSet(fn, nil, present, nil)
					okAbsent := true
					if reach[st] {
						v := c39StripConv(st.Val)
						for _, x := range an.ValuesUnder(v, reach, present) {
							if k, isK := c39StripConv(x).(*ssa.Const); !isK || !(k.Value == nil || an.IsIntConst(0)(k)) {
								okAbsent = false
							}
						}
					}
					c.Check(okAbsent, "O2", "R-DOM", name, "info."+roleOf[fld]+"<=present("+k+")", st.Pos(),
						"without parameter \""+k+"\" the "+fld.Name()+" of the file info keeps its zero value",
						"the decoded "+roleOf[fld]+" is stored with a non-zero value on a path where the part carries no \""+k+"\" parameter: an unset "+roleOf[fld]+" does not stay unset (a mode-only part decodes with mtime = 1970-01-01)")
				}
				if fld == fMtime {
					uc, ok := an.IsCallTo(st.Val, an.M("time", "-", "Unix"))
					if helper != nil {
						// the time is built in the helper: its time.Unix call(s)
						ok = false
						for _, hu := range an.Calls(helper, an.M("time", "-", "Unix")) {
							if cvv := an.CallValue(hu); cvv != nil {
								uc, ok = cvv, true
							}
						}
					}
					okArgs := ok
					if ok {
						okArgs = c39ArgFrom(uc.Call.Args[0], dec["mtime"].parse, false) && c39ArgFrom(uc.Call.Args[1], dec["mtime-nsecs"].parse, true)
					}
					c.Check(okArgs, "O1", "R-FLOW", name, "info.mtime=time.Unix(mtime, mtime-nsecs|0)", st.Pos(), "seconds come from mtime and nanoseconds from mtime-nsecs (or 0)",
						"fi.mtime is not time.Unix(<parsed mtime>, <parsed mtime-nsecs or 0>): seconds/nanoseconds are swapped or taken from the wrong parameter")
				}
			}
		}
	}
	c.Min("O2 decoder stores to multiPartFileInfo.mode/mtime", nStores, 1)

	// ---------------- O1 separator between the form name and the parameters
	c39Separator(c, fns, strConst)

	// ---------------- O1 content types
	// the parameter parser(s): functions that look the parameters up, and the
	// functions that (transitively) call them and hand back an os.FileInfo
	statFns := map[*ssa.Function]bool{}
	for _, d := range dec {
		statFns[d.fn] = true
	}
	for changed := true; changed; {
		changed = false
		for _, fn := range fns {
			if statFns[fn] {
				continue
			}
			rs := fn.Signature.Results()
			if rs.Len() != 1 || !(an.TypeIs(rs.At(0).Type(), "io/fs", "FileInfo") || an.TypeIs(rs.At(0).Type(), "os", "FileInfo")) {
				continue
			}
			for _, call := range an.AllCalls(fn) {
				if g := an.Callee(call).Static; g != nil && statFns[g] {
					statFns[fn] = true
					changed = true
				}
			}
		}
	}
	c39ContentTypes(c, pk.Types, fns, strConst, statFns)

	// ---------------- O1 filename / extra headers escaping
	c39Escaping(c, fns, strConst)

	// ---------------- O3 byte accounting of the Read wrappers
	c39ReadAccounting(c, fns)
}

// c39FromLookup: v is <lookup>[i] (an element of the looked-up []string).
func c39FromLookup(v ssa.Value, l *ssa.Lookup) bool {
	ok, _ := an.AllRootsX(v, nil, func(r ssa.Value) bool {
		u, ok := r.(*ssa.UnOp)
		if !ok || u.Op != token.MUL {
			return false
		}
		ia, ok := u.X.(*ssa.IndexAddr)
		if !ok {
			return false
		}
		okL, _ := an.AllRootsX(ia.X, nil, func(x ssa.Value) bool {
			if e, isE := x.(*ssa.Extract); isE && e.Tuple == ssa.Value(l) && e.Index == 0 {
				return true
			}
			return x == ssa.Value(l)
		})
		return okL
	})
	return ok
}

// c39FlowsInto: the parse call's value result is among the producers of v
// (through phis, conversions and the arguments of time.Unix).
func c39FlowsInto(v ssa.Value, parse *ssa.Call) bool {
	seen := map[ssa.Value]bool{}
	var walk func(v ssa.Value) bool
	walk = func(v ssa.Value) bool {
		if v == nil || seen[v] {
			return false
		}
		seen[v] = true
		for _, r := range an.RootsX(v, nil) {
			if e, ok := r.(*ssa.Extract); ok && e.Tuple == ssa.Value(parse) {
				return true
			}
			if call, ok := r.(*ssa.Call); ok {
				ci := an.Callee(call)
				if ci.Pkg == "time" && ci.Name == "Unix" && ci.Recv == "" {
					for _, a := range call.Call.Args {
						if walk(a) {
							return true
						}
					}
				}
			}
		}
		return false
	}
	return walk(v)
}

// c39ArgFrom: every producer of v is the value result of parse, or (zeroOK /
// always tolerated for a dead default) the constant 0; parse must be among them
// unless zeroOK.
func c39ArgFrom(v ssa.Value, parse *ssa.Call, zeroOK bool) bool {
	saw := false
	ok, _ := an.AllRootsX(v, nil, func(r ssa.Value) bool {
		if e, isE := r.(*ssa.Extract); isE && parse != nil && e.Tuple == ssa.Value(parse) && e.Index == 0 {
			saw = true
			return true
		}
		return an.IsIntConst(0)(r)
	})
	return ok && (saw || zeroOK)
}

func c39ContentTypes(c *an.Ctx, pkt *types.Package, fns []*ssa.Function, strConst func(ssa.Value) (string, bool), statFns map[*ssa.Function]bool) {
	// "Content-Type" is the protocol's header name (a value, not an identifier of
	// the tree); the content-type literals themselves are not looked up by name:
	// each literal the encoder emits for a node kind is run through the decoder
	// (abstract execution), which must build a node of that same kind.
	const ctHeader = "Content-Type"
	type encLit struct {
		s, kind, fn string
		pos         token.Pos
	}
	var encLits []encLit
	// encoder: MIMEHeader.Set(Content-Type, phi of literals chosen by a type switch)
	nLit := 0
	for _, fn := range fns {
		for _, call := range an.Calls(fn, an.M("net/textproto", "MIMEHeader", "Set")) {
			args := an.Args(call)
			if k, ok := strConst(args[0]); !ok || k != ctHeader {
				continue
			}
			name := an.FuncName(fn)
			type lit struct {
				s    string
				pred *ssa.BasicBlock
			}
			var lits []lit
			switch x := args[1].(type) {
			case *ssa.Phi:
				for i, e := range x.Edges {
					if s, ok := strConst(e); ok {
						lits = append(lits, lit{s, x.Block().Preds[i]})
					} else {
						c.Bad("O1", "R-TABLE", name, "Content-Type computed", call.Pos(), "a Content-Type that is not one of the literal kinds is emitted")
					}
				}
			case *ssa.Const:
				if s, ok := strConst(x); ok {
					lits = append(lits, lit{s, call.Block()})
				}
			default:
				// the literal may be chosen by a package-local helper: enumerate the
				// helper's successful returns (each in its own type-switch case)
				done := false
				if ex, isEx := args[1].(*ssa.Extract); isEx || true {
					var hc *ssa.Call
					idx := 0
					if isEx {
						hc, _ = ex.Tuple.(*ssa.Call)
						idx = ex.Index
					} else {
						hc, _ = args[1].(*ssa.Call)
					}
					if hc != nil {
						if h := hc.Common().StaticCallee(); h != nil && len(h.Blocks) > 0 && h.Pkg == fn.Pkg {
							done = true
							for _, r := range an.Returns(h) {
								if idx >= len(r.Results) {
									continue
								}
								if n := len(r.Results); n > 1 && an.IsErrorType(r.Results[n-1].Type()) && !an.IsNilConst(r.Results[n-1]) {
									continue // error return: no part is written
								}
								name = an.FuncName(h)
								switch rv := r.Results[idx].(type) {
								case *ssa.Const:
									if sv, ok := strConst(rv); ok {
										lits = append(lits, lit{sv, r.Block()})
									}
								case *ssa.Phi:
									for i, e := range rv.Edges {
										if sv, ok := strConst(e); ok {
											lits = append(lits, lit{sv, rv.Block().Preds[i]})
										} else {
											done = false
										}
									}
								default:
									done = false
								}
							}
						}
					}
				}
				if !done {
					c.Problem("undecided: %s sets Content-Type from a value the rule cannot enumerate", name)
				}
			}
			for _, l := range lits {
				nLit++
				kind := c39AssertedKind(l.pred)
				if kind != "Symlink" && kind != "Directory" && kind != "File" {
					c.Bad("O1", "R-TABLE", name, "Content-Type kind", call.Pos(), "Content-Type \""+l.s+"\" is emitted outside a *Symlink/Directory/File type-switch branch (found: "+kind+")")
					continue
				}
				encLits = append(encLits, encLit{l.s, kind, name, call.Pos()})
			}
		}
	}
	c.Min("O1 Content-Type literals emitted by the encoder", nLit, 1)
	// decoder: per literal, what is built
	nDec := 0
	for _, fn := range fns {
		isCT := func(v ssa.Value) bool {
			ok, _ := an.AllRootsX(v, nil, func(r ssa.Value) bool {
				if gc, ok := an.IsCallTo(r, an.M("net/textproto", "MIMEHeader", "Get")); ok {
					k, isK := strConst(an.Args(gc)[0])
					return isK && k == ctHeader
				}
				if pc, ok := an.IsCallTo(r, an.M("mime", "", "ParseMediaType")); ok {
					e, isE := r.(*ssa.Extract)
					return isE && e.Index == 0 && pc != nil
				}
				return false
			})
			return ok
		}
		if len(an.InfeasibleUnderV(fn, isCT, constant.MakeString("\x00no such content type"))) == 0 || fn.Signature.Results().Len() != 2 {
			continue
		}
		name := an.FuncName(fn)
		for _, row := range encLits {
			cut := an.InfeasibleUnderV(fn, isCT, constant.MakeString(row.s))
			reach := an.ReachSet(fn, nil, cut, nil)
			built := map[string]bool{}
			for _, in := range an.SortedInstrs(reach) {
				r, ok := in.(*ssa.Return)
				if !ok || len(r.Results) != 2 {
					continue
				}
				errNil := true
				for _, ev := range an.ValuesUnder(r.Results[1], reach, cut) {
					if !an.IsNilConst(ev) {
						errNil = false
					}
				}
				if !errNil {
					continue
				}
				for _, v := range an.ValuesUnder(r.Results[0], reach, cut) {
					built[c39NodeKind(v, pkt)] = true
					okStat, why := c39CarriesStat(v, statFns)
					c.Check(okStat, "O1", "R-SIB", name, "decode("+row.kind+") carries fileInfo(name, part)", r.Pos(), "the decoded "+row.kind+" node gets the mode/mtime parsed from its part",
						"the "+row.kind+" node built by the decoder "+why+": its mode and modification time are lost although the encoder sends them for every node kind")
				}
			}
			var got []string
			for k := range built {
				got = append(got, k)
			}
			sort.Strings(got)
			nDec++
			c.Check(len(got) == 1 && got[0] == row.kind, "O1", "R-TABLE", row.fn, "Content-Type("+row.kind+")", row.pos, "the literal announced for a "+row.kind+" node is decoded as a "+row.kind,
				"a "+row.kind+" node is serialized with Content-Type \""+row.s+"\" but a part with that content type is decoded as "+joinStr(got)+": the node comes back as a different kind")
		}
	}
	c.Min("O1 decoder rows per Content-Type", nDec, 1)
}

// c39AssertedKind: the named type asserted on the true edge of the nearest
// comma-ok type assertion dominating block b (the type-switch case b belongs to).
func c39AssertedKind(b *ssa.BasicBlock) string {
	for cur := b; cur != nil; cur = cur.Idom() {
		id := cur.Idom()
		if id == nil {
			break
		}
		ifi, ok := id.Instrs[len(id.Instrs)-1].(*ssa.If)
		if !ok || id.Succs[0] != cur || len(cur.Preds) != 1 {
			continue
		}
		e, ok := ifi.Cond.(*ssa.Extract)
		if !ok || e.Index != 1 {
			continue
		}
		ta, ok := e.Tuple.(*ssa.TypeAssert)
		if !ok || !ta.CommaOk {
			continue
		}
		t := ta.AssertedType
		if pt, ok := t.(*types.Pointer); ok {
			t = pt.Elem()
		}
		if n, ok := types.Unalias(t).(*types.Named); ok {
			return n.Obj().Name()
		}
		return t.String()
	}
	return "?"
}

// c39NodeKind classifies the node a decoder returns, by role: a literal whose
// pointer type implements the exported Directory interface is a Directory; the
// exported Symlink type (also as the concrete result of a constructor) is a
// Symlink; any other File implementer is a File.
func c39NodeKind(v ssa.Value, pkt *types.Package) string {
	iface := func(n string) *types.Interface {
		if o := pkt.Scope().Lookup(n); o != nil {
			i, _ := o.Type().Underlying().(*types.Interface)
			return i
		}
		return nil
	}
	dirI, fileI := iface("Directory"), iface("File")
	ofType := func(t types.Type) string {
		if pt, ok := t.(*types.Pointer); ok {
			t = pt.Elem()
		}
		n, ok := types.Unalias(t).(*types.Named)
		if !ok {
			return "?"
		}
		pn := types.NewPointer(n)
		switch {
		case n.Obj().Name() == "Symlink" && n.Obj().Pkg() == pkt:
			return "Symlink"
		case dirI != nil && types.Implements(pn, dirI):
			return "Directory"
		case fileI != nil && types.Implements(pn, fileI):
			return "File"
		}
		return n.Obj().Name()
	}
	for _, r := range an.RootsX(v, nil) {
		switch x := r.(type) {
		case *ssa.Call:
			// constructor: the concrete type it allocates
			if g := x.Common().StaticCallee(); g != nil && len(g.Blocks) > 0 {
				for _, ret := range an.Returns(g) {
					for _, rr := range an.RootsX(ret.Results[0], nil) {
						if al, ok := rr.(*ssa.Alloc); ok {
							return ofType(al.Type())
						}
					}
				}
			}
			if an.Callee(x).Name == "NewLinkFile" {
				return "Symlink"
			}
		case *ssa.Alloc:
			return ofType(x.Type())
		}
	}
	return "?"
}

func c39Escaping(c *an.Ctx, fns []*ssa.Function, strConst func(ssa.Value) (string, bool)) {
	mSet, mGet := an.M("net/textproto", "MIMEHeader", "Set"), an.M("net/textproto", "MIMEHeader", "Get")
	mEsc, mUnesc := an.M("net/url", "-", "QueryEscape"), an.M("net/url", "-", "QueryUnescape")
	// encoder header keys -> escaped?
	type hk struct {
		fn      *ssa.Function
		call    ssa.CallInstruction
		escaped bool
	}
	encH := map[string]hk{}
	var dispFns []*ssa.Function
	for _, fn := range fns {
		for _, call := range an.Calls(fn, mSet) {
			args := an.Args(call)
			k, ok := strConst(args[0])
			if !ok {
				continue
			}
			_, esc := an.IsCallTo(args[1], mEsc)
			encH[k] = hk{fn, call, esc}
			if k == "Content-Disposition" {
				dispFns = append(dispFns, fn)
			}
		}
	}
	decH := map[string]bool{} // key -> result goes through QueryUnescape
	decSeen := map[string]bool{}
	for _, fn := range fns {
		for _, call := range an.Calls(fn, mGet) {
			k, ok := strConst(an.Args(call)[0])
			if !ok {
				continue
			}
			decSeen[k] = true
			for _, uc := range an.Calls(fn, mUnesc) {
				if okF, _ := an.AllRootsX(an.Args(uc)[0], nil, func(r ssa.Value) bool { return r == ssa.Value(an.CallValue(call)) }); okF {
					decH[k] = true
				}
			}
		}
	}
	var hkeys []string
	for k := range encH {
		hkeys = append(hkeys, k)
	}
	sort.Strings(hkeys)
	for _, k := range hkeys {
		e := encH[k]
		c.Check(decSeen[k], "O1", "R-TABLE", an.FuncName(e.fn), "header "+k+" read back", e.call.Pos(), "the header is read by the decoder", "part header \""+k+"\" is written but never read by the decoder")
		if k == "Content-Disposition" || k == "Content-Type" || !decSeen[k] {
			continue
		}
		c.Check(e.escaped == decH[k], "O1", "R-TABLE", an.FuncName(e.fn), "header "+k+" escaping", e.call.Pos(), "escaping on write matches unescaping on read",
			"part header \""+k+"\": QueryEscape on write="+boolStr(e.escaped)+" but QueryUnescape on read="+boolStr(decH[k])+": paths with reserved characters do not round-trip")
	}
	c.Min("O1 part headers set by the encoder", len(hkeys), 1)
	// filename: the raw name reaches the Content-Disposition header only via QueryEscape
	nF := 0
	for _, fn := range dispFns {
		for i, pr := range fn.Params {
			if i == 0 && fn.Signature.Recv() != nil {
				continue
			}
			if b, ok := pr.Type().Underlying().(*types.Basic); !ok || b.Kind() != types.String {
				continue
			}
			nF++
			raw := ""
			for _, u := range an.Uses(pr) {
				switch x := u.(type) {
				case *ssa.Call:
					if !mEsc.Match(an.Callee(x)) {
						raw = "call " + an.Callee(x).String()
					}
				case *ssa.DebugRef:
				case *ssa.Store:
					// spilled to a cell: its loads are followed by Uses
				case *ssa.UnOp:
				default:
					raw = x.String()
				}
			}
			if raw != "" {
				// the name may already be escaped by every caller
				nCallers, allEsc := 0, true
				for _, g := range fns {
					for _, call := range an.AllCalls(g) {
						if an.Callee(call).Static != fn || i >= len(call.Common().Args) {
							continue
						}
						nCallers++
						esc, _ := an.AllRootsX(call.Common().Args[i], nil, func(r ssa.Value) bool {
							_, ok := an.IsCallTo(r, mEsc)
							return ok
						})
						if !esc {
							allEsc = false
						}
					}
				}
				if nCallers > 0 && allEsc {
					raw = ""
				}
			}
			c.Check(raw == "", "O1", "R-TAINT", an.FuncName(fn), "filename only via QueryEscape", fn.Pos(), "the entry name reaches the header only through url.QueryEscape",
				"the raw entry name flows into the Content-Disposition header without url.QueryEscape ("+raw+"): names with quotes, percent signs or non-ASCII do not round-trip")
		}
	}
	c.Min("O1 string parameters of the Content-Disposition writer", nF, 1)
	// decoder: params["filename"] -> QueryUnescape
	nU := 0
	for _, fn := range fns {
		an.Instrs(fn, func(in ssa.Instruction) {
			l, ok := in.(*ssa.Lookup)
			if !ok {
				return
			}
			k, isK := strConst(l.Index)
			if !isK || k != "filename" {
				return
			}
			nU++
			okU := false
			for _, uc := range an.Calls(fn, mUnesc) {
				if okF, _ := an.AllRootsX(an.Args(uc)[0], nil, func(r ssa.Value) bool { return r == ssa.Value(l) }); okF {
					okU = true
				}
			}
			c.Check(okU, "O1", "R-TABLE", an.FuncName(fn), "filename read via QueryUnescape", l.Pos(), "the filename parameter is unescaped on read", "the filename parameter is read without url.QueryUnescape although the encoder escapes it")
		})
	}
	c.Min("O1 filename parameter lookups", nU, 1)
}

func c39StripConv(v ssa.Value) ssa.Value {
	for {
		switch x := v.(type) {
		case *ssa.Convert:
			v = x.X
		case *ssa.ChangeType:
			v = x.X
		default:
			return v
		}
	}
}

// c39Present: the edges on which the looked-up parameter is known present
// (value != nil, or comma-ok true).
func c39Present(fn *ssa.Function, l *ssa.Lookup) an.EdgeSet {
	if !l.CommaOk {
		return an.NilEdges(fn, []ssa.Value{l}, false)
	}
	var vals, oks []ssa.Value
	for _, r := range *l.Referrers() {
		if e, ok := r.(*ssa.Extract); ok {
			if e.Index == 0 {
				vals = append(vals, e)
			} else {
				oks = append(oks, e)
			}
		}
	}
	return an.NilEdges(fn, vals, false).Union(an.BoolEdges(fn, oks, true))
}

// c39Separator: the decoder cuts part.FormName() at a constant separator; the
// encoder must write exactly that separator in front of params.Encode().
func c39Separator(c *an.Ctx, fns []*ssa.Function, strConst func(ssa.Value) (string, bool)) {
	sep, nCut := "", 0
	for _, fn := range fns {
		for _, cc := range an.Calls(fn, an.M("strings", "-", "Cut")) {
			if _, ok := an.IsCallTo(an.Args(cc)[0], an.M("mime/multipart", "Part", "FormName")); !ok {
				continue
			}
			if s, ok := strConst(an.Args(cc)[1]); ok {
				sep = s
				nCut++
			}
		}
	}
	c.Min("O1 strings.Cut(part.FormName(), sep) in the decoder", nCut, 1)
	if nCut == 0 {
		return
	}
	nEnc := 0
	for _, fn := range fns {
		for _, pc := range an.Calls(fn, an.M("fmt", "-", "Fprintf")) {
			args := an.Args(pc)
			if len(args) < 3 {
				continue
			}
			el := c14VarargInOrder(args[2])
			if len(el) != 1 {
				continue
			}
			if isEnc, _ := an.AllRootsX(el[0], nil, func(r ssa.Value) bool {
				_, ok := an.IsCallTo(r, an.M("net/url", "Values", "Encode"))
				return ok
			}); !isEnc {
				continue
			}
			nEnc++
			f, ok := strConst(args[1])
			c.Check(ok && f == sep+"%s", "O1", "R-TABLE", an.FuncName(fn), "params separator", pc.Pos(), "the encoded parameters follow the separator the decoder cuts at",
				"the encoder writes the part parameters with format \""+f+"\" but the decoder cuts the form name at \""+sep+"\": mode/mtime are never parsed back")
		}
	}
	c.Min("O1 Fprintf of params.Encode() in the encoder", nEnc, 1)
}

// c39ReadAccounting (O3): a Read wrapper that lets an inner reader fill the
// caller's buffer must report that reader's byte count on every path that
// follows, whatever the error handling in between does.
func c39ReadAccounting(c *an.Ctx, fns []*ssa.Function) {
	isBytes := func(t types.Type) bool {
		sl, ok := t.Underlying().(*types.Slice)
		if !ok {
			return false
		}
		b, ok := sl.Elem().Underlying().(*types.Basic)
		return ok && b.Kind() == types.Byte
	}
	nInner := 0
	for _, fn := range fns {
		sig := fn.Signature
		if fn.Name() != "Read" || sig.Recv() == nil || sig.Params().Len() != 1 || sig.Results().Len() != 2 || !isBytes(sig.Params().At(0).Type()) || !an.IsErrorType(sig.Results().At(1).Type()) {
			continue
		}
		buf := fn.Params[1]
		name := an.FuncName(fn)
		var inner []*ssa.Call
		for _, call := range an.AllCalls(fn) {
			cv := an.CallValue(call)
			if cv == nil {
				continue
			}
			rs := cv.Call.Signature().Results()
			if rs.Len() != 2 || !an.IsErrorType(rs.At(1).Type()) {
				continue
			}
			if b, ok := rs.At(0).Type().Underlying().(*types.Basic); !ok || b.Kind() != types.Int {
				continue
			}
			getsBuf := false
			for _, a := range an.Args(call) {
				if an.SameVal(a, buf) {
					getsBuf = true
				}
			}
			if getsBuf && len(an.Result(call, 0)) > 0 {
				inner = append(inner, cv)
			}
		}
		stop := map[ssa.Instruction]bool{}
		for _, r := range inner {
			stop[r] = true
		}
		for _, r := range inner {
			nInner++
			ns := an.Result(r, 0)
			isN := func(v ssa.Value) bool {
				for _, n := range ns {
					if v == n {
						return true
					}
				}
				return false
			}
			construct := "inner read(buf) count reported"
			for _, in := range an.SortedInstrs(an.ReachSet(fn, r, nil, stop)) {
				ret, ok := in.(*ssa.Return)
				if !ok || len(ret.Results) != 2 {
					continue
				}
				vals, stale := an.ValuesSince(r, ret.Results[0])
				bad, unknown := "", ""
				if stale {
					bad = "a count that was not written since the inner Read (stale/zero named result)"
				}
				for _, v := range vals {
					switch {
					case isN(v):
					case an.IsIntConst(0)(v):
						bad = "the constant 0"
					default:
						if k, isK := v.(*ssa.Const); isK {
							bad = "the constant " + k.String()
						} else if e, isE := v.(*ssa.Extract); isE && e.Index == 0 {
							bad = "the count of another call (" + an.ShowPath(e.Tuple) + ")"
						} else {
							unknown = an.ShowPath(v)
						}
					}
				}
				if bad == "" && unknown != "" {
					c.Problem("undecided: %s returns a computed byte count (%s) after %s; the accounting rule only knows direct reporting", name, unknown, an.Callee(r).String())
					continue
				}
				c.Check(bad == "", "O3", "R-FLOW", name, construct, ret.Pos(), "every return after the inner Read reports its byte count",
					"after "+an.Callee(r).String()+"(buf) filled the caller's buffer a return reports "+bad+" instead of that call's n: bytes delivered together with io.EOF (or before a later error) are silently dropped from the multipart stream, the parsed-back file content is truncated")
			}
		}
	}
	c.Min("O3 inner Read(buf) calls in Read wrappers of package files", nInner, 1)
}

// c39CarriesStat: the decoded node value is given the os.FileInfo parsed from
// the part (a call of the decoder's parameter parser): as the `stat` field of a
// literal, or as an argument of the constructor; a symlink's target is the
// part body.
func c39CarriesStat(v ssa.Value, statFns map[*ssa.Function]bool) (bool, string) {
	isStatCall := func(x ssa.Value) bool {
		ok, _ := an.AllRootsX(x, nil, func(r ssa.Value) bool {
			call, ok := r.(*ssa.Call)
			return ok && call.Common().StaticCallee() != nil && statFns[call.Common().StaticCallee()]
		})
		return ok
	}
	for _, r := range an.RootsX(v, nil) {
		switch x := r.(type) {
		case *ssa.Alloc:
			found := false
			for _, ref := range *x.Referrers() {
				fa, ok := ref.(*ssa.FieldAddr)
				if !ok {
					continue
				}
				f, _ := an.FieldOf(fa)
				if f == nil || !an.TypeIs(f.Type(), "io/fs", "FileInfo") && !an.TypeIs(f.Type(), "os", "FileInfo") {
					continue
				}
				for _, r2 := range *fa.Referrers() {
					if st, ok := r2.(*ssa.Store); ok && st.Addr == fa && isStatCall(st.Val) {
						found = true
					}
				}
			}
			if !found {
				return false, "has no FileInfo field set from the part parameters"
			}
			// a reader field of the literal must be the part itself
			for _, ref := range *x.Referrers() {
				fa, ok := ref.(*ssa.FieldAddr)
				if !ok {
					continue
				}
				f, _ := an.FieldOf(fa)
				if f == nil || !(an.TypeIs(f.Type(), "io", "ReadCloser") || an.TypeIs(f.Type(), "io", "Reader")) {
					continue
				}
				for _, r2 := range *fa.Referrers() {
					if st, ok := r2.(*ssa.Store); ok && st.Addr == fa {
						for _, rr := range an.RootsX(st.Val, nil) {
							if call, isCall := rr.(*ssa.Call); isCall && an.Callee(call).Pkg == "io" {
								return false, "reads its content through an io wrapper (" + an.Callee(call).Name + ") instead of the part itself: the file content can be truncated"
							}
						}
					}
				}
			}
		case *ssa.Call:
			found := false
			for _, a := range x.Call.Args {
				if isStatCall(a) {
					found = true
				}
			}
			if !found {
				return false, "is constructed without the FileInfo parsed from the part parameters"
			}
			if an.Callee(x).Name == "NewLinkFile" {
				okT, _ := an.AllRootsX(x.Call.Args[0], nil, func(t ssa.Value) bool {
					rc, ok := an.IsCallTo(t, an.M("io", "-", "ReadAll"))
					if !ok {
						return false
					}
					// the whole part body: the reader handed to ReadAll is the part
					// itself, not a wrapper (LimitReader, buffered prefix …)
					for _, rr := range an.RootsX(rc.Call.Args[0], nil) {
						if _, isCall := rr.(*ssa.Call); isCall {
							return false
						}
					}
					return true
				})
				if !okT {
					return false, "does not take its link target from the whole part body (io.ReadAll(part))"
				}
			}
		default:
			return false, "is not a literal or constructor result the rule knows"
		}
	}
	return true, ""
}

// c39IsFileInfo: t has the method set of fs.FileInfo (Name, Size, Mode, ModTime, IsDir, Sys).
func c39IsFileInfo(t types.Type) bool {
	ms := types.NewMethodSet(t)
	for _, m := range []string{"Name", "Size", "Mode", "ModTime", "IsDir", "Sys"} {
		found := false
		for i := 0; i < ms.Len(); i++ {
			if ms.At(i).Obj().Name() == m {
				found = true
			}
		}
		if !found {
			return false
		}
	}
	return true
}

// c39OperandTreeHas: the value result of parse occurs in the operand tree of v
// below an arithmetic/bit operation.
func c39OperandTreeHas(v ssa.Value, parse *ssa.Call, d int) bool {
	if v == nil || d > 6 {
		return false
	}
	switch x := v.(type) {
	case *ssa.BinOp:
		return c39OperandIs(x.X, parse, d+1) || c39OperandIs(x.Y, parse, d+1)
	case *ssa.Convert:
		return c39OperandTreeHas(x.X, parse, d+1)
	case *ssa.ChangeType:
		return c39OperandTreeHas(x.X, parse, d+1)
	case *ssa.Phi:
		for _, e := range x.Edges {
			if c39OperandTreeHas(e, parse, d+1) {
				return true
			}
		}
	}
	return false
}

func c39OperandIs(v ssa.Value, parse *ssa.Call, d int) bool {
	if d > 6 {
		return false
	}
	switch x := v.(type) {
	case *ssa.Extract:
		return x.Tuple == ssa.Value(parse) && x.Index == 0
	case *ssa.Convert:
		return c39OperandIs(x.X, parse, d+1)
	case *ssa.ChangeType:
		return c39OperandIs(x.X, parse, d+1)
	case *ssa.BinOp:
		return c39OperandIs(x.X, parse, d+1) || c39OperandIs(x.Y, parse, d+1)
	case *ssa.Phi:
		for _, e := range x.Edges {
			if c39OperandIs(e, parse, d+1) {
				return true
			}
		}
	}
	return false
}
