package props

import (
	"go/constant"
	"go/token"
	"go/types"
	"sort"

	"golang.org/x/tools/go/ssa"

	"verif/checker/an"
)

func init() {
	register("C14", Prop{
		Pkgs: []string{"./ipld/merkledag/dagutils"},
		Explain: "Decided (structural necessary conditions of 'ApplyChange(a, Diff(a,b)) == b'; weak by nature): " +
			"O1 every function that dispatches on Change.Type is exhaustive over the declared ChangeType constants, decided per enumerator by abstract execution: ApplyChange performs Insert only (Add), RmLink only (Remove), RmLink then Insert (Mod); a String-like dispatcher never reaches its panic default for a declared constant; " +
			"O2 the fields of Change that ApplyChange reads for an enumerator are the ones the Diff literals of that enumerator set (Mod's Path is set by the caller's prefix store), the node inserted for Add/Mod is ds.Get(c.After) of the same change, and every editor call is addressed by c.Path of the same change; " +
			"O3 side consistency inside Diff(a,b): Remove literals take Path/Before from the remaining links of a's copy, Add literals take Path/After from the remaining links of b's copy, Mod literals have Before=a.Cid() After=b.Cid(); matched names are removed from both copies on the ResolveLink nil-edge; the recursion is Diff(nodeA,nodeB) with nodeA from a's link and nodeB from b's link; all sub-changes are prefixed path.Join(linkName, c.Path) (range over the whole result, before the append) and appended; the empty result for equal CIDs compares a.Cid() with b.Cid(). " +
			"O4 ownership: every in-place store to a field of an existing *Change (the Path re-rooting) hits an object that is exclusively owned: an own literal, or an element of the result of a package-local call whose every return is built from fresh literals / owned results only (no value loaded from a map, field, global or parameter) and whose result slices are not also retained in a map/field/global. " +
			"NOT decided: CID equality of the applied result (runtime value), behaviour of the Editor (InsertNodeAtPath/RmLink), raw-leaf children (ErrNotProtobuf edge), top-level Mod with empty path.",
		Assume:    []string{"format.Node.Copy/Links/ResolveLink/GetNode and ProtoNode.RemoveNodeLink behave as documented"},
		Technique: "abstract execution per enumerator (R-EXH), writer/reader field table (R-TABLE), side provenance (R-FLOW), edge dominance (R-DOM)",
		Run:       runC14,
	})
}

func runC14(c *an.Ctx) {
	p := c.P
	const du = "ipld/merkledag/dagutils"
	pk := p.Pkg(du)
	fType, fPath, fBefore, fAfter := p.Field(du, "Change", "Type"), p.Field(du, "Change", "Path"), p.Field(du, "Change", "Before"), p.Field(du, "Change", "After")
	if !c.Need(pk != nil && fType != nil && fPath != nil && fBefore != nil && fAfter != nil, "dagutils.Change fields Type,Path,Before,After") {
		return
	}
	ctype := pk.Types.Scope().Lookup("ChangeType")
	if !c.Need(ctype != nil, "dagutils.ChangeType") {
		return
	}
	enum := map[string]constant.Value{}
	var names []string
	for _, n := range pk.Types.Scope().Names() {
		if k, ok := pk.Types.Scope().Lookup(n).(*types.Const); ok && types.Identical(k.Type(), ctype.Type()) {
			enum[n] = k.Val()
			names = append(names, n)
		}
	}
	sort.Strings(names)
	for _, n := range []string{"Add", "Remove", "Mod"} {
		if !c.Need(enum[n] != nil, "constant dagutils."+n) {
			return
		}
	}
	nameOf := func(v constant.Value) string {
		for n, k := range enum {
			if constant.Compare(k, token.EQL, v) {
				return n
			}
		}
		return v.String()
	}
	fns := p.PkgFuncs(du)
	mInsert, mRm := an.M(du, "Editor", "InsertNodeAtPath"), an.M(du, "Editor", "RmLink")

	// ---------------- O1: dispatchers on Change.Type
	nDisp := 0
	reads := map[string]map[*types.Var]bool{} // enumerator -> fields read by the applier
	dispFns := fns
	if c.Tier == "thorough" {
		dispFns = p.Funcs // Change is exported: sweep every dispatcher of the module
	}
	for _, fn := range dispFns {
		// all loads of Type from the same Change object form one subject (the code
		// may re-load c.Type for every comparison)
		var groups [][]ssa.Value
		for _, tl := range an.FieldReads(fn, fType) {
			u, ok := tl.(*ssa.UnOp)
			if !ok {
				continue
			}
			_, b := an.FieldOf(u.X)
			placed := false
			for gi, g := range groups {
				_, gb := an.FieldOf(g[0].(*ssa.UnOp).X)
				if an.SameVal(gb, b) {
					groups[gi] = append(groups[gi], tl)
					placed = true
				}
			}
			if !placed {
				groups = append(groups, []ssa.Value{tl})
			}
		}
		for _, grp := range groups {
			tl := grp[0]
			tin, ok := tl.(ssa.Instruction)
			if !ok {
				continue
			}
			al := an.Aliases(grp...)
			isT := func(v ssa.Value) bool { return al[v] }
			// is it a dispatcher: compared against a constant somewhere?
			if len(an.InfeasibleUnderV(fn, isT, enum["Add"])) == 0 {
				continue
			}
			nDisp++
			name := an.FuncName(fn)
			var chg ssa.Value
			if u, ok := tl.(*ssa.UnOp); ok {
				_, chg = an.FieldOf(u.X)
			}
			isApplier := len(an.Calls(fn, mInsert, mRm)) > 0
			for _, n := range names {
				cut := an.InfeasibleUnderV(fn, isT, enum[n])
				reach := an.ReachSet(fn, tin, cut, map[ssa.Instruction]bool{tin: true})
				var ins, rms, insVia, rmsVia []ssa.CallInstruction // direct editor calls / calls of package-local helpers that make them
				panics := false
				for _, in := range an.SortedInstrs(reach) {
					switch x := in.(type) {
					case *ssa.Panic:
						panics = true
					case ssa.CallInstruction:
						ci := an.Callee(x)
						if mInsert.Match(ci) {
							ins = append(ins, x)
						} else if c14ReachesCall(ci.Static, mInsert, 3) {
							insVia = append(insVia, x)
						}
						if mRm.Match(ci) {
							rms = append(rms, x)
						} else if c14ReachesCall(ci.Static, mRm, 3) {
							rmsVia = append(rmsVia, x)
						}
					}
				}
				if !isApplier {
					c.Check(!panics, "O1", "R-EXH", name, "dispatch("+n+")", tin.Pos(), "enumerator "+n+" is handled", "the dispatch on Change.Type reaches its panic default for the declared constant "+n)
					continue
				}
				wantIns, wantRm := n == "Add" || n == "Mod", n == "Remove" || n == "Mod"
				known := n == "Add" || n == "Remove" || n == "Mod"
				switch {
				case !known:
					c.Check(len(ins)+len(rms)+len(insVia)+len(rmsVia) > 0 || panics, "O1", "R-EXH", name, "apply("+n+")", tin.Pos(), "enumerator "+n+" is handled",
						"ApplyChange silently ignores changes of type "+n+" (no editor call and no error is reachable for it): the applied result cannot equal the diff target")
				default:
					c.Check((len(ins)+len(insVia) > 0) == wantIns && (len(rms)+len(rmsVia) > 0) == wantRm, "O1", "R-EXH", name, "apply("+n+")", tin.Pos(),
						"for "+n+" the editor calls are exactly the expected ones (insert="+boolStr(wantIns)+", remove="+boolStr(wantRm)+")",
						"for a change of type "+n+" ApplyChange reaches InsertNodeAtPath="+boolStr(len(ins) > 0)+" RmLink="+boolStr(len(rms) > 0)+", expected insert="+boolStr(wantIns)+" remove="+boolStr(wantRm))
				}
				if n == "Mod" && len(ins)+len(insVia) > 0 && len(rms)+len(rmsVia) > 0 {
					blocked := map[ssa.Instruction]bool{}
					for _, r := range append(append([]ssa.CallInstruction{}, rms...), rmsVia...) {
						blocked[r] = true
					}
					okOrder := true
					for _, i := range append(append([]ssa.CallInstruction{}, ins...), insVia...) {
						if blocked[i] {
							continue // one helper doing both: order inside it is not decided
						}
						if an.Reaches(fn, tin, i, cut, blocked) {
							okOrder = false
						}
					}
					c.Check(okOrder, "O1", "R-DOM", name, "apply(Mod):RmLink<Insert", tin.Pos(), "the old entry is removed before the new one is inserted",
						"for Mod the new node can be inserted before the old link was removed: the removal then deletes the freshly inserted entry")
				}
				// fields read under this enumerator, and provenance of the editor arguments
				if chg == nil {
					continue
				}
				if reads[n] == nil {
					reads[n] = map[*types.Var]bool{}
				}
				for _, in := range an.SortedInstrs(reach) {
					u, ok := in.(*ssa.UnOp)
					if !ok || u.Op != token.MUL {
						continue
					}
					if f, b := an.FieldOf(u.X); f != nil && f != fType && an.SameVal(b, chg) {
						reads[n][f] = true
					}
				}
				loadOf := func(v ssa.Value, f *types.Var) bool {
					ok, _ := an.AllRootsX(v, nil, func(r ssa.Value) bool {
						u, ok := r.(*ssa.UnOp)
						if !ok || u.Op != token.MUL {
							return false
						}
						ff, b := an.FieldOf(u.X)
						return ff == f && an.SameVal(b, chg)
					})
					return ok
				}
				for _, r := range rms {
					c.Check(loadOf(an.Args(r)[1], fPath), "O2", "R-FLOW", name, "apply("+n+"):RmLink(c.Path)", r.Pos(), "the removal is addressed by the change's own Path", "RmLink is not called with c.Path of the change being applied")
				}
				for _, i := range ins {
					args := an.Args(i)
					c.Check(loadOf(args[1], fPath), "O2", "R-FLOW", name, "apply("+n+"):Insert(c.Path)", i.Pos(), "the insertion is addressed by the change's own Path", "InsertNodeAtPath is not called with c.Path of the change being applied")
					okNode, _ := an.AllRootsX(args[2], nil, func(r ssa.Value) bool {
						gc, ok := an.IsCallTo(r, an.M("github.com/ipfs/go-ipld-format", "", "Get"))
						return ok && len(an.Args(gc)) == 2 && loadOf(an.Args(gc)[1], fAfter)
					})
					c.Check(okNode, "O2", "R-FLOW", name, "apply("+n+"):Insert(Get(c.After))", i.Pos(), "the inserted node is the one named by c.After",
						"the node inserted for "+n+" is not ds.Get(ctx, c.After) of the change being applied (e.g. c.Before): the result keeps/installs the wrong child")
				}
			}
		}
	}
	c.Min("O1 dispatchers on Change.Type", nDisp, 1)

	// ---------------- O2/O3: the producers (functions building Change literals from two nodes)
	nLit := 0
	for _, fn := range fns {
		var nodeParams []*ssa.Parameter
		for _, pr := range fn.Params {
			if an.TypeIs(pr.Type(), "github.com/ipfs/go-ipld-format", "Node") {
				nodeParams = append(nodeParams, pr)
			}
		}
		var lits []*ssa.Alloc
		an.Instrs(fn, func(in ssa.Instruction) {
			if al, ok := in.(*ssa.Alloc); ok && an.TypeIs(al.Type(), du, "Change") {
				lits = append(lits, al)
			}
		})
		hasRec := false
		for _, call := range an.AllCalls(fn) {
			if an.Callee(call).Static == fn {
				hasRec = true
			}
		}
		if len(lits) == 0 && !(len(nodeParams) == 2 && hasRec) {
			continue
		}
		name := an.FuncName(fn)
		// side provenance is only defined in the two-node producer itself; a literal
		// built in a helper (from a link it is handed) is checked against the field
		// table only
		twoSided := len(nodeParams) == 2
		var pa, pb *ssa.Parameter
		if twoSided {
			pa, pb = nodeParams[0], nodeParams[1]
		}
		side := func(v ssa.Value) (string, bool) {
			if !twoSided {
				return "?", false
			}
			return c14Side(v, pa, pb, map[ssa.Value]bool{})
		}
		prefixStore := false
		for _, pf := range fns { // the re-rooting may live in a sibling function of the package
			for _, st := range an.FieldStores(pf, fPath) {
				if _, isJoin := an.IsCallTo(st.Val, an.M("path", "", "Join")); isJoin {
					prefixStore = true
				}
			}
		}
		for _, st := range an.FieldStores(fn, fPath) {
			_, base := an.FieldOf(st.Addr)
			if !an.IsFresh(base) {
				prefixStore = true
			}
			if _, isJoin := an.IsCallTo(st.Val, an.M("path", "", "Join")); isJoin {
				prefixStore = true // re-rooting (in place or into a copy)
			}
		}
		for _, lit := range lits {
			nLit++
			stores := map[*types.Var]ssa.Value{}
			for _, r := range *lit.Referrers() {
				if fa, ok := r.(*ssa.FieldAddr); ok {
					f, _ := an.FieldOf(fa)
					for _, r2 := range *fa.Referrers() {
						if st, ok := r2.(*ssa.Store); ok && st.Addr == fa {
							stores[f] = st.Val
						}
					}
				}
			}
			// copies of an existing Change (whole-struct store, or Type taken over from
			// another Change) are not producers: the original literal is checked
			isCopy := false
			for _, r := range *lit.Referrers() {
				if st, ok := r.(*ssa.Store); ok && st.Addr == ssa.Value(lit) {
					isCopy = true
				}
			}
			kv := constant.MakeInt64(0)
			if tv, ok := stores[fType]; ok {
				k, isK := an.ConstOf(tv)
				if !isK {
					if u, isLoad := tv.(*ssa.UnOp); isLoad {
						if f, _ := an.FieldOf(u.X); f == fType {
							isCopy = true
						}
					}
					if !isCopy {
						c.Bad("O2", "R-TABLE", name, "literal.Type", lit.Pos(), "a Change literal has a non-constant Type; the producer/consumer table cannot be decided")
						continue
					}
				} else {
					kv = k
				}
			}
			if isCopy {
				continue
			}
			kn := nameOf(kv)
			// O2 fields needed by the applier
			var missing []string
			for f := range reads[kn] {
				if _, ok := stores[f]; !ok && !(f == fPath && prefixStore && kn == "Mod") {
					missing = append(missing, f.Name())
				}
			}
			sort.Strings(missing)
			c.Check(len(missing) == 0, "O2", "R-TABLE", name, "literal("+kn+") sets fields read by ApplyChange", lit.Pos(),
				"every field ApplyChange reads for "+kn+" is set by this literal", "a "+kn+" change is produced without the field(s) "+joinStr(missing)+" that ApplyChange reads for it")
			// O3 sides
			chk := func(f *types.Var, want string, needCopy bool) {
				if !twoSided {
					return
				}
				v, ok := stores[f]
				if !ok {
					c.Bad("O3", "R-FLOW", name, "literal("+kn+")."+f.Name(), lit.Pos(), "a "+kn+" change is produced without "+f.Name())
					return
				}
				s, viaCopy := side(v)
				c.Check(s == want && (!needCopy || viaCopy), "O3", "R-FLOW", name, "literal("+kn+")."+f.Name()+"<-"+want, lit.Pos(),
					f.Name()+" of a "+kn+" change comes from node "+want, f.Name()+" of a "+kn+" change derives from side '"+s+"' (cleaned copy="+boolStr(viaCopy)+"), expected side "+want+
						map[bool]string{true: " through the cleaned copy (links still unmatched)", false: ""}[needCopy]+": the diff describes the wrong transformation")
			}
			switch kn {
			case "Remove":
				chk(fBefore, "a", true)
				chk(fPath, "a", true)
			case "Add":
				chk(fAfter, "b", true)
				chk(fPath, "b", true)
			case "Mod":
				chk(fBefore, "a", false)
				chk(fAfter, "b", false)
			}
		}
		if !twoSided {
			continue
		}
		// recursion argument order
		for _, call := range an.AllCalls(fn) {
			if an.Callee(call).Static != fn {
				continue
			}
			args := call.Common().Args
			ia, ib := c14ParamIndex(fn, pa), c14ParamIndex(fn, pb)
			sa, _ := side(args[ia])
			sb, _ := side(args[ib])
			c.Check(sa == "a" && sb == "b", "O3", "R-FLOW", name, "recursion(a-side,b-side)", call.Pos(), "the recursive diff compares a's child with b's child in that order",
				"the recursive Diff is called with ("+sa+"-side, "+sb+"-side) nodes: nested changes are reversed or compare a node with itself")
			// results are prefixed and appended
			sub := an.Result(call, 0)
			isSub := func(v ssa.Value) bool {
				ok, _ := an.AllRootsX(v, nil, func(r ssa.Value) bool {
					for _, s := range sub {
						if r == s {
							return true
						}
					}
					return false
				})
				return ok
			}
			appended := false
			for _, ap := range an.Calls(fn, an.M("builtin", "", "append")) {
				if a := ap.Common().Args; len(a) == 2 && isSub(a[1]) {
					appended = true
					for _, r := range an.RootsX(a[1], &an.FlowOpts{StopAt: func(x ssa.Value) bool { _, isSl := x.(*ssa.Slice); return isSl }}) {
						if sl, isSl := r.(*ssa.Slice); isSl && (sl.Low != nil || sl.High != nil) {
							c.Bad("O3", "R-FLOW", name, "append(out, sub...) whole", ap.Pos(), "only a sub-slice of the changes returned by the recursive Diff is appended: some nested changes are lost")
						}
					}
				}
			}
			// alternative: every nested change is re-rooted by building a new Change
			// from it (no in-place mutation); the copies are what is appended
			fromSubElem := func(v ssa.Value, fld *types.Var) ssa.Value {
				u, ok := v.(*ssa.UnOp)
				if !ok || u.Op != token.MUL {
					return nil
				}
				f, b := an.FieldOf(u.X)
				if f != fld {
					return nil
				}
				el, ok := b.(*ssa.UnOp)
				if !ok {
					return nil
				}
				ia, ok := el.X.(*ssa.IndexAddr)
				if !ok || !isSub(ia.X) {
					return nil
				}
				return b
			}
			var rerooted []*ssa.Alloc
			an.Instrs(fn, func(in ssa.Instruction) {
				st, ok := in.(*ssa.Store)
				if !ok {
					return
				}
				fa, ok := st.Addr.(*ssa.FieldAddr)
				if !ok {
					return
				}
				al, ok := fa.X.(*ssa.Alloc)
				if f, _ := an.FieldOf(fa); !ok || f != fPath {
					return
				}
				jc, ok := an.IsCallTo(st.Val, an.M("path", "", "Join"))
				if !ok {
					return
				}
				el2 := c14VarargInOrder(jc.Call.Args[0])
				if len(el2) == 2 && c14IsLinkName(el2[0]) && fromSubElem(el2[1], fPath) != nil {
					rerooted = append(rerooted, al)
				}
			})
			for _, ap := range an.Calls(fn, an.M("builtin", "", "append")) {
				if a := ap.Common().Args; len(a) == 2 {
					for _, e := range c14VarargInOrder(a[1]) {
						for _, al := range rerooted {
							if e == ssa.Value(al) {
								appended = true
							}
						}
					}
				}
			}
			c.Check(appended, "O3", "R-FLOW", name, "append(out, sub...)", call.Pos(), "nested changes are appended to the result", "the changes returned by the recursive Diff are never appended to the result: nested modifications are lost")
			okPrefix := false
			for _, st := range an.FieldStores(fn, fPath) {
				_, base := an.FieldOf(st.Addr)
				el, ok := base.(*ssa.UnOp)
				if !ok {
					continue
				}
				ia, ok := el.X.(*ssa.IndexAddr)
				if !ok || !isSub(ia.X) {
					continue
				}
				jc, ok := an.IsCallTo(st.Val, an.M("path", "", "Join"))
				if !ok {
					continue
				}
				el2 := c14VarargInOrder(jc.Call.Args[0])
				if len(el2) == 2 && c14IsLinkName(el2[0]) && an.SameVal(c14LoadBase(el2[1], fPath), base) {
					okPrefix = true
					// the loop covers every sub-change and runs before the append
					whole := c13IsRangeIndex(ia.Index, ia.X)
					for _, r := range an.RootsX(ia.X, &an.FlowOpts{StopAt: func(x ssa.Value) bool { _, isSl := x.(*ssa.Slice); return isSl }}) {
						if _, isSl := r.(*ssa.Slice); isSl {
							whole = false
						}
					}
					before := whole
					if whole {
						header := c13LoopHeader(ia.Index)
						blocked := map[ssa.Instruction]bool{header.Instrs[0]: true}
						for _, ap := range an.Calls(fn, an.M("builtin", "", "append")) {
							if a := ap.Common().Args; len(a) == 2 && isSub(a[1]) && an.Reaches(fn, call, ap, nil, blocked) {
								before = false
							}
						}
					}
					c.Check(whole && before, "O3", "R-POST", name, "every sub-change re-rooted before append", st.Pos(), "the re-rooting loop ranges over all nested changes and precedes the append",
						"the loop that prefixes nested changes with the link name does not cover every returned change (sub-slice / hand-written bounds) or the changes are appended before it ran: some nested changes keep a path relative to the child and are applied at the wrong level")
				}
			}
			if len(rerooted) > 0 {
				okPrefix = true
			}
			c.Check(okPrefix, "O3", "R-FLOW", name, "sub.Path=Join(link.Name, sub.Path)", call.Pos(), "nested changes are re-rooted under the link name",
				"the paths of nested changes are not rewritten to path.Join(<link name>, c.Path): ApplyChange would apply them at the wrong level")
		}
		// matched names removed from both copies on the ResolveLink nil-edge
		var rmSides []string
		for _, rc := range an.Calls(fn, an.M("ipld/merkledag", "ProtoNode", "RemoveNodeLink")) {
			s, viaCopy := side(an.Recv(rc))
			if !viaCopy {
				c.Bad("O3", "R-FLOW", name, "RemoveNodeLink on input node", rc.Pos(), "Diff removes links from an input node itself instead of its copy: the caller's nodes are mutated")
				continue
			}
			rmSides = append(rmSides, s)
			guarded := false
			for _, rl := range an.AllCalls(fn) {
				if an.Callee(rl).Name == "ResolveLink" && an.Dominates(rl, rc) && an.OnNilEdgeOf(fn, rl, rc) {
					if sr, _ := side(an.Recv(rl)); sr == "b" {
						guarded = true
					}
				}
			}
			c.Check(guarded, "O3", "R-DOM", name, "RemoveNodeLink("+s+")<=b.ResolveLink ok", rc.Pos(), "a name is struck from the copies only where b has a link of that name",
				"RemoveNodeLink on the "+s+"-side copy is reachable although b.ResolveLink(name) failed: links only present in a would not be reported as removed")
		}
		sort.Strings(rmSides)
		if len(rmSides) == 0 {
			c.Note("C14 O3: %s strikes matched names through a helper; the both-copies pairing is not decided", name)
		} else {
			c.Check(len(rmSides) == 2 && rmSides[0] == "a" && rmSides[1] == "b", "O3", "R-PAIR", name, "RemoveNodeLink on both copies", fn.Pos(),
				"matched names are removed from both cleaned copies", "matched link names are not removed from both copies (sides: "+joinStr(rmSides)+"): unchanged or modified entries are additionally reported as added/removed")
		}
		// empty diff for equal CIDs
		okEq, sawEq := false, false
		for _, b := range fn.Blocks {
			ifi, ok := b.Instrs[len(b.Instrs)-1].(*ssa.If)
			if !ok {
				continue
			}
			bo, ok := ifi.Cond.(*ssa.BinOp)
			if !ok || bo.Op != token.EQL || !c12IsCid(bo.X.Type()) {
				continue
			}
			if _, isCidCall := an.IsCallTo(bo.X, an.M("", "", "Cid")); !isCidCall {
				continue
			}
			sx, _ := side(bo.X)
			sy, _ := side(bo.Y)
			if (sx != "a" && sx != "b") || (sy != "a" && sy != "b") {
				continue // not a comparison of the two input nodes
			}
			sawEq = true
			if sx == sy {
				continue // compares a node with itself
			}
			tb := b.Succs[0]
			if r, ok := tb.Instrs[len(tb.Instrs)-1].(*ssa.Return); ok && len(r.Results) == 2 && an.IsNilConst(r.Results[1]) && c14IsEmptySlice(r.Results[0]) {
				okEq = true
			}
		}
		if !sawEq {
			c.Note("C14 O3: %s has no a.Cid()==b.Cid() test of its own (moved into a helper); empty-diff rule not decided", name)
		} else {
			c.Check(okEq, "O3", "R-DOM", name, "a.Cid()==b.Cid()=>empty", fn.Pos(), "equal CIDs yield the empty diff", "Diff no longer returns an empty change list on the a.Cid()==b.Cid() edge (Diff(a,a) must be empty)")
		}
	}
	c.Min("O2/O3 Change literals in diff producers", nLit, 1)

	// ---------------- O5 every element is processed: the loops of the applier over
	// the change list and of the producers over link lists range over the whole
	// slice and are only left by returning (no break)
	nLoops := 0
	for _, fn := range fns {
		isApplier := len(an.Calls(fn, mInsert, mRm)) > 0
		hasLit := false
		an.Instrs(fn, func(in ssa.Instruction) {
			if al, ok := in.(*ssa.Alloc); ok && an.TypeIs(al.Type(), du, "Change") {
				hasLit = true
			}
		})
		if !isApplier && !hasLit {
			continue
		}
		an.Instrs(fn, func(in ssa.Instruction) {
			ia, ok := in.(*ssa.IndexAddr)
			if !ok {
				return
			}
			sl, ok := ia.X.Type().Underlying().(*types.Slice)
			if !ok || !(an.TypeIs(sl.Elem(), du, "Change") || an.TypeIs(sl.Elem(), "github.com/ipfs/go-ipld-format", "Link")) {
				return
			}
			header := c13LoopHeader(ia.Index)
			if header == nil || c13LoopIndex(ia.Index, ia.X) == "" && !func() bool {
				// a loop index over a sub-slice is still a loop: detect by shape only
				_, isPhiIdx := ia.Index.(*ssa.Phi)
				_, isBin := ia.Index.(*ssa.BinOp)
				return isPhiIdx || isBin
			}() {
				return
			}
			nLoops++
			name := an.FuncName(fn)
			whole := c13LoopIndex(ia.Index, ia.X) == "whole"
			for _, r := range an.RootsX(ia.X, &an.FlowOpts{StopAt: func(x ssa.Value) bool { _, isSl := x.(*ssa.Slice); return isSl }}) {
				if s2, isSl := r.(*ssa.Slice); isSl && (s2.Low != nil || s2.High != nil) {
					whole = false
				}
			}
			c.Check(whole, "O5", "R-POST", name, "loop over the whole list", ia.Pos(), "the loop visits every change / link of the list",
				"a loop over the changes to apply / the links to compare does not range over the whole list (sub-slice or shortened bounds): some changes are never applied or some links never compared")
			if len(header.Succs) == 2 {
				done := header.Succs[1]
				early := false
				for _, pb := range done.Preds {
					if pb != header && header.Dominates(pb) {
						early = true
					}
				}
				c.Check(!early, "O5", "R-POST", name, "no early exit from the list loop", ia.Pos(), "the loop is only left when the list is exhausted or by returning",
					"a loop over the changes / links can be left by break: the remaining changes are not applied / the remaining links not diffed, the applied result differs from the target")
			}
		})
	}
	c.Min("O5 loops over change / link lists", nLoops, 1)

	// ---------------- O4 ownership: a *Change that is modified in place must be
	// uniquely owned by the current activation
	own := &c14Own{pkg: pk.PkgPath, du: du, memo: map[*ssa.Function]string{}, busy: map[*ssa.Function]bool{}}
	nInPlace := 0
	for _, fn := range fns {
		for _, fld := range []*types.Var{fPath, fBefore, fAfter, fType} {
			for _, st := range an.FieldStores(fn, fld) {
				_, base := an.FieldOf(st.Addr)
				if an.IsFresh(base) {
					continue
				}
				nInPlace++
				why := own.elem(fn, base, map[ssa.Value]bool{})
				c.Check(why == "", "O4", "R-OWN", an.FuncName(fn), "in-place Change."+fld.Name()+" on an owned object", st.Pos(),
					"the Change modified in place comes from a freshly built result (own literal / result of a call whose every return is freshly built and not retained)",
					"Change."+fld.Name()+" is overwritten in place on an object that this activation does not own exclusively ("+why+"): the same *Change can be reached through a cache/map/shared slice, so it is re-prefixed on every reuse (doubly-prefixed paths when one sub-directory appears under two names) and ApplyChange is addressed to the wrong level")
			}
		}
	}
	if nInPlace == 0 {
		c.Note("C14 O4: no Change is modified in place (re-rooting builds new objects); ownership rule not engaged")
	}
}

func boolStr(b bool) string {
	if b {
		return "yes"
	}
	return "no"
}

func joinStr(xs []string) string {
	out := ""
	for i, x := range xs {
		if i > 0 {
			out += ","
		}
		out += x
	}
	if out == "" {
		return "-"
	}
	return out
}

func c14ParamIndex(fn *ssa.Function, p *ssa.Parameter) int {
	for i, q := range fn.Params {
		if q == p {
			return i
		}
	}
	return -1
}

// c14Side: which input node ("a"/"b") a value derives from, through the
// node/link accessors; viaCopy reports whether it passes through Copy().
// Values parked in fields of a local struct are followed field-sensitively,
// and package-local helpers are followed with their parameters bound to the
// actual arguments (e.g. `pair := linkPair{before: la, after: lb}; pair.nodes()`).
func c14Side(v ssa.Value, pa, pb *ssa.Parameter, seen map[ssa.Value]bool) (string, bool) {
	ev := &c14SideEval{pa: pa, pb: pb}
	return ev.side(v, nil, seen, 0)
}

type c14Bound struct {
	val ssa.Value
	env map[*ssa.Parameter]c14Bound
}

type c14SideEval struct{ pa, pb *ssa.Parameter }

func (ev *c14SideEval) merge(vs []ssa.Value, env map[*ssa.Parameter]c14Bound, seen map[ssa.Value]bool, d int) (string, bool) {
	s, cp, first := "", false, true
	for _, x := range vs {
		if _, isK := x.(*ssa.Const); isK {
			continue
		}
		if seen[x] {
			continue
		}
		xs, xc := ev.side(x, env, seen, d+1)
		if first {
			s, cp, first = xs, xc, false
		} else if xs != s {
			return "?", false
		} else {
			cp = cp && xc
		}
	}
	return s, cp
}

// structCell resolves the struct object behind a field access: a local struct
// cell with field stores, or the caller's cell when the struct arrived by value
// through a bound parameter.
func (ev *c14SideEval) structCell(base ssa.Value, env map[*ssa.Parameter]c14Bound, d int) (*ssa.Alloc, map[*ssa.Parameter]c14Bound, bool) {
	if d > 6 {
		return nil, nil, false
	}
	switch x := base.(type) {
	case *ssa.Alloc:
		hasField := false
		var whole []ssa.Value
		for _, r := range *x.Referrers() {
			switch y := r.(type) {
			case *ssa.FieldAddr:
				for _, r2 := range *y.Referrers() {
					if st, ok := r2.(*ssa.Store); ok && st.Addr == ssa.Value(y) {
						hasField = true
					}
				}
			case *ssa.Store:
				if y.Addr == ssa.Value(x) {
					whole = append(whole, y.Val)
				}
			}
		}
		if hasField && len(whole) == 0 {
			return x, env, true
		}
		if len(whole) == 1 {
			return ev.structCell(whole[0], env, d+1)
		}
	case *ssa.UnOp:
		if x.Op == token.MUL {
			return ev.structCell(x.X, env, d+1)
		}
	case *ssa.Parameter:
		if b, ok := env[x]; ok {
			return ev.structCell(b.val, b.env, d+1)
		}
	}
	return nil, nil, false
}

func (ev *c14SideEval) side(v ssa.Value, env map[*ssa.Parameter]c14Bound, seen map[ssa.Value]bool, d int) (string, bool) {
	if v == nil || seen[v] || d > 40 {
		return "", false
	}
	seen[v] = true
	fieldOf := func(base ssa.Value, field int) (string, bool, bool) {
		if cell, cenv, ok := ev.structCell(base, env, 0); ok {
			vals, whole := an.LocalFieldStores(cell, field)
			if !whole && len(vals) > 0 {
				s, c := ev.merge(vals, cenv, seen, d)
				return s, c, true
			}
		}
		return "", false, false
	}
	switch x := v.(type) {
	case *ssa.Parameter:
		switch x {
		case ev.pa:
			return "a", false
		case ev.pb:
			return "b", false
		}
		if b, ok := env[x]; ok {
			return ev.side(b.val, b.env, seen, d+1)
		}
		return "?", false
	case *ssa.Call:
		r := an.Recv(x)
		switch an.Callee(x).Name {
		case "Copy":
			if r != nil {
				s, _ := ev.side(r, env, seen, d+1)
				return s, true
			}
		case "Links", "Cid", "ResolveLink", "GetNode", "RawData", "String":
			if r != nil {
				return ev.side(r, env, seen, d+1)
			}
		}
		return ev.viaHelper(x, 0, env, seen, d)
	case *ssa.Extract:
		if call, ok := x.Tuple.(*ssa.Call); ok {
			switch an.Callee(call).Name {
			case "Copy", "Links", "Cid", "ResolveLink", "GetNode", "RawData", "String":
			default:
				if h := call.Common().StaticCallee(); h != nil && len(h.Blocks) > 0 {
					return ev.viaHelper(call, x.Index, env, seen, d)
				}
			}
		}
		return ev.side(x.Tuple, env, seen, d+1)
	case *ssa.TypeAssert:
		return ev.side(x.X, env, seen, d+1)
	case *ssa.UnOp:
		if x.Op == token.MUL {
			if fa, ok := x.X.(*ssa.FieldAddr); ok {
				if s, c, ok := fieldOf(fa.X, fa.Field); ok {
					return s, c
				}
			}
			if al, ok := x.X.(*ssa.Alloc); ok {
				var vals []ssa.Value
				for _, r := range *al.Referrers() {
					if st, ok := r.(*ssa.Store); ok && st.Addr == al {
						vals = append(vals, st.Val)
					}
				}
				return ev.merge(vals, env, seen, d)
			}
			return ev.side(x.X, env, seen, d+1)
		}
	case *ssa.IndexAddr:
		return ev.side(x.X, env, seen, d+1)
	case *ssa.FieldAddr:
		if s, c, ok := fieldOf(x.X, x.Field); ok {
			return s, c
		}
		return ev.side(x.X, env, seen, d+1)
	case *ssa.Field:
		if s, c, ok := fieldOf(x.X, x.Field); ok {
			return s, c
		}
		return ev.side(x.X, env, seen, d+1)
	case *ssa.Slice:
		return ev.side(x.X, env, seen, d+1)
	case *ssa.ChangeType:
		return ev.side(x.X, env, seen, d+1)
	case *ssa.MakeInterface:
		return ev.side(x.X, env, seen, d+1)
	case *ssa.ChangeInterface:
		return ev.side(x.X, env, seen, d+1)
	case *ssa.Phi:
		return ev.merge(x.Edges, env, seen, d)
	}
	return "?", false
}

// viaHelper: result #idx of a call of a function with a body (a helper of the
// tree): the side of what the helper returns there, parameters bound to the
// actual arguments.
func (ev *c14SideEval) viaHelper(call *ssa.Call, idx int, env map[*ssa.Parameter]c14Bound, seen map[ssa.Value]bool, d int) (string, bool) {
	h := call.Common().StaticCallee()
	if h == nil || len(h.Blocks) == 0 || d > 20 {
		return "?", false
	}
	nenv := map[*ssa.Parameter]c14Bound{}
	for i, hp := range h.Params {
		if i < len(call.Call.Args) {
			nenv[hp] = c14Bound{call.Call.Args[i], env}
		}
	}
	var vals []ssa.Value
	for _, r := range an.Returns(h) {
		if idx < len(r.Results) {
			vals = append(vals, r.Results[idx])
		}
	}
	if len(vals) == 0 {
		return "?", false
	}
	return ev.merge(vals, nenv, map[ssa.Value]bool{}, d+1)
}

// c14VarargInOrder returns the elements of a call-site variadic slice in index order.
func c14VarargInOrder(v ssa.Value) []ssa.Value {
	sl, ok := v.(*ssa.Slice)
	if !ok {
		return nil
	}
	al, ok := sl.X.(*ssa.Alloc)
	if !ok {
		return nil
	}
	byIdx := map[int64]ssa.Value{}
	n := int64(0)
	for _, r := range *al.Referrers() {
		ia, ok := r.(*ssa.IndexAddr)
		if !ok {
			continue
		}
		k, ok := an.ConstOf(ia.Index)
		if !ok {
			return nil
		}
		i, _ := constant.Int64Val(k)
		for _, r2 := range *ia.Referrers() {
			if st, ok := r2.(*ssa.Store); ok && st.Addr == ia {
				byIdx[i] = st.Val
				if i+1 > n {
					n = i + 1
				}
			}
		}
	}
	out := make([]ssa.Value, 0, n)
	for i := int64(0); i < n; i++ {
		if byIdx[i] == nil {
			return nil
		}
		out = append(out, byIdx[i])
	}
	return out
}

func c14IsLinkName(v ssa.Value) bool {
	u, ok := v.(*ssa.UnOp)
	if !ok || u.Op != token.MUL {
		return false
	}
	f, b := an.FieldOf(u.X)
	return f != nil && f.Name() == "Name" && an.TypeIs(b.Type(), "github.com/ipfs/go-ipld-format", "Link")
}

func c14LoadBase(v ssa.Value, fld *types.Var) ssa.Value {
	u, ok := v.(*ssa.UnOp)
	if !ok || u.Op != token.MUL {
		return nil
	}
	f, b := an.FieldOf(u.X)
	if f != fld {
		return nil
	}
	return b
}

func c14IsEmptySlice(v ssa.Value) bool {
	if an.IsNilConst(v) {
		return true
	}
	switch x := v.(type) {
	case *ssa.Slice:
		if al, ok := x.X.(*ssa.Alloc); ok {
			if pt, ok := al.Type().Underlying().(*types.Pointer); ok {
				if at, ok := pt.Elem().Underlying().(*types.Array); ok {
					return at.Len() == 0
				}
			}
		}
	case *ssa.MakeSlice:
		return an.IsIntConst(0)(x.Len)
	}
	return false
}

// c14ReachesCall: the body of g (a function of the analysed tree), or of a
// function it statically calls (up to depth), contains a call matching m.
func c14ReachesCall(g *ssa.Function, m an.Matcher, depth int) bool {
	if g == nil || len(g.Blocks) == 0 || depth < 0 {
		return false
	}
	for _, h := range an.WithClosures(g) {
		for _, call := range an.AllCalls(h) {
			ci := an.Callee(call)
			if m.Match(ci) {
				return true
			}
			if ci.Static != nil && ci.Static != g && c14ReachesCall(ci.Static, m, depth-1) {
				return true
			}
		}
	}
	return false
}

// ---- ownership of *Change objects (O4)

type c14Own struct {
	pkg, du string
	memo    map[*ssa.Function]string // function -> "" (every return owned) or the reason it is not
	busy    map[*ssa.Function]bool
}

func (o *c14Own) local(g *ssa.Function) bool {
	return g != nil && len(g.Blocks) > 0 && g.Pkg != nil && g.Pkg.Pkg.Path() == o.pkg
}

// returns: "" when every slice/pointer result #0 of g is freshly built and not retained.
func (o *c14Own) returns(g *ssa.Function) string {
	if why, ok := o.memo[g]; ok {
		return why
	}
	if o.busy[g] {
		return "" // recursion: owned by induction
	}
	o.busy[g] = true
	why := ""
	for _, r := range an.Returns(g) {
		if len(r.Results) == 0 {
			continue
		}
		v := r.Results[0]
		var w string
		if _, isSlice := v.Type().Underlying().(*types.Slice); isSlice {
			w = o.slice(g, v, map[ssa.Value]bool{})
		} else {
			w = o.elemValue(g, v, map[ssa.Value]bool{})
		}
		if w != "" && why == "" {
			why = an.FuncName(g) + " can return " + w
		}
	}
	o.busy[g] = false
	o.memo[g] = why
	return why
}

// retained: the value is also stored somewhere that outlives the activation.
func (o *c14Own) retained(v ssa.Value) string {
	refs := v.Referrers()
	if refs == nil {
		return ""
	}
	for _, r := range *refs {
		switch x := r.(type) {
		case *ssa.MapUpdate:
			if x.Value == v {
				return "a result that is also kept in a map (" + an.ShowPath(x.Map) + ")"
			}
		case *ssa.Store:
			if x.Val != v {
				continue
			}
			switch a := x.Addr.(type) {
			case *ssa.Alloc:
				_ = a
			case *ssa.IndexAddr:
				if _, fresh := a.X.(*ssa.Alloc); !fresh {
					return "a result that is also stored into shared memory"
				}
			default:
				return "a result that is also stored into a field/global (" + an.ShowPath(x.Addr) + ")"
			}
		}
	}
	return ""
}

// slice: "" when the []*Change value v (in fn) is built from owned elements only.
func (o *c14Own) slice(fn *ssa.Function, v ssa.Value, seen map[ssa.Value]bool) string {
	if v == nil || seen[v] {
		return ""
	}
	seen[v] = true
	if w := o.retained(v); w != "" {
		return w
	}
	switch x := v.(type) {
	case *ssa.Const:
		return ""
	case *ssa.MakeSlice:
		return ""
	case *ssa.Phi:
		for _, e := range x.Edges {
			if w := o.slice(fn, e, seen); w != "" {
				return w
			}
		}
		return ""
	case *ssa.Slice:
		if al, ok := x.X.(*ssa.Alloc); ok { // slice literal / variadic pack
			for _, r := range *al.Referrers() {
				if ia, ok := r.(*ssa.IndexAddr); ok {
					for _, r2 := range *ia.Referrers() {
						if st, ok := r2.(*ssa.Store); ok && st.Addr == ia {
							if w := o.elemValue(fn, st.Val, seen); w != "" {
								return w
							}
						}
					}
				}
			}
			return ""
		}
		return o.slice(fn, x.X, seen)
	case *ssa.Extract:
		if call, ok := x.Tuple.(*ssa.Call); ok && x.Index == 0 {
			return o.call(call)
		}
		if l, ok := x.Tuple.(*ssa.Lookup); ok {
			return "changes loaded from a map (" + an.ShowPath(l.X) + ")"
		}
	case *ssa.Call:
		if an.Callee(x).Builtin == "append" && len(x.Call.Args) == 2 {
			if w := o.slice(fn, x.Call.Args[0], seen); w != "" {
				return w
			}
			return o.slice(fn, x.Call.Args[1], seen)
		}
		return o.call(x)
	case *ssa.UnOp:
		if x.Op == token.MUL {
			if al, ok := x.X.(*ssa.Alloc); ok { // local variable cell
				for _, r := range *al.Referrers() {
					if st, ok := r.(*ssa.Store); ok && st.Addr == al {
						if w := o.slice(fn, st.Val, seen); w != "" {
							return w
						}
					}
				}
				return ""
			}
		}
	case *ssa.Lookup:
		return "changes loaded from a map (" + an.ShowPath(x.X) + ")"
	case *ssa.Parameter:
		return "changes received as a parameter (" + x.Name() + ")"
	}
	return "changes loaded from " + an.ShowPath(v)
}

func (o *c14Own) call(call *ssa.Call) string {
	g := call.Common().StaticCallee()
	if !o.local(g) {
		return "the result of a call the rule cannot follow (" + an.Callee(call).String() + ")"
	}
	return o.returns(g)
}

// elemValue: "" when the *Change value is a fresh literal, the result of a
// local constructor, or an element of an owned slice.
func (o *c14Own) elemValue(fn *ssa.Function, v ssa.Value, seen map[ssa.Value]bool) string {
	if v == nil || seen[v] {
		return ""
	}
	seen[v] = true
	switch x := v.(type) {
	case *ssa.Alloc:
		return ""
	case *ssa.Const:
		return ""
	case *ssa.Phi:
		for _, e := range x.Edges {
			if w := o.elemValue(fn, e, seen); w != "" {
				return w
			}
		}
		return ""
	case *ssa.Call:
		return o.call(x)
	case *ssa.Extract:
		if call, ok := x.Tuple.(*ssa.Call); ok {
			return o.call(call)
		}
	case *ssa.UnOp:
		if x.Op == token.MUL {
			switch a := x.X.(type) {
			case *ssa.IndexAddr:
				return o.slice(fn, a.X, seen)
			case *ssa.Alloc:
				for _, r := range *a.Referrers() {
					if st, ok := r.(*ssa.Store); ok && st.Addr == a {
						if w := o.elemValue(fn, st.Val, seen); w != "" {
							return w
						}
					}
				}
				return ""
			}
		}
	case *ssa.Lookup:
		return "a change loaded from a map (" + an.ShowPath(x.X) + ")"
	case *ssa.Parameter:
		return "a change received as a parameter (" + x.Name() + ")"
	}
	return "a change loaded from " + an.ShowPath(v)
}

// elem: ownership of the object whose field is stored to in place.
func (o *c14Own) elem(fn *ssa.Function, base ssa.Value, seen map[ssa.Value]bool) string {
	return o.elemValue(fn, base, seen)
}
