package props

import (
	"fmt"
	"go/constant"
	"go/token"
	"go/types"
	"sort"
	"strings"

	"golang.org/x/tools/go/ssa"

	"verif/checker/an"
)

func init() {
	register("C13", Prop{
		Pkgs: []string{"./dag/walker", "./ipld/unixfs/pb"},
		Explain: "Decided (structural necessary conditions of 'each reachable CID emitted once, pre-order, only if local'): " +
			"O1 in the walk loop every emit(c) is reached, within the iteration that popped c, only across: tracker.Visit(c)==true (or tracker==nil), locality(ctx,c)==(true,nil) (or locality==nil), fetch(ctx,c) err==nil, and c.Prefix().MhType != IDENTITY; fetch(c) itself is guarded by the Visit and locality edges (no fetch/descend of deduplicated or non-local CIDs); " +
			"O2 the children returned by fetch are reversed (slices.Reverse) before they are appended to the stack, and the next CID is popped from the top of the stack (index len-1): depth-first pre-order with children in link order; " +
			"O3 every map key / bloom key used by Visit and Has of the VisitedTracker implementations of the package is c.Hash() of the method's CID; Visit returns true only after inserting and false only where presence was observed; once presence was observed the opposite answer is unreachable; " +
			"O4 BloomTracker.chain is append-only (stores are the constructor literal or append(bt.chain, ...)), no element is overwritten, Has consults every filter of the chain and Visit consults chain[:len-1] plus chain[len-1], and all loads of bt.chain feeding those probes see one state of the chain (no grow()/append between two of them); " +
			"O5 WalkEntityRoots returns no children exactly for EntityFile and EntitySymlink (decided per enumerator), and detectEntityType maps the UnixFS data types to entity types by the fixed table (File,Raw=>File; Directory=>Directory; HAMTShard=>HAMTShard; Symlink=>Symlink; others=>Unknown). " +
			"O6 the link extractor (function switching on ipld.Node.Kind()) appends the CID for Kind_Link and recurses into the values for Kind_Map and Kind_List (decided per enumerator), so links nested in maps/lists are reachable; the push of fetched children is not guarded by the identity-CID skip. " +
			"NOT decided: equality of the emitted sequence with a reference DFS, bloom false-positive rate, link extraction order inside collectLinks (ipld-prime iteration).",
		Assume:    []string{"bbloom.Bloom.Has/AddIfNotHas never report an added key as absent", "slices.Reverse and append behave as specified"},
		Technique: "SSA rules: edge dominance per loop iteration (R-DOM), must-precede (R-POST), key provenance (R-FLOW), append-only field (R-WHO), abstract execution per enumerator (R-EXH)",
		Run:       runC13,
	})
}

func runC13(c *an.Ctx) {
	p := c.P
	const wk = "dag/walker"
	pk := p.Pkg(wk)
	if !c.Need(pk != nil, "package dag/walker") {
		return
	}
	// unexported anchors by role: the config struct is what the exported Option
	// type func(*T) configures; its tracker field has the VisitedTracker interface
	// type, its locality field the func(ctx, cid) (bool, error) type; the filter
	// chain is the []*bbloom.Bloom field of the exported BloomTracker
	var fTracker, fLocality, fChain *types.Var
	if cfgT := c12OptionStruct(p, wk, "Option"); cfgT != nil {
		cst := cfgT.Underlying().(*types.Struct)
		for i := 0; i < cst.NumFields(); i++ {
			f := cst.Field(i)
			if an.TypeIs(f.Type(), wk, "VisitedTracker") {
				fTracker = f
			}
			if sig, ok := f.Type().Underlying().(*types.Signature); ok && sig.Params().Len() == 2 && sig.Results().Len() == 2 && c12IsCid(sig.Params().At(1).Type()) && an.IsErrorType(sig.Results().At(1).Type()) {
				if b, ok := sig.Results().At(0).Type().Underlying().(*types.Basic); ok && b.Kind() == types.Bool {
					fLocality = f
				}
			}
		}
	}
	if bt := p.Named(wk, "BloomTracker"); bt != nil {
		if bst, ok := bt.Underlying().(*types.Struct); ok {
			for i := 0; i < bst.NumFields(); i++ {
				f := bst.Field(i)
				if sl, ok := f.Type().Underlying().(*types.Slice); ok && an.TypeIs(sl.Elem(), "github.com/ipfs/bbloom", "Bloom") {
					fChain = f
				}
			}
		}
	}
	if !c.Need(fTracker != nil && fLocality != nil && fChain != nil, "dag/walker: tracker and locality fields of the struct configured by Option, []*bbloom.Bloom field of BloomTracker") {
		return
	}
	fns := p.PkgFuncs(wk)
	mVisit := an.M(wk, "VisitedTracker", "Visit")

	// ---------------- O1 / O2: the walk loop(s)
	// A walk loop is a function that calls both an emit callback and a fetch
	// callback (function-typed parameters). The gates (tracker, locality,
	// identity) may sit in the loop itself or in a package-local boolean
	// helper called with the popped CID: the helper's true edge establishes a
	// gate when every answer of the helper that can be true is guarded by that
	// gate inside the helper.
	idVal, okID := c13Const(pk.Types, "github.com/multiformats/go-multihash", "IDENTITY")
	if !c.Need(okID, "constant go-multihash.IDENTITY") {
		return
	}
	env := &c13Env{fTracker: fTracker, fLocality: fLocality, idVal: idVal, mVisit: mVisit, pkgPath: pk.PkgPath}
	nEmit, nPush := 0, 0
	for _, fn := range fns {
		var emits, fetches []*ssa.Call
		for _, call := range an.AllCalls(fn) {
			cv := an.CallValue(call)
			if cv == nil || cv.Call.IsInvoke() || an.Callee(call).Fn != nil || an.Callee(call).Static != nil {
				continue
			}
			sig, _ := cv.Call.Value.Type().Underlying().(*types.Signature)
			switch {
			case c12LoadsField(cv.Call.Value, fLocality):
			case c13IsEmitSig(sig) && c13IsParam(cv.Call.Value):
				emits = append(emits, cv)
			case c13IsFetchSig(sig) && c13IsParam(cv.Call.Value):
				fetches = append(fetches, cv)
			}
		}
		if len(emits) == 0 {
			continue
		}
		name := an.FuncName(fn)
		fromOf := func(v ssa.Value) ssa.Instruction {
			if in, ok := v.(ssa.Instruction); ok {
				return in
			}
			return nil
		}
		for _, e := range emits {
			nEmit++
			cv := e.Call.Args[0]
			from := fromOf(cv)
			g := env.gates(fn, cv, 1)
			c.Check(g.nV > 0 && an.GuardedBy(fn, from, e, g.visit), "O1", "R-DOM", name, "emit<=tracker.Visit(c)", e.Pos(),
				"emit(c) is reached only where tracker.Visit(c) returned true (or no tracker is configured)",
				"emit(c) is reachable although tracker.Visit(c) returned false or was never asked for this c: CIDs are emitted more than once (and shared subtrees re-walked)")
			c.Check(g.nL > 0 && an.GuardedBy(fn, from, e, g.local) && an.GuardedBy(fn, from, e, g.localErr), "O1", "R-DOM", name, "emit<=locality(c)==(true,nil)", e.Pos(),
				"emit(c) is reached only where the locality check of c succeeded with true (or none is configured)",
				"emit(c) is reachable although the locality check for c failed, returned false, or was made for another CID: non-local CIDs are emitted")
			if g.nF == 0 {
				c.Note("C13 O1: %s emits a CID it does not fetch itself (fetch moved elsewhere); emit<=fetch not decided", name)
			} else {
				c.Check(an.GuardedBy(fn, from, e, g.fetchNil), "O1", "R-DOM", name, "emit<=fetch(c) err==nil", e.Pos(),
					"emit(c) is reached only where fetch(ctx,c) succeeded", "emit(c) is reachable although fetching c failed (or a different CID was fetched): unavailable blocks are emitted")
			}
			c.Check(len(g.notID) > 0 && an.GuardedBy(fn, from, e, g.notID), "O1", "R-DOM", name, "emit<=MhType!=IDENTITY", e.Pos(),
				"identity CIDs are never emitted", "emit(c) is reachable for identity CIDs (the c.Prefix().MhType == IDENTITY skip does not guard it)")
			if u, ok := cv.(*ssa.UnOp); ok && u.Op == token.MUL {
				if ia, ok := u.X.(*ssa.IndexAddr); ok {
					top := false
					if b, ok := ia.Index.(*ssa.BinOp); ok && b.Op == token.SUB && an.IsIntConst(1)(b.Y) {
						if lc, ok := b.X.(*ssa.Call); ok && an.Callee(lc).Builtin == "len" && an.SameVal(lc.Call.Args[0], ia.X) {
							top = true
						}
					}
					c.Check(top, "O2", "R-FLOW", name, "pop=stack[len-1]", u.Pos(), "the next CID is popped from the top of the stack",
						"the walked CID is not taken from stack[len(stack)-1]: the traversal is no longer depth-first pre-order")
				} else {
					c.Note("C13 O2: emitted CID is not an indexed stack element in %s; LIFO order not decided", name)
				}
			}
		}
		for _, f := range fetches {
			cv := f.Call.Args[1]
			g := env.gates(fn, cv, 1)
			c.Check(g.nV > 0 && an.GuardedBy(fn, fromOf(cv), f, g.visit), "O1", "R-DOM", name, "fetch<=tracker.Visit(c)", f.Pos(),
				"a CID is fetched (and descended) only after tracker.Visit(c) returned true", "fetch(c) is reachable for a CID the tracker reported as already visited: shared subtrees are fetched and pushed again")
			c.Check(g.nL > 0 && an.GuardedBy(fn, fromOf(cv), f, g.local) && an.GuardedBy(fn, fromOf(cv), f, g.localErr), "O1", "R-DOM", name, "fetch<=locality(c)", f.Pos(),
				"a CID is fetched (and descended) only if the locality check passed", "fetch(c) is reachable for a CID that failed the locality check: the walk descends through non-local blocks")
			// O2: pushes of the children: append(stack, children...) preceded by
			// slices.Reverse(children), here or in a push helper that gets the children
			children := an.Result(f, 0)
			isChild := func(v ssa.Value) bool {
				for _, ch := range children {
					if an.SameVal(v, ch) {
						return true
					}
				}
				return false
			}
			rev := map[ssa.Instruction]bool{}
			for _, r := range an.Calls(fn, an.M("slices", "", "Reverse")) {
				if isChild(r.Common().Args[0]) {
					rev[r] = true
				}
			}
			type push struct {
				at     ssa.CallInstruction
				helper bool
				okRev  bool
			}
			var pushes []push
			for _, call := range an.AllCalls(fn) {
				args := call.Common().Args
				if an.Callee(call).Builtin == "append" {
					if len(args) == 2 && isChild(args[1]) {
						pushes = append(pushes, push{call, false, len(rev) > 0 && !an.Reaches(fn, f, call, nil, rev)})
					}
					continue
				}
				h := an.Callee(call).Static
				if h == nil || len(h.Blocks) == 0 || h.Pkg == nil || h.Pkg.Pkg.Path() != pk.PkgPath {
					continue
				}
				for k, a := range args {
					if !isChild(a) || k >= len(h.Params) {
						continue
					}
					hp := h.Params[k]
					hrev := map[ssa.Instruction]bool{}
					for _, r := range an.Calls(h, an.M("slices", "", "Reverse")) {
						if an.SameVal(r.Common().Args[0], hp) {
							hrev[r] = true
						}
					}
					for _, hap := range an.Calls(h, an.M("builtin", "", "append")) {
						if ha := hap.Common().Args; len(ha) == 2 && an.SameVal(ha[1], hp) {
							reversedBefore := (len(hrev) > 0 && !an.Reaches(h, nil, hap, nil, hrev)) || (len(rev) > 0 && !an.Reaches(fn, f, call, nil, rev))
							pushes = append(pushes, push{call, true, reversedBefore})
						}
					}
				}
			}
			for _, pu := range pushes {
				nPush++
				if len(g.notID) > 0 {
					c.Check(an.Reaches(fn, f, pu.at, g.notID, nil), "O2", "R-DOM", name, "children pushed also for identity CIDs", pu.at.Pos(),
						"the children are pushed before/independently of the identity-CID skip",
						"the push of the fetched children is only reachable where c is not an identity CID: the (normal) children of an inlined identity node are never walked, reachable non-identity CIDs are not emitted")
				}
				c.Check(pu.okRev, "O2", "R-POST", name, "Reverse(children)<append(stack,children...)", pu.at.Pos(),
					"children are reversed before being pushed (first link is popped next)",
					"the children returned by fetch are pushed on the stack without slices.Reverse: siblings are visited right-to-left instead of in link order")
			}
		}
	}
	c.Min("O1 emit sites in walk loops", nEmit, 1)
	if nPush == 0 {
		c.Note("C13 O2: no push of fetched children found in a walk loop (moved into a helper the rule does not follow)")
	}

	// ---------------- O3: tracker keys and answers
	iface, _ := pk.Types.Scope().Lookup("VisitedTracker").Type().Underlying().(*types.Interface)
	if !c.Need(iface != nil, "interface walker.VisitedTracker") {
		return
	}
	// implementations: package dag/walker (quick) or every package of the module (thorough)
	type impl struct{ rel, name string }
	var trackers []impl
	for _, lp := range p.Pkgs {
		if lp != pk && c.Tier != "thorough" {
			continue
		}
		rel := strings.TrimPrefix(lp.PkgPath, an.Mod+"/")
		var names []string
		for _, n := range lp.Types.Scope().Names() {
			tn, ok := lp.Types.Scope().Lookup(n).(*types.TypeName)
			if !ok || tn.IsAlias() {
				continue
			}
			if _, isIface := tn.Type().Underlying().(*types.Interface); isIface {
				continue
			}
			if types.Implements(types.NewPointer(tn.Type()), iface) {
				names = append(names, n)
			}
		}
		sort.Strings(names)
		for _, n := range names {
			trackers = append(trackers, impl{rel, n})
		}
	}
	c.Min("VisitedTracker implementations", len(trackers), 1)
	bloomTest := []an.Matcher{an.M("github.com/ipfs/bbloom", "Bloom", "Has"), an.M("github.com/ipfs/bbloom", "Bloom", "HasTS"), an.M("github.com/ipfs/bbloom", "Bloom", "AddIfNotHas"), an.M("github.com/ipfs/bbloom", "Bloom", "AddIfNotHasTS")}
	bloomAdd := []an.Matcher{an.M("github.com/ipfs/bbloom", "Bloom", "Add"), an.M("github.com/ipfs/bbloom", "Bloom", "AddTS")}
	nKeys := 0
	analysed := map[*ssa.Function]bool{}
	var analyse func(fn *ssa.Function, keyOK func(ssa.Value) bool, mname string, depth int)
	analyse = func(fn *ssa.Function, keyOK func(ssa.Value) bool, mname string, depth int) {
		{
			name := an.FuncName(fn)
			var present, inserted an.EdgeSet = an.EdgeSet{}, an.EdgeSet{}
			var insertInstr []ssa.Instruction
			var memberVals []ssa.Value
			checkKey := func(k ssa.Value, what string, pos token.Pos) {
				nKeys++
				c.Check(keyOK(k), "O3", "R-FLOW", name, what+".key=c.Hash()", pos, "the key is the multihash of the CID argument",
					"a visited-set key is not c.Hash() of the method's CID ("+an.ShowPath(k)+"): CIDv0/CIDv1 aliases or different CIDs are confused, previously visited CIDs can be reported unvisited")
			}
			an.Instrs(fn, func(in ssa.Instruction) {
				switch x := in.(type) {
				case *ssa.Lookup:
					if _, isMap := x.X.Type().Underlying().(*types.Map); !isMap {
						return
					}
					checkKey(x.Index, "lookup", x.Pos())
					if x.CommaOk {
						for _, r := range *x.Referrers() {
							if e, ok := r.(*ssa.Extract); ok && e.Index == 1 {
								memberVals = append(memberVals, e)
							}
						}
					}
				case *ssa.MapUpdate:
					checkKey(x.Key, "update", x.Pos())
					insertInstr = append(insertInstr, x)
				}
			})
			present = present.Union(an.BoolEdges(fn, memberVals, true))
			for _, call := range an.Calls(fn, bloomTest...) {
				checkKey(an.Args(call)[0], "bloom."+an.Callee(call).Name, call.Pos())
				cv := an.CallValue(call)
				if strings.HasPrefix(an.Callee(call).Name, "AddIfNotHas") {
					present = present.Union(an.BoolEdges(fn, []ssa.Value{cv}, false))
					inserted = inserted.Union(an.BoolEdges(fn, []ssa.Value{cv}, true))
				} else {
					present = present.Union(an.BoolEdges(fn, []ssa.Value{cv}, true))
					memberVals = append(memberVals, cv)
				}
			}
			for _, call := range an.Calls(fn, bloomAdd...) {
				checkKey(an.Args(call)[0], "bloom."+an.Callee(call).Name, call.Pos())
				insertInstr = append(insertInstr, call)
			}
			// insertion through a package-local helper (m.mark(key)): the helper
			// inserts its parameter on every path and the argument is c.Hash()
			for _, call := range an.AllCalls(fn) {
				if idx, ok := c13InsertHelper(call, bloomAdd); ok && idx < len(call.Common().Args) && keyOK(call.Common().Args[idx]) {
					insertInstr = append(insertInstr, call)
				}
			}
			// presence predicates: a package-local boolean helper that is given the
			// key and probes a map/filter with it is analysed like a Has method;
			// its true edge then counts as "observed present" here
			if depth > 0 {
				for _, call := range an.AllCalls(fn) {
					cv := an.CallValue(call)
					h := an.Callee(call).Static
					if cv == nil || h == nil || h == fn || len(h.Blocks) == 0 || h.Pkg == nil || fn.Pkg == nil || h.Pkg != fn.Pkg {
						continue
					}
					rs := h.Signature.Results()
					if rs.Len() != 1 {
						continue
					}
					if b, ok := rs.At(0).Type().Underlying().(*types.Basic); !ok || b.Kind() != types.Bool {
						continue
					}
					probes := len(an.Calls(h, bloomTest...))
					an.Instrs(h, func(in ssa.Instruction) {
						if l, ok := in.(*ssa.Lookup); ok {
							if _, isMap := l.X.Type().Underlying().(*types.Map); isMap {
								probes++
							}
						}
					})
					if probes == 0 {
						continue
					}
					for k, a := range cv.Call.Args {
						if !keyOK(a) || k >= len(h.Params) {
							continue
						}
						hp := h.Params[k]
						if !analysed[h] {
							analysed[h] = true
							analyse(h, func(v ssa.Value) bool {
								ok, _ := an.AllRootsX(v, nil, func(r ssa.Value) bool { return r == ssa.Value(hp) })
								return ok
							}, "Has", depth-1)
						}
						present = present.Union(an.BoolEdges(fn, []ssa.Value{cv}, true))
						memberVals = append(memberVals, cv)
					}
				}
			}
			blockedIns := map[ssa.Instruction]bool{}
			for _, i := range insertInstr {
				blockedIns[i] = true
			}
			for _, o := range c13Outcomes(fn) {
				r := o.ret
				switch {
				case o.isConst && o.val && mname == "Visit":
					c.Check(o.via != nil && inserted[*o.via] || !an.Reaches(fn, nil, o.site(), inserted, blockedIns), "O3", "R-DOM", name, "return true<=inserted", r.Pos(),
						"Visit returns true only after the key was inserted", "Visit can return true (first visit) without having inserted the key: the CID is reported unvisited again on the next call and emitted twice")
					c.Check(!o.reachAfter(fn, present), "O3", "R-DOM", name, "present=>!return true", r.Pos(),
						"after presence was observed `return true` is unreachable", "Visit can return true although a filter/map reported the key as present: an already visited CID is reported as unvisited")
				case o.isConst && !o.val && mname == "Visit":
					c.Check(len(present) > 0 && o.guarded(fn, present), "O3", "R-DOM", name, "return false<=present", r.Pos(),
						"Visit returns false only where the key was observed present", "Visit can return false (already visited) on a path where no map/filter reported the key: fresh CIDs are skipped and never emitted")
				case o.isConst && o.val && mname == "Has":
					c.Check(len(present) > 0 && o.guarded(fn, present), "O3", "R-DOM", name, "return true<=present", r.Pos(),
						"Has returns true only where the key was observed present", "Has can return true without any map/filter reporting the key")
				case o.isConst && !o.val && mname == "Has":
					c.Check(!o.reachAfter(fn, present), "O3", "R-DOM", name, "present=>!return false", r.Pos(),
						"after presence was observed `return false` is unreachable", "Has can return false although a filter reported the key present: a previously visited CID is reported as unvisited")
				default:
					ok, _ := an.AllRootsX(o.v, nil, func(x ssa.Value) bool {
						for _, m := range memberVals {
							if x == m {
								return true
							}
						}
						return false
					})
					c.Check(ok && mname == "Has", "O3", "R-FLOW", name, "return=membership", r.Pos(), "the answer is the result of the keyed membership test", "the returned answer is neither a constant nor the result of a membership test keyed by c.Hash()")
				}
			}
		}
	}
	for _, tr := range trackers {
		tname := tr.name
		for _, mname := range []string{"Visit", "Has"} {
			fn := p.Func(tr.rel, tname, mname)
			if fn == nil && tr.rel != wk {
				continue // promoted from an embedded tracker: checked at its declaration
			}
			if !c.Need(fn != nil && len(fn.Params) == 2, tname+"."+mname) {
				continue
			}
			cidP := fn.Params[1]
			analyse(fn, func(k ssa.Value) bool {
				ok, _ := an.AllRootsX(k, nil, func(r ssa.Value) bool {
					hc, ok := an.IsCallTo(r, an.M(c12cid, "Cid", "Hash"))
					return ok && an.SameVal(an.Recv(hc), cidP)
				})
				return ok
			}, mname, 1)
		}
	}
	c.Min("O3 visited-set key uses", nKeys, 1)

	// ---------------- O4: chain is append-only and fully consulted
	nCh, nFresh := 0, 0
	for _, fn := range fns {
		for _, st := range an.FieldStores(fn, fChain) {
			_, base := an.FieldOf(st.Addr)
			if an.IsFresh(base) {
				nFresh++
				continue
			}
			nCh++
			ok := false
			if ap, isAp := st.Val.(*ssa.Call); isAp && an.Callee(ap).Builtin == "append" {
				ok = c13IsChainLoad(ap.Call.Args[0], fChain, base)
			}
			c.Check(ok, "O4", "R-WHO", an.FuncName(fn), "chain=append(chain,...)", st.Pos(), "the filter chain only grows by append",
				"BloomTracker.chain is overwritten with something other than append(bt.chain, ...): earlier filters are dropped and every CID visited before the growth step is reported unvisited")
		}
		an.Instrs(fn, func(in ssa.Instruction) {
			if st, ok := in.(*ssa.Store); ok {
				if ia, ok := st.Addr.(*ssa.IndexAddr); ok && c13IsChainLoad(ia.X, fChain, nil) {
					c.Bad("O4", "R-WHO", an.FuncName(fn), "chain[i]=...", st.Pos(), "an element of BloomTracker.chain is overwritten in place: the filter that recorded earlier visits is lost")
				}
			}
		})
	}
	c.Min("O4 stores to BloomTracker.chain on a live tracker", nCh, 1)
	c.Min("O4 constructor stores to BloomTracker.chain", nFresh, 1)
	for _, mname := range []string{"Has", "Visit"} {
		fn := p.Func(wk, "BloomTracker", mname)
		if !c.Need(fn != nil, "BloomTracker."+mname) {
			continue
		}
		all, butLast, last, unknown := false, false, false, 0
		// probes of the method itself and of helpers called on the same tracker
		type probe struct {
			recv ssa.Value
			base ssa.Value
			site ssa.Instruction // position in fn (the helper call for probes inside a helper)
		}
		var probes []probe
		for _, call := range an.Calls(fn, bloomTest...) {
			probes = append(probes, probe{an.Recv(call), fn.Params[0], call})
		}
		for _, call := range an.AllCalls(fn) {
			h := an.Callee(call).Static
			if h == nil || h == fn || len(h.Blocks) == 0 || h.Signature.Recv() == nil || len(call.Common().Args) == 0 || !an.SameVal(call.Common().Args[0], fn.Params[0]) {
				continue
			}
			if c13MutatesChain(h, fChain, 3) {
				continue // a growth helper, handled below
			}
			for _, hc := range an.Calls(h, bloomTest...) {
				probes = append(probes, probe{an.Recv(hc), h.Params[0], call})
			}
		}
		for _, pr := range probes {
			switch c13ChainPart(pr.recv, fChain, pr.base) {
			case "all":
				all = true
			case "allButLast":
				butLast = true
			case "last":
				last = true
			case "partial":
			default:
				unknown++
			}
		}
		// snapshot consistency: the parts of the chain that are probed must be
		// taken from one state of the chain — no growth between two probe loads
		var probeLoads []ssa.Instruction
		seenL := map[ssa.Instruction]bool{}
		for _, pr := range probes {
			if pr.site.Parent() == fn {
				if _, isHelperCall := pr.site.(ssa.CallInstruction); isHelperCall && pr.base != ssa.Value(fn.Params[0]) {
					// the loads happen inside the helper, i.e. at the call
					if !seenL[pr.site] {
						seenL[pr.site] = true
						probeLoads = append(probeLoads, pr.site)
					}
					continue
				}
			}
			for _, l := range c13ChainLoadsOf(pr.recv, fChain) {
				if !seenL[l] {
					seenL[l] = true
					probeLoads = append(probeLoads, l)
				}
			}
		}
		var growSites []ssa.Instruction
		for _, stc := range an.FieldStores(fn, fChain) {
			growSites = append(growSites, stc)
		}
		for _, call := range an.AllCalls(fn) {
			if g := an.Callee(call).Static; g != nil && c13MutatesChain(g, fChain, 3) {
				growSites = append(growSites, call)
			}
		}
		split := false
		for _, sgrow := range growSites {
			before, after := false, false
			for _, l := range probeLoads {
				if an.Reaches(fn, l, sgrow, nil, nil) {
					before = true
				}
				if an.Reaches(fn, sgrow, l, nil, nil) {
					after = true
				}
			}
			if before && after {
				split = true
			}
		}
		if len(probeLoads) > 0 {
			c.Check(!split, "O4", "R-DOM", an.FuncName(fn), "probes use one snapshot of the chain", fn.Pos(),
				"no chain growth lies between two loads of bt.chain that feed membership probes",
				fmt.Sprintf("BloomTracker.%s reads bt.chain for one probe before a growth step (grow()/append) and for another probe after it: the filter that was current until the growth is in neither part (not in the pre-growth chain[:len-1], not the post-growth chain[len-1]) and is not consulted — a CID recorded in it is reported as unvisited in the call that triggers growth", mname))
		}
		covered := all || (butLast && last)
		if !covered && unknown > 0 {
			c.Problem("undecided: BloomTracker.%s consults filters through a receiver shape the chain-coverage rule does not know (%d call(s))", mname, unknown)
			continue
		}
		c.Check(covered, "O4", "R-FLOW", an.FuncName(fn), "consults-whole-chain", fn.Pos(), "every filter of the chain is consulted",
			fmt.Sprintf("BloomTracker.%s does not consult every filter of the chain (whole=%v, all-but-last=%v, last=%v): CIDs recorded in an unconsulted filter are reported unvisited after a growth step", mname, all, butLast, last))
	}

	// ---------------- O5: entity roots
	c13Entity(c, pk.Types)

	// ---------------- O5b: fetch adapters (functions shaped (ctx, cid) -> …) hand their
	// own CID to the fetcher they wrap
	for _, fn := range p.PkgFuncs(wk) {
		sig := fn.Signature
		if sig.Recv() != nil && len(fn.FreeVars) == 0 && fn.Parent() == nil {
			// methods count too (method-value adapters): the CID is the last parameter
		}
		np := len(fn.Params)
		if np < 2 || !c12IsCid(fn.Params[np-1].Type()) || sig.Params().Len() != 2 {
			continue
		}
		own := fn.Params[np-1]
		for _, call := range an.AllCalls(fn) {
			cv := an.CallValue(call)
			if cv == nil || cv.Call.IsInvoke() || an.Callee(call).Fn != nil || an.Callee(call).Static != nil {
				continue
			}
			csig, _ := cv.Call.Value.Type().Underlying().(*types.Signature)
			if csig == nil || csig.Params().Len() != 2 || !c12IsCid(csig.Params().At(1).Type()) {
				continue
			}
			c.Check(an.SameVal(cv.Call.Args[1], own), "O5", "R-FLOW", an.FuncName(fn), "adapter fetches its own CID", cv.Pos(),
				"the wrapped fetcher is asked for the CID the adapter was called with",
				"a fetch adapter asks the wrapped fetcher for "+an.ShowPath(cv.Call.Args[1])+" instead of the CID it was called with: every popped CID yields the children of another node")
		}
	}

	// ---------------- O6: link extraction covers every IPLD kind that can carry links
	c13CollectKinds(c, pk.Types)
}

func c13IsEmitSig(sig *types.Signature) bool {
	if sig == nil || sig.Params().Len() != 1 || sig.Results().Len() != 1 {
		return false
	}
	b, ok := sig.Results().At(0).Type().Underlying().(*types.Basic)
	return ok && b.Kind() == types.Bool && c12IsCid(sig.Params().At(0).Type())
}

func c13IsCidSlice(t types.Type) bool {
	s, ok := t.Underlying().(*types.Slice)
	return ok && c12IsCid(s.Elem())
}

// func(context.Context, cid.Cid) ([]cid.Cid, error)
func c13IsFetchSig(sig *types.Signature) bool {
	if sig == nil || sig.Params().Len() != 2 || sig.Results().Len() != 2 {
		return false
	}
	return c12IsCid(sig.Params().At(1).Type()) && c13IsCidSlice(sig.Results().At(0).Type()) && an.IsErrorType(sig.Results().At(1).Type())
}

func c13IsParam(v ssa.Value) bool {
	ok, _ := an.AllRootsX(v, nil, func(r ssa.Value) bool {
		_, ok := r.(*ssa.Parameter)
		return ok
	})
	return ok
}

// c13FindPkg finds a (transitively) imported package by path.
func c13FindPkg(from *types.Package, path string) *types.Package {
	seen := map[*types.Package]bool{}
	var walk func(p *types.Package) *types.Package
	walk = func(p *types.Package) *types.Package {
		if p.Path() == path {
			return p
		}
		if seen[p] {
			return nil
		}
		seen[p] = true
		for _, i := range p.Imports() {
			if r := walk(i); r != nil {
				return r
			}
		}
		return nil
	}
	return walk(from)
}

func c13Const(from *types.Package, path, name string) (constant.Value, bool) {
	pk := c13FindPkg(from, path)
	if pk == nil {
		return nil, false
	}
	k, ok := pk.Scope().Lookup(name).(*types.Const)
	if !ok {
		return nil, false
	}
	return k.Val(), true
}

// c13ReachAfterEdges: target reachable from the destination of one of the edges.
func c13ReachAfterEdges(fn *ssa.Function, edges an.EdgeSet, target ssa.Instruction) bool {
	for e := range edges {
		start := e.From.Succs[e.Succ]
		seen := map[*ssa.BasicBlock]bool{start: true}
		work := []*ssa.BasicBlock{start}
		for len(work) > 0 {
			b := work[len(work)-1]
			work = work[:len(work)-1]
			if b == target.Block() {
				return true
			}
			for _, s := range b.Succs {
				if !seen[s] {
					seen[s] = true
					work = append(work, s)
				}
			}
		}
	}
	return false
}

// c13IsChainLoad: v is a direct load of <base>.chain (no re-slicing).
func c13IsChainLoad(v ssa.Value, fChain *types.Var, base ssa.Value) bool {
	ok, _ := an.AllRootsX(v, &an.FlowOpts{StopAt: func(x ssa.Value) bool { _, isSl := x.(*ssa.Slice); return isSl }}, func(r ssa.Value) bool {
		u, ok := r.(*ssa.UnOp)
		if !ok || u.Op != token.MUL {
			return false
		}
		f, b := an.FieldOf(u.X)
		return f == fChain && (base == nil || an.SameVal(b, base))
	})
	return ok
}

func c13IsLenMinus1(v ssa.Value, of func(ssa.Value) bool) bool {
	b, ok := v.(*ssa.BinOp)
	if !ok || b.Op != token.SUB || !an.IsIntConst(1)(b.Y) {
		return false
	}
	lc, ok := b.X.(*ssa.Call)
	return ok && an.Callee(lc).Builtin == "len" && of(lc.Call.Args[0])
}

// c13ChainPart classifies which part of the chain a *bbloom.Bloom receiver
// ranges over: "all" (range over bt.chain), "allButLast" (range over
// bt.chain[:len(bt.chain)-1]), "last" (bt.chain[len(bt.chain)-1]) or "".
func c13ChainPart(recv ssa.Value, fChain *types.Var, base ssa.Value) string {
	isChain := func(v ssa.Value) bool { return c13IsChainLoad(v, fChain, base) }
	for _, r := range an.RootsX(recv, nil) {
		u, ok := r.(*ssa.UnOp)
		if !ok || u.Op != token.MUL {
			return ""
		}
		ia, ok := u.X.(*ssa.IndexAddr)
		if !ok {
			return ""
		}
		// ranged slice: the chain itself or chain[:len-1]
		part := ""
		var ranged ssa.Value
		for _, sr := range an.RootsX(ia.X, &an.FlowOpts{StopAt: func(x ssa.Value) bool { _, isSl := x.(*ssa.Slice); return isSl }}) {
			ranged = sr
		}
		switch x := ranged.(type) {
		case *ssa.Slice:
			if !isChain(x.X) {
				return ""
			}
			if x.Low == nil && x.Max == nil && x.High != nil && c13IsLenMinus1(x.High, isChain) {
				part = "allButLast"
			} else if x.Low == nil && x.High == nil {
				part = "all"
			} else {
				return "partial" // some other sub-slice of the chain
			}
		default:
			if ranged != nil && isChain(ranged) {
				part = "all"
			}
		}
		if part == "" {
			return ""
		}
		if c13IsLenMinus1(ia.Index, isChain) {
			if part == "all" {
				return "last"
			}
			return "partial"
		}
		// loop index over the (sub-)slice
		switch c13LoopIndex(ia.Index, ia.X) {
		case "whole":
			return part
		case "butLast":
			if part == "all" {
				return "allButLast"
			}
		}
		return "partial" // a single element / a loop over part of the chain
	}
	return ""
}

// c13LoopIndex classifies idx as the induction variable of a loop that visits
// the elements of slice s in order from the first one:
//
//	"whole"   — `for i := range s` / `for _, x := range s` (go/ssa: i' = phi[-1, i…]; i = i'+1; i < len(s))
//	            or `for i := 0; i < len(s); i++` (i = phi[0, i+1…]; i < len(s))
//	"butLast" — `for i := 0; i < len(s)-1; i++`
//	""        — anything else.
//
// Several back edges (one per `continue`) are accepted.
func c13LoopIndex(idx, s ssa.Value) string {
	isLenS := func(v ssa.Value) bool {
		lc, ok := v.(*ssa.Call)
		return ok && an.Callee(lc).Builtin == "len" && an.SameVal(lc.Call.Args[0], s)
	}
	bound := func(v ssa.Value) string {
		refs := v.Referrers()
		if refs == nil {
			return ""
		}
		for _, r := range *refs {
			cmp, ok := r.(*ssa.BinOp)
			if !ok {
				continue
			}
			var b ssa.Value
			switch {
			case cmp.Op == token.LSS && cmp.X == v:
				b = cmp.Y
			case cmp.Op == token.GTR && cmp.Y == v:
				b = cmp.X
			default:
				continue
			}
			if isLenS(b) {
				return "whole"
			}
			if c13IsLenMinus1(b, func(x ssa.Value) bool { return an.SameVal(x, s) }) {
				return "butLast"
			}
		}
		return ""
	}
	// range shape
	if b, ok := idx.(*ssa.BinOp); ok && b.Op == token.ADD && an.IsIntConst(1)(b.Y) {
		if ph, ok := b.X.(*ssa.Phi); ok && len(ph.Edges) >= 2 {
			init, back, clean := false, false, true
			for _, e := range ph.Edges {
				switch {
				case an.IsIntConst(-1)(e):
					init = true
				case e == idx:
					back = true
				default:
					clean = false
				}
			}
			if init && back && clean {
				if bound(idx) == "whole" {
					return "whole"
				}
				return ""
			}
		}
	}
	// classic for shape
	if ph, ok := idx.(*ssa.Phi); ok && len(ph.Edges) >= 2 {
		init, back, clean := false, false, true
		for _, e := range ph.Edges {
			if an.IsIntConst(0)(e) {
				init = true
				continue
			}
			if inc, ok := e.(*ssa.BinOp); ok && inc.Op == token.ADD && inc.X == ssa.Value(ph) && an.IsIntConst(1)(inc.Y) {
				back = true
				continue
			}
			clean = false
		}
		if init && back && clean {
			return bound(ph)
		}
	}
	return ""
}

// c13IsRangeIndex: idx walks the whole slice s from its first element.
func c13IsRangeIndex(idx, s ssa.Value) bool { return c13LoopIndex(idx, s) == "whole" }

// c13LoopHeader returns the block of the induction phi of a recognised loop index.
func c13LoopHeader(idx ssa.Value) *ssa.BasicBlock {
	if ph, ok := idx.(*ssa.Phi); ok {
		return ph.Block()
	}
	if b, ok := idx.(*ssa.BinOp); ok {
		if ph, ok := b.X.(*ssa.Phi); ok {
			return ph.Block()
		}
	}
	return nil
}

func c13Entity(c *an.Ctx, wpk *types.Package) {
	p := c.P
	const wk = "dag/walker"
	// enumerators of EntityType
	ents := map[string]constant.Value{}
	etype := wpk.Scope().Lookup("EntityType")
	if !c.Need(etype != nil, "type walker.EntityType") {
		return
	}
	for _, n := range wpk.Scope().Names() {
		if k, ok := wpk.Scope().Lookup(n).(*types.Const); ok && types.Identical(k.Type(), etype.Type()) {
			ents[n] = k.Val()
		}
	}
	for _, n := range []string{"EntityUnknown", "EntityFile", "EntityDirectory", "EntityHAMTShard", "EntitySymlink"} {
		if !c.Need(ents[n] != nil, "constant walker."+n) {
			return
		}
	}
	nEnt := 0
	// every function of the package (closure or named) that adapts a NodeFetcher
	// to the walk loop's fetch callback
	for _, g := range p.PkgFuncs(wk) {
		rs := g.Signature.Results()
		if rs.Len() != 2 || !c13IsCidSlice(rs.At(0).Type()) || !an.IsErrorType(rs.At(1).Type()) {
			continue
		}
		var nf *ssa.Call
		for _, call := range an.AllCalls(g) {
			cv := an.CallValue(call)
			if cv != nil && !cv.Call.IsInvoke() && an.Callee(call).Fn == nil && an.TypeIs(cv.Call.Value.Type(), wk, "NodeFetcher") {
				nf = cv
			}
		}
		if nf == nil {
			continue
		}
		name := an.FuncName(g)
		children, ets, errs := an.Result(nf, 0), an.Aliases(an.Result(nf, 1)...), an.ErrResult(nf)
		isEt := func(v ssa.Value) bool { return ets[v] }
		errNonNil := an.NilEdges(g, errs, false)
		names := make([]string, 0, len(ents))
		for n := range ents {
			names = append(names, n)
		}
		sort.Strings(names)
		for _, n := range names {
			cut := an.InfeasibleUnderV(g, isEt, ents[n]).Union(errNonNil)
			wantNone := n == "EntityFile" || n == "EntitySymlink"
			nRet := 0
			reach := an.ReachSet(g, nf, cut, nil)
			for _, in := range an.SortedInstrs(reach) {
				r, ok := in.(*ssa.Return)
				if !ok {
					continue
				}
				nRet++
				nEnt++
				vals := an.ValuesUnder(r.Results[0], reach, cut)
				isNil, isChildren := len(vals) > 0, len(vals) > 0
				for _, v := range vals {
					if !an.IsNilConst(v) {
						isNil = false
					}
					isCh, _ := an.AllRootsX(v, nil, func(x ssa.Value) bool {
						for _, ch := range children {
							if x == ch {
								return true
							}
						}
						return false
					})
					if !isCh {
						isChildren = false
					}
				}
				if wantNone {
					c.Check(isNil && an.IsNilConst(r.Results[1]), "O5", "R-EXH", name, "children("+n+")=none", r.Pos(),
						"no children are descended for "+n, "WalkEntityRoots descends into the children of "+n+" (file chunks / symlink data would be emitted as entity roots)")
				} else {
					c.Check(isChildren && an.IsNilConst(r.Results[1]), "O5", "R-EXH", name, "children("+n+")=fetched", r.Pos(),
						"the fetched children are descended for "+n, "WalkEntityRoots does not descend into the children of "+n+": entity roots below it are never emitted")
				}
			}
			if nRet == 0 {
				c.Bad("O5", "R-EXH", name, "children("+n+")", g.Pos(), "no return is reachable for entity type "+n)
			}
		}
	}
	c.Min("O5 NodeFetcher adapter returns per entity type", nEnt, 1)

	// UnixFS type -> entity type table: every function of the package that
	// returns an EntityType and dispatches on a pb.Data_DataType value (the result
	// of FSNode.Type()/GetType(), or a parameter when the switch sits in a helper)
	var pbp *types.Package
	if pp := p.Pkg("ipld/unixfs/pb"); pp != nil {
		pbp = pp.Types
	}
	if !c.Need(pbp != nil, "package ipld/unixfs/pb") {
		return
	}
	dt := pbp.Scope().Lookup("Data_DataType")
	if !c.Need(dt != nil, "type pb.Data_DataType") {
		return
	}
	want := map[string]string{"Data_File": "EntityFile", "Data_Raw": "EntityFile", "Data_Directory": "EntityDirectory", "Data_HAMTShard": "EntityHAMTShard", "Data_Symlink": "EntitySymlink"}
	var dnames []string
	for _, n := range pbp.Scope().Names() {
		if k, ok := pbp.Scope().Lookup(n).(*types.Const); ok && types.Identical(k.Type(), dt.Type()) {
			dnames = append(dnames, n)
		}
	}
	sort.Strings(dnames)
	nT := 0
	for _, det := range p.PkgFuncs(wk) {
		rs := det.Signature.Results()
		if rs.Len() != 1 || !types.Identical(rs.At(0).Type(), etype.Type()) {
			continue
		}
		isSubj := func(v ssa.Value) bool { return types.Identical(v.Type(), dt.Type()) }
		if len(an.InfeasibleUnderV(det, isSubj, constant.MakeInt64(0))) == 0 {
			continue
		}
		// start of the dispatch: the call producing the type value, or entry for a parameter
		var from ssa.Instruction
		for _, call := range an.AllCalls(det) {
			if cv := an.CallValue(call); cv != nil && types.Identical(cv.Type(), dt.Type()) {
				from = cv
			}
		}
		for _, n := range dnames {
			k := pbp.Scope().Lookup(n).(*types.Const)
			wantEnt := want[n]
			if wantEnt == "" {
				wantEnt = "EntityUnknown"
			}
			cut := an.InfeasibleUnderV(det, isSubj, k.Val())
			reach := an.ReachSet(det, from, cut, nil)
			for _, in := range an.SortedInstrs(reach) {
				r, ok := in.(*ssa.Return)
				if !ok {
					continue
				}
				nT++
				vals := an.ValuesUnder(r.Results[0], reach, cut)
				okT := len(vals) > 0
				for _, v := range vals {
					got, isK := an.ConstOf(v)
					if !isK {
						// the table may sit in a helper called with the type value: then
						// the helper itself is checked by this same sweep
						if hc, isCall := v.(*ssa.Call); isCall && hc.Common().StaticCallee() != nil && hc.Common().StaticCallee().Pkg == det.Pkg {
							continue
						}
						okT = false
						continue
					}
					if !constant.Compare(got, token.EQL, ents[wantEnt]) {
						okT = false
					}
				}
				c.Check(okT, "O5", "R-EXH", an.FuncName(det), "entity(pb."+n+")="+wantEnt, r.Pos(), "pb."+n+" is classified as "+wantEnt,
					"UnixFS type pb."+n+" is classified as something other than "+wantEnt+": WalkEntityRoots stops/descends at the wrong nodes")
			}
		}
	}
	c.Min("O5 UnixFS type -> entity type table rows", nT, 1)
}

// c13Outcome is one way a boolean method can answer: a `return k`, or one
// incoming edge of a phi that is returned from the phi's own block
// (`found := false; for ... { found = true; break }; return found`).
type c13Outcome struct {
	ret     *ssa.Return
	v       ssa.Value
	isConst bool
	val     bool
	via     *an.Edge
}

func c13Outcomes(fn *ssa.Function) []c13Outcome {
	var out []c13Outcome
	mk := func(r *ssa.Return, v ssa.Value, via *an.Edge) {
		o := c13Outcome{ret: r, v: v, via: via}
		if k, ok := an.ConstOf(v); ok && k.Kind() == constant.Bool {
			o.isConst, o.val = true, constant.BoolVal(k)
		}
		out = append(out, o)
	}
	for _, r := range an.Returns(fn) {
		if len(r.Results) == 0 {
			continue
		}
		if ph, ok := r.Results[0].(*ssa.Phi); ok && ph.Block() == r.Block() {
			for i, e := range ph.Edges {
				pred := r.Block().Preds[i]
				for si, sb := range pred.Succs {
					if sb == r.Block() {
						mk(r, e, &an.Edge{From: pred, Succ: si})
						break
					}
				}
			}
			continue
		}
		mk(r, r.Results[0], nil)
	}
	return out
}

func (o c13Outcome) site() ssa.Instruction {
	if o.via == nil {
		return o.ret
	}
	return o.via.From.Instrs[len(o.via.From.Instrs)-1]
}

func (o c13Outcome) guarded(fn *ssa.Function, edges an.EdgeSet) bool {
	if o.via != nil && edges[*o.via] {
		return true
	}
	return an.GuardedBy(fn, nil, o.site(), edges)
}

func (o c13Outcome) reachAfter(fn *ssa.Function, edges an.EdgeSet) bool {
	if o.via != nil && edges[*o.via] {
		return true
	}
	return c13ReachAfterEdges(fn, edges, o.site())
}

// c13InsertHelper: call is a static call of a function of the analysed tree
// that inserts one of its parameters into a map / bloom on every path; the
// index of that parameter in the call's argument list is returned.
func c13InsertHelper(call ssa.CallInstruction, bloomAdd []an.Matcher) (int, bool) {
	g := an.Callee(call).Static
	if g == nil || len(g.Blocks) == 0 {
		return 0, false
	}
	var ins []ssa.Instruction
	idx := -1
	note := func(key ssa.Value, in ssa.Instruction) {
		for _, r := range an.RootsX(key, nil) {
			if pr, ok := r.(*ssa.Parameter); ok {
				for i, gp := range g.Params {
					if gp == pr {
						idx = i
						ins = append(ins, in)
					}
				}
			}
		}
	}
	an.Instrs(g, func(in ssa.Instruction) {
		if mu, ok := in.(*ssa.MapUpdate); ok {
			note(mu.Key, mu)
		}
	})
	for _, bc := range an.Calls(g, bloomAdd...) {
		note(an.Args(bc)[0], bc)
	}
	if idx < 0 {
		return 0, false
	}
	blocked := map[ssa.Instruction]bool{}
	for _, i := range ins {
		blocked[i] = true
	}
	if an.ReachesAnyReturn(g, nil, nil, blocked) != nil {
		return 0, false
	}
	return idx, true
}

// c13ChainLoadsOf collects the loads of the chain field in the operand tree of
// v (receiver of a probe: chain[i], chain[:len(chain)-1][i], chain[len(chain)-1]).
func c13ChainLoadsOf(v ssa.Value, fChain *types.Var) []ssa.Instruction {
	var out []ssa.Instruction
	seen := map[ssa.Value]bool{}
	var walk func(v ssa.Value, d int)
	walk = func(v ssa.Value, d int) {
		if v == nil || seen[v] || d > 12 {
			return
		}
		seen[v] = true
		if u, ok := v.(*ssa.UnOp); ok && u.Op == token.MUL {
			if f, _ := an.FieldOf(u.X); f == fChain {
				out = append(out, u)
				return
			}
		}
		in, ok := v.(ssa.Instruction)
		if !ok {
			return
		}
		if _, isCall := v.(*ssa.Call); isCall {
			if c, _ := v.(*ssa.Call); an.Callee(c).Builtin != "len" {
				return
			}
		}
		if ph, isPhi := v.(*ssa.Phi); isPhi {
			for _, e := range ph.Edges {
				walk(e, d+1)
			}
			return
		}
		for _, op := range in.Operands(nil) {
			if op != nil && *op != nil {
				walk(*op, d+1)
			}
		}
	}
	walk(v, 0)
	return out
}

// c13MutatesChain: g (or a function it statically calls) stores to the chain field.
func c13MutatesChain(g *ssa.Function, fChain *types.Var, depth int) bool {
	if g == nil || len(g.Blocks) == 0 || depth < 0 {
		return false
	}
	if len(an.FieldStores(g, fChain)) > 0 {
		return true
	}
	for _, call := range an.AllCalls(g) {
		if h := an.Callee(call).Static; h != nil && h != g && c13MutatesChain(h, fChain, depth-1) {
			return true
		}
	}
	return false
}

// c13CollectKinds (O6): per ipld.Kind enumerator, what the link extractor does.
func c13CollectKinds(c *an.Ctx, wpk *types.Package) {
	p := c.P
	const wk = "dag/walker"
	const ipldPath = "github.com/ipld/go-ipld-prime"
	kinds := map[string]constant.Value{}
	for _, n := range []string{"Kind_Link", "Kind_Map", "Kind_List"} {
		k, ok := c13Const(wpk, ipldPath, n)
		if !ok {
			k, ok = c13Const(wpk, ipldPath+"/datamodel", n)
		}
		if !c.Need(ok, "constant ipld."+n) {
			return
		}
		kinds[n] = k
	}
	nFn := 0
	for _, fn := range p.PkgFuncs(wk) {
		var kcalls []*ssa.Call
		for _, call := range an.AllCalls(fn) {
			if cv := an.CallValue(call); cv != nil && cv.Call.IsInvoke() && an.Callee(call).Name == "Kind" && an.Callee(call).Recv == "Node" {
				if _, isParam := cv.Call.Value.(*ssa.Parameter); isParam {
					kcalls = append(kcalls, cv)
				}
			}
		}
		if len(kcalls) != 1 {
			continue
		}
		kv := an.Aliases(kcalls[0])
		isK := func(v ssa.Value) bool { return kv[v] }
		if len(an.InfeasibleUnderV(fn, isK, kinds["Kind_Link"])) == 0 {
			continue
		}
		nFn++
		name := an.FuncName(fn)
		for _, n := range []string{"Kind_Link", "Kind_Map", "Kind_List"} {
			cut := an.InfeasibleUnderV(fn, isK, kinds[n])
			reach := an.ReachSet(fn, kcalls[0], cut, nil)
			appends, recurses, iter := false, false, false
			for _, in := range an.SortedInstrs(reach) {
				call, ok := in.(ssa.CallInstruction)
				if !ok {
					continue
				}
				ci := an.Callee(call)
				switch {
				case ci.Builtin == "append":
					if s, ok := call.Common().Args[0].Type().Underlying().(*types.Slice); ok && c12IsCid(s.Elem()) {
						// the CID appended must come out of the node being examined
						// (nd.AsLink() -> cidlink.Link -> .Cid), not from a parameter
						fromNode := false
						for _, e := range c14VarargInOrder(call.Common().Args[1]) {
							for _, r := range an.RootsX(e, nil) {
								for cur, d := r, 0; cur != nil && d < 8; d++ {
									switch x := cur.(type) {
									case *ssa.Field:
										cur = x.X
										continue
									case *ssa.UnOp:
										cur = x.X
										continue
									case *ssa.FieldAddr:
										cur = x.X
										continue
									case *ssa.Extract:
										cur = x.Tuple
										continue
									case *ssa.TypeAssert:
										cur = x.X
										continue
									case *ssa.Alloc:
										var stv ssa.Value
										for _, ref := range *x.Referrers() {
											if st, ok := ref.(*ssa.Store); ok && st.Addr == ssa.Value(x) {
												stv = st.Val
											}
										}
										cur = stv
										continue
									case *ssa.Call:
										if an.Callee(x).Name == "AsLink" {
											fromNode = true
										}
									}
									cur = nil
								}
							}
						}
						if fromNode {
							appends = true
						}
					}
				case ci.Static == fn:
					recurses = true
				case ci.Name == "MapIterator" && n == "Kind_Map", ci.Name == "ListIterator" && n == "Kind_List":
					iter = true
				}
			}
			// every value produced by the iterator is searched: from a successful
			// Next() the loop cannot come back to Done() without the recursive call
			if n != "Kind_Link" && recurses && iter {
				blocked := map[ssa.Instruction]bool{}
				var nexts, dones []ssa.CallInstruction
				for _, in := range an.SortedInstrs(reach) {
					call, ok := in.(ssa.CallInstruction)
					if !ok {
						continue
					}
					switch ci := an.Callee(call); {
					case ci.Static == fn:
						blocked[call] = true
					case ci.Name == "Next" && ci.Invoke:
						nexts = append(nexts, call)
					case ci.Name == "Done" && ci.Invoke:
						dones = append(dones, call)
					}
				}
				skip := false
				for _, nx := range nexts {
					failed := an.NilEdges(fn, an.ErrResult(nx), false)
					for _, dn := range dones {
						if an.Reaches(fn, nx, dn, cut.Union(failed), blocked) {
							skip = true
						}
					}
				}
				c.Check(len(nexts) > 0 && !skip, "O6", "R-POST", name, "collect("+n+"): every value searched", fn.Pos(), "every value of the node is passed to the recursive search",
					"for ipld."+n+" the iteration can continue to the next entry without searching the current value for links (a filter/continue in front of the recursive call): links in skipped values are never discovered")
			}
			if n == "Kind_Link" {
				c.Check(appends, "O6", "R-EXH", name, "collect("+n+")=append cid", fn.Pos(), "a link node contributes its CID", "for ipld."+n+" the link extractor never appends a CID: links are not discovered, children are not walked")
			} else {
				c.Check(recurses && iter, "O6", "R-EXH", name, "collect("+n+")=recurse into values", fn.Pos(), "the values of a "+n+" node are searched for links",
					"for ipld."+n+" the link extractor does not iterate the node and recurse into its values: links nested in such nodes (every dag-pb Links list, dag-cbor maps/lists) are not discovered, reachable CIDs are never emitted")
			}
		}
	}
	c.Min("O6 link extractor functions (switch on Node.Kind())", nFn, 1)
}

// ---- gates of the walk loop, also through boolean gate helpers

type c13Env struct {
	fTracker, fLocality *types.Var
	idVal               constant.Value
	mVisit              an.Matcher
	pkgPath             string
}

type c13Gates struct {
	visit, local, localErr, fetchNil, notID an.EdgeSet
	nV, nL, nF                              int
}

// gates computes, inside fn and for the CID value cv, the edge sets on which
// each gate is known to have passed: visit = Visit(cv)==true or tracker==nil;
// local/localErr = locality(cv) returned true / nil error, or locality==nil;
// fetchNil = fetch(cv) err==nil; notID = cv is not an identity CID.
// depth > 0 allows one level of package-local boolean helpers g(…cv…): the
// true edge of the call joins a gate when every possibly-true answer of g is
// guarded by that gate (computed for g's own parameter) inside g.
func (e *c13Env) gates(fn *ssa.Function, cv ssa.Value, depth int) c13Gates {
	var g c13Gates
	var vres, lres, lerr, ferr []ssa.Value
	for _, call := range an.AllCalls(fn) {
		cvv := an.CallValue(call)
		if cvv == nil {
			continue
		}
		if e.mVisit.Match(an.Callee(call)) {
			if an.SameVal(an.Args(call)[0], cv) && c12LoadsField(an.Recv(call), e.fTracker) {
				g.nV++
				vres = append(vres, cvv)
			}
			continue
		}
		if cvv.Call.IsInvoke() || an.Callee(call).Fn != nil || an.Callee(call).Static != nil {
			continue
		}
		sig, _ := cvv.Call.Value.Type().Underlying().(*types.Signature)
		switch {
		case c12LoadsField(cvv.Call.Value, e.fLocality):
			if len(cvv.Call.Args) == 2 && an.SameVal(cvv.Call.Args[1], cv) {
				g.nL++
				lres = append(lres, an.Result(cvv, 0)...)
				lerr = append(lerr, an.ErrResult(cvv)...)
			}
		case c13IsFetchSig(sig) && c13IsParam(cvv.Call.Value):
			if an.SameVal(cvv.Call.Args[1], cv) {
				g.nF++
				ferr = append(ferr, an.ErrResult(cvv)...)
			}
		}
	}
	trackerNil := an.NilEdges(fn, c13FieldLoadsAny(fn, e.fTracker), true)
	localityNil := an.NilEdges(fn, c13FieldLoadsAny(fn, e.fLocality), true)
	g.visit = an.BoolEdges(fn, vres, true).Union(trackerNil)
	g.local = an.BoolEdges(fn, lres, true).Union(localityNil)
	g.localErr = an.NilEdges(fn, lerr, true).Union(localityNil)
	g.fetchNil = an.NilEdges(fn, ferr, true)
	isMh := func(v ssa.Value) bool {
		f, base := an.FieldOf(v)
		if f == nil || f.Name() != "MhType" {
			if u, ok := v.(*ssa.UnOp); ok && u.Op == token.MUL {
				f, base = an.FieldOf(u.X)
			}
		}
		if f == nil || f.Name() != "MhType" || f.Pkg() == nil || f.Pkg().Path() != c12cid {
			return false
		}
		ok, _ := an.AllRootsX(base, nil, func(r ssa.Value) bool {
			pc, ok := an.IsCallTo(r, an.M(c12cid, "Cid", "Prefix"))
			return ok && an.SameVal(an.Recv(pc), cv)
		})
		return ok
	}
	isID := func(v ssa.Value) bool {
		k, ok := an.ConstOf(v)
		return ok && k.Kind() == constant.Int && constant.Compare(k, token.EQL, e.idVal)
	}
	g.notID = an.TokRelEdges(fn, isMh, isID, token.NEQ)
	if depth <= 0 {
		return g
	}
	// boolean helpers called with cv
	for _, call := range an.AllCalls(fn) {
		cvv := an.CallValue(call)
		h := an.Callee(call).Static
		if cvv == nil || h == nil || len(h.Blocks) == 0 || h.Pkg == nil || h.Pkg.Pkg.Path() != e.pkgPath {
			continue
		}
		rs := h.Signature.Results()
		if rs.Len() != 1 {
			continue
		}
		if b, ok := rs.At(0).Type().Underlying().(*types.Basic); !ok || b.Kind() != types.Bool {
			continue
		}
		for k, a := range cvv.Call.Args {
			if !an.SameVal(a, cv) || k >= len(h.Params) {
				continue
			}
			hg := e.gates(h, h.Params[k], 0)
			outs := c13Outcomes(h)
			allTrueGuarded := func(edges an.EdgeSet) bool {
				if len(edges) == 0 {
					return false
				}
				for _, o := range outs {
					if o.isConst && !o.val {
						continue
					}
					if !o.guarded(h, edges) {
						return false
					}
				}
				return len(outs) > 0
			}
			callTrue := an.BoolEdges(fn, []ssa.Value{cvv}, true)
			callFalse := an.BoolEdges(fn, []ssa.Value{cvv}, false)
			if hg.nV > 0 && allTrueGuarded(hg.visit) {
				g.visit = g.visit.Union(callTrue)
				g.nV++
			}
			if hg.nL > 0 && allTrueGuarded(hg.local) && allTrueGuarded(hg.localErr) {
				g.local = g.local.Union(callTrue)
				g.localErr = g.localErr.Union(callTrue)
				g.nL++
			}
			// identity predicates: `return c.Prefix().MhType == IDENTITY` (false => not identity)
			// or a helper whose every possibly-true answer is guarded by "not identity"
			if allTrueGuarded(hg.notID) {
				g.notID = g.notID.Union(callTrue)
			}
			pol, isPred := 0, len(outs) > 0
			for _, o := range outs {
				b, ok := o.v.(*ssa.BinOp)
				if !ok || !((isMhOf(b.X, h.Params[k]) && isID(b.Y)) || (isMhOf(b.Y, h.Params[k]) && isID(b.X))) {
					isPred = false
					break
				}
				switch b.Op {
				case token.EQL:
					if pol == -1 {
						isPred = false
					}
					pol = 1
				case token.NEQ:
					if pol == 1 {
						isPred = false
					}
					pol = -1
				default:
					isPred = false
				}
			}
			if isPred && pol == 1 {
				g.notID = g.notID.Union(callFalse)
			}
			if isPred && pol == -1 {
				g.notID = g.notID.Union(callTrue)
			}
		}
	}
	return g
}

// isMhOf: v is <p>.Prefix().MhType.
func isMhOf(v ssa.Value, p ssa.Value) bool {
	f, base := an.FieldOf(v)
	if f == nil || f.Name() != "MhType" {
		if u, ok := v.(*ssa.UnOp); ok && u.Op == token.MUL {
			f, base = an.FieldOf(u.X)
		}
	}
	if f == nil || f.Name() != "MhType" || f.Pkg() == nil || f.Pkg().Path() != c12cid {
		return false
	}
	ok, _ := an.AllRootsX(base, nil, func(r ssa.Value) bool {
		pc, ok := an.IsCallTo(r, an.M(c12cid, "Cid", "Prefix"))
		return ok && an.SameVal(an.Recv(pc), p)
	})
	return ok
}

// c13FieldLoadsAny: values of fn that are loads of fld (any base).
func c13FieldLoadsAny(fn *ssa.Function, fld *types.Var) []ssa.Value {
	return an.FieldReads(fn, fld)
}
