package props

import (
	"go/constant"
	"go/token"
	"go/types"
	"sort"
	"strings"

	"golang.org/x/tools/go/ssa"

	"verif/checker/an"
)

func init() {
	register("C40", Prop{
		Pkgs: []string{"./keystore"},
		Explain: "Decided (structural necessary conditions of 'the FS keystore is a confined name->key map that agrees with the in-memory one'): " +
			"O1 confinement: every path handed to a package-level os function in package keystore is ks.dir itself, filepath.Join(ks.dir, encode(name)) on encode's nil-error edge, or (constructor) the directory parameter that is stored as dir; encode returns <constant prefix without separators> + [lower-cased] (*base32.Encoding).EncodeToString(name) with the package codec derived from base32.StdEncoding/HexEncoding (alphabet has no separators or dots), and rejects the empty name; decode mirrors it (same prefix constant and length, same codec, ToUpper iff ToLower); List reads the whole directory (Readdirnames(n<=0)) and returns only decode()d names; " +
			"O2 creation is exclusive: every os.OpenFile that can create has O_CREATE|O_EXCL, no non-exclusive creator (os.WriteFile/Create/Rename/Link/Symlink) is used, and the fs.ErrExist edge of the exclusive open returns ErrKeyExists; " +
			"O3 sibling agreement FS vs Mem for Has/Get/Delete on a missing key and Put on an existing key: the error kind returned by FSKeystore on the errors.Is(err, fs.ErrNotExist) (resp. fs.ErrExist) edge of its os call equals the error kind MemKeystore returns on its not-found (resp. found) edge; an os error returned untested counts as 'raw os error'. " +
			"NOT decided: map-model equivalence over histories, file-name length limits, case-insensitive file systems, concurrent use.",
		Assume:    []string{"encoding/base32 Std/Hex alphabets contain only [A-Z2-7]/[0-9A-V]", "filepath.Join(dir, leaf) stays inside dir when leaf has no separator and is not a dot name", "os.O_EXCL|O_CREATE is atomic"},
		Technique: "value provenance of path arguments (R-FLOW), required/forbidden callee and flag constants (R-API), encoder/decoder mirror (R-TABLE), sibling agreement of error mapping decided per outcome edge (R-SIB)",
		Run:       runC40,
	})
}

func runC40(c *an.Ctx) {
	p := c.P
	const ks = "keystore"
	pk := p.Pkg(ks)
	// the directory field of the exported FSKeystore, by role: the string field
	// that the constructor fills from its string parameter (and os.* paths start from)
	var fDir *types.Var
	if pk != nil {
		if t := p.Named(ks, "FSKeystore"); t != nil {
			if st, ok := t.Underlying().(*types.Struct); ok {
				var strs []*types.Var
				for i := 0; i < st.NumFields(); i++ {
					if b, ok := st.Field(i).Type().Underlying().(*types.Basic); ok && b.Kind() == types.String {
						strs = append(strs, st.Field(i))
					}
				}
				if len(strs) == 1 {
					fDir = strs[0]
				} else if ctor := p.Func(ks, "", "NewFSKeystore"); ctor != nil {
					for _, f := range strs {
						for _, stf := range an.FieldStores(ctor, f) {
							if _, isP := stf.Val.(*ssa.Parameter); isP {
								fDir = f
							}
						}
					}
				}
			}
		}
	}
	if !c.Need(pk != nil && fDir != nil, "the directory (string) field of keystore.FSKeystore") {
		return
	}
	fns := p.PkgFuncs(ks)
	isDirLoad := func(v ssa.Value) bool { return c12LoadsField(v, fDir) }

	// ---------------- the name encoder: functions whose result is joined under dir
	encoders := map[*ssa.Function]bool{}

	// ---------------- O1: every path given to os.*
	// classify decides one path value at one use site; a string parameter of an
	// unexported function is judged at every call site of that function.
	var classify func(fn *ssa.Function, a ssa.Value, site ssa.Instruction, depth int) (ok bool, kind, why string)
	classify = func(fn *ssa.Function, a ssa.Value, site ssa.Instruction, depth int) (bool, string, string) {
		// a path carried in a field of a local struct: judge what was stored there
		if vals, ok := an.LocalFieldValues(a); ok && depth > 0 {
			kind := ""
			for _, x := range vals {
				okx, k, why := classify(fn, x, site, depth-1)
				if !okx {
					return false, "", why
				}
				kind = k
			}
			return true, kind, ""
		}
		switch {
		case isDirLoad(a):
			return true, "dir", ""
		case c40IsCtorDir(a, fn, fDir):
			return true, "dir parameter", ""
		}
		if pr, isP := a.(*ssa.Parameter); isP && depth > 0 && fn.Object() != nil && !fn.Object().Exported() {
			idx := -1
			for i, q := range fn.Params {
				if q == pr {
					idx = i
				}
			}
			n := 0
			for _, g := range fns {
				for _, call := range an.AllCalls(g) {
					if an.Callee(call).Static != fn || idx < 0 || idx >= len(call.Common().Args) {
						continue
					}
					n++
					if ok, _, why := classify(g, call.Common().Args[idx], call, depth-1); !ok {
						return false, "", "a caller (" + an.FuncName(g) + ") passes an unconfined path: " + why
					}
				}
			}
			if n > 0 {
				return true, "Join(dir,encode(name))", ""
			}
			return false, "", "the path is a parameter of a function without callers in the package"
		}
		// path built by a package-local helper returning (path, error)
		if ex, isEx := a.(*ssa.Extract); isEx && ex.Index == 0 {
			if hc, isCall := ex.Tuple.(*ssa.Call); isCall {
				if h := hc.Common().StaticCallee(); h != nil && len(h.Blocks) > 0 && h.Pkg == fn.Pkg && h.Signature.Results().Len() == 2 && !encoders[h] {
					nRet := 0
					for _, r := range an.Returns(h) {
						if len(r.Results) != 2 || !an.IsNilConst(r.Results[1]) {
							continue
						}
						nRet++
						if ok, _, why := classify(h, r.Results[0], r, depth); !ok {
							return false, "", "the path helper " + an.FuncName(h) + " returns an unconfined path: " + why
						}
					}
					if nRet > 0 {
						if !an.OnNilEdgeOf(fn, hc, site) {
							return false, "", "the path helper's error is not tested nil before the path is used"
						}
						return true, "Join(dir,encode(name))", ""
					}
				}
			}
		}
		elems, ok := c40JoinParts(a, isDirLoad)
		if !ok || len(elems) != 2 || !isDirLoad(elems[0]) {
			return false, "", "the path is not filepath.Join(ks.dir, encode(name)): " + an.ShowPath(a)
		}
		if vals, ok := an.LocalFieldValues(elems[1]); ok && len(vals) == 1 {
			elems[1] = vals[0] // the encoded name was parked in a local struct field
		}
		// the leaf may be a parameter of an unexported helper (`writeNewKeyFile(filename, …)`):
		// then every caller must pass an encoded name on the encoder's nil edge
		if pr, isP := elems[1].(*ssa.Parameter); isP && depth > 0 && fn.Object() != nil && !fn.Object().Exported() {
			idx := -1
			for i, q := range fn.Params {
				if q == pr {
					idx = i
				}
			}
			n := 0
			for _, g := range fns {
				for _, call := range an.AllCalls(g) {
					if an.Callee(call).Static != fn || idx < 0 || idx >= len(call.Common().Args) {
						continue
					}
					n++
					arg := call.Common().Args[idx]
					ec, isCall := an.IsCallTo(arg, an.M(ks, "-", ""))
					e, isE := arg.(*ssa.Extract)
					if !isCall || !isE || e.Index != 0 || ec.Common().StaticCallee() == nil || !an.OnNilEdgeOf(g, ec, call) {
						return false, "", "a caller (" + an.FuncName(g) + ") passes a file name that is not the encoder's result on its nil edge"
					}
					encoders[ec.Common().StaticCallee()] = true
				}
			}
			if n > 0 {
				return true, "Join(dir,encode(name))", ""
			}
		}
		ec, isCall := an.IsCallTo(elems[1], an.M(ks, "-", ""))
		if e, isE := elems[1].(*ssa.Extract); !isCall || !isE || e.Index != 0 || ec.Common().StaticCallee() == nil {
			return false, "", "the leaf joined under ks.dir is not the result of the package's name encoder: " + an.ShowPath(elems[1])
		}
		if !an.OnNilEdgeOf(fn, ec, site) {
			return false, "", "the encoded name is used although the encoder's error was not tested nil"
		}
		encoders[ec.Common().StaticCallee()] = true
		return true, "Join(dir,encode(name))", ""
	}
	nPaths := 0
	for _, fn := range fns {
		for _, call := range an.AllCalls(fn) {
			ci := an.Callee(call)
			if ci.Pkg != "os" || ci.Recv != "" || ci.Fn == nil {
				continue
			}
			sig := ci.Fn.Type().(*types.Signature)
			for i, a := range call.Common().Args {
				if i >= sig.Params().Len() {
					break
				}
				if b, ok := sig.Params().At(i).Type().Underlying().(*types.Basic); !ok || b.Kind() != types.String {
					continue
				}
				nPaths++
				name := an.FuncName(fn)
				ok, kind, why := classify(fn, a, call, 2)
				if kind == "" {
					kind = "Join(dir,encode(name))"
				}
				c.Check(ok, "O1", "R-FLOW", name, "os."+ci.Name+"(path)="+kind, call.Pos(), "the path is the keystore directory or dir/encode(name)",
					"a file-system path in the keystore is not confined to the keystore directory: "+why+" — a key name could create or read files outside the directory")
			}
		}
	}
	c.Min("O1 path arguments of os calls", nPaths, 1)
	c.Min("O1 name encoder functions", len(encoders), 1)

	// codec provenance
	codecOK := func(v ssa.Value) (bool, *ssa.Global) {
		var glob *ssa.Global
		ok, _ := an.AllRootsX(v, nil, func(r ssa.Value) bool {
			u, ok := r.(*ssa.UnOp)
			if !ok || u.Op != token.MUL {
				return false
			}
			g, ok := u.X.(*ssa.Global)
			if !ok {
				return false
			}
			glob = g
			return true
		})
		return ok, glob
	}
	var prefix string
	lower := false
	var codecGlobal *ssa.Global
	for enc := range encoders {
		name := an.FuncName(enc)
		nRet := 0
		for _, r := range an.Returns(enc) {
			if len(r.Results) != 2 || !an.IsNilConst(r.Results[1]) {
				continue
			}
			nRet++
			bo, ok := r.Results[0].(*ssa.BinOp)
			okShape := ok && bo.Op == token.ADD
			why := "the encoded file name is not <constant prefix> + base32(name)"
			if okShape {
				k, isK := an.ConstOf(bo.X)
				if !isK || k.Kind() != constant.String {
					okShape = false
				} else {
					prefix = constant.StringVal(k)
					if prefix == "" || strings.ContainsAny(prefix, "/\\") || strings.HasPrefix(prefix, ".") {
						okShape, why = false, "the file-name prefix \""+prefix+"\" is empty, starts with a dot or contains a separator"
					}
				}
			}
			if okShape {
				body := bo.Y
				if lc, ok := an.IsCallTo(body, an.M("strings", "-", "ToLower")); ok {
					lower, body = true, lc.Call.Args[0]
				}
				ec, ok := an.IsCallTo(body, an.M("encoding/base32", "Encoding", "EncodeToString"))
				if !ok {
					okShape, why = false, "the variable part of the file name is not (*base32.Encoding).EncodeToString(name): "+an.ShowPath(body)
				} else {
					okC, g := codecOK(an.Recv(ec))
					if !okC {
						okShape, why = false, "the base32 encoding used is not a package-level codec"
					}
					codecGlobal = g
					argOK, _ := an.AllRootsX(an.Args(ec)[0], nil, func(x ssa.Value) bool { return x == ssa.Value(enc.Params[0]) })
					if !argOK {
						okShape, why = false, "the encoder does not encode its name parameter"
					}
				}
			}
			c.Check(okShape, "O1", "R-FLOW", name, "return prefix+base32(name)", r.Pos(), "file names are <prefix>+base32(name): no separators, no dot names", why+": key names with '/', '..' or NUL reach the file system")
		}
		c.Min("O1 success returns of the name encoder", nRet, 1)
		// empty name rejected
		isName := func(v ssa.Value) bool { return v == ssa.Value(enc.Params[0]) }
		emptyEdges := an.TokRelEdges(enc, isName, func(v ssa.Value) bool {
			k, ok := an.ConstOf(v)
			return ok && k.Kind() == constant.String && constant.StringVal(k) == ""
		}, token.EQL)
		okEmpty := len(emptyEdges) > 0
		for _, r := range an.Returns(enc) {
			if len(r.Results) == 2 && an.IsNilConst(r.Results[1]) && c13ReachAfterEdges(enc, emptyEdges, r) {
				okEmpty = false
			}
		}
		c.Check(okEmpty, "O1", "R-DOM", name, "name==\"\"=>error", enc.Pos(), "the empty name is rejected", "the name encoder accepts the empty key name (the file would be the bare prefix)")
	}
	// codec initialiser
	if codecGlobal != nil {
		nInit := 0
		for _, fn := range p.Funcs {
			if fn.Pkg == nil || fn.Pkg.Pkg.Path() != an.Mod+"/"+ks {
				continue
			}
			an.Instrs(fn, func(in ssa.Instruction) {
				st, ok := in.(*ssa.Store)
				if !ok || st.Addr != ssa.Value(codecGlobal) {
					return
				}
				nInit++
				c.Check(c40IsBase32Std(st.Val), "O1", "R-CONST", an.FuncName(fn), "codec=base32.{Std,Hex}Encoding[.WithPadding]", st.Pos(), "the codec is a standard base32 alphabet",
					"the file-name codec is not derived from base32.StdEncoding/HexEncoding: its alphabet may contain separators or dots")
			})
		}
		if init := pk.Types.Scope(); init != nil && nInit == 0 {
			// package initialiser is synthetic and not in p.Funcs: look it up
			if sp := p.SSA.Package(pk.Types); sp != nil {
				if f := sp.Func("init"); f != nil {
					an.Instrs(f, func(in ssa.Instruction) {
						st, ok := in.(*ssa.Store)
						if !ok || st.Addr != ssa.Value(codecGlobal) {
							return
						}
						nInit++
						c.Check(c40IsBase32Std(st.Val), "O1", "R-CONST", "keystore.init", "codec=base32.{Std,Hex}Encoding[.WithPadding]", st.Pos(), "the codec is a standard base32 alphabet",
							"the file-name codec is not derived from base32.StdEncoding/HexEncoding: its alphabet may contain separators or dots")
					})
				}
			}
		}
		c.Min("O1 initialisers of the codec variable", nInit, 1)
	}
	// decode mirror
	nDec := 0
	for _, fn := range fns {
		for _, dc := range an.Calls(fn, an.M("encoding/base32", "Encoding", "DecodeString")) {
			nDec++
			name := an.FuncName(fn)
			_, g := codecOK(an.Recv(dc))
			c.Check(g != nil && g == codecGlobal, "O1", "R-TABLE", name, "decode uses the encoder's codec", dc.Pos(), "same codec on both sides", "file names are decoded with a different codec than they were encoded with: List() reports wrong names or drops keys")
			arg := an.Args(dc)[0]
			upper := false
			if uc, ok := an.IsCallTo(arg, an.M("strings", "-", "ToUpper")); ok {
				upper, arg = true, uc.Call.Args[0]
			}
			c.Check(upper == lower, "O1", "R-TABLE", name, "ToUpper mirrors ToLower", dc.Pos(), "case folding is mirrored", "encode lower-cases="+boolStr(lower)+" but decode upper-cases="+boolStr(upper)+": stored keys cannot be listed")
			okCut := false
			if sl, ok := arg.(*ssa.Slice); ok && sl.High == nil && sl.Low != nil {
				if k, isK := an.ConstOf(sl.Low); isK {
					n, _ := constant.Int64Val(k)
					okCut = int(n) == len(prefix)
				}
			}
			okPref := false
			for _, hc := range an.Calls(fn, an.M("strings", "-", "HasPrefix")) {
				if k, isK := an.ConstOf(an.Args(hc)[1]); isK && k.Kind() == constant.String && constant.StringVal(k) == prefix {
					okPref = true
				}
			}
			c.Check(okCut && okPref, "O1", "R-TABLE", name, "decode strips the encoder's prefix", dc.Pos(), "the same prefix constant is required and removed", "decode does not require/strip exactly the prefix \""+prefix+"\" that encode prepends")
		}
	}
	c.Min("O1 base32 DecodeString calls (decode mirror)", nDec, 1)
	// List returns only decoded names
	if lf0 := p.Func(ks, "FSKeystore", "List"); c.Need(lf0 != nil, "FSKeystore.List") {
		// List and the package-local helpers it calls (the listing may be built there)
		listFns := []*ssa.Function{lf0}
		for i := 0; i < len(listFns) && i < 8; i++ {
			for _, call := range an.AllCalls(listFns[i]) {
				if h := an.Callee(call).Static; h != nil && h.Pkg == lf0.Pkg && len(h.Blocks) > 0 && !encoders[h] {
					dup := false
					for _, q := range listFns {
						if q == h {
							dup = true
						}
					}
					if !dup && len(an.Calls(h, an.M("encoding/base32", "Encoding", "DecodeString"))) == 0 {
						listFns = append(listFns, h)
					}
				}
			}
		}
		nAp, nRd := 0, 0
		for _, lf := range listFns {
			for _, ap := range an.Calls(lf, an.M("builtin", "", "append")) {
				args := ap.Common().Args
				if len(args) != 2 {
					continue
				}
				if s, ok := args[0].Type().Underlying().(*types.Slice); !ok || !types.Identical(s.Elem(), types.Typ[types.String]) {
					continue
				}
				nAp++
				elems := c14VarargInOrder(args[1])
				okL := len(elems) > 0
				for _, e := range elems {
					dcall, ok := an.IsCallTo(e, an.M(ks, "-", ""))
					if !ok || !an.OnNilEdgeOf(lf, dcall, ap) {
						okL = false
					}
				}
				c.Check(okL, "O1", "R-FLOW", an.FuncName(lf), "list<-decode(filename) ok", ap.Pos(), "only successfully decoded file names are listed", "List() reports a raw directory entry or a name whose decoding failed")
			}
			for _, rc := range an.AllCalls(lf) {
				ci := an.Callee(rc)
				if ci.Pkg != "os" || ci.Recv != "File" || (ci.Name != "Readdirnames" && ci.Name != "Readdir" && ci.Name != "ReadDir") {
					continue
				}
				nRd++
				k, isK := an.ConstOf(an.Args(rc)[0])
				okAll := false
				if isK {
					n, _ := constant.Int64Val(k)
					okAll = n <= 0
				}
				c.Check(okAll, "O1", "R-API", an.FuncName(lf), "(*os.File)."+ci.Name+"(n<=0)", rc.Pos(), "the whole directory is read", "List() reads the directory with a positive (or computed) entry limit: keys beyond the limit are silently missing from the listing")
			}
		}
		c.Min("O1 appends to the listing", nAp, 1)
		c.Min("O1 directory reads in List", nRd, 1)
	}

	// ---------------- O2 exclusive create
	oCreate, ok1 := c40IntConst(pk.Types, "os", "O_CREATE")
	oExcl, ok2 := c40IntConst(pk.Types, "os", "O_EXCL")
	if !c.Need(ok1 && ok2, "os.O_CREATE / os.O_EXCL") {
		return
	}
	nOpen := 0
	var exclOpens []ssa.CallInstruction
	for _, fn := range fns {
		for _, call := range an.Calls(fn, an.M("os", "-", "OpenFile")) {
			nOpen++
			k, isK := an.ConstOf(an.Args(call)[1])
			flags, _ := int64(0), false
			if isK {
				flags, _ = constant.Int64Val(k)
			}
			creates := !isK || flags&oCreate != 0
			okX := isK && (!creates || flags&oExcl != 0)
			c.Check(okX, "O2", "R-API", an.FuncName(fn), "OpenFile flags O_CREATE=>O_EXCL", call.Pos(), "creation is exclusive", "a key file is opened with O_CREATE but without O_EXCL (or non-constant flags): Put overwrites an existing key instead of refusing")
			if okX && creates {
				exclOpens = append(exclOpens, call)
			}
		}
		for _, call := range an.Calls(fn, an.M("os", "-", "WriteFile"), an.M("os", "-", "Create"), an.M("os", "-", "Rename"), an.M("os", "-", "Link"), an.M("os", "-", "Symlink")) {
			c.Bad("O2", "R-API", an.FuncName(fn), "os."+an.Callee(call).Name, call.Pos(), "the keystore creates/replaces files with os."+an.Callee(call).Name+", which silently overwrites an existing key file")
		}
	}
	c.Min("O2 os.OpenFile calls", nOpen, 1)

	// ---------------- O4 content: what Put writes is the whole marshalled key
	nW := 0
	var judgeBytes func(fn *ssa.Function, v ssa.Value, depth int) string
	judgeBytes = func(fn *ssa.Function, v ssa.Value, depth int) string {
		for _, r := range an.RootsX(v, &an.FlowOpts{StopAt: func(x ssa.Value) bool { _, isSl := x.(*ssa.Slice); return isSl }}) {
			switch x := r.(type) {
			case *ssa.Slice:
				if x.Low != nil || x.High != nil {
					return "a sub-slice of the marshalled key"
				}
				if w := judgeBytes(fn, x.X, depth); w != "" {
					return w
				}
			case *ssa.Extract:
				call, ok := x.Tuple.(*ssa.Call)
				if !ok || an.Callee(call).Name != "MarshalPrivateKey" || x.Index != 0 {
					return "bytes that are not the marshalled key (" + an.ShowPath(x) + ")"
				}
			case *ssa.Parameter:
				if depth <= 0 || fn.Object() == nil || fn.Object().Exported() {
					return "bytes from a parameter whose callers are unknown"
				}
				idx, n := -1, 0
				for i, q := range fn.Params {
					if q == x {
						idx = i
					}
				}
				for _, g := range fns {
					for _, call := range an.AllCalls(g) {
						if an.Callee(call).Static == fn && idx >= 0 && idx < len(call.Common().Args) {
							n++
							if w := judgeBytes(g, call.Common().Args[idx], depth-1); w != "" {
								return w
							}
						}
					}
				}
				if n == 0 {
					return "bytes from a parameter of a function without callers"
				}
			default:
				return "bytes that are not the marshalled key (" + an.ShowPath(r) + ")"
			}
		}
		return ""
	}
	for _, fn := range fns {
		for _, call := range an.AllCalls(fn) {
			ci := an.Callee(call)
			if ci.Pkg != "os" || ci.Recv != "File" || ci.Name != "Write" {
				continue
			}
			nW++
			why := judgeBytes(fn, an.Args(call)[0], 2)
			c.Check(why == "", "O4", "R-FLOW", an.FuncName(fn), "key file content = MarshalPrivateKey(k)", call.Pos(), "the key file receives the whole marshalled key",
				"the key file is written with "+why+": Get cannot return the key that was Put")
		}
	}
	c.Min("O4 writes to key files", nW, 1)

	// ---------------- O3 sibling agreement
	kindOf := func(v ssa.Value, osErrs []ssa.Value) string {
		if an.IsNilConst(v) {
			return "nil"
		}
		kinds := map[string]bool{}
		for _, r := range an.RootsX(v, nil) {
			switch x := r.(type) {
			case *ssa.Const:
				if x.IsNil() {
					kinds["nil"] = true
					continue
				}
				kinds["other"] = true
			case *ssa.UnOp:
				if g, ok := x.X.(*ssa.Global); ok && x.Op == token.MUL {
					kinds["var "+g.Name()] = true
					continue
				}
				kinds["other"] = true
			default:
				isOs := false
				for _, e := range osErrs {
					if r == e {
						isOs = true
					}
				}
				if isOs {
					kinds["raw os error"] = true
				} else if call, ok := r.(*ssa.Call); ok && an.Callee(call).Pkg == "fmt" {
					kinds["wrapped error"] = true
				} else {
					kinds["other"] = true
				}
			}
		}
		var ks []string
		for k := range kinds {
			ks = append(ks, k)
		}
		sort.Strings(ks)
		return strings.Join(ks, "|")
	}
	retKinds := func(fn *ssa.Function, from ssa.Instruction, cut an.EdgeSet, osErrs []ssa.Value) []string {
		set := map[string]bool{}
		reach := an.ReachSet(fn, from, cut, nil)
		for _, in := range an.SortedInstrs(reach) {
			r, ok := in.(*ssa.Return)
			if !ok || len(r.Results) == 0 {
				continue
			}
			last := r.Results[len(r.Results)-1]
			for _, v := range an.ValuesUnder(last, reach, cut) {
				set[kindOf(v, osErrs)] = true
			}
		}
		var out []string
		for k := range set {
			out = append(out, k)
		}
		sort.Strings(out)
		return out
	}
	type row struct {
		method, sentinel string // fs sentinel tested with errors.Is
		memFound         bool   // the Mem outcome edge: key found (true) / missing (false)
		what             string
	}
	rows := []row{
		{"Has", "ErrNotExist", false, "a missing key"},
		{"Get", "ErrNotExist", false, "a missing key"},
		{"Delete", "ErrNotExist", false, "a missing key"},
		{"Put", "ErrExist", true, "an existing key"},
	}
	for _, rw := range rows {
		fsf, memf := p.Func(ks, "FSKeystore", rw.method), p.Func(ks, "MemKeystore", rw.method)
		if !c.Need(fsf != nil && memf != nil, "FSKeystore/MemKeystore."+rw.method) {
			continue
		}
		// Mem outcome
		var memLookup ssa.Instruction
		var okVals []ssa.Value
		an.Instrs(memf, func(in ssa.Instruction) {
			if l, ok := in.(*ssa.Lookup); ok && l.CommaOk {
				memLookup = l
				for _, r := range *l.Referrers() {
					if e, ok := r.(*ssa.Extract); ok && e.Index == 1 {
						okVals = append(okVals, e)
					}
				}
			}
		})
		memCut := an.BoolEdges(memf, okVals, !rw.memFound) // cut the opposite outcome
		memKinds := retKinds(memf, memLookup, memCut, nil)
		// FS outcome: the os call on the key file
		fsKinds, osCall, nTests, okFS := c40FSKinds(fsf, rw.sentinel, kindOf, 2)
		if !okFS {
			c.Note("C40 O3: FSKeystore.%s performs no file operation the sibling rule can find; not decided", rw.method)
			continue
		}
		isCalls := make([]int, nTests)
		tested := "tests errors.Is(err, fs." + rw.sentinel + ")"
		if len(isCalls) == 0 {
			tested = "never tests errors.Is(err, fs." + rw.sentinel + ")"
		}
		c.Check(strings.Join(fsKinds, ",") == strings.Join(memKinds, ",") && len(memKinds) > 0, "O3", "R-SIB", an.FuncName(fsf), rw.method+"("+rw.what+") agrees with MemKeystore", osCall.Pos(),
			"for "+rw.what+" both keystores return error kind {"+strings.Join(memKinds, ",")+"}",
			"for "+rw.what+" FSKeystore."+rw.method+" ("+tested+" on its file operation) returns error kind {"+strings.Join(fsKinds, ",")+"} but MemKeystore."+rw.method+" returns {"+strings.Join(memKinds, ",")+"}: the two keystores disagree, the FS keystore does not behave like the map")
	}
}

// c40IsCtorDir: v is a string parameter of a constructor-like function (no
// receiver) that is stored into the dir field of a fresh FSKeystore.
func c40IsCtorDir(v ssa.Value, fn *ssa.Function, fDir *types.Var) bool {
	pr, ok := v.(*ssa.Parameter)
	if !ok || fn.Signature.Recv() != nil {
		return false
	}
	for _, st := range an.FieldStores(fn, fDir) {
		_, base := an.FieldOf(st.Addr)
		if an.IsFresh(base) && st.Val == ssa.Value(pr) {
			return true
		}
	}
	return false
}

// c40IsBase32Std: v is base32.StdEncoding / HexEncoding, optionally through
// Encoding.WithPadding.
func c40IsBase32Std(v ssa.Value) bool {
	for i := 0; i < 4; i++ {
		if wc, ok := an.IsCallTo(v, an.M("encoding/base32", "Encoding", "WithPadding")); ok {
			v = an.Recv(wc)
			continue
		}
		u, ok := v.(*ssa.UnOp)
		if !ok || u.Op != token.MUL {
			return false
		}
		if g, ok := u.X.(*ssa.Global); ok {
			return g.Pkg.Pkg.Path() == "encoding/base32" && (g.Name() == "StdEncoding" || g.Name() == "HexEncoding")
		}
		v = u.X // *(*StdEncoding): value receiver spilled from the pointer variable
	}
	return false
}

func c40IntConst(from *types.Package, path, name string) (int64, bool) {
	k, ok := c13Const(from, path, name)
	if !ok {
		return 0, false
	}
	n, exact := constant.Int64Val(k)
	return n, exact
}

// c40JoinParts returns the two elements of filepath.Join(x, y) for v, looking
// through one package-local path-builder helper whose every return is
// filepath.Join(<dir load>, <its parameter>): the actual argument is
// substituted for the parameter.
func c40JoinParts(v ssa.Value, isDirLoad func(ssa.Value) bool) ([]ssa.Value, bool) {
	if jc, ok := an.IsCallTo(v, an.M("path/filepath", "-", "Join")); ok {
		return c14VarargInOrder(jc.Call.Args[0]), true
	}
	call, ok := v.(*ssa.Call)
	if !ok {
		return nil, false
	}
	g := call.Common().StaticCallee()
	if g == nil || len(g.Blocks) == 0 || g.Pkg == nil || g.Pkg.Pkg.Path() != an.Mod+"/keystore" {
		return nil, false
	}
	idx := -1
	var dir ssa.Value
	for _, r := range an.Returns(g) {
		if len(r.Results) != 1 {
			return nil, false
		}
		jc, ok := an.IsCallTo(r.Results[0], an.M("path/filepath", "-", "Join"))
		if !ok {
			return nil, false
		}
		el := c14VarargInOrder(jc.Call.Args[0])
		if len(el) != 2 || !isDirLoad(el[0]) {
			return nil, false
		}
		pr, ok := el[1].(*ssa.Parameter)
		if !ok {
			return nil, false
		}
		k := -1
		for i, gp := range g.Params {
			if gp == pr {
				k = i
			}
		}
		if k < 0 || (idx >= 0 && idx != k) {
			return nil, false
		}
		idx, dir = k, el[0]
	}
	if idx < 0 || idx >= len(call.Call.Args) {
		return nil, false
	}
	return []ssa.Value{dir, call.Call.Args[idx]}, true
}

// c40FSKinds: the kinds of error fn returns when its file operation fails with
// the given fs sentinel. The file operation is a direct package-level os call,
// or a call of a package-local helper that performs one (followed recursively:
// the helper may already map the sentinel itself; an error handed through
// unchanged keeps the helper's kinds). nTests counts the errors.Is tests found.
func c40FSKinds(fn *ssa.Function, sentinel string, kindOf func(ssa.Value, []ssa.Value) string, depth int) (kinds []string, site ssa.CallInstruction, nTests int, ok bool) {
	var osCall ssa.CallInstruction
	for _, call := range an.AllCalls(fn) {
		ci := an.Callee(call)
		if ci.Pkg == "os" && ci.Recv == "" && len(an.ErrResult(call)) > 0 {
			osCall = call
		}
	}
	var sub []string
	if osCall == nil && depth > 0 {
		for _, call := range an.AllCalls(fn) {
			h := an.Callee(call).Static
			if h == nil || h == fn || h.Pkg != fn.Pkg || len(h.Blocks) == 0 || len(an.ErrResult(call)) == 0 {
				continue
			}
			if hk, _, ht, hok := c40FSKinds(h, sentinel, kindOf, depth-1); hok {
				osCall, sub, nTests = call, hk, ht
			}
		}
	}
	if osCall == nil {
		return nil, nil, 0, false
	}
	errs := an.ErrResult(osCall)
	errAl := an.Aliases(errs...)
	var isCalls []ssa.Value
	for _, ic := range an.Calls(fn, an.M("errors", "-", "Is")) {
		args := an.Args(ic)
		if !errAl[args[0]] {
			continue
		}
		if u, isLoad := args[1].(*ssa.UnOp); isLoad {
			if g, isG := u.X.(*ssa.Global); isG && g.Name() == sentinel && (g.Pkg.Pkg.Path() == "io/fs" || g.Pkg.Pkg.Path() == "os") {
				isCalls = append(isCalls, an.CallValue(ic))
			}
		}
	}
	nTests += len(isCalls)
	cut := an.NilEdges(fn, errs, true) // the operation failed
	if len(isCalls) > 0 {
		cut = cut.Union(an.BoolEdges(fn, isCalls, false)) // ... with the sentinel
	}
	set := map[string]bool{}
	reach := an.ReachSet(fn, osCall, cut, nil)
	for _, in := range an.SortedInstrs(reach) {
		r, isRet := in.(*ssa.Return)
		if !isRet || len(r.Results) == 0 {
			continue
		}
		last := r.Results[len(r.Results)-1]
		for _, v := range an.ValuesUnder(last, reach, cut) {
			k := kindOf(v, errs)
			if k == "raw os error" && sub != nil {
				for _, sk := range sub { // the helper's error handed through unchanged
					set[sk] = true
				}
				continue
			}
			set[k] = true
		}
	}
	for k := range set {
		kinds = append(kinds, k)
	}
	sort.Strings(kinds)
	return kinds, osCall, nTests, true
}
