package props

import (
	"fmt"
	"go/token"
	"go/types"
	"strings"

	"golang.org/x/tools/go/ssa"

	"verif/checker/an"
)

func init() {
	register("C12", Prop{
		Pkgs: []string{"./ipld/merkledag"},
		Explain: "Decided (structural necessary conditions of 'walks visit the reachable nodes and report the right CIDs'): " +
			"O1 in every function that calls a GetLinks value with CID X: walkOptions.ErrorHandler is invoked only on the error's non-nil edge, with X and with that very error, and every multihash given to Provider.StartProviding is X.Hash(); the provider is only reached where the (handler-filtered) error is nil; in walks that return an error, the (handler-filtered) getLinks error and the error of a recursive child walk are returned on their non-nil edge; " +
			"O2 every store to walkOptions.ErrorHandler on a live options object either replaces nil (guarded by ErrorHandler==nil) or stores a closure that captured the previous handler, calls it and the new handler with the CID it received, and never re-loads walkOptions.ErrorHandler at call time (self-reference = unbounded recursion when two handler options are combined); " +
			"O3 sequential and concurrent walk agree on SkipRoot: the visit callback is suppressed exactly when SkipRoot && depth==0, is asked about the very CID that is fetched next, and links are fetched only on the callback's true edge; " +
			"O4 FetchGraphWithDepthLimit's visit closure records set[c]=depth exactly when it returns true, only where !seen || oldDepth > depth, never beyond the depth limit, and never re-visits when the depth is unlimited; " +
			"O5 the depth handed to the visit callback is 0 for the root and parent depth + 1 for children (field-based flow through the dispatcher's queue records); " +
			"O6 a visit callback invoked from a fetch goroutine runs under a mutex; " +
			"O7 every link returned by getLinks is handed on: the loop over the links (found by field-based flow from the getLinks result, also across the dispatcher's queue records) ranges over the whole list, and every path of its body passes the link's CID to the recursive walk or stores it into a queue record that is then stored as next item / pushed to the queue — the walker never filters links itself, pruning belongs to the depth-aware visit callback; the loop is never left early; the dispatcher reports success only where its pending-item cell is undefined and its in-flight counter is 0. " +
			"NOT decided: exactness of the visited set under concurrency, termination/accounting of the concurrent dispatcher (inProgress), behaviour of user callbacks.",
		Assume:    []string{"walkOptions is unexported: only package merkledag can write ErrorHandler/Provider", "GetLinks values report the error of the CID they were called with"},
		Technique: "SSA rules: value provenance (R-FLOW), edge dominance (R-DOM), self-referential closure (R-CLOSURE), sibling agreement on guard edges (R-SIB), normalised comparison edges (R-CMP), lock-state dataflow (R-GUARD)",
		Run:       runC12,
	})
}

const c12cid = "github.com/ipfs/go-cid"

func runC12(c *an.Ctx) {
	p := c.P
	const md = "ipld/merkledag"
	// the (unexported) options struct and its fields are found by role: the
	// struct the exported option type WalkOption = func(*T) configures; the
	// error-handler field by its func(cid.Cid, error) error type, the provider
	// field by its interface type, the skip-root flag as the bool field set by
	// the exported SkipRoot() option
	fns := p.PkgFuncs(md)
	optT := c12OptionStruct(p, md, "WalkOption")
	if !c.Need(optT != nil, "the options struct configured by merkledag.WalkOption") {
		return
	}
	var fHandler, fProvider, fSkip *types.Var
	var bools []*types.Var
	ost := optT.Underlying().(*types.Struct)
	for i := 0; i < ost.NumFields(); i++ {
		f := ost.Field(i)
		switch {
		case c12IsHandlerSig(f.Type()):
			fHandler = f
		case an.TypeIs(f.Type(), "provider", "MultihashProvider"):
			fProvider = f
		default:
			if b, ok := f.Type().Underlying().(*types.Basic); ok && b.Kind() == types.Bool {
				bools = append(bools, f)
			}
		}
	}
	if len(bools) == 1 {
		fSkip = bools[0]
	} else if sk := p.Func(md, "", "SkipRoot"); sk != nil {
		for _, g := range an.WithClosures(sk) {
			for _, f := range bools {
				if len(an.FieldStores(g, f)) > 0 {
					fSkip = f
				}
			}
		}
	}
	if !c.Need(fHandler != nil && fProvider != nil && fSkip != nil, "fields of the walk options struct: error handler (func(cid.Cid,error) error), provider (MultihashProvider), skip-root flag (bool)") {
		return
	}

	// ---- fetch sites. A fetch site is a call of a GetLinks-typed value, or a
	// static call of a package-local *fetch wrapper*: a function without visit
	// callback that calls a GetLinks value with one of its own parameters and
	// returns (links, error). A provide site is Provider.StartProviding(x.Hash())
	// or a call of a *provide wrapper* (announces the Hash of its CID parameter).
	// Every rule below speaks about sites, so moving the "get links + run the
	// error handler" / "announce" blocks into helpers changes nothing.
	directG := map[*ssa.Function][]*ssa.Call{}
	visitsOf := map[*ssa.Function][]*ssa.Call{}
	for _, fn := range fns {
		for _, call := range an.AllCalls(fn) {
			cv := an.CallValue(call)
			if cv == nil {
				continue
			}
			if c12IsVisitCall(cv) {
				visitsOf[fn] = append(visitsOf[fn], cv)
			}
			if cv.Call.IsInvoke() || an.Callee(call).Fn != nil || an.Callee(call).Static != nil {
				continue
			}
			if an.TypeIs(cv.Call.Value.Type(), md, "GetLinks") && len(cv.Call.Args) == 2 {
				directG[fn] = append(directG[fn], cv)
			}
		}
	}
	paramIdx := func(fn *ssa.Function, v ssa.Value) int {
		for i, pr := range fn.Params {
			if v == ssa.Value(pr) {
				return i
			}
		}
		return -1
	}
	// fetch wrappers
	fetchWrap := map[*ssa.Function]int{} // wrapper -> index of the CID parameter
	for _, fn := range fns {
		gl := directG[fn]
		if len(gl) != 1 || len(visitsOf[fn]) > 0 || fn.Parent() != nil {
			continue
		}
		rs := fn.Signature.Results()
		if rs.Len() != 2 || !an.IsErrorType(rs.At(1).Type()) {
			continue
		}
		if k := paramIdx(fn, gl[0].Call.Args[1]); k >= 0 {
			fetchWrap[fn] = k
		}
	}
	// provide wrappers
	mProv := an.M("provider", "MultihashProvider", "StartProviding")
	provideCid := func(pc ssa.CallInstruction) (ssa.Value, string) {
		elems := c12VarargElems(an.Args(pc)[1])
		var cidv ssa.Value
		if len(elems) == 0 {
			return nil, "no multihash"
		}
		for _, e := range elems {
			hc, ok := an.IsCallTo(e, an.M(c12cid, "Cid", "Hash"))
			if !ok {
				return nil, an.ShowPath(e)
			}
			if cidv != nil && !an.SameVal(cidv, an.Recv(hc)) {
				return nil, "several CIDs"
			}
			cidv = an.Recv(hc)
		}
		return cidv, ""
	}
	provWrap := map[*ssa.Function]int{}
	for _, fn := range fns {
		pcs := an.Calls(fn, mProv)
		if len(pcs) == 0 || len(directG[fn]) > 0 || len(visitsOf[fn]) > 0 || fn.Parent() != nil {
			continue
		}
		k := -1
		okW := true
		for _, pc := range pcs {
			cv, _ := provideCid(pc)
			if cv == nil || paramIdx(fn, cv) < 0 || (k >= 0 && paramIdx(fn, cv) != k) {
				okW = false
				break
			}
			k = paramIdx(fn, cv)
		}
		if okW && k >= 0 {
			provWrap[fn] = k
		}
	}
	type fetchSite struct {
		call   ssa.CallInstruction
		cid    ssa.Value
		links  []ssa.Value
		errs   []ssa.Value
		direct *ssa.Call
	}
	type provSite struct {
		call ssa.CallInstruction
		cid  ssa.Value
		why  string
	}
	sitesOf := func(fn *ssa.Function) (fs []fetchSite, ps []provSite) {
		for _, call := range an.AllCalls(fn) {
			cv := an.CallValue(call)
			if cv == nil {
				continue
			}
			isDirect := false
			for _, g := range directG[fn] {
				if g == cv {
					isDirect = true
				}
			}
			switch {
			case isDirect:
				fs = append(fs, fetchSite{cv, cv.Call.Args[1], an.Result(cv, 0), an.ErrResult(cv), cv})
			case mProv.Match(an.Callee(call)):
				pcid, why := provideCid(call)
				ps = append(ps, provSite{call, pcid, why})
			default:
				g := an.Callee(call).Static
				if g == nil {
					continue
				}
				if k, ok := fetchWrap[g]; ok && k < len(cv.Call.Args) {
					fs = append(fs, fetchSite{cv, cv.Call.Args[k], an.Result(cv, 0), an.ErrResult(cv), nil})
				}
				if k, ok := provWrap[g]; ok && k < len(cv.Call.Args) {
					ps = append(ps, provSite{call, cv.Call.Args[k], ""})
				}
			}
		}
		return
	}
	type walk struct {
		fn    *ssa.Function
		sites []fetchSite
		provs []provSite
	}
	var walks []walk
	nWalkFns := 0
	for _, fn := range fns {
		fs, ps := sitesOf(fn)
		if len(fs) == 0 {
			// a provide wrapper announces the Hash of its own CID parameter
			if _, isPW := provWrap[fn]; isPW {
				c.OK("O1", "R-FLOW", an.FuncName(fn), "provide-wrapper announces its CID parameter", fn.Pos(), "StartProviding(c.Hash()) of the parameter; checked against the fetched CID at every call site")
			}
			continue
		}
		walks = append(walks, walk{fn, fs, ps})
		if len(visitsOf[fn]) > 0 {
			nWalkFns++
		}
	}
	c.Min("functions with a fetch site (call of a GetLinks value or of a fetch wrapper)", len(walks), 1)
	c.Min("walk functions (fetch site + visit callback)", nWalkFns, 1)

	nH, nP, nV := 0, 0, 0
	for _, w := range walks {
		fn, name := w.fn, an.FuncName(w.fn)
		// handler calls of this function (value derived from walkOptions.ErrorHandler, also via hoisted locals)
		var handlers []*ssa.Call
		for _, call := range an.AllCalls(fn) {
			if cv := an.CallValue(call); cv != nil && !cv.Call.IsInvoke() && an.Callee(call).Fn == nil && an.Callee(call).Static == nil && c12IsHandlerSig(cv.Call.Value.Type()) && c12LoadsField(cv.Call.Value, fHandler) {
				handlers = append(handlers, cv)
			}
		}
		finalOf := func(s fetchSite) func(ssa.Value) bool {
			return func(v ssa.Value) bool {
				sawG := false
				ok, _ := an.AllRootsX(v, nil, func(r ssa.Value) bool {
					for _, e := range s.errs {
						if r == e {
							sawG = true
							return true
						}
					}
					if s.direct != nil {
						for _, h := range handlers {
							if r == ssa.Value(h) {
								return true
							}
						}
					}
					return false
				})
				return ok && sawG
			}
		}
		nilTest := func(isE func(ssa.Value) bool, wantNil bool) an.EdgeSet {
			return an.CondEdges(fn, func(atom ssa.Value) (bool, bool) {
				b, ok := atom.(*ssa.BinOp)
				if !ok || (b.Op != token.EQL && b.Op != token.NEQ) {
					return false, false
				}
				var subj ssa.Value
				switch {
				case an.IsNilConst(b.Y):
					subj = b.X
				case an.IsNilConst(b.X):
					subj = b.Y
				default:
					return false, false
				}
				if !isE(subj) {
					return false, false
				}
				if wantNil {
					return b.Op == token.EQL, b.Op == token.NEQ
				}
				return b.Op == token.NEQ, b.Op == token.EQL
			})
		}
		for _, s := range w.sites {
			g, x, errs := s.call, s.cid, s.errs
			isFinal := finalOf(s)
			finalNil := nilTest(isFinal, true)
			if s.direct != nil {
				for _, h := range handlers {
					if !an.Dominates(g, h) {
						continue
					}
					nH++
					c.Check(an.SameVal(h.Call.Args[0], x), "O1", "R-FLOW", name, "ErrorHandler.cid==getLinks.cid", h.Pos(),
						"the error handler receives the CID that was passed to getLinks",
						fmt.Sprintf("ErrorHandler is called with %s but the failed fetch was getLinks(ctx, %s): OnMissing/OnError/IgnoreMissing callbacks are told the wrong CID", an.ShowPath(h.Call.Args[0]), an.ShowPath(x)))
					// the error passed: the getLinks error (possibly already filtered by an earlier handler call)
					c.Check(len(errs) > 0 && isFinal(h.Call.Args[1]), "O1", "R-FLOW", name, "ErrorHandler.err==getLinks.err", h.Pos(),
						"the error handler receives the error returned by getLinks", "ErrorHandler is called with an error that is not the one returned by the getLinks call it reports on")
					c.Check(len(errs) > 0 && an.GuardedBy(fn, g, h, nilTest(isFinal, false)), "O1", "R-DOM", name, "ErrorHandler<=err!=nil", h.Pos(),
						"the error handler is only invoked where getLinks failed", "ErrorHandler can be invoked although getLinks succeeded (handlers such as OnError would see a nil error / OnMissing fire spuriously)")
				}
				// a fetch wrapper hands back what it fetched
				if _, isW := fetchWrap[fn]; isW {
					okRet := true
					for _, r := range an.Returns(fn) {
						okL, _ := an.AllRootsX(r.Results[0], nil, func(v ssa.Value) bool {
							if an.IsNilConst(v) {
								return true
							}
							for _, l := range s.links {
								if v == l {
									return true
								}
							}
							return false
						})
						if !okL || !(isFinal(r.Results[1]) || an.IsNilConst(r.Results[1])) {
							okRet = false
						}
					}
					c.Check(okRet, "O1", "R-FLOW", name, "fetch-wrapper returns getLinks' links and filtered error", fn.Pos(),
						"the helper returns the links and the (handler-filtered) error of its getLinks call",
						"a helper that fetches links for the walks returns links or an error that do not come from its getLinks call: the walks descend into the wrong children / miss failures")
				}
			}
			for _, ps := range w.provs {
				if !an.Dominates(g, ps.call) {
					continue
				}
				nP++
				okP := ps.cid != nil && an.SameVal(ps.cid, x)
				bad := ps.why
				if ps.cid != nil {
					bad = an.ShowPath(ps.cid) + ".Hash()"
				}
				c.Check(okP, "O1", "R-FLOW", name, "StartProviding.mh==getLinks.cid.Hash()", ps.call.Pos(),
					"the provider is given the multihash of the CID that was just fetched",
					fmt.Sprintf("Provider.StartProviding is given %s but the node fetched was %s: the wrong node is announced (and the visited ones are not)", bad, an.ShowPath(x)))
				c.Check(an.GuardedBy(fn, g, ps.call, finalNil), "O1", "R-DOM", name, "StartProviding<=err==nil", ps.call.Pos(),
					"the provider is only reached where the (handler-filtered) getLinks error is nil",
					"Provider.StartProviding is reachable although getLinks failed and the error was not cleared by a handler: nodes that abort the walk are announced")
			}
		}
		if len(visitsOf[fn]) == 0 {
			continue // a fetch wrapper: the walk-level rules apply at its call sites
		}

		// ---- O1: the walk error is the (handler-filtered) getLinks error / the child walk's error
		if rs := fn.Signature.Results(); rs.Len() == 1 && an.IsErrorType(rs.At(0).Type()) {
			type src struct {
				what string
				call ssa.CallInstruction
				isE  func(ssa.Value) bool
			}
			var srcs []src
			for _, s := range w.sites {
				srcs = append(srcs, src{"getLinks", s.call, finalOf(s)})
			}
			for _, call := range an.AllCalls(fn) {
				if an.Callee(call).Static == fn {
					errs := an.ErrResult(call)
					srcs = append(srcs, src{"child walk", call, func(v ssa.Value) bool {
						ok, _ := an.AllRootsX(v, nil, func(r ssa.Value) bool {
							for _, e := range errs {
								if r == e {
									return true
								}
							}
							return false
						})
						return ok
					}})
				}
			}
			for _, sr := range srcs {
				nonNil := nilTest(sr.isE, false)
				// an edge "error is non-nil" that is final: its target returns
				nEdges, okAll := 0, true
				for e := range nonNil {
					tb := e.From.Succs[e.Succ]
					r, isRet := tb.Instrs[len(tb.Instrs)-1].(*ssa.Return)
					if !isRet {
						continue // e.g. the `err != nil && handler != nil` test: not final
					}
					nEdges++
					if !sr.isE(r.Results[0]) {
						okAll = false
					}
				}
				c.Check(nEdges > 0 && okAll, "O1", "R-DOM", name, sr.what+" error is returned", sr.call.Pos(),
					"a failing "+sr.what+" aborts the walk with that error",
					"the error of "+sr.what+" is not returned on its non-nil edge (dropped, replaced, or never tested): the walk reports success although nodes could not be fetched")
			}
		}

		// ---- O3 SkipRoot agreement, O5 depth, O6 lock
		visits := visitsOf[fn]
		// conditions on SkipRoot: a load of the field, or a local it was hoisted into
		isSkip := func(v ssa.Value) bool { return c12LoadsField(v, fSkip) }
		nSkipTests := 0
		skipAtom := func(atom ssa.Value) bool {
			if b, ok := atom.Type().Underlying().(*types.Basic); !ok || b.Kind() != types.Bool || !isSkip(atom) {
				return false
			}
			nSkipTests++
			return true
		}
		// classifiers of the two atoms: "SkipRoot" (true when the flag is set) and
		// "depth == 0" for a given depth value; facts are built from them and
		// evaluated with an.FactEdges, which also understands the conditions when
		// they are carried in boolean values (`bypass := SkipRoot && depth == 0`)
		depthAtom := func(d ssa.Value, atom ssa.Value) (isZeroOnTrue, isZeroOnFalse bool) {
			bo, ok := atom.(*ssa.BinOp)
			if !ok {
				return false, false
			}
			var x, k ssa.Value
			switch {
			case an.IsIntConst(0)(bo.Y):
				x, k = bo.X, bo.Y
			case an.IsIntConst(0)(bo.X):
				x, k = bo.Y, bo.X
			default:
				return false, false
			}
			_ = k
			if !an.SameVal(x, d) {
				return false, false
			}
			switch bo.Op {
			case token.EQL:
				return true, false
			case token.NEQ:
				return false, true
			}
			return false, false
		}
		eSkipT := an.FactEdges(fn, func(a ssa.Value) (bool, bool) { return skipAtom(a), false })
		blockedVisits := map[ssa.Instruction]bool{}
		for _, v := range visits {
			blockedVisits[v] = true
		}
		for _, v := range visits {
			nV++
			d := v.Call.Args[1]
			eD0 := an.FactEdges(fn, func(a ssa.Value) (bool, bool) { return depthAtom(d, a) })
			// the disjunction !SkipRoot || depth != 0 as one fact
			eNoBypass := an.FactEdges(fn, func(a ssa.Value) (bool, bool) {
				if skipAtom(a) {
					return false, true
				}
				z1, z2 := depthAtom(d, a)
				return z2, z1
			})
			c.Check(nSkipTests > 0 && an.GuardedBy(fn, nil, v, eNoBypass), "O3", "R-SIB", name, "visit<=!SkipRoot||depth!=0", v.Pos(),
				"the visit callback is only invoked where !SkipRoot or depth != 0",
				"the visit callback can be invoked for the root although SkipRoot is set (or SkipRoot is not consulted at all by this walk)")
			for _, s := range w.sites {
				g := s.call
				c.Check(an.SameVal(v.Call.Args[0], s.cid), "O3", "R-FLOW", name, "visit.cid==getLinks.cid", v.Pos(),
					"the visit callback is asked about the CID that is fetched next",
					"the visit callback is asked about "+an.ShowPath(v.Call.Args[0])+" but the node fetched is "+an.ShowPath(s.cid)+": the callback prunes/records the wrong nodes")
				okB := !an.Reaches(fn, nil, g, eSkipT, blockedVisits) && !an.Reaches(fn, nil, g, eD0, blockedVisits)
				c.Check(okB, "O3", "R-SIB", name, "getLinks-without-visit<=SkipRoot&&depth==0", g.Pos(),
					"links are fetched without asking the visit callback only where SkipRoot && depth == 0",
					"getLinks can be reached without the visit callback having been asked on a path that is not (SkipRoot && depth == 0): nodes are fetched/descended although the callback was never consulted")
				if an.Dominates(v, g) || an.Reaches(fn, v, g, nil, nil) {
					// the value tested before fetching: the visit result, possibly merged
					// with the bypass condition (constant true, or a boolean built from the
					// SkipRoot flag and depth == 0 — whose use is policed by the rule above)
					visitTrue := an.CondEdges(fn, func(atom ssa.Value) (bool, bool) {
						saw := false
						ok, _ := an.AllRootsX(atom, nil, func(r ssa.Value) bool {
							if r == ssa.Value(v) {
								saw = true
								return true
							}
							if _, isK := an.ConstOf(r); isK {
								return true
							}
							if isSkip(r) {
								return true
							}
							z1, z2 := depthAtom(d, r)
							return z1 || z2
						})
						return ok && saw, false
					})
					c.Check(an.GuardedBy(fn, v, g, visitTrue), "O3", "R-DOM", name, "getLinks<=visit()==true", g.Pos(),
						"links are fetched only where the visit callback returned true",
						"getLinks is reachable after the visit callback returned false: pruned nodes (already seen / beyond the depth limit) are fetched and descended")
				}
			}
			// O5 depth provenance
			ok5, why := c12DepthOK(p, fn, d)
			c.Check(ok5, "O5", "R-FLOW", name, "visit.depth=0|parent+1", v.Pos(),
				"the depth given to the visit callback is 0 at the root and parent depth + 1 for children", "depth bookkeeping: "+why)
			// O6 lock when running as a goroutine body
			if c12IsGoroutineBody(fn) {
				lf := an.Locks(fn, an.SyncModel, nil, true)
				held := false
				for _, m := range lf.Before[v] {
					if m == an.LWrite {
						held = true
					}
				}
				c.Check(held, "O6", "R-GUARD", name, "visit-under-mutex", v.Pos(),
					"the visit callback runs under a mutex in the fetch goroutines", "the visit callback is invoked from concurrent fetch goroutines without a mutex held: callbacks (e.g. the depth map of FetchGraphWithDepthLimit) race")
			}
		}
	}
	// ---- O7: every link returned by getLinks is walked / queued
	walkFns := map[*ssa.Function]bool{}
	famRoots := map[*ssa.Function]map[ssa.Value]bool{}
	var famOrder []*ssa.Function
	for _, w := range walks {
		if len(visitsOf[w.fn]) == 0 {
			continue
		}
		walkFns[w.fn] = true
		root := w.fn
		for root.Parent() != nil {
			root = root.Parent()
		}
		if famRoots[root] == nil {
			famRoots[root] = map[ssa.Value]bool{}
			famOrder = append(famOrder, root)
		}
		for _, s := range w.sites {
			for _, r := range s.links {
				famRoots[root][r] = true
			}
		}
	}
	nLoops := 0
	for _, root := range famOrder {
		nLoops += c12LinksWalked(c, p, walkFns, root, famRoots[root])
	}
	c.Min("O7 loops over the links returned by getLinks", nLoops, 1)
	c.Min("O1 ErrorHandler invocations after getLinks", nH, 1)
	c.Min("O1 StartProviding sites after a fetch site", nP, 1)
	c.Min("O3 visit callback invocations", nV, 1)

	// ---- O2: composition of error handlers
	nO2 := 0
	for _, fn := range fns {
		for _, st := range an.FieldStores(fn, fHandler) {
			_, base := an.FieldOf(st.Addr)
			if an.IsFresh(base) {
				continue
			}
			nO2++
			name := an.FuncName(fn)
			mc, isClosure := st.Val.(*ssa.MakeClosure)
			// a closure built by a package-local factory (composeHandlers(prev, handler)):
			// look at the closure it returns, with the factory's parameters bound to
			// the actual arguments
			var factory *ssa.Function
			var factoryCall *ssa.Call
			if fc, ok := st.Val.(*ssa.Call); ok && !isClosure {
				if h := fc.Common().StaticCallee(); h != nil && len(h.Blocks) > 0 && h.Pkg == fn.Pkg {
					var got *ssa.MakeClosure
					all := true
					for _, r := range an.Returns(h) {
						m, ok := r.Results[0].(*ssa.MakeClosure)
						if !ok || len(r.Results) != 1 || (got != nil && got.Fn != m.Fn) {
							all = false
							break
						}
						got = m
					}
					if all && got != nil {
						mc, isClosure, factory, factoryCall = got, true, h, fc
					}
				}
			}
			rootsVia := func(v ssa.Value) []ssa.Value {
				var out []ssa.Value
				for _, r := range an.RootsX(v, nil) {
					if pr, ok := r.(*ssa.Parameter); ok && factory != nil && pr.Parent() == factory {
						for i, fp := range factory.Params {
							if fp == pr && i < len(factoryCall.Call.Args) {
								out = append(out, an.RootsX(factoryCall.Call.Args[i], nil)...)
							}
						}
						continue
					}
					out = append(out, r)
				}
				return out
			}
			allVia := func(v ssa.Value, ok func(ssa.Value) bool) bool {
				rs := rootsVia(v)
				if len(rs) == 0 {
					return false
				}
				for _, r := range rs {
					if !ok(r) {
						return false
					}
				}
				return true
			}
			if !isClosure {
				loads := c12FieldLoads(fn, fHandler, base)
				c.Check(len(loads) > 0 && an.GuardedBy(fn, nil, st, an.NilEdges(fn, loads, true)), "O2", "R-DOM", name, "ErrorHandler=handler<=ErrorHandler==nil", st.Pos(),
					"a plain handler is stored only where no handler was installed yet",
					"walkOptions.ErrorHandler is overwritten with a plain handler although one may already be installed: an earlier OnError/OnMissing/IgnoreMissing option is silently dropped")
				continue
			}
			g := mc.Fn.(*ssa.Function)
			selfRef := false
			for _, h := range an.WithClosures(g) {
				if len(an.FieldReads(h, fHandler)) > 0 {
					selfRef = true
				}
			}
			c.Check(!selfRef, "O2", "R-CLOSURE", name, "ErrorHandler=closure(no self-load)", st.Pos(),
				"the composed handler does not re-load walkOptions.ErrorHandler when called",
				"the closure stored into walkOptions.ErrorHandler loads walkOptions.ErrorHandler when it is called, i.e. itself: combining two handler options (e.g. IgnoreMissing()+OnMissing()) recurses until the stack overflows")
			if selfRef {
				continue
			}
			// composition: calls the previous handler (captured before the store) and the new one, with its own CID
			prevLoads := c12FieldLoads(fn, fHandler, base)
			callsPrev, callsNew, cidOK := false, false, true
			var inner, outer *ssa.Call
			for _, call := range an.AllCalls(g) {
				cv := an.CallValue(call)
				if cv == nil || cv.Call.IsInvoke() || an.Callee(call).Fn != nil || an.Callee(call).Static != nil {
					continue
				}
				if !c12IsHandlerSig(cv.Call.Value.Type()) {
					continue
				}
				isPrev := allVia(cv.Call.Value, func(r ssa.Value) bool {
					for _, l := range prevLoads {
						if r == l && an.Dominates(l.(ssa.Instruction), st) {
							return true
						}
					}
					return false
				})
				isNew := allVia(cv.Call.Value, func(r ssa.Value) bool {
					pr, ok := r.(*ssa.Parameter)
					return ok && pr.Parent() == fn
				})
				if isPrev {
					callsPrev, inner = true, cv
				}
				if isNew {
					callsNew, outer = true, cv
				}
				if len(g.Params) == 0 || !an.SameVal(cv.Call.Args[0], g.Params[0]) {
					cidOK = false
				}
			}
			c.Check(callsPrev && callsNew, "O2", "R-FLOW", name, "ErrorHandler=closure(prev,new)", st.Pos(),
				"the composed handler calls the previously installed handler (captured before the store) and the new one",
				fmt.Sprintf("the closure stored into walkOptions.ErrorHandler calls previous handler=%v new handler=%v: one of the combined walk options is dropped", callsPrev, callsNew))
			c.Check(cidOK, "O2", "R-FLOW", name, "ErrorHandler=closure(cid passthrough)", st.Pos(),
				"both handlers receive the CID the composed handler was called with", "a composed handler passes a different CID to an inner handler than the one it received")
			if inner != nil && outer != nil {
				chained, _ := an.AllRootsX(outer.Call.Args[1], nil, func(r ssa.Value) bool { return r == ssa.Value(inner) })
				c.Check(chained, "O2", "R-FLOW", name, "ErrorHandler=closure(new(prev(err)))", st.Pos(),
					"the new handler receives the error as filtered by the previous handler", "the new handler does not receive the result of the previous handler: IgnoreMissing()/IgnoreErrors() installed earlier no longer filter what OnError/OnMissing see")
			}
		}
	}
	c.Min("O2 stores to walkOptions.ErrorHandler on a live object", nO2, 1)
	// every handler-shaped function of the package (the option closures: OnMissing,
	// IgnoreMissing, OnError wrappers, composed handlers) hands the CID it received
	// to whatever callback it invokes
	for _, fn := range fns {
		if fn.Signature.Recv() != nil || !c12IsHandlerSig(fn.Signature) || len(fn.Params) != 2 {
			continue
		}
		for _, call := range an.AllCalls(fn) {
			cv := an.CallValue(call)
			if cv == nil || cv.Call.IsInvoke() || an.Callee(call).Fn != nil || an.Callee(call).Static != nil {
				continue
			}
			for _, a := range cv.Call.Args {
				if !c12IsCid(a.Type()) {
					continue
				}
				c.Check(an.SameVal(a, fn.Params[0]), "O2", "R-FLOW", an.FuncName(fn), "handler passes its own CID on", cv.Pos(),
					"the callback invoked by an error handler gets the CID the handler was called with",
					"an error-handler option calls its callback with "+an.ShowPath(a)+" instead of the CID it received: OnMissing/OnError callbacks are told the wrong block")
			}
		}
	}

	// ---- O4: depth-aware visited sets: every func(cid.Cid,int) bool of the package
	// (closure, function or method) that records depths in a map[cid.Cid]int
	nVis := 0
	for _, fn := range fns {
		sig := fn.Signature
		if !c12IsVisitSig(sig) {
			continue
		}
		isDepthMap := false
		an.Instrs(fn, func(in ssa.Instruction) {
			if mu, ok := in.(*ssa.MapUpdate); ok {
				if mt, ok := mu.Map.Type().Underlying().(*types.Map); ok && c12IsCid(mt.Key()) {
					if b, ok := mt.Elem().Underlying().(*types.Basic); ok && b.Kind() == types.Int {
						isDepthMap = true
					}
				}
			}
		})
		if isDepthMap {
			nVis++
			c12CheckDepthSet(c, fn)
		}
	}
	c.Min("O4 depth-recording visit functions (map[cid.Cid]int)", nVis, 1)
}

// c12LoadsField: v is a load of struct field fld.
func c12LoadsField(v ssa.Value, fld *types.Var) bool {
	ok, _ := an.AllRootsX(v, nil, func(r ssa.Value) bool {
		switch u := r.(type) {
		case *ssa.UnOp:
			if u.Op == token.MUL {
				f, _ := an.FieldOf(u.X)
				return f == fld
			}
		case *ssa.Field:
			f, _ := an.FieldOf(u)
			return f == fld
		}
		return false
	})
	return ok
}

func c12FieldLoads(fn *ssa.Function, fld *types.Var, base ssa.Value) []ssa.Value {
	var out []ssa.Value
	for _, l := range an.FieldReads(fn, fld) {
		if u, ok := l.(*ssa.UnOp); ok {
			if _, b := an.FieldOf(u.X); an.SameObj(b, base) {
				out = append(out, l)
			}
		}
	}
	return out
}

func c12IsCid(t types.Type) bool { return an.TypeIs(t, c12cid, "Cid") }

// c12IsVisitSig: func(cid.Cid, int) bool
func c12IsVisitSig(sig *types.Signature) bool {
	if sig == nil || sig.Params().Len() != 2 || sig.Results().Len() != 1 {
		return false
	}
	b, ok := sig.Results().At(0).Type().Underlying().(*types.Basic)
	i, ok2 := sig.Params().At(1).Type().Underlying().(*types.Basic)
	return ok && ok2 && b.Kind() == types.Bool && i.Kind() == types.Int && c12IsCid(sig.Params().At(0).Type())
}

// c12IsHandlerSig: func(cid.Cid, error) error
func c12IsHandlerSig(t types.Type) bool {
	sig, ok := t.Underlying().(*types.Signature)
	if !ok || sig.Params().Len() != 2 || sig.Results().Len() != 1 {
		return false
	}
	return c12IsCid(sig.Params().At(0).Type()) && an.IsErrorType(sig.Params().At(1).Type()) && an.IsErrorType(sig.Results().At(0).Type())
}

// c12IsVisitCall: a dynamic call of a func(cid.Cid,int) bool value that is a
// parameter (possibly captured) — the user's visit callback.
func c12IsVisitCall(cv *ssa.Call) bool {
	if cv.Call.IsInvoke() || an.Callee(cv).Fn != nil || an.Callee(cv).Static != nil {
		return false
	}
	sig, ok := cv.Call.Value.Type().Underlying().(*types.Signature)
	if !ok || !c12IsVisitSig(sig) {
		return false
	}
	isParam, _ := an.AllRootsX(cv.Call.Value, nil, func(r ssa.Value) bool {
		_, ok := r.(*ssa.Parameter)
		return ok
	})
	return isParam
}

// c12VarargElems returns the values stored into the backing array of a
// variadic argument slice built at the call site.
func c12VarargElems(v ssa.Value) []ssa.Value {
	sl, ok := v.(*ssa.Slice)
	if !ok {
		return nil
	}
	al, ok := sl.X.(*ssa.Alloc)
	if !ok {
		return nil
	}
	var out []ssa.Value
	for _, r := range *al.Referrers() {
		ia, ok := r.(*ssa.IndexAddr)
		if !ok {
			continue
		}
		for _, r2 := range *ia.Referrers() {
			if st, ok := r2.(*ssa.Store); ok && st.Addr == ia {
				out = append(out, st.Val)
			}
		}
	}
	return out
}

// c12IsGoroutineBody: fn is a closure started with `go` or (*sync.WaitGroup).Go
// / errgroup.Go in its parent.
func c12IsGoroutineBody(fn *ssa.Function) bool {
	par := fn.Parent()
	if par == nil {
		return false
	}
	found := false
	an.Instrs(par, func(in ssa.Instruction) {
		switch x := in.(type) {
		case *ssa.Go:
			if mc, ok := x.Call.Value.(*ssa.MakeClosure); ok && mc.Fn == fn {
				found = true
			}
		case *ssa.Call:
			if an.Callee(x).Name != "Go" {
				return
			}
			for _, a := range x.Call.Args {
				if mc, ok := a.(*ssa.MakeClosure); ok && mc.Fn == fn {
					found = true
				}
			}
		}
	})
	return found
}

// c12DepthOK decides O5 by a field-based backward flow: struct fields are
// abstract locations (all stores to the field anywhere in the function family
// feed every load), parameters are resolved through the static call sites of
// their function. The provenance of the depth must be {0, y+1 ...} with every
// y again rooted in the same set.
func c12DepthOK(p *an.Prog, fn *ssa.Function, d ssa.Value) (bool, string) {
	root := fn
	for root.Parent() != nil {
		root = root.Parent()
	}
	_ = root
	// struct fields are abstract locations of the whole package (a record type may
	// be declared at package level and filled by the caller of the walk)
	var family []*ssa.Function
	if fn.Pkg != nil {
		family = p.PkgFuncs(strings.TrimPrefix(fn.Pkg.Pkg.Path(), an.Mod+"/"))
	} else {
		family = an.WithClosures(root)
	}
	if fn.Pkg == nil && root.Pkg != nil {
		family = p.PkgFuncs(strings.TrimPrefix(root.Pkg.Pkg.Path(), an.Mod+"/"))
	}
	flow := func(v ssa.Value, seen map[ssa.Value]bool, roots *[]ssa.Value) { c12Flow(p, family, v, seen, roots) }
	var roots []ssa.Value
	flow(d, map[ssa.Value]bool{}, &roots)
	zero, incs := false, 0
	for _, r := range roots {
		switch x := r.(type) {
		case *ssa.Const:
			if !an.IsIntConst(0)(x) {
				return false, "a walk starts at depth " + x.String() + " instead of 0"
			}
			zero = true
		case *ssa.BinOp:
			var y ssa.Value
			switch {
			case x.Op == token.ADD && an.IsIntConst(1)(x.Y):
				y = x.X
			case x.Op == token.ADD && an.IsIntConst(1)(x.X):
				y = x.Y
			default:
				return false, "a child depth is computed as " + x.String() + " (" + x.Op.String() + "), not parent depth + 1"
			}
			// y must itself be a depth of the same family
			var yr []ssa.Value
			flow(y, map[ssa.Value]bool{}, &yr)
			for _, q := range yr {
				switch q.(type) {
				case *ssa.Const, *ssa.BinOp:
				default:
					return false, "the incremented value derives from " + an.ShowPath(q) + ", which is not a walk depth"
				}
			}
			incs++
		default:
			return false, "the depth derives from " + an.ShowPath(r) + " (neither 0 nor an incremented depth)"
		}
	}
	// exactly one increment per level: the operand of every increment must itself
	// be a depth of this walk (same provenance set), not an already incremented
	// intermediate that gets incremented again on the way to the callback
	inR := map[ssa.Value]bool{}
	for _, r := range roots {
		inR[r] = true
	}
	for _, r := range roots {
		b, ok := r.(*ssa.BinOp)
		if !ok {
			continue
		}
		y := b.X
		if an.IsIntConst(1)(b.X) {
			y = b.Y
		}
		var yr []ssa.Value
		flow(y, map[ssa.Value]bool{}, &yr)
		for _, q := range yr {
			if _, isK := q.(*ssa.Const); isK {
				continue
			}
			if !inR[q] {
				return false, "a child depth is incremented more than once between two visits (" + an.ShowPath(q) + " is incremented again): children are visited at parent depth + 2"
			}
		}
	}
	if !zero {
		return false, "no path gives the root depth 0"
	}
	if incs == 0 {
		return false, "children are never given parent depth + 1 (the increment is missing): depth limits and shortest-distance revisits break"
	}
	return true, ""
}

func c12CheckDepthSet(c *an.Ctx, vis *ssa.Function) {
	name := an.FuncName(vis)
	np := len(vis.Params)
	pc, pd := vis.Params[np-2], vis.Params[np-1]
	isDepth := func(v ssa.Value) bool { return an.SameVal(v, pd) }
	// the depth limit: an int that comes from outside this function (captured
	// variable, parameter of an enclosing function, field of the receiver) — not
	// the depth parameter, not a map lookup result, not a constant
	isLim := func(v ssa.Value) bool {
		if b, ok := v.Type().Underlying().(*types.Basic); !ok || b.Kind() != types.Int {
			return false
		}
		ok, _ := an.AllRootsX(v, nil, func(r ssa.Value) bool {
			switch x := r.(type) {
			case *ssa.Parameter:
				return x != pd
			case *ssa.FreeVar:
				return true
			case *ssa.UnOp:
				if x.Op == token.MUL {
					if f, _ := an.FieldOf(x.X); f != nil {
						return true
					}
					if _, isFV := x.X.(*ssa.FreeVar); isFV {
						return true
					}
				}
			}
			return false
		})
		return ok
	}
	var lookups []*ssa.Lookup
	var updates []*ssa.MapUpdate
	an.Instrs(vis, func(in ssa.Instruction) {
		switch x := in.(type) {
		case *ssa.Lookup:
			if x.CommaOk && an.SameVal(x.Index, pc) {
				lookups = append(lookups, x)
			}
		case *ssa.MapUpdate:
			updates = append(updates, x)
		}
	})
	if !c.Need(len(lookups) > 0 && len(updates) > 0, "visit closure: comma-ok lookup set[c] and update set[c]=depth") {
		return
	}
	var olds, oks []ssa.Value
	for _, l := range lookups {
		for _, r := range *l.Referrers() {
			if e, ok := r.(*ssa.Extract); ok {
				if e.Index == 0 {
					olds = append(olds, e)
				} else {
					oks = append(oks, e)
				}
			}
		}
	}
	isOld := func(v ssa.Value) bool {
		for _, o := range olds {
			if v == o {
				return true
			}
		}
		return false
	}
	notSeen := an.BoolEdges(vis, oks, false)
	shallower := an.TokRelEdges(vis, isOld, isDepth, token.GTR)
	limOff := an.TokRelEdges(vis, isLim, an.IsIntConst(0), token.LSS)
	limOn := an.TokRelEdges(vis, isLim, an.IsIntConst(0), token.GEQ)
	within := an.TokRelEdges(vis, isDepth, isLim, token.LEQ)
	var upd []ssa.Instruction
	for _, u := range updates {
		upd = append(upd, u)
		c.Check(an.SameVal(u.Key, pc) && an.SameVal(u.Value, pd) && an.SameVal(u.Map, lookups[0].X), "O4", "R-FLOW", name, "set[c]=depth", u.Pos(),
			"the visited map records the visited CID with the depth it was seen at", "the depth map is updated with a key/value other than (c, depth) of this visit")
		c.Check(an.GuardedBy(vis, nil, u, notSeen.Union(shallower)), "O4", "R-CMP", name, "set[c]=depth<=!ok||oldDepth>depth", u.Pos(),
			"the recorded depth is only replaced by a strictly smaller one (shortest distance)",
			"set[c]=depth is reachable where the CID was already recorded at the same or a smaller depth: the recorded distance is no longer the shortest one (nodes within the limit are pruned, or revisited forever)")
		c.Check(an.GuardedBy(vis, nil, u, limOff.Union(within)), "O4", "R-CMP", name, "set[c]=depth<=depthLim<0||depth<=depthLim", u.Pos(),
			"nothing is recorded/explored beyond the depth limit", "a node deeper than the depth limit can be recorded and explored (the depth > depthLim rejection does not guard the update)")
		c.Check(an.GuardedBy(vis, nil, u, notSeen.Union(limOn)), "O4", "R-CMP", name, "set[c]=depth<=!ok||depthLim>=0", u.Pos(),
			"with unlimited depth a CID is explored once", "with depthLim<0 an already recorded CID can be recorded again: shared subtrees are re-walked")
		for _, in := range an.SortedInstrs(an.ReachSet(vis, u, nil, nil)) {
			if r, ok := in.(*ssa.Return); ok {
				k, isK := an.ConstOf(r.Results[0])
				c.Check(isK && k.String() == "true", "O4", "R-POST", name, "set[c]=depth=>return true", r.Pos(),
					"after recording, the closure returns true (explore)", "the closure records set[c]=depth and then returns false: the node is marked but never explored")
			}
		}
	}
	nT := 0
	for _, r := range an.Returns(vis) {
		if k, isK := an.ConstOf(r.Results[0]); isK && k.String() == "true" {
			nT++
			c.Check(an.MustPrecede(vis, r, upd), "O4", "R-DOM", name, "return true<=set[c]=depth", r.Pos(),
				"returning true is always preceded by recording the CID", "the closure can return true without recording the CID: the node is explored again on every later encounter")
		} else if !isK {
			c.Bad("O4", "R-DOM", name, "return non-constant", r.Pos(), "the visit closure returns a computed value; the record/return coupling cannot be decided")
		}
	}
	c.Min("O4 `return true` sites of the depth-limit visit closure", nT, 1)
}

// c12Flow: field-based backward flow. Struct fields are abstract locations
// (every store to the field anywhere in the function family feeds every load),
// parameters are resolved through the static call sites of their function.
func c12Flow(p *an.Prog, family []*ssa.Function, v ssa.Value, seen map[ssa.Value]bool, roots *[]ssa.Value) {
	fieldStores := func(f *types.Var) []ssa.Value {
		var out []ssa.Value
		for _, g := range family {
			for _, st := range an.FieldStores(g, f) {
				out = append(out, st.Val)
			}
		}
		return out
	}
	for _, r := range an.RootsX(v, nil) {
		if seen[r] {
			continue
		}
		seen[r] = true
		switch x := r.(type) {
		case *ssa.UnOp:
			if x.Op == token.MUL {
				if f, _ := an.FieldOf(x.X); f != nil {
					for _, sv := range fieldStores(f) {
						c12Flow(p, family, sv, seen, roots)
					}
					continue
				}
			}
			*roots = append(*roots, r)
		case *ssa.Field:
			f, _ := an.FieldOf(x)
			for _, sv := range fieldStores(f) {
				c12Flow(p, family, sv, seen, roots)
			}
		case *ssa.Parameter:
			callee := x.Parent()
			idx := -1
			for i, pp := range callee.Params {
				if pp == x {
					idx = i
				}
			}
			n := 0
			for _, g := range p.Funcs {
				for _, call := range an.AllCalls(g) {
					if an.Callee(call).Static == callee && idx >= 0 && idx < len(call.Common().Args) {
						n++
						c12Flow(p, family, call.Common().Args[idx], seen, roots)
					}
				}
			}
			if n == 0 {
				*roots = append(*roots, r)
			}
		default:
			*roots = append(*roots, r)
		}
	}
}

// c12FromLink: v is (a conversion of) a load of a field of the link element el.
func c12FromLink(v ssa.Value, el ssa.Value) bool {
	ok, _ := an.AllRootsX(v, nil, func(r ssa.Value) bool {
		u, ok := r.(*ssa.UnOp)
		if !ok || u.Op != token.MUL {
			return false
		}
		f, b := an.FieldOf(u.X)
		return f != nil && f.Name() == "Cid" && b == el
	})
	return ok
}

// c12LinksWalked (O7): every link returned by getLinks is handed on — to the
// recursive walk, or as a queue record that is then stored/queued — on every
// path of the loop that iterates over the links. The walker must not decide
// by itself that a link needs no visit: that decision (which depends on the
// depth) belongs to the visit callback.
func c12LinksWalked(c *an.Ctx, p *an.Prog, walkFns map[*ssa.Function]bool, root *ssa.Function, glResults map[ssa.Value]bool) int {
	family := an.WithClosures(root)
	n := 0
	termDone := map[*ssa.Alloc]bool{}
	for _, fn := range family {
		an.Instrs(fn, func(in ssa.Instruction) {
			ia, ok := in.(*ssa.IndexAddr)
			if !ok {
				return
			}
			sl, ok := ia.X.Type().Underlying().(*types.Slice)
			if !ok || !an.TypeIs(sl.Elem(), "github.com/ipfs/go-ipld-format", "Link") {
				return
			}
			var roots []ssa.Value
			c12Flow(p, family, ia.X, map[ssa.Value]bool{}, &roots)
			if len(roots) == 0 {
				return
			}
			nG := 0
			for _, r := range roots {
				if k, isK := r.(*ssa.Const); isK && k.IsNil() {
					continue // `links = nil` on some path
				}
				if !glResults[r] {
					return
				}
				nG++
			}
			if nG == 0 {
				return
			}
			name := an.FuncName(fn)
			n++
			// whole slice, range loop
			whole := true
			for _, r := range an.RootsX(ia.X, &an.FlowOpts{StopAt: func(x ssa.Value) bool { _, isSl := x.(*ssa.Slice); return isSl }}) {
				if _, isSl := r.(*ssa.Slice); isSl {
					whole = false
				}
			}
			if !c13IsRangeIndex(ia.Index, ia.X) {
				c.Problem("undecided: %s iterates over the links returned by getLinks with a hand-written index; the every-link-is-walked rule only knows range loops", name)
				return
			}
			c.Check(whole, "O7", "R-POST", name, "range over all links", ia.Pos(), "the loop ranges over the whole link list", "the walk iterates over a sub-slice of the links returned by getLinks: some children are never visited")
			header := c13LoopHeader(ia.Index)
			var leave []ssa.Instruction
			leave = append(leave, header.Instrs[0])
			for _, sb := range header.Succs {
				if sb != ia.Block() && !ia.Block().Dominates(sb) && len(sb.Instrs) > 0 && sb != header {
					leave = append(leave, sb.Instrs[0])
				}
			}
			// no early exit: the loop's exit block is entered from the header only
			if len(header.Succs) == 2 {
				done := header.Succs[1]
				early := false
				for _, pb := range done.Preds {
					if pb != header && header.Dominates(pb) {
						early = true
					}
				}
				c.Check(!early, "O7", "R-POST", name, "no early exit from the links loop", ia.Pos(), "the loop over the links ends only when the list is exhausted (or by returning an error)",
					"the loop over the links returned by getLinks can be left early (break): the remaining children are never walked")
			}
			for _, ref := range *ia.Referrers() {
				el, ok := ref.(*ssa.UnOp)
				if !ok || el.Op != token.MUL {
					continue
				}
				consumers := map[ssa.Instruction]bool{}
				var records []*ssa.Alloc
				an.Instrs(fn, func(x ssa.Instruction) {
					switch y := x.(type) {
					case ssa.CallInstruction:
						if g := an.Callee(y).Static; g != nil && walkFns[g] {
							for _, a := range y.Common().Args {
								if c12FromLink(a, el) {
									consumers[x] = true
								}
							}
						}
					case *ssa.Store:
						if fa, ok := y.Addr.(*ssa.FieldAddr); ok && c12FromLink(y.Val, el) {
							if al, ok := fa.X.(*ssa.Alloc); ok {
								consumers[x] = true
								records = append(records, al)
							}
						}
					}
				})
				okAll := len(consumers) > 0
				for _, lv := range leave {
					if an.Reaches(fn, el, lv, nil, consumers) {
						okAll = false
					}
				}
				c.Check(okAll, "O7", "R-POST", name, "every link is handed on", ia.Pos(),
					"each link of a fetched node reaches the recursive walk / the dispatcher queue on every path of the loop body",
					"an iteration over the links returned by getLinks can end (continue/break/filter) without the link's CID being passed to the recursive walk or put into a queue record: the walker itself drops children, so the visit callback is never asked about them (e.g. a node re-reached at a smaller depth is not re-visited, depth limits are no longer measured by shortest distance)")
				for _, rec := range records {
					uses := map[ssa.Instruction]bool{}
					var recStore ssa.Instruction
					for _, rr := range *rec.Referrers() {
						if l, ok := rr.(*ssa.UnOp); ok && l.Op == token.MUL {
							for _, lr := range *l.Referrers() {
								switch z := lr.(type) {
								case *ssa.Store:
									if z.Val == ssa.Value(l) {
										uses[z] = true
									}
								case ssa.CallInstruction:
									uses[z] = true
								case *ssa.Send:
									uses[z] = true
								}
							}
						}
						if fa, ok := rr.(*ssa.FieldAddr); ok {
							for _, fr := range *fa.Referrers() {
								if st, ok := fr.(*ssa.Store); ok && c12FromLink(st.Val, el) {
									recStore = st
								}
							}
						}
					}
					okQ := recStore != nil && len(uses) > 0
					if okQ {
						for _, lv := range leave {
							if an.Reaches(fn, recStore, lv, nil, uses) {
								okQ = false
							}
						}
					}
					// the dispatcher may only report success when nothing is pending:
					// the pending-item cell is undefined and the in-flight counter is 0
					for u := range uses {
						st, ok := u.(*ssa.Store)
						if !ok {
							continue
						}
						pend, ok := st.Addr.(*ssa.Alloc)
						if !ok {
							continue
						}
						if !termDone[pend] {
							termDone[pend] = true
							c12Termination(c, fn, name, pend)
						}
					}
					c.Check(okQ, "O7", "R-POST", name, "every queue record is enqueued", rec.Pos(),
						"a queue record built for a link is stored as next item or pushed to the queue on every path",
						"a queue record built for a link can be discarded (an iteration ends without storing it as the next item or pushing it to the queue): that child is never visited")
				}
			}
		})
	}
	return n
}

// c12IsCounter: v is an int that is counted up and down by 1 around a loop
// (the dispatcher's in-flight counter), possibly already decremented.
func c12IsCounter(v ssa.Value) bool {
	seen := map[ssa.Value]bool{}
	add, sub := false, false
	var walk func(v ssa.Value, d int)
	walk = func(v ssa.Value, d int) {
		if v == nil || seen[v] || d > 16 {
			return
		}
		seen[v] = true
		switch x := v.(type) {
		case *ssa.Phi:
			for _, e := range x.Edges {
				walk(e, d+1)
			}
		case *ssa.BinOp:
			if !an.IsIntConst(1)(x.Y) {
				return
			}
			switch x.Op {
			case token.ADD:
				add = true
			case token.SUB:
				sub = true
			default:
				return
			}
			walk(x.X, d+1)
		}
	}
	if b, ok := v.Type().Underlying().(*types.Basic); !ok || b.Kind() != types.Int {
		return false
	}
	walk(v, 0)
	return add && sub
}

// c12Termination: in the dispatcher fn every success return is guarded by
// "no pending item" (Defined()==false on the pending cell the queue records are
// stored into) and by "nothing in flight" (counter == 0).
func c12Termination(c *an.Ctx, fn *ssa.Function, name string, pend *ssa.Alloc) {
	isPendCid := func(v ssa.Value) bool {
		u, ok := v.(*ssa.UnOp)
		if !ok || u.Op != token.MUL {
			return false
		}
		fa, ok := u.X.(*ssa.FieldAddr)
		return ok && fa.X == ssa.Value(pend) && c12IsCid(u.Type())
	}
	noPending := an.CallEdges(fn, an.M(c12cid, "Cid", "Defined"), -1, isPendCid, false)
	idle := an.TokRelEdges(fn, c12IsCounter, an.IsIntConst(0), token.EQL)
	hasCounter := false
	an.Instrs(fn, func(in ssa.Instruction) {
		if b, ok := in.(*ssa.BinOp); ok && c12IsCounter(b) {
			hasCounter = true
		}
	})
	for _, r := range an.Returns(fn) {
		if len(r.Results) != 1 || !an.IsErrorType(r.Results[0].Type()) {
			continue
		}
		vals := an.ValuesUnder(r.Results[0], an.ReachSet(fn, nil, nil, nil), nil)
		success := len(vals) > 0
		for _, v := range vals {
			if !an.IsNilConst(v) {
				success = false
			}
		}
		if !success {
			continue
		}
		c.Check(an.GuardedBy(fn, nil, r, noPending), "O7", "R-DOM", name, "success<=no pending item", r.Pos(), "the walk only reports success when no item waits to be fed to a worker",
			"the concurrent walk can return nil while an item is still pending (the !next.cid.Defined() test does not guard the success return): queued children are silently never visited")
		if hasCounter {
			c.Check(an.GuardedBy(fn, nil, r, idle), "O7", "R-DOM", name, "success<=nothing in flight", r.Pos(), "the walk only reports success when no fetch is in flight",
				"the concurrent walk can return nil while fetches are still in flight (the in-flight counter == 0 test does not guard the success return): their children are never visited and their errors are lost")
		}
	}
}

// c12OptionStruct returns the struct type T such that the exported named
// function type optName of package rel is func(*T).
func c12OptionStruct(p *an.Prog, rel, optName string) *types.Named {
	n := p.Named(rel, optName)
	if n == nil {
		return nil
	}
	sig, ok := n.Underlying().(*types.Signature)
	if !ok || sig.Params().Len() != 1 {
		return nil
	}
	pt, ok := sig.Params().At(0).Type().(*types.Pointer)
	if !ok {
		return nil
	}
	t, ok := types.Unalias(pt.Elem()).(*types.Named)
	if !ok {
		return nil
	}
	if _, isStruct := t.Underlying().(*types.Struct); !isStruct {
		return nil
	}
	return t
}
