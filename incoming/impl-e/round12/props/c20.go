package props

import (
	"fmt"
	"go/token"
	"go/types"
	"sort"
	"strings"

	"golang.org/x/tools/go/ssa"

	"verif/checker/an"
)

func init() {
	register("C20", Prop{
		Pkgs: []string{"./mfs"},
		Explain: "Decided (structural necessary conditions of 'MFS never deadlocks and keeps flushed writes'), over every function of package mfs with an inter-procedural lock-state analysis (static calls, interface calls resolved to all mfs implementers, synchronous callbacks, deferred calls, caller-holds and returns-holding summaries): " +
			"O1 no call path acquires a sync.Mutex/RWMutex of an object while the same mutex of the same object is already held (re-entrant Lock/RLock, also through callees); " +
			"O2 guarded fields are only accessed with their mutex held in a sufficient mode on every path, counting locks held by every caller of unexported helpers: File.node under File.nodeLock, Directory.{entriesCache,unixfsDir} under Directory.lock, fileDescriptor.{mod,state} under fileDescriptor.mu; " +
			"O3 the class-level lock order graph (held class -> acquired class) has no cycle, a lock of the same class is only taken on another object in downward direction (never on a call that can reach parent.updateChildEntry), and every upward call parent.updateChildEntry is made with no conflicting lock held; " +
			"O4 File.Open takes desclock in the mode selected by the flags (Write => Lock, else Read => RLock), releases it exactly on error returns, and fileDescriptor.Close releases the same mode under the same flag conditions; " +
			"O6 a guarded field that is replaced is read, recomputed and replaced inside one critical section, both within a function and when a snapshot returned by a getter flows into a setter of the same object (no lost update); " +
			"O7 every function that acquires a mutex has released it on every return path (only desclock may be handed to the descriptor by the opener); " +
			"O5 flush discipline: Close/Flush reach flushUp on every path except the already-closed return; flushUp records 'flushed' only after the node was produced, added to the DAG service and (when propagating) accepted by the parent; the node stored into File.node is the one produced by the DagModifier and added to the DAG service; every mutating descriptor method marks the descriptor dirty before touching the DagModifier. " +
			"Round 12 additions to O4: in a closer no direct (non-deferred) release of desclock is followed by a call that (transitively) installs File.node; a descriptor obtained from the opener inside package mfs and not returned is closed (call or defer of Close on it) on every path after a successful open. " +
			"NOT decided: visibility of data after flush as a runtime fact, schedules, liveness of goroutines blocked on the network, aliasing of distinct access paths that denote the same object (two paths to one Directory).",
		Assume: []string{"unexported fields and methods of mfs are only reachable from package mfs (Go visibility)",
			"function literals passed as call arguments run synchronously during that call (true for ForEachLink, sync.Once.Do; time.AfterFunc/context.AfterFunc excluded)",
			"distinct canonical access paths denote distinct mutexes"},
		Technique: "inter-procedural lock-state dataflow over SSA (R-LOCKORD re-entrancy and order graph, R-GUARD with caller-holds entry states), R-PAIR on flag-conditioned acquire/release, R-DOM/R-POST on flush state machine, R-FLOW on the flushed node",
		Run:       runC20,
	})
}

// c20Guard: field typ.field is guarded by mutex typ.lock of the same object.
// altRead: reads are also safe under any held lock of this class (writers are
// then checked separately to hold it exclusively).
type c20Guard struct {
	typ, field, lock, altRead string
	// label names the guarded field by role in obligation keys ("Directory.uio-dir"),
	// so that renaming the unexported field does not change a key
	label string
}

func runC20(c *an.Ctx) {
	p := c.P
	c20KeyProg = p
	const pk = "mfs"
	fns := p.PkgFuncs(pk)
	if !c.Need(len(fns) > 50, "functions of package mfs") {
		return
	}
	ip := an.NewLockIP(p, fns)

	c20Reentrancy(c, ip, fns, 1)
	nm := c19MfsNames(c)
	if !c19NeedNames(c, nm) {
		return
	}
	c20KeyProg = p
	gNode := c20Guard{"File", nm.FileNode, nm.FileNodeLock, "", "File.root-node"}
	gCache := c20Guard{"Directory", nm.DirCache, nm.DirLock, "", "Directory.child-cache"}
	gUfs := c20Guard{"Directory", nm.DirUfs, nm.DirLock, "", "Directory.uio-dir"}
	gMod := c20Guard{nm.Fd, nm.FdMod, nm.FdMu, "", "descriptor.modifier"}
	gState := c20Guard{nm.Fd, nm.FdState, nm.FdMu, "", "descriptor.state"}
	c20Guards(c, ip, pk, fns, []c20Guard{gNode, gCache, gUfs, gMod, gState}, 1)
	c20Atomic(c, ip, pk, fns, []c20Guard{gNode, gUfs, gCache, gState}, 1)
	c20Order(c, ip, pk, fns)
	c20Balanced(c, ip, pk, fns, map[string]bool{"File." + c19MfsNames(c).FileDescLock: true}, 1)
	c20OpenClose(c, ip, pk, fns)
	c20Flush(c, pk)
}

// ---------------------------------------------------------------- O1

func c20CallName(call ssa.CallInstruction) string {
	ci := an.Callee(call)
	if ci.Fn == nil && ci.Static == nil {
		if mc, ok := call.Common().Value.(*ssa.MakeClosure); ok {
			return "closure " + c20KeyName(mc.Fn.(*ssa.Function))
		}
		return "dynamic call"
	}
	// an in-package callee is named like an obligation's function part (role /
	// entry-point name for unexported functions); interface methods and
	// callees of other packages keep their (API) name
	if ci.Static != nil && ci.Static.Blocks != nil && !ci.Invoke {
		return c20KeyName(ci.Static)
	}
	return ci.String()
}

// c20ClassLabel names a lock class ("Type.field") by role for obligation keys.
func c20ClassLabel(c *an.Ctx, class string) string {
	nm := c19MfsNames(c)
	switch class {
	case "File." + nm.FileNodeLock:
		return "File.node-lock"
	case "File." + nm.FileDescLock:
		return "File.descriptor-lock"
	case "Directory." + nm.DirLock:
		return "Directory.mutex"
	case nm.Fd + "." + nm.FdMu:
		return "descriptor.mutex"
	}
	return class
}

// c20Reentrancy: O1 for every call-like instruction executed while at least
// one lock may be held and which acquires at least one lock.
func c20Reentrancy(c *an.Ctx, ip *an.LockIP, fns []*ssa.Function, min int) {
	n := 0
	for _, fn := range fns {
		an.Instrs(fn, func(in ssa.Instruction) {
			call, ok := in.(ssa.CallInstruction)
			if !ok {
				return
			}
			if _, isGo := call.(*ssa.Go); isGo {
				return
			}
			held := ip.MayBefore(in)
			if len(held) == 0 {
				return
			}
			acqs := ip.AcqAt(call)
			if len(acqs) == 0 {
				return
			}
			n++
			var bad []string
			for _, a := range acqs {
				if a.Path == "" {
					continue
				}
				if m := held[a.Path]; m != an.LNone {
					bad = append(bad, fmt.Sprintf("%s (%s) is held in mode %s and acquired again in mode %s at %s via %s",
						a.Path, a.Class, an.ModeStr(m), an.ModeStr(a.Mode), c.P.Pos(a.Site.Pos()), strings.Join(a.Via, " -> ")))
				}
			}
			name := c20CallName(call)
			c.Check(len(bad) == 0, "O1", "R-LOCKORD", c20KeyName(fn), "no-reentry:"+name, in.Pos(),
				fmt.Sprintf("call made with %s held acquires only other locks", held),
				"re-entrant acquisition: "+strings.Join(bad, "; ")+" — sync mutexes are not re-entrant: Lock under Lock/RLock self-deadlocks, RLock under RLock deadlocks as soon as a writer is queued in between")
		})
	}
	c.Min("O1 lock acquisitions made while a lock is held", n, min)
}

// ---------------------------------------------------------------- O2

// c20FreshCtor: every value returned (first result) by fn is allocated in fn
// or returned by another such constructor.
func c20FreshCtor(fn *ssa.Function, depth int) bool {
	if fn == nil || fn.Blocks == nil || depth > 3 {
		return false
	}
	rets := an.Returns(fn)
	if len(rets) == 0 {
		return false
	}
	some := false
	for _, r := range rets {
		if len(r.Results) == 0 {
			return false
		}
		v := r.Results[0]
		if an.IsNilConst(v) {
			continue
		}
		for _, root := range an.Roots(v, nil) {
			switch x := root.(type) {
			case *ssa.Alloc:
				some = true
			case *ssa.Const:
				if !x.IsNil() {
					return false
				}
			case *ssa.Call, *ssa.Extract:
				var call *ssa.Call
				if e, ok := x.(*ssa.Extract); ok {
					call, _ = e.Tuple.(*ssa.Call)
				} else {
					call = x.(*ssa.Call)
				}
				if call == nil {
					return false
				}
				callee := an.Callee(call).Static
				if callee == nil || !c20FreshCtor(callee, depth+1) {
					return false
				}
				some = true
			default:
				return false
			}
		}
	}
	return some
}

// c20Unshared: the object is allocated in this function or returned here by
// a constructor (not yet visible to another goroutine).
func c20Unshared(base ssa.Value) bool {
	rs := an.Roots(base, nil)
	if len(rs) == 0 {
		return false
	}
	for _, r := range rs {
		switch x := r.(type) {
		case *ssa.Alloc:
		case *ssa.Call:
			if !c20FreshCtor(an.Callee(x).Static, 0) {
				return false
			}
		case *ssa.Extract:
			call, ok := x.Tuple.(*ssa.Call)
			if !ok || x.Index != 0 || !c20FreshCtor(an.Callee(call).Static, 0) {
				return false
			}
		default:
			return false
		}
	}
	return true
}

// c20UnsharedAtCallers: base is a parameter of the closed helper fn and every
// call site passes an object that is not yet shared (constructor helpers that
// configure a freshly built object).
func c20UnsharedAtCallers(fns []*ssa.Function, fn *ssa.Function, base ssa.Value) bool {
	var prm *ssa.Parameter
	for _, r := range an.Roots(base, nil) {
		p, ok := r.(*ssa.Parameter)
		if !ok || p.Parent() != fn {
			return false
		}
		prm = p
	}
	if prm == nil || fn.Parent() != nil {
		return false
	}
	sites, open := an.IPCallSites(fns, fn)
	if open || len(sites) == 0 {
		return false
	}
	for _, s := range sites {
		env := &an.IPEnv{Fn: fn, Call: s}
		a := env.Actual(prm)
		if a == nil || !(c20Unshared(a) || c20UnsharedAtCallers(fns, s.Parent(), a)) {
			return false
		}
	}
	return true
}

func c20Guards(c *an.Ctx, ip *an.LockIP, pk string, fns []*ssa.Function, guards []c20Guard, min int) {
	total := 0
	for _, g := range guards {
		fld := c.P.Field(pk, g.typ, g.field)
		lk := c.P.Field(pk, g.typ, g.lock)
		if !c.Need(fld != nil && lk != nil, pk+"."+g.typ+" fields "+g.field+","+g.lock) {
			continue
		}
		rw := an.TypeIs(lk.Type(), "sync", "RWMutex")
		if !c.Need(rw || an.TypeIs(lk.Type(), "sync", "Mutex"), g.typ+"."+g.lock+" is a sync mutex") {
			continue
		}
		for _, fn := range fns {
			type acc struct {
				in    ssa.Instruction
				write bool
				path  string
			}
			var accs []acc
			for _, fa := range an.FieldAddrs(fn, fld) {
				if c20Unshared(fa.X) || c20UnsharedAtCallers(fns, fn, fa.X) {
					continue
				}
				lp := an.XPath(fa.X) + "." + g.lock
				used := false
				for _, r := range *fa.Referrers() {
					switch r := r.(type) {
					case *ssa.Store:
						if r.Addr == fa {
							accs = append(accs, acc{r, true, lp})
							used = true
						}
					case *ssa.UnOp:
						if r.Op == token.MUL {
							accs = append(accs, acc{r, false, lp})
							used = true
						}
					}
				}
				if !used {
					accs = append(accs, acc{fa, true, lp}) // address escapes: treat as write
				}
			}
			// value-typed reads x.f of a struct value do not occur for these types
			if len(accs) == 0 {
				continue
			}
			if _, called := ip.Entry(fn); !called {
				c.Note("O2: %s accesses %s.%s but is never called inside the package (dead code), skipped", c20KeyName(fn), g.typ, g.field)
				continue
			}
			for _, kind := range []bool{false, true} {
				var bad []string
				var first ssa.Instruction
				k := 0
				for _, a := range accs {
					if a.write != kind {
						continue
					}
					k++
					if first == nil {
						first = a.in
					}
					need := an.LRead
					if kind || !rw {
						need = an.LWrite
					}
					st := ip.MustBefore(a.in)
					alt := false
					if !kind && g.altRead != "" {
						for hp, m := range st {
							if m != an.LNone && ip.ClassOf(hp) == g.altRead {
								alt = true
							}
						}
					}
					if st[a.path] < need && !alt {
						if len(bad) == 0 {
							first = a.in
						}
						bad = append(bad, fmt.Sprintf("%s (needs %s in mode %s, certainly held: %s)", c.P.Pos(a.in.Pos()), a.path, an.ModeStr(need), st))
					}
				}
				if k == 0 {
					continue
				}
				total++
				what := "read"
				if kind {
					what = "write"
				}
				entry, _ := ip.Entry(fn)
				c.Check(len(bad) == 0, "O2", "R-GUARD", c20KeyName(fn), what+":"+g.label, first.Pos(),
					fmt.Sprintf("%d %s(s) of %s.%s with %s.%s held on every path (locks held by all callers at entry: %s)", k, what, g.typ, g.field, g.typ, g.lock, entry),
					fmt.Sprintf("%s of %s.%s without %s.%s held on every path: %s — concurrent goroutines race on it (lost or torn update)", what, g.typ, g.field, g.typ, g.lock, strings.Join(bad, "; ")))
			}
		}
	}
	c.Min("O2 (function, guarded field, access kind) triples", total, min)
}

// ---------------------------------------------------------------- O3

func c20Order(c *an.Ctx, ip *an.LockIP, pk string, fns []*ssa.Function) {
	parentT := c.P.Field(pk, c19MfsNames(c).Inode, c19MfsNames(c).InParent)
	if !c.Need(parentT != nil, "mfs.inode.parent") {
		return
	}
	isUpInvoke := func(in ssa.Instruction) bool {
		call, ok := in.(ssa.CallInstruction)
		if !ok || !call.Common().IsInvoke() {
			return false
		}
		if _, isGo := call.(*ssa.Go); isGo {
			return false
		}
		return types.Identical(call.Common().Value.Type(), parentT.Type()) && len(ip.AcqAt(call)) > 0
	}
	up := ip.Reachable(isUpInvoke)
	isUpward := func(in ssa.Instruction) bool {
		if isUpInvoke(in) {
			return true
		}
		call, ok := in.(ssa.CallInstruction)
		if !ok {
			return false
		}
		for _, t := range ip.Targets(call) {
			if up[t.Fn] {
				return true
			}
		}
		return false
	}
	edges := ip.OrderEdges()
	// class graph over distinct classes
	adj := map[string]map[string]bool{}
	type wit struct {
		e  an.OrderEdge
		n  int
		up *an.OrderEdge
	}
	wits := map[string]*wit{}
	for i := range edges {
		e := edges[i]
		if e.SamePath {
			continue // O1
		}
		k := e.From + "->" + e.To
		w := wits[k]
		if w == nil {
			w = &wit{e: e}
			wits[k] = w
		}
		w.n++
		if e.From == e.To && w.up == nil && isUpward(e.Site) {
			w.up = &edges[i]
		}
		if e.From != e.To {
			if adj[e.From] == nil {
				adj[e.From] = map[string]bool{}
			}
			adj[e.From][e.To] = true
		}
	}
	reach := func(from, to string) bool {
		seen := map[string]bool{}
		var dfs func(x string) bool
		dfs = func(x string) bool {
			if x == to {
				return true
			}
			if seen[x] {
				return false
			}
			seen[x] = true
			for y := range adj[x] {
				if dfs(y) {
					return true
				}
			}
			return false
		}
		return dfs(from)
	}
	onCycle := func(from, to string) bool { return from != to && reach(to, from) }
	keys := make([]string, 0, len(wits))
	for k := range wits {
		keys = append(keys, k)
	}
	sort.Strings(keys)
	for _, k := range keys {
		w := wits[k]
		e := w.e
		where := fmt.Sprintf("%s holds %s and acquires %s at %s via %s", c20KeyName(e.Fn), e.FromPath, e.To, c.P.Pos(e.Acq.Site.Pos()), strings.Join(e.Acq.Via, " -> "))
		if e.From == e.To {
			ok := w.up == nil
			detail := ""
			if !ok {
				u := w.up
				detail = fmt.Sprintf("%s holds %s and makes a call that can propagate to parent.updateChildEntry and acquire another %s (%s at %s): a parent directory locks top-down, so this can deadlock against it", c20KeyName(u.Fn), u.FromPath, u.To, strings.Join(u.Acq.Via, " -> "), c.P.Pos(u.Site.Pos()))
			}
			c.Check(ok, "O3", "R-LOCKORD", pk, "nested:"+c20ClassLabel(c, e.From)+"->"+c20ClassLabel(c, e.To), e.Site.Pos(),
				fmt.Sprintf("%d site(s) nest two %s of different objects, all in downward direction (callee cannot reach parent.updateChildEntry); e.g. %s", w.n, e.From, where), detail)
			continue
		}
		c.Check(!onCycle(e.From, e.To), "O3", "R-LOCKORD", pk, "order:"+c20ClassLabel(c, e.From)+"->"+c20ClassLabel(c, e.To), e.Site.Pos(),
			fmt.Sprintf("lock order edge (%d site(s)) is not on a cycle; e.g. %s", w.n, where),
			fmt.Sprintf("lock order cycle: %s, and elsewhere %s is held while %s is acquired — two goroutines taking them in opposite order deadlock", where, e.To, e.From))
	}
	c.Min("O3 lock order edges", len(keys), 1)

	// every upward call site individually
	nUp := 0
	for _, fn := range fns {
		an.Instrs(fn, func(in ssa.Instruction) {
			if !isUpInvoke(in) {
				return
			}
			call := in.(ssa.CallInstruction)
			nUp++
			held := ip.MayBefore(in)
			var bad []string
			for hp := range held {
				hc := ip.ClassOf(hp)
				for _, a := range ip.AcqAt(call) {
					if a.Class == hc || onCycle(hc, a.Class) {
						bad = append(bad, fmt.Sprintf("%s (%s) held while the parent acquires %s", hp, hc, a.Class))
					}
				}
			}
			bad = c20Uniq(bad)
			c.Check(len(bad) == 0, "O3", "R-LOCKORD", c20KeyName(fn), "upward:parent-update", in.Pos(),
				fmt.Sprintf("upward propagation called with no conflicting lock held (held: %s)", held),
				"upward propagation with a lock held that directory code acquires top-down: "+strings.Join(bad, "; "))
		})
	}
	c.Min("O3 upward parent calls", nUp, 1)
}

// ---------------------------------------------------------------- O4

// c20FlagGuards: which boolean fields of struct type `flagsT` guard site.
func c20FlagGuards(fn *ssa.Function, site ssa.Instruction, flagsT *types.Named) map[string]bool {
	out := map[string]bool{}
	st, ok := flagsT.Underlying().(*types.Struct)
	if !ok {
		return out
	}
	for i := 0; i < st.NumFields(); i++ {
		f := st.Field(i)
		var loads []ssa.Value
		for _, l := range an.FieldReads(fn, f) {
			loads = append(loads, l)
		}
		if len(loads) == 0 {
			continue
		}
		if an.GuardedBy(fn, nil, site, an.BoolEdges(fn, loads, true)) {
			out[f.Name()+"=true"] = true
		}
		if an.GuardedBy(fn, nil, site, an.BoolEdges(fn, loads, false)) {
			out[f.Name()+"=false"] = true
		}
	}
	return out
}

func c20WantMode(g map[string]bool) (int, string) {
	switch {
	case g["Write=true"]:
		return an.LWrite, "flags.Write"
	case g["Write=false"] && g["Read=true"]:
		return an.LRead, "!flags.Write && flags.Read"
	}
	return an.LNone, "no flag condition"
}

func c20OpenClose(c *an.Ctx, ip *an.LockIP, pk string, fns []*ssa.Function) {
	flagsT := c.P.Named(pk, "Flags")
	desc := c.P.Field(pk, "File", c19MfsNames(c).FileDescLock)
	if !c.Need(flagsT != nil && desc != nil, "mfs.Flags, mfs.File.desclock") {
		return
	}
	isDesc := func(call ssa.CallInstruction) (an.LockOp, bool) {
		ops := an.XSyncModel(call)
		if len(ops) != 1 {
			return an.LockOp{}, false
		}
		r := an.Recv(call)
		if fa, ok := r.(*ssa.FieldAddr); ok {
			if f, _ := an.FieldOf(fa); f == desc {
				return ops[0], true
			}
		}
		return an.LockOp{}, false
	}
	nAcq, nRel := 0, 0
	modes := map[string]map[int]bool{"open": {}, "close": {}}
	fdT := c.P.Named(pk, c19MfsNames(c).Fd)
	if !c.Need(fdT != nil, "mfs.fileDescriptor") {
		return
	}
	for _, fn := range fns {
		if fn.Parent() != nil {
			continue
		}
		// roles: the opener acquires desclock and builds a descriptor; a
		// closer releases desclock without having acquired it
		acquires, releases, buildsFd := 0, 0, false
		an.Instrs(fn, func(in ssa.Instruction) {
			if call, ok := in.(ssa.CallInstruction); ok {
				if op, ok := isDesc(call); ok {
					if op.Acquire {
						acquires++
					} else {
						releases++
					}
				}
			}
			if a, ok := in.(*ssa.Alloc); ok && an.TypeIs(a.Type(), pk, c19MfsNames(c).Fd) {
				buildsFd = true
			}
		})
		// or: hands out a descriptor (result type), the construction being in a helper
		if res := fn.Signature.Results(); res.Len() > 0 {
			if an.TypeIs(res.At(0).Type(), pk, "FileDescriptor") || an.TypeIs(res.At(0).Type(), pk, c19MfsNames(c).Fd) {
				buildsFd = true
			}
		}
		returnsHolding := acquires > 0 && buildsFd
		releasesForeign := acquires == 0 && releases > 0
		if !returnsHolding && !releasesForeign {
			continue
		}
		name := c20KeyName(fn)
		for _, call := range an.AllCalls(fn) {
			op, ok := isDesc(call)
			if !ok {
				continue
			}
			want, cond := c20ModeByFlags(fn, call, flagsT)
			if op.Acquire && returnsHolding {
				nAcq++
				modes["open"][op.Mode] = true
				c.Check(want == op.Mode, "O4", "R-PAIR", name, "acquire-mode:"+an.ModeStr(op.Mode), call.Pos(),
					"desclock taken in mode "+an.ModeStr(op.Mode)+" under "+cond,
					fmt.Sprintf("desclock acquired in mode %s where the flags (%s) call for mode %s: writers would share the file with readers, or Close releases the other mode (unlock of unlocked mutex / lock never released)", an.ModeStr(op.Mode), cond, an.ModeStr(want)))
				c20ErrRelease(c, fn, call, op, isDesc, desc)
			} else if !op.Acquire && releasesForeign {
				nRel++
				modes["close"][op.Mode] = true
				c.Check(want == op.Mode, "O4", "R-PAIR", name, "release-mode:"+an.ModeStr(op.Mode), call.Pos(),
					"desclock released in mode "+an.ModeStr(op.Mode)+" under "+cond,
					fmt.Sprintf("desclock released in mode %s under %s, which Open pairs with mode %s: the release does not match the mode taken by Open (unlock of a mutex not held in that mode panics; the held mode is never released)", an.ModeStr(op.Mode), cond, an.ModeStr(want)))
				if _, isDefer := call.(*ssa.Defer); !isDefer {
					c.Note("O4: %s releases desclock with a direct call (not deferred)", name)
				}
			} else if !op.Acquire && returnsHolding {
				c.Problem("O4: %s releases desclock directly in its body: idiom not modelled (expected conditional deferred release)", name)
			}
		}
	}
	// (c) the descriptor lock outlives the flush: in a closer no direct
	// (non-deferred) release of desclock is followed by work that installs the
	// file's node (flushUp and whatever calls it). Releasing first lets the next
	// writer open the file on the stale node and overwrite the acknowledged write.
	fNode := c.P.Field(pk, "File", c19MfsNames(c).FileNode)
	installs := map[*ssa.Function]bool{}
	if fNode != nil {
		for _, fn := range fns {
			for _, st := range an.FieldStores(fn, fNode) {
				if _, b := an.FieldOf(st.Addr); !an.IsFresh(b) {
					installs[fn] = true
				}
			}
		}
		for changed := true; changed; {
			changed = false
			for _, fn := range fns {
				if installs[fn] {
					continue
				}
				for _, call := range an.AllCalls(fn) {
					if tgt := an.Callee(call).Static; tgt != nil && installs[tgt] {
						if _, isCall := call.(*ssa.Call); isCall {
							installs[fn] = true
							changed = true
						}
					}
				}
			}
		}
	}
	openers := map[*ssa.Function]bool{}
	for _, fn := range fns {
		if fn.Parent() != nil {
			continue
		}
		acquires, releases := 0, 0
		var direct []ssa.CallInstruction
		for _, call := range an.AllCalls(fn) {
			if op, ok := isDesc(call); ok {
				if op.Acquire {
					acquires++
				} else {
					releases++
					if _, isDefer := call.(*ssa.Defer); !isDefer {
						direct = append(direct, call)
					}
				}
			}
		}
		if acquires > 0 {
			if res := fn.Signature.Results(); res.Len() > 0 && (an.TypeIs(res.At(0).Type(), pk, "FileDescriptor") || an.TypeIs(res.At(0).Type(), pk, c19MfsNames(c).Fd)) {
				openers[fn] = true
			}
		}
		if acquires != 0 || releases == 0 {
			continue
		}
		var flushes []ssa.CallInstruction
		for _, call := range an.AllCalls(fn) {
			if tgt := an.Callee(call).Static; tgt != nil && installs[tgt] {
				flushes = append(flushes, call)
			}
		}
		if len(flushes) == 0 {
			continue
		}
		bad := token.NoPos
		for _, r := range direct {
			for _, x := range flushes {
				if an.Reaches(fn, r, x, nil, nil) {
					bad = r.Pos()
				}
			}
		}
		c.Check(bad == token.NoPos, "O4", "R-DOM", c20KeyName(fn), "flush<=desclock-release", bad,
			"desclock is released only after the descriptor's node was installed in the file (deferred release, or release after the flush)",
			"desclock is released before the flush that installs the written node in the file: the next writer can open the file on the stale node while this descriptor's data is not yet in it, and its flush overwrites the acknowledged write")
	}
	// (d) a descriptor opened inside the package and not handed out is closed on
	// every path (otherwise desclock stays held and the next Open blocks forever)
	for _, fn := range fns {
		for _, call := range an.AllCalls(fn) {
			if _, isCall := call.(*ssa.Call); !isCall {
				continue
			}
			tgt := an.Callee(call).Static
			if tgt == nil || !openers[tgt] || openers[fn] {
				continue
			}
			fds := an.Result(call, 0)
			if len(fds) == 0 {
				continue
			}
			handedOut := false
			for _, r := range an.Returns(fn) {
				for _, v := range r.Results {
					for _, fd := range fds {
						if an.SameObj(v, fd) {
							handedOut = true
						}
					}
				}
			}
			if handedOut {
				continue
			}
			blocked := map[ssa.Instruction]bool{}
			for _, x := range an.AllCalls(fn) {
				if an.Callee(x).Name != "Close" {
					continue
				}
				for _, fd := range fds {
					if an.SameObj(an.Recv(x), fd) {
						blocked[x] = true
					}
				}
			}
			failed := an.NilEdges(fn, an.ErrResult(call), false)
			c.Check(len(blocked) > 0 && an.ReachesAnyReturn(fn, call, failed, blocked) == nil, "O4", "R-PAIR", c20KeyName(fn), "internal-open=>close", call.Pos(),
				"the descriptor opened here is closed (or its Close deferred) on every path after a successful Open",
				"a descriptor opened inside the package is neither returned nor closed on some path: desclock stays held, the next Open of this file (and File.Sync/Flush) blocks forever")
		}
	}
	c.Min("O4 desclock acquisitions in the opener", nAcq, 1)
	c.Min("O4 desclock releases in the closer", nRel, 1)
	for _, side := range []string{"open", "close"} {
		c.Check(modes[side][an.LRead] && modes[side][an.LWrite], "O4", "R-PAIR", pk, side+"-covers-both-modes", token.NoPos,
			side+" side handles read and write descriptors", side+" side no longer handles both read and write descriptors: one kind of descriptor leaks or never takes desclock")
	}
}

// c20ModeByFlags: the lock mode the flags call for at site, decided over the
// four assignments of (Write, Read): under each assignment the branches on
// loads of these (immutable) flags are resolved and the site is either
// reachable or not. Write => W; !Write && Read => R; neither => the site must
// be unreachable. Robust against the order and shape of the tests (else-if
// chains, early returns, switch).
func c20ModeByFlags(fn *ssa.Function, site ssa.Instruction, flagsT *types.Named) (int, string) {
	st, ok := flagsT.Underlying().(*types.Struct)
	if !ok {
		return an.LNone, "no flags"
	}
	var wLoads, rLoads []ssa.Value
	for i := 0; i < st.NumFields(); i++ {
		f := st.Field(i)
		for _, l := range an.FieldReads(fn, f) {
			switch f.Name() {
			case "Write":
				wLoads = append(wLoads, l)
			case "Read":
				rLoads = append(rLoads, l)
			}
		}
	}
	if len(wLoads) == 0 && len(rLoads) == 0 {
		return an.LNone, "no flag condition"
	}
	want := -1
	var conds []string
	for _, combo := range []struct {
		w, r bool
		mode int
		txt  string
	}{{true, false, an.LWrite, "Write"}, {true, true, an.LWrite, "Write&Read"}, {false, true, an.LRead, "!Write&Read"}, {false, false, an.LNone, "!Write&!Read"}} {
		cut := an.BoolEdges(fn, wLoads, !combo.w).Union(an.BoolEdges(fn, rLoads, !combo.r))
		if !an.Reaches(fn, nil, site, cut, nil) {
			continue
		}
		conds = append(conds, combo.txt)
		if want == -1 {
			want = combo.mode
		} else if want != combo.mode {
			want = an.LNone // reachable under assignments that need different modes
			conds = append(conds, "(conflict)")
		}
	}
	if want == -1 {
		return an.LNone, "unreachable under every flag assignment"
	}
	return want, "flags " + strings.Join(conds, " | ")
}

// c20BoundRelease: rc (inside the literal deferred by d) calls a func value
// read from a variable; on the path of acquisition acq that variable holds a
// bound sync release method of the descriptor lock. Returns that operation.
func c20BoundRelease(fn *ssa.Function, acq ssa.CallInstruction, d *ssa.Defer, rc ssa.CallInstruction, desc *types.Var) (an.LockOp, bool) {
	u, ok := rc.Common().Value.(*ssa.UnOp)
	if !ok || u.Op != token.MUL {
		return an.LockOp{}, false
	}
	cell := an.CellOf(u.X)
	if cell == nil || cell.Parent() != fn || cell.Referrers() == nil {
		return an.LockOp{}, false
	}
	var res an.LockOp
	found := false
	for _, r := range *cell.Referrers() {
		st, ok := r.(*ssa.Store)
		if !ok || st.Addr != ssa.Value(cell) {
			continue
		}
		// the store that belongs to this acquisition: it follows acq on every path to the defer
		if !an.Dominates(acq, st) {
			continue
		}
		mc, ok := st.Val.(*ssa.MakeClosure)
		if !ok || len(mc.Bindings) != 1 {
			return an.LockOp{}, false
		}
		g, ok := mc.Fn.(*ssa.Function)
		if !ok || g.Synthetic == "" {
			return an.LockOp{}, false
		}
		fa, ok := mc.Bindings[0].(*ssa.FieldAddr)
		if !ok {
			return an.LockOp{}, false
		}
		if f, _ := an.FieldOf(fa); f != desc {
			return an.LockOp{}, false
		}
		for _, inner := range an.AllCalls(g) {
			ci := an.Callee(inner)
			if ci.Pkg != "sync" {
				continue
			}
			switch ci.Name {
			case "Unlock":
				res, found = an.LockOp{Path: an.XPath(fa), Mode: an.LWrite}, true
			case "RUnlock":
				res, found = an.LockOp{Path: an.XPath(fa), Mode: an.LRead}, true
			}
		}
		// no other store of the variable between this one and the defer
		for _, r2 := range *cell.Referrers() {
			if s2, ok := r2.(*ssa.Store); ok && s2 != st && s2.Addr == ssa.Value(cell) && an.Reaches(fn, st, s2, nil, nil) && an.Reaches(fn, s2, d, nil, nil) {
				return an.LockOp{}, false
			}
		}
	}
	return res, found
}

// c20ErrRelease: acquisition `acq` in the opener is followed on every path by
// the registration of a deferred literal that releases the same lock in the
// same mode exactly when the function's error result is non-nil.
func c20ErrRelease(c *an.Ctx, fn *ssa.Function, acq ssa.CallInstruction, op an.LockOp, isDesc func(ssa.CallInstruction) (an.LockOp, bool), desc *types.Var) {
	name := c20KeyName(fn)
	// error result cell
	var errCell *ssa.Alloc
	for _, r := range an.Returns(fn) {
		if len(r.Results) == 0 {
			continue
		}
		if u, ok := r.Results[len(r.Results)-1].(*ssa.UnOp); ok && u.Op == token.MUL {
			if a, ok := u.X.(*ssa.Alloc); ok && an.IsErrorType(u.Type()) {
				errCell = a
			}
		}
	}
	var good []ssa.Instruction
	why := "no deferred function literal releases it"
	an.Instrs(fn, func(in ssa.Instruction) {
		d, ok := in.(*ssa.Defer)
		if !ok {
			return
		}
		mc, ok := d.Call.Value.(*ssa.MakeClosure)
		if !ok {
			return
		}
		lit := mc.Fn.(*ssa.Function)
		for _, rc := range an.AllCalls(lit) {
			rop, ok := isDesc(rc)
			if !ok {
				// release through a func value chosen next to the acquisition
				// (`release = fi.lock.Unlock` ... `release()`): the bound
				// method stored on the path of this acquisition
				rop, ok = c20BoundRelease(fn, acq, d, rc, desc)
			}
			if !ok || rop.Acquire || rop.Path != op.Path {
				continue
			}
			if rop.Mode != op.Mode {
				why = "the deferred literal releases mode " + an.ModeStr(rop.Mode) + ", acquired mode is " + an.ModeStr(op.Mode)
				continue
			}
			if errCell == nil {
				why = "function has no named error result the deferred literal could test"
				continue
			}
			var loads []ssa.Value
			an.Instrs(lit, func(i2 ssa.Instruction) {
				if u, ok := i2.(*ssa.UnOp); ok && u.Op == token.MUL && an.CellOf(u.X) == errCell {
					loads = append(loads, u)
				}
			})
			onlyOnErr := len(loads) > 0 && an.GuardedBy(lit, nil, rc, an.NilEdges(lit, loads, false))
			alwaysOnErr := len(loads) > 0 && an.ReachesAnyReturn(lit, nil, an.NilEdges(lit, loads, true), map[ssa.Instruction]bool{rc: true}) == nil
			if !onlyOnErr {
				why = "the deferred release is not restricted to a non-nil error result: a successful Open would return with desclock already released (Close then unlocks an unlocked mutex)"
				continue
			}
			if !alwaysOnErr {
				why = "the deferred literal can return without releasing although the error result is non-nil"
				continue
			}
			good = append(good, d)
		}
	})
	ok := false
	if len(good) > 0 {
		ok, _ = an.MustFollow(fn, acq, good)
		if !ok {
			why = "a return is reachable after the acquisition without registering the releasing defer"
		}
	}
	c.Check(ok, "O4", "R-PAIR", name, "error-release:"+an.ModeStr(op.Mode), acq.Pos(),
		"every error return after the acquisition releases desclock (deferred literal conditioned on the error result), success returns keep it for the descriptor",
		"desclock (mode "+an.ModeStr(op.Mode)+") is not released exactly on the error returns of "+name+": "+why+" — a failed Open would block all later writers (or readers) of the file forever")
}

// ---------------------------------------------------------------- O5

func c20ConstOfType(c *an.Ctx, pk, name string) (string, bool) {
	pkg := c.P.Pkg(pk)
	if pkg == nil {
		return "", false
	}
	k, ok := pkg.Types.Scope().Lookup(name).(*types.Const)
	if !ok {
		return "", false
	}
	return k.Val().ExactString(), true
}

func c20IsConst(v ssa.Value, exact string) bool {
	k, ok := an.ConstOf(v)
	return ok && k.ExactString() == exact
}

func c20Deref(v ssa.Value) ssa.Value {
	if u, ok := v.(*ssa.UnOp); ok && u.Op == token.MUL {
		return u.X
	}
	return v
}

func c20Uniq(xs []string) []string {
	sort.Strings(xs)
	var out []string
	for i, x := range xs {
		if i == 0 || xs[i-1] != x {
			out = append(out, x)
		}
	}
	return out
}

// ---------------------------------------------------------------- O6

// c20Taint: forward data-flow closure of the seed values inside fn: value
// preserving operations (an.Uses), and calls — a call with a tainted receiver
// or argument taints its results, and a tainted argument taints the receiver
// object of a method call (nd.SetLinks(old.Links())).
func c20Taint(fn *ssa.Function, seeds []ssa.Value) map[ssa.Value]bool {
	t := map[ssa.Value]bool{}
	var work []ssa.Value
	add := func(v ssa.Value) {
		if v != nil && !t[v] {
			t[v] = true
			work = append(work, v)
		}
	}
	for _, s := range seeds {
		add(s)
	}
	for len(work) > 0 {
		v := work[len(work)-1]
		work = work[:len(work)-1]
		for _, in := range an.Uses(v) {
			if in.Parent() != fn {
				continue
			}
			switch x := in.(type) {
			case *ssa.Store:
				// through a local cell (named results, address-taken locals)
				if cell := an.CellOf(x.Addr); cell != nil && t[x.Val] && cell.Referrers() != nil {
					for _, r := range *cell.Referrers() {
						if u, ok := r.(*ssa.UnOp); ok && u.Op == token.MUL {
							add(u)
						}
					}
				}
			case *ssa.Call:
				add(x)
				if r := an.Recv(x); r != nil && !t[r] {
					// tainted argument flows into the receiver object
					for _, a := range an.Args(x) {
						if t[a] {
							for _, root := range an.Roots(r, nil) {
								add(root)
							}
							add(r)
						}
					}
				}
			case ssa.Value:
				switch x.(type) {
				case *ssa.Extract, *ssa.ChangeType, *ssa.Convert, *ssa.MakeInterface, *ssa.ChangeInterface, *ssa.TypeAssert, *ssa.Slice, *ssa.Phi, *ssa.Field, *ssa.FieldAddr, *ssa.IndexAddr, *ssa.Index, *ssa.Lookup, *ssa.BinOp:
					add(x)
				case *ssa.UnOp:
					add(x)
				}
			}
		}
		// results of a tainted tuple
		if refs := v.Referrers(); refs != nil {
			for _, r := range *refs {
				if e, ok := r.(*ssa.Extract); ok {
					add(e)
				}
			}
		}
	}
	return t
}

// c20Atomic: O6. A guarded field that is replaced must be read, recomputed and
// replaced inside one critical section.
func c20Atomic(c *an.Ctx, ip *an.LockIP, pk string, fns []*ssa.Function, guards []c20Guard, min int) {
	n := 0
	for _, g := range guards {
		fld := c.P.Field(pk, g.typ, g.field)
		if fld == nil || c.P.Field(pk, g.typ, g.lock) == nil {
			continue
		}
		// setters: functions storing the field of a parameter-rooted, shared object
		setterBase := map[*ssa.Function]string{}
		for _, fn := range fns {
			for _, st := range an.FieldStores(fn, fld) {
				_, b := an.FieldOf(st.Addr)
				if c20Unshared(b) {
					continue
				}
				if bp := an.XPath(b); strings.HasPrefix(bp, "p:") {
					setterBase[fn] = bp
				}
			}
		}
		if len(setterBase) == 0 {
			continue
		}
		// (a) inside one function: earlier loads of the same field of the same object
		for _, fn := range fns {
			if _, called := ip.Entry(fn); !called {
				continue
			}
			for _, st := range an.FieldStores(fn, fld) {
				_, b := an.FieldOf(st.Addr)
				if c20Unshared(b) {
					continue
				}
				bp := an.XPath(b)
				lp := bp + "." + g.lock
				var bad []string
				k := 0
				for _, fa := range an.FieldAddrs(fn, fld) {
					if an.XPath(fa.X) != bp || fa.Referrers() == nil {
						continue
					}
					for _, r := range *fa.Referrers() {
						u, ok := r.(*ssa.UnOp)
						if !ok || u.Op != token.MUL || !an.Reaches(fn, u, st, nil, nil) {
							continue
						}
						k++
						if !ip.SameSection(u, st, lp) {
							bad = append(bad, c.P.Pos(u.Pos()))
						}
					}
				}
				if k == 0 {
					continue
				}
				n++
				c.Check(len(bad) == 0, "O6", "R-PAIR", c20KeyName(fn), "rmw:"+g.label, st.Pos(),
					fmt.Sprintf("%s.%s is replaced in the critical section of %s in which it was read (%d read(s))", g.typ, g.field, lp, k),
					fmt.Sprintf("%s.%s is read at %s and replaced at %s outside one critical section of %s: a value stored concurrently in between (e.g. a flushed write, an added entry, a re-armed timer) is overwritten by one computed from the stale read", g.typ, g.field, strings.Join(bad, ", "), c.P.Pos(st.Pos()), lp))
			}
		}
		// getters: functions returning a value derived from the field of a parameter-rooted object
		getterBase := map[*ssa.Function]string{}
		for changed := true; changed; {
			changed = false
			for _, fn := range fns {
				if _, ok := getterBase[fn]; ok || fn.Parent() != nil {
					continue
				}
				var seeds []ssa.Value
				base := ""
				for _, l := range an.FieldReads(fn, fld) {
					if u, ok := l.(*ssa.UnOp); ok {
						_, b := an.FieldOf(u.X)
						if bp := an.XPath(b); strings.HasPrefix(bp, "p:") && !c20Unshared(b) {
							seeds = append(seeds, l)
							base = bp
						}
					}
				}
				for _, call := range an.AllCalls(fn) {
					v := an.CallValue(call)
					if v == nil {
						continue
					}
					for _, t := range ip.Targets(call) {
						if gb, ok := getterBase[t.Fn]; ok && t.Kind != "callback" {
							if as := c20Actuals(call, t.Fn); as != nil {
								if bp := c20Translate(gb, t.Fn, as); strings.HasPrefix(bp, "p:") {
									seeds = append(seeds, v)
									base = bp
								}
							}
						}
					}
				}
				if len(seeds) == 0 {
					continue
				}
				t := c20Taint(fn, seeds)
				for _, r := range an.Returns(fn) {
					if len(r.Results) > 0 && t[r.Results[0]] && !an.IsErrorType(r.Results[0].Type()) {
						getterBase[fn] = base
						changed = true
					}
				}
			}
		}
		// (b) across calls: snapshot from a getter flows into a setter of the same object
		for _, fn := range fns {
			if _, called := ip.Entry(fn); !called {
				continue
			}
			type src struct {
				call ssa.CallInstruction
				obj  string
			}
			var srcs []src
			for _, call := range an.AllCalls(fn) {
				if an.CallValue(call) == nil {
					continue
				}
				for _, t := range ip.Targets(call) {
					if gb, ok := getterBase[t.Fn]; ok && t.Kind != "callback" {
						if as := c20Actuals(call, t.Fn); as != nil {
							srcs = append(srcs, src{call, c20Translate(gb, t.Fn, as)})
						}
					}
				}
			}
			if len(srcs) == 0 {
				continue
			}
			var bad []string
			var at token.Pos
			k := 0
			for _, call := range an.AllCalls(fn) {
				for _, t := range ip.Targets(call) {
					sb, ok := setterBase[t.Fn]
					if !ok || t.Kind == "callback" {
						continue
					}
					as := c20Actuals(call, t.Fn)
					if as == nil {
						continue
					}
					obj := c20Translate(sb, t.Fn, as)
					for _, s := range srcs {
						if s.obj != obj || !an.Reaches(fn, s.call, call, nil, nil) {
							continue
						}
						taint := c20Taint(fn, []ssa.Value{an.CallValue(s.call)})
						flows := false
						for _, a := range call.Common().Args {
							if taint[a] {
								flows = true
							}
						}
						if !flows {
							continue
						}
						k++
						if at == token.NoPos {
							at = call.Pos()
						}
						if !ip.SameSection(s.call, call, obj+"."+g.lock) {
							bad = append(bad, fmt.Sprintf("%s (%s) -> %s (%s)", an.Callee(s.call).Name, c.P.Pos(s.call.Pos()), an.Callee(call).Name, c.P.Pos(call.Pos())))
							at = call.Pos()
						}
					}
				}
			}
			if k == 0 {
				continue
			}
			n++
			bad = c20Uniq(bad)
			c.Check(len(bad) == 0, "O6", "R-PAIR", c20KeyName(fn), "rmw-via-getter:"+g.label, at,
				fmt.Sprintf("the snapshot of %s.%s and its replacement lie in one critical section", g.typ, g.field),
				fmt.Sprintf("non-atomic read-modify-write of %s.%s: a snapshot obtained through a getter is used to compute the value a setter stores, without holding %s.%s across both (%s) — an update acknowledged in between (flushed write, added/removed entry) is silently overwritten", g.typ, g.field, g.typ, g.lock, strings.Join(bad, "; ")))
		}
	}
	c.Min("O6 read-modify-write sites", n, min)
}

func c20Actuals(call ssa.CallInstruction, callee *ssa.Function) []ssa.Value {
	cc := call.Common()
	var as []ssa.Value
	if cc.IsInvoke() {
		as = append(as, cc.Value)
		as = append(as, cc.Args...)
	} else {
		as = cc.Args
	}
	if len(as) != len(callee.Params) {
		return nil
	}
	return as
}

// c20Translate rewrites a callee path "p:x.rest" into the caller's terms.
func c20Translate(path string, callee *ssa.Function, actuals []ssa.Value) string {
	root, rest := path, ""
	if i := strings.IndexByte(path, '.'); i >= 0 {
		root, rest = path[:i], path[i:]
	}
	for i, prm := range callee.Params {
		if "p:"+prm.Name() == root {
			return an.XPath(actuals[i]) + rest
		}
	}
	return "?"
}

// ---------------------------------------------------------------- O7

// c20Balanced: a function that takes a lock does not return holding it
// (explicit unlocks on every return path, or a deferred unlock). handOver
// lists lock classes that a function may deliberately keep (Open -> Close).
func c20Balanced(c *an.Ctx, ip *an.LockIP, pk string, fns []*ssa.Function, handOver map[string]bool, min int) {
	n := 0
	for _, fn := range fns {
		if fn.Parent() != nil {
			continue
		}
		acquires := false
		var at token.Pos
		for _, call := range an.AllCalls(fn) {
			if _, isDefer := call.(*ssa.Defer); isDefer {
				continue
			}
			for _, op := range an.XSyncModel(call) {
				if op.Acquire {
					acquires = true
					at = call.Pos()
				}
			}
		}
		if !acquires {
			continue
		}
		n++
		may, _, _ := ip.ExitHeld(fn)
		var leaked []string
		for pth, m := range may {
			if m != an.LNone && !handOver[ip.ClassOf(pth)] {
				leaked = append(leaked, pth+"("+an.ModeStr(m)+")")
			}
		}
		sort.Strings(leaked)
		c.Check(len(leaked) == 0, "O7", "R-PAIR", c20KeyName(fn), "locks-released-on-every-return", at,
			"every lock taken here is released on every return path",
			"a return path leaves "+strings.Join(leaked, ", ")+" locked: the next operation on the same object blocks forever")
	}
	c.Min("O7 functions acquiring a mutex", n, min)
}
