package props

import (
	"fmt"
	"go/token"
	"go/types"
	"strings"

	"golang.org/x/tools/go/ssa"

	"verif/checker/an"
)

func init() {
	register("C21", Prop{
		Pkgs: []string{"./mfs"},
		Explain: "Decided (structural necessary conditions of 'the republisher publishes the latest root and never regresses'): " +
			"O1 in the publish loop (the Republisher method that calls pubfunc): the value handed to pubfunc derives only from receives on rp.update (or is the undefined CID); a value received from rp.update replaces the pending one (latest wins); lastPublished takes a new value only from the value just published and only on pubfunc's nil-error edge; a waiter is closed in an iteration only where nothing was pending or pubfunc succeeded, never on the failure edge; the WaitPub branch drains rp.update (non-blocking receive feeding the value to publish) before publishing and the waiter closed is the one received; " +
			"O2 Close waits for the pending publish (WaitPub) before cancelling the loop and waits for the loop to stop (receive on rp.stopped) before every return; the loop closes rp.stopped on exit (deferred) and is started by NewRepublisher; Root.Close hands the final root CID to the republisher (Update) before Close; WaitPub returns nil only after the loop closed the waiter it sent; " +
			"O3 Update is a coalescing send: a blocking select over {receive from rp.update, send c to rp.update}, the receive arm retries with a non-blocking send, every send state sends exactly the argument c, and rp.update has capacity 1 (so that the single drain in the loop takes the newest value). " +
			"Round 12 additions to O1: after a successful pubfunc call every path back to the loop select passes the assignment lastPublished=published value; on pubfunc's error edge a Timer.Reset is passed before the loop waits again; the local channel variable that switches the WaitPub intake is nil on every edge dominated by the failure and is set back to rp.immediatePublish on every path after a success. " +
			"NOT decided: eventual publication (timers, liveness), behaviour under real schedules, the advisory liveness gaps noted in DESIGN (waiter kept across failed publishes; an update equal to lastPublished while a WaitPub is pending).",
		Assume:    []string{"pubfunc publishes the value it is given", "channel semantics of Go select"},
		Technique: "R-FLOW over SSA phis and select states (value provenance of the published CID and of lastPublished), R-DOM on nil-error / select-branch edges, R-POST (must-precede) in Close/WaitPub, shape check of Update's select states, R-CONST channel capacity",
		Run:       runC21,
	})
}

// ---- select helpers

// c21RecvExtract: index of the Extract that yields the value received by
// state k of sel (results are (index, ok, recv values of receive states...)).
func c21RecvExtract(sel *ssa.Select, k int) int {
	n := 2
	for i, st := range sel.States {
		if st.Dir == types.RecvOnly {
			if i == k {
				return n
			}
			n++
		}
	}
	return -1
}

// c21StateOfExtract: the select state whose received value Extract e yields.
func c21StateOfExtract(e *ssa.Extract) (*ssa.Select, int) {
	sel, ok := e.Tuple.(*ssa.Select)
	if !ok || e.Index < 2 {
		return nil, -1
	}
	n := 2
	for i, st := range sel.States {
		if st.Dir == types.RecvOnly {
			if n == e.Index {
				return sel, i
			}
			n++
		}
	}
	return sel, -1
}

// c21Branch: CFG edges on which state k of sel was chosen.
func c21Branch(fn *ssa.Function, sel *ssa.Select, k int) an.EdgeSet {
	return an.CondEdges(fn, func(atom ssa.Value) (bool, bool) {
		b, ok := atom.(*ssa.BinOp)
		if !ok || b.Op != token.EQL {
			return false, false
		}
		e, ok := b.X.(*ssa.Extract)
		if !ok || e.Tuple != ssa.Value(sel) || e.Index != 0 {
			return false, false
		}
		kv, ok := an.ConstOf(b.Y)
		if !ok || kv.String() != fmt.Sprint(k) {
			return false, false
		}
		return true, false
	})
}

func c21IsFieldLoad(v ssa.Value, fld *types.Var) bool {
	u, ok := v.(*ssa.UnOp)
	if !ok || u.Op != token.MUL {
		return false
	}
	f, _ := an.FieldOf(u.X)
	return f == fld
}

func c21Selects(fn *ssa.Function) []*ssa.Select {
	var out []*ssa.Select
	an.Instrs(fn, func(in ssa.Instruction) {
		if s, ok := in.(*ssa.Select); ok {
			out = append(out, s)
		}
	})
	return out
}

func c21PhiOf(v ssa.Value) *ssa.Phi {
	ph, _ := v.(*ssa.Phi)
	return ph
}

func c21IsUndef(v ssa.Value) bool {
	if k, ok := v.(*ssa.Const); ok {
		return k.Value == nil // zero value of the struct type
	}
	return an.IsZeroValue(v, cidUndef)
}

// c21BranchHead: for every edge of the set, the If instruction it leaves from
// and the successor index.
func c21ForcedFrom(e an.Edge) (ssa.Instruction, an.EdgeSet) {
	ifi := e.From.Instrs[len(e.From.Instrs)-1]
	cut := an.EdgeSet{}
	for si := range e.From.Succs {
		if si != e.Succ {
			cut[an.Edge{From: e.From, Succ: si}] = true
		}
	}
	return ifi, cut
}

func runC21(c *an.Ctx) {
	const pk = "mfs"
	p := c.P
	c20KeyProg = p
	if !c19NeedNames(c, c19MfsNames(c)) {
		return
	}
	fUpdate, fImm, fPub := p.Field(pk, "Republisher", c19MfsNames(c).RpUpdate), p.Field(pk, "Republisher", c19MfsNames(c).RpImm), p.Field(pk, "Republisher", c19MfsNames(c).RpPub)
	fStopped, fCancel := p.Field(pk, "Republisher", c19MfsNames(c).RpStopped), p.Field(pk, "Republisher", c19MfsNames(c).RpCancel)
	if !c.Need(fUpdate != nil && fImm != nil && fPub != nil && fStopped != nil && fCancel != nil, "Republisher fields update, immediatePublish, pubfunc, stopped, cancel") {
		return
	}
	c21Loop(c, pk, fUpdate, fImm, fPub, fStopped)
	c21Close(c, pk, fUpdate, fImm, fStopped, fCancel)
	c21UpdateShape(c, pk, fUpdate)
}

// ---------------------------------------------------------------- O1

func c21Loop(c *an.Ctx, pk string, fUpdate, fImm, fPub, fStopped *types.Var) {
	p := c.P
	// the publish loop: the Republisher method with the blocking select that
	// receives from rp.update; the publish step is the call (direct, or of a
	// helper) that reaches the pubfunc field
	var run *ssa.Function
	var loopSel *ssa.Select
	updIdx, immIdx := -1, -1
	for _, fn := range p.Methods(pk, "Republisher") {
		for _, s := range c21Selects(fn) {
			if !s.Blocking {
				continue
			}
			for i, st := range s.States {
				if st.Dir == types.RecvOnly && c21IsFieldLoad(st.Chan, fUpdate) {
					run, loopSel, updIdx = fn, s, i
				}
			}
		}
	}
	if !c.Need(run != nil, "Republisher method with a blocking select receiving from rp.update (publish loop)") {
		return
	}
	name := c20KeyName(run)
	isPub := func(in ssa.Instruction, env *an.IPEnv) bool {
		call, ok := in.(*ssa.Call)
		return ok && c21IsFieldLoad(call.Call.Value, fPub) && len(call.Call.Args) == 2
	}
	pubs := an.IPInner(run, nil, isPub)
	if !c.Need(len(pubs) == 1, "exactly one call of rp.pubfunc(ctx, cid) reached from "+name) {
		return
	}
	pub, isCall := pubs[0].Outer().(*ssa.Call)
	if !c.Need(isCall, "publish step of "+name+" is a plain call") {
		return
	}
	// the value published, in the loop's own terms
	tp := pubs[0].In.(*ssa.Call).Call.Args[1]
	for e := pubs[0].Env; e != nil; e = e.Up {
		prm, ok := tp.(*ssa.Parameter)
		if !ok {
			tp = nil
			break
		}
		tp = e.Actual(prm)
		if tp == nil {
			break
		}
	}
	if !c.Need(tp != nil, "the cid handed to pubfunc is passed through from "+name) {
		return
	}
	errs := an.ErrResult(pub)
	okEdges := an.NilEdges(run, errs, true)
	// a publish helper must report pubfunc's own error
	if pubs[0].Env != nil {
		inner := pubs[0].In.(*ssa.Call)
		h := inner.Parent()
		innerErr := an.ErrResult(inner)
		faithful := len(innerErr) > 0 && pubs[0].Env.Up == nil
		if faithful {
			for _, r := range an.Returns(h) {
				if !an.Reaches(h, nil, r, nil, nil) || len(r.Results) == 0 {
					continue
				}
				v := r.Results[len(r.Results)-1]
				if an.IsNilConst(v) {
					if an.Reaches(h, inner, r, nil, nil) && !an.GuardedBy(h, inner, r, an.NilEdges(h, innerErr, true)) {
						faithful = false
					}
					continue
				}
				for _, root := range an.Roots(v, nil) {
					if root != ssa.Value(inner) {
						faithful = false
					}
				}
			}
		}
		c.Check(faithful, "O1", "R-FLOW", c20KeyName(h), "publish-helper-returns-pubfunc-error", inner.Pos(),
			"the helper through which the loop publishes returns pubfunc's error unchanged", "the helper through which the loop publishes does not return pubfunc's own error: a failed publish looks successful to the loop (waiters are released, lastPublished advances)")
	}
	// immediatePublish is read through a local that is set to nil while retrying
	for i, st := range loopSel.States {
		if st.Dir != types.RecvOnly || i == updIdx {
			continue
		}
		for _, r := range an.Roots(st.Chan, nil) {
			if c21IsFieldLoad(r, fImm) {
				immIdx = i
			}
		}
	}
	if !c.Need(immIdx >= 0, "select state receiving from rp.immediatePublish in "+name) {
		return
	}

	// (a) provenance of the published value
	fromUpdate := func(r ssa.Value) (bool, string) {
		switch x := r.(type) {
		case *ssa.Extract:
			if sel, k := c21StateOfExtract(x); sel != nil && k >= 0 && c21IsFieldLoad(sel.States[k].Chan, fUpdate) {
				return true, ""
			}
		case *ssa.UnOp:
			if x.Op == token.ARROW && c21IsFieldLoad(x.X, fUpdate) {
				return true, ""
			}
		}
		return false, an.PathOf(r)
	}
	var badRoots []string
	nRecv := 0
	for _, ir := range an.IPRoots(tp, nil, nil) {
		r := ir.V
		if c21IsUndef(r) {
			continue
		}
		if ok, what := fromUpdate(r); ok {
			nRecv++
		} else {
			badRoots = append(badRoots, what)
		}
	}
	c.Check(len(badRoots) == 0 && nRecv > 0, "O1", "R-FLOW", name, "published-value<=rp.update", pub.Pos(),
		fmt.Sprintf("the value given to pubfunc is the undefined CID or one of %d receives from rp.update", nRecv),
		"the value given to pubfunc can come from "+strings.Join(badRoots, ", ")+" (not a receive from rp.update): an old or unrelated root could be published after a newer one")

	// (b) latest wins: on the rp.update branch the pending value becomes the received one
	nv := (ssa.Value)(nil)
	for _, r := range *loopSel.Referrers() {
		if e, ok := r.(*ssa.Extract); ok && e.Index == c21RecvExtract(loopSel, updIdx) {
			nv = e
		}
	}
	updBranch := c21Branch(run, loopSel, updIdx)
	if c.Need(nv != nil && len(updBranch) > 0, "received value / branch of the rp.update state") {
		// TP family: phis met when walking back from tp
		fam := map[*ssa.Phi]bool{}
		var walk func(v ssa.Value)
		walk = func(v ssa.Value) {
			if ph, ok := v.(*ssa.Phi); ok && !fam[ph] {
				fam[ph] = true
				for _, e := range ph.Edges {
					walk(e)
				}
			}
		}
		walk(tp)
		var heads []*ssa.BasicBlock
		for e := range updBranch {
			heads = append(heads, e.From.Succs[e.Succ])
		}
		ok := true
		n := 0
		at := loopSel.Pos()
		for ph := range fam {
			for i, pred := range ph.Block().Preds {
				inBranch := false
				for _, h := range heads {
					if h == pred || h.Dominates(pred) {
						inBranch = true
					}
				}
				if !inBranch {
					continue
				}
				n++
				v := ph.Edges[i]
				if v != nv && !c21IsUndef(v) {
					ok, at = false, ph.Pos()
				}
			}
		}
		c.Min("O1 pending-value updates on the rp.update branch", n, 1)
		c.Check(ok, "O1", "R-FLOW", name, "update-branch:pending=received", at,
			"after a receive from rp.update the pending value is the received one (or cleared when already published)",
			"after a receive from rp.update the loop can keep an older pending value instead of the received one: the most recent root is dropped and an older one published")
	}

	// (c) lastPublished: only from the value just published, on the nil-error edge
	var lpParam *ssa.Parameter
	for _, prm := range run.Params {
		if an.TypeIs(prm.Type(), "github.com/ipfs/go-cid", "Cid") {
			lpParam = prm
		}
	}
	if c.Need(lpParam != nil, "cid.Cid parameter (lastPublished) of "+name) {
		lp := map[ssa.Value]bool{lpParam: true}
		for changed := true; changed; {
			changed = false
			an.Instrs(run, func(in ssa.Instruction) {
				if ph, ok := in.(*ssa.Phi); ok && !lp[ph] {
					for _, e := range ph.Edges {
						if lp[e] {
							lp[ph] = true
							changed = true
						}
					}
				}
			})
		}
		nNew := 0
		var lpAssign []ssa.Instruction
		for v := range lp {
			ph, ok := v.(*ssa.Phi)
			if !ok {
				continue
			}
			for i, e := range ph.Edges {
				if lp[e] {
					continue
				}
				nNew++
				pred := ph.Block().Preds[i]
				term := pred.Instrs[len(pred.Instrs)-1]
				isTP := e == tp
				onOK := an.Dominates(pub, term) && an.GuardedBy(run, pub, term, okEdges)
				if isTP && onOK {
					lpAssign = append(lpAssign, term)
				}
				c.Check(isTP && onOK, "O1", "R-DOM", name, "lastPublished=published-value-on-success", ph.Pos(),
					"lastPublished is replaced only by the value just given to pubfunc, on pubfunc's nil-error edge",
					fmt.Sprintf("lastPublished can take a value that is not the one just published successfully (same value as pubfunc's argument: %v, only after a nil error: %v): later updates equal to it are skipped although they were never published, or a published value is not remembered", isTP, onOK))
			}
		}
		c.Min("O1 assignments of a new value to lastPublished", nNew, 1)
		// ... and on every path: after a successful publish the loop does not
		// wait again with the old lastPublished (a later update equal to the stale
		// value would be skipped although a different value was published last)
		if len(lpAssign) > 0 {
			blockedLP := map[ssa.Instruction]bool{}
			for _, t := range lpAssign {
				blockedLP[t] = true
			}
			always := true
			for e := range okEdges {
				from, cut := c21ForcedFrom(e)
				if an.Reaches(run, from, loopSel, cut, blockedLP) {
					always = false
				}
			}
			c.Check(always, "O1", "R-POST", name, "publish-ok=>lastPublished-updated", pub.Pos(),
				"after a successful pubfunc call lastPublished is replaced by the published value on every path back to the select",
				"after a successful pubfunc call the loop can wait again with the old lastPublished: a later update equal to that stale value is dropped as 'already published' although another value was published in between — the most recent root is never published")
		}
		// a failed publish is retried: on pubfunc's error edge a timer is (re)armed
		// before the loop waits again (otherwise, with both timers stopped, the
		// pending value is only published if another update or WaitPub arrives)
		{
			resets := map[ssa.Instruction]bool{}
			for _, call := range an.Calls(run, an.M("time", "Timer", "Reset")) {
				resets[call] = true
			}
			retried := true
			for e := range an.NilEdges(run, errs, false) {
				from, cut := c21ForcedFrom(e)
				if an.Reaches(run, from, loopSel, cut, resets) {
					retried = false
				}
			}
			c.Check(retried, "O1", "R-POST", name, "publish-failed=>retry-timer-armed", pub.Pos(),
				"after a failed pubfunc call a timer is re-armed before the loop waits again",
				"after a failed pubfunc call the loop can wait again without any timer armed: the pending root is not retried and is never published unless another Update or WaitPub happens to arrive")
		}
		// the local switch of the WaitPub intake (a channel variable that is the
		// rp.immediatePublish state's channel): while a failed publish is being
		// retried no further waiter is accepted (it would overwrite the waiter that
		// is still owed a notification), and after a successful publish the intake
		// is switched on again (otherwise every later WaitPub/Close blocks forever)
		if immIdx >= 0 {
			fam := map[*ssa.Phi]bool{}
			var walkC func(v ssa.Value)
			walkC = func(v ssa.Value) {
				if ph, ok := v.(*ssa.Phi); ok && !fam[ph] {
					fam[ph] = true
					for _, e := range ph.Edges {
						walkC(e)
					}
				}
			}
			walkC(loopSel.States[immIdx].Chan)
			if len(fam) > 0 {
				failEdges := an.NilEdges(run, errs, false)
				disabled, nFailIn := true, 0
				enables := map[ssa.Instruction]bool{}
				hasNil := false
				for ph := range fam {
					for i, e := range ph.Edges {
						pred := ph.Block().Preds[i]
						term := pred.Instrs[len(pred.Instrs)-1]
						if an.IsNilConst(e) {
							hasNil = true
						}
						if c21IsFieldLoad(e, fImm) {
							if in, ok := e.(ssa.Instruction); ok && an.Reaches(run, loopSel, in, nil, nil) {
								enables[in] = true
							}
						}
						if an.Dominates(pub, term) && an.GuardedBy(run, pub, term, failEdges) && !fam[c21PhiOf(e)] {
							nFailIn++
							if !an.IsNilConst(e) {
								disabled = false
							}
						} else if an.Dominates(pub, term) && an.GuardedBy(run, pub, term, failEdges) {
							// the variable is carried unchanged along the failure path
							nFailIn++
							disabled = false
						}
					}
				}
				if hasNil || nFailIn > 0 {
					c.Check(disabled && nFailIn > 0, "O1", "R-POST", name, "publish-failed=>waiter-intake-off", pub.Pos(),
						"on pubfunc's error edge the WaitPub intake channel variable is set to nil before the loop waits again",
						"after a failed pubfunc call the loop keeps receiving from rp.immediatePublish: a second WaitPub overwrites the waiter that is still owed its notification, which then never returns (Close hangs until its timeout)")
				}
				if len(enables) > 0 || hasNil {
					on := len(enables) > 0
					for e := range okEdges {
						from, cut := c21ForcedFrom(e)
						if an.Reaches(run, from, loopSel, cut, enables) {
							on = false
						}
					}
					c.Check(on, "O1", "R-POST", name, "publish-ok=>waiter-intake-on", pub.Pos(),
						"after a successful pubfunc call the WaitPub intake channel variable is set back to rp.immediatePublish on every path",
						"after a successful pubfunc call the loop can wait again with the WaitPub intake still switched off (nil channel): once a publish has failed, every later WaitPub and Close blocks forever")
				}
			}
		}
		// Equals tests compare against lastPublished
	}

	// (d) waiters
	closes := an.IPInner(run, nil, func(in ssa.Instruction, env *an.IPEnv) bool {
		cl, ok := in.(ssa.CallInstruction)
		if !ok || an.Callee(cl).Builtin != "close" {
			return false
		}
		_, isDefer := cl.(*ssa.Defer)
		return !isDefer
	})
	c.Min("O1 close(waiter) reached from the loop", len(closes), 1)
	definedFalse := an.CallEdges(run, an.M("github.com/ipfs/go-cid", "Cid", "Defined"), -1, func(v ssa.Value) bool { return v == tp }, false)
	definedFalse = definedFalse.Union(an.CondEdges(run, func(atom ssa.Value) (bool, bool) {
		b, ok := atom.(*ssa.BinOp)
		if !ok || (b.Op != token.EQL && b.Op != token.NEQ) {
			return false, false
		}
		if (b.X == tp && c21IsUndef(b.Y)) || (b.Y == tp && c21IsUndef(b.X)) {
			return b.Op == token.EQL, b.Op == token.NEQ
		}
		return false, false
	}))
	c.Min("O1 'nothing pending' test (toPublish.Defined() / == cid.Undef) before publishing", len(definedFalse), 1)
	for _, ci := range closes {
		arg := ci.In.(ssa.CallInstruction).Common().Args[0]
		cl := ci.Outer()
		fromImm := false
		for _, ir := range an.IPRoots(arg, ci.Env, nil) {
			r := ir.V
			if e, ok := r.(*ssa.Extract); ok {
				if sel, k := c21StateOfExtract(e); sel == loopSel && k == immIdx {
					fromImm = true
				}
			}
		}
		c.Check(fromImm, "O1", "R-FLOW", name, "closed-waiter<=immediatePublish", cl.Pos(),
			"the channel closed is a waiter received from rp.immediatePublish", "close() in the publish loop is applied to a channel that was not received from rp.immediatePublish")
		blockSel := map[ssa.Instruction]bool{loopSel: true}
		c.Check(!an.Reaches(run, pub, cl, okEdges, blockSel), "O1", "R-DOM", name, "no-close-after-failed-publish", cl.Pos(),
			"after a failed pubfunc the waiter is not closed in the same iteration",
			"the waiter can be closed in the iteration in which pubfunc failed: WaitPub/Close return although the value was not published")
		c.Check(!an.Reaches(run, loopSel, cl, okEdges.Union(definedFalse), blockSel), "O1", "R-DOM", name, "close-only-after-success-or-nothing-pending", cl.Pos(),
			"within an iteration the waiter is closed only behind pubfunc's nil-error edge or where no value is pending",
			"the waiter can be closed in an iteration that neither published successfully nor had nothing pending: WaitPub returns before the pending root is published")
	}

	// (g) the pending value is cleared only where it equals lastPublished (Equals
	// with lastPublished as one operand) or after a successful publish; and the
	// timer branches publish what is pending
	if lpParam != nil {
		lp := map[ssa.Value]bool{lpParam: true}
		for changed := true; changed; {
			changed = false
			an.Instrs(run, func(in ssa.Instruction) {
				if ph, ok := in.(*ssa.Phi); ok && !lp[ph] {
					for _, e := range ph.Edges {
						if lp[e] {
							lp[ph] = true
							changed = true
						}
					}
				}
			})
		}
		var eqVals []ssa.Value
		for _, call := range an.Calls(run, an.M("github.com/ipfs/go-cid", "Cid", "Equals")) {
			args := call.Common().Args
			if len(args) == 2 && (lp[args[0]] || lp[args[1]]) {
				if v := an.CallValue(call); v != nil {
					eqVals = append(eqVals, v)
				}
			}
		}
		eqEdges := an.BoolEdges(run, eqVals, true)
		fam := map[*ssa.Phi]bool{}
		var walk func(v ssa.Value)
		walk = func(v ssa.Value) {
			if ph, ok := v.(*ssa.Phi); ok && !fam[ph] {
				fam[ph] = true
				for _, e := range ph.Edges {
					walk(e)
				}
			}
		}
		walk(tp)
		nClr := 0
		okClr := true
		at := loopSel.Pos()
		for ph := range fam {
			for i, e := range ph.Edges {
				if !c21IsUndef(e) {
					continue
				}
				pred := ph.Block().Preds[i]
				term := pred.Instrs[len(pred.Instrs)-1]
				if !an.Reaches(run, loopSel, term, nil, nil) {
					continue // initial value before the loop
				}
				nClr++
				if !an.GuardedBy(run, loopSel, term, eqEdges.Union(okEdges)) {
					okClr, at = false, ph.Pos()
				}
			}
		}
		c.Min("O1 clears of the pending value inside the loop", nClr, 1)
		c.Check(okClr, "O1", "R-DOM", name, "pending-cleared-only-if-published", at,
			"the pending value is dropped only where it equals lastPublished (cid.Equals with lastPublished) or right after it was published",
			"the pending value can be cleared on a path that neither compared it equal to lastPublished nor just published it: an update that was never published is forgotten (WaitPub/Close then report success without publishing it)")
	}
	{
		var timerIdx []int
		for i, st := range loopSel.States {
			if st.Dir != types.RecvOnly {
				continue
			}
			if u, ok := st.Chan.(*ssa.UnOp); ok && u.Op == token.MUL {
				if f, b := an.FieldOf(u.X); f != nil && f.Name() == "C" && an.TypeIs(b.Type(), "time", "Timer") {
					timerIdx = append(timerIdx, i)
				}
			}
		}
		c.Min("O1 timer states of the loop select", len(timerIdx), 1)
		blocked := map[ssa.Instruction]bool{pub: true}
		ok := true
		for _, k := range timerIdx {
			for e := range c21Branch(run, loopSel, k) {
				from, cut := c21ForcedFrom(e)
				if an.Reaches(run, from, loopSel, cut.Union(definedFalse), blocked) {
					ok = false
				}
			}
		}
		c.Check(ok, "O1", "R-POST", name, "timer-fired=>publish-pending", loopSel.Pos(),
			"when a batching timer fires, a pending value is handed to pubfunc before the loop waits again",
			"after a batching timer fired the loop can go back to waiting without publishing the pending value: with both timers stopped nothing publishes it until the next update or WaitPub")
	}

	// (e) the WaitPub branch drains rp.update before publishing
	var drains []ssa.Instruction
	var drainSel []*ssa.Select
	for _, di := range an.IPInner(run, nil, func(in ssa.Instruction, env *an.IPEnv) bool {
		s, ok := in.(*ssa.Select)
		if !ok || s.Blocking {
			return false
		}
		for _, st := range s.States {
			if st.Dir == types.RecvOnly && c21IsFieldLoad(st.Chan, fUpdate) {
				return true
			}
		}
		return false
	}) {
		drains = append(drains, di.Outer())
		drainSel = append(drainSel, di.In.(*ssa.Select))
	}
	immBranch := c21Branch(run, loopSel, immIdx)
	if c.Need(len(immBranch) > 0, "branch of the rp.immediatePublish state") {
		blocked := map[ssa.Instruction]bool{loopSel: true}
		for _, d := range drains {
			blocked[d] = true
		}
		ok := len(drains) > 0
		for e := range immBranch {
			from, cut := c21ForcedFrom(e)
			if an.Reaches(run, from, pub, cut, blocked) {
				ok = false
			}
		}
		feeds := false
		for _, ir := range an.IPRoots(tp, nil, nil) {
			if e, isE := ir.V.(*ssa.Extract); isE {
				for _, s := range drainSel {
					if e.Tuple == ssa.Value(s) {
						feeds = true
					}
				}
			}
		}
		c.Check(ok && feeds, "O1", "R-DOM", name, "waitpub-branch-drains-rp.update", pub.Pos(),
			"a WaitPub request picks up a value still queued in rp.update (non-blocking receive feeding the value to publish) before pubfunc is called",
			"on a WaitPub request the loop can publish (or find nothing pending) without first taking the value queued in rp.update: WaitPub returns although a root handed to Update before the call is still unpublished")
	}

	// (f) loop termination signal and start
	stoppedClosed := false
	an.Instrs(run, func(in ssa.Instruction) {
		if d, ok := in.(*ssa.Defer); ok && an.Callee(d).Builtin == "close" && c21IsFieldLoad(d.Call.Args[0], fStopped) {
			all := true
			for _, r := range an.Returns(run) {
				if an.Reaches(run, nil, r, nil, nil) && !an.Dominates(d, r) {
					all = false
				}
			}
			stoppedClosed = all
		}
	})
	c.Check(stoppedClosed, "O2", "R-POST", name, "defer-close(rp.stopped)", run.Pos(),
		"the loop closes rp.stopped (deferred, registered before every return) when it exits",
		"the publish loop can exit without closing rp.stopped: Republisher.Close blocks forever")
	started := 0
	for _, fn := range p.PkgFuncs(pk) {
		an.Instrs(fn, func(in ssa.Instruction) {
			if g, ok := in.(*ssa.Go); ok && an.Callee(g).Static == run {
				started++
			}
		})
	}
	c.Check(started >= 1, "O2", "R-API", name, "started-as-goroutine", run.Pos(), "the publish loop is started with `go` by the constructor",
		"the publish loop is never started: nothing is ever published and Close blocks")
}

// ---------------------------------------------------------------- O2

func c21Close(c *an.Ctx, pk string, fUpdate, fImm, fStopped, fCancel *types.Var) {
	p := c.P
	cl := p.Func(pk, "Republisher", "Close")
	wp := p.Func(pk, "Republisher", "WaitPub")
	if !c.Need(cl != nil && wp != nil, "Republisher.Close, Republisher.WaitPub") {
		return
	}
	// WaitPub before cancel, wherever the loop's context is cancelled
	nCancel := 0
	for _, fn := range p.PkgFuncs(pk) {
		an.Instrs(fn, func(in ssa.Instruction) {
			call, ok := in.(ssa.CallInstruction)
			if !ok || !c21IsFieldLoad(call.Common().Value, fCancel) {
				return
			}
			nCancel++
			waits := an.AsInstrs(an.Calls(fn, an.M(pk, "Republisher", "WaitPub")))
			c.Check(len(waits) > 0 && an.MustPrecede(fn, call, waits), "O2", "R-DOM", c20KeyName(fn), "cancel<=WaitPub", call.Pos(),
				"the loop is cancelled only after WaitPub gave the pending value a chance to be published",
				"rp.cancel() can run without a preceding WaitPub: Close stops the loop while an update is still pending, the final root is never published")
		})
	}
	c.Min("O2 rp.cancel() calls", nCancel, 1)
	stops := an.IPSites(cl, nil, true, func(in ssa.Instruction, env *an.IPEnv) bool {
		u, ok := in.(*ssa.UnOp)
		return ok && u.Op == token.ARROW && c21IsFieldLoad(u.X, fStopped)
	})
	for _, r := range an.Returns(cl) {
		if !an.Reaches(cl, nil, r, nil, nil) {
			continue
		}
		c.Check(len(stops) > 0 && an.MustPrecede(cl, r, stops), "O2", "R-POST", c20KeyName(cl), "return<=recv(rp.stopped)", r.Pos(),
			"Close returns only after the loop has stopped", "Close can return before the publish loop has stopped: a publish may still be in flight after Close returned")
	}
	// WaitPub: nil only after the waiter sent to immediatePublish was closed
	var waiter *ssa.MakeChan
	var sendSel *ssa.Select
	for _, s := range c21Selects(wp) {
		for _, st := range s.States {
			if st.Dir == types.SendOnly && c21IsFieldLoad(st.Chan, fImm) {
				if mk, ok := st.Send.(*ssa.MakeChan); ok {
					waiter, sendSel = mk, s
				}
			}
		}
	}
	if c.Need(waiter != nil, "WaitPub: select sending a fresh channel on rp.immediatePublish") {
		gotWaiter := an.EdgeSet{}
		for _, s := range c21Selects(wp) {
			for i, st := range s.States {
				if st.Dir == types.RecvOnly && st.Chan == ssa.Value(waiter) {
					gotWaiter = gotWaiter.Union(c21Branch(wp, s, i))
				}
			}
		}
		an.Instrs(wp, func(in ssa.Instruction) {
			if u, ok := in.(*ssa.UnOp); ok && u.Op == token.ARROW && u.X == ssa.Value(waiter) {
				// plain receive: everything after it is behind the close
				for si := range u.Block().Succs {
					gotWaiter[an.Edge{From: u.Block(), Succ: si}] = true
				}
			}
		})
		n := 0
		for _, r := range an.Returns(wp) {
			if an.ReturnErrKind(wp, r) == an.ErrKindNonNil || !an.Reaches(wp, nil, r, nil, nil) {
				continue
			}
			if k := an.ReturnErrKind(wp, r); k == an.ErrKindUnknown {
				// ctx.Err() after <-ctx.Done() is non-nil by contract: accept returns of Context.Err
				if _, isErr := an.IsCallTo(r.Results[0], an.M("context", "Context", "Err")); isErr {
					continue
				}
			}
			n++
			c.Check(len(gotWaiter) > 0 && an.GuardedBy(wp, sendSel, r, gotWaiter), "O2", "R-DOM", c20KeyName(wp), "nil<=waiter-closed", r.Pos(),
				"WaitPub returns nil only on the branch where the waiter it sent was closed by the loop",
				"WaitPub can return nil without having observed the close of its waiter: callers (FlushPath, Close) proceed before the pending root is published")
		}
		c.Min("O2 nil returns of WaitPub", n, 1)
	}

	// every hand-over to the republisher passes the CID of a current node
	nUpd := 0
	for _, fn := range p.PkgFuncs(pk) {
		if fn.Signature.Recv() != nil && an.TypeIs(fn.Signature.Recv().Type(), pk, "Republisher") {
			continue
		}
		for _, u := range an.Calls(fn, an.M(pk, "Republisher", "Update")) {
			nUpd++
			cidCall, isCid := an.IsCallTo(an.Args(u)[0], an.M("github.com/ipfs/go-ipld-format", "Node", "Cid"))
			good := false
			if isCid {
				recv := an.Recv(cidCall)
				good = true
				stop := &an.FlowOpts{StopAt: func(v ssa.Value) bool {
					_, ok := c21DirNodeCall(v, pk)
					return ok
				}}
				for _, env := range c19Contexts(p.PkgFuncs(pk), fn, recv) {
					top := fn
					var site ssa.Instruction = u
					for e := env; e != nil; e = e.Up {
						top, site = e.Call.Parent(), e.Call
					}
					rs := an.IPRoots(recv, env, stop)
					if len(rs) == 0 {
						good = false
					}
					for _, r := range rs {
						okRoot := false
						if gn, ok := c21DirNodeCall(r.V, pk); ok && r.Env == nil && gn.Parent() == top && an.OnNilEdgeOf(top, gn, site) {
							okRoot = true
						}
						if r.Env == nil {
							for _, prm := range top.Params {
								if c19IsParamField(r.V, prm, "Node") {
									okRoot = true
								}
							}
						}
						if !okRoot {
							good = false
						}
					}
				}
			}
			c.Check(good, "O2", "R-FLOW", c20KeyName(fn), "repub.Update(current-node.Cid())", u.Pos(),
				"the republisher is handed the CID of the node just computed (root GetNode on its nil-error edge, or the child passed up)",
				"Republisher.Update is called with a value that is not the CID of the freshly computed root node: a stale or unrelated root is published")
		}
	}
	c.Min("O2 Republisher.Update call sites", nUpd, 1)

	// whoever closes the republisher hands it the final root first
	nCl := 0
	for _, fn := range p.PkgFuncs(pk) {
		if fn.Signature.Recv() != nil && an.TypeIs(fn.Signature.Recv().Type(), pk, "Republisher") {
			continue
		}
		closes := an.Calls(fn, an.M(pk, "Republisher", "Close"))
		upds := an.Calls(fn, an.M(pk, "Republisher", "Update"))
		for _, cc := range closes {
			nCl++
			c.Check(len(upds) > 0 && an.MustPrecede(fn, cc, an.AsInstrs(upds)), "O2", "R-DOM", c20KeyName(fn), "repub.Close<=repub.Update", cc.Pos(),
				"the final root is handed to the republisher before it is closed", c20KeyName(fn)+" closes the republisher without handing it the final root first: changes since the last update are never published")
		}
	}
	c.Min("O2 Republisher.Close() call sites", nCl, 1)
}

// ---------------------------------------------------------------- O3

func c21UpdateShape(c *an.Ctx, pk string, fUpdate *types.Var) {
	p := c.P
	up := p.Func(pk, "Republisher", "Update")
	if !c.Need(up != nil && len(up.Params) == 2, "Republisher.Update(c)") {
		return
	}
	name := c20KeyName(up)
	arg := up.Params[1]
	sels := c21Selects(up)
	var outer *ssa.Select
	recvIdx, sendIdx := -1, -1
	for _, s := range sels {
		if !s.Blocking {
			continue
		}
		for i, st := range s.States {
			if !c21IsFieldLoad(st.Chan, fUpdate) {
				continue
			}
			if st.Dir == types.RecvOnly {
				outer, recvIdx = s, i
			} else {
				sendIdx = i
			}
		}
	}
	c.Check(outer != nil && recvIdx >= 0 && sendIdx >= 0 && len(outer.States) == 2, "O3", "R-TABLE", name, "select{recv(rp.update),send(rp.update,c)}", up.Pos(),
		"Update blocks on exactly {receive the stale value from rp.update, send c to rp.update}",
		"Update is no longer a blocking select over a receive from and a send to rp.update: it can block behind a full channel or drop the new value")
	// every send (select state or plain send) on rp.update reached from Update
	// — also inside helpers — sends exactly the argument c
	isArg := func(v ssa.Value, env *an.IPEnv) bool {
		rs := an.IPRoots(v, env, nil)
		if len(rs) == 0 {
			return false
		}
		for _, r := range rs {
			if r.V != ssa.Value(arg) {
				return false
			}
		}
		return true
	}
	isSender := func(in ssa.Instruction, env *an.IPEnv) bool {
		switch x := in.(type) {
		case *ssa.Select:
			for _, st := range x.States {
				if st.Dir == types.SendOnly {
					return true
				}
			}
		case *ssa.Send:
			return true
		}
		return false
	}
	nSend := 0
	for _, si := range an.IPInner(up, nil, isSender) {
		switch x := si.In.(type) {
		case *ssa.Select:
			for _, st := range x.States {
				if st.Dir != types.SendOnly {
					continue
				}
				nSend++
				c.Check(c21IsFieldLoad(st.Chan, fUpdate) && isArg(st.Send, si.Env), "O3", "R-FLOW", name, "send-state-sends-c", x.Pos(),
					"the select sends the argument c to rp.update", "a select state of Update sends "+an.PathOf(st.Send)+" instead of the new value c: the republisher would receive a stale root after a newer one (regression)")
			}
		case *ssa.Send:
			nSend++
			c.Check(c21IsFieldLoad(x.Chan, fUpdate) && isArg(x.X, si.Env), "O3", "R-FLOW", name, "send-sends-c", x.Pos(),
				"the send puts the argument c into rp.update", "Update sends "+an.PathOf(x.X)+" instead of the new value c")
		}
	}
	c.Min("O3 send states reached from Update", nSend, 1)
	// receive arm: a non-blocking send of c follows before returning
	if outer != nil && recvIdx >= 0 {
		retry := an.IPSites(up, nil, true, func(in ssa.Instruction, env *an.IPEnv) bool {
			switch x := in.(type) {
			case *ssa.Select:
				if x.Blocking {
					return false
				}
				for _, st := range x.States {
					if st.Dir == types.SendOnly && c21IsFieldLoad(st.Chan, fUpdate) {
						return true
					}
				}
			case *ssa.Send:
				return c21IsFieldLoad(x.Chan, fUpdate)
			}
			return false
		})
		blocked := map[ssa.Instruction]bool{}
		for _, r := range retry {
			blocked[r] = true
		}
		ok := len(retry) > 0
		for e := range c21Branch(up, outer, recvIdx) {
			from, cut := c21ForcedFrom(e)
			if an.ReachesAnyReturn(up, from, cut, blocked) != nil {
				ok = false
			}
		}
		c.Check(ok, "O3", "R-POST", name, "recv-arm=>retry-send", outer.Pos(),
			"after taking the stale value out of rp.update the new value is offered to the channel before returning",
			"after receiving the stale value Update can return without offering c to rp.update: the newest root is lost and never published")
	}
	// capacity of rp.update
	nMk := 0
	for _, fn := range p.PkgFuncs(pk) {
		for _, st := range an.FieldStores(fn, fUpdate) {
			for _, r := range an.Roots(st.Val, nil) {
				mk, ok := r.(*ssa.MakeChan)
				if !ok {
					continue
				}
				nMk++
				k, isK := an.ConstOf(mk.Size)
				c.Check(isK && k.String() == "1", "O3", "R-CONST", c20KeyName(fn), "cap(rp.update)==1", mk.Pos(),
					"rp.update holds at most one (the newest) value", "rp.update is not a channel of capacity 1: with more slots the loop's single drain on WaitPub takes an older value and WaitPub returns before the newest one is published; with none Update blocks on the loop")
			}
		}
	}
	c.Min("O3 make(chan) stored to rp.update", nMk, 1)
}

// c21DirNodeCall: v is the (first) result of a call of a Directory method
// that returns (ipld.Node, error) — GetNode or the unexported variant behind it.
func c21DirNodeCall(v ssa.Value, pk string) (*ssa.Call, bool) {
	if e, ok := v.(*ssa.Extract); ok {
		v = e.Tuple
	}
	call, ok := v.(*ssa.Call)
	if !ok {
		return nil, false
	}
	h := an.Callee(call).Static
	if h == nil || h.Signature.Recv() == nil || !an.TypeIs(h.Signature.Recv().Type(), pk, "Directory") {
		return nil, false
	}
	res := h.Signature.Results()
	if res.Len() != 2 || !an.TypeIs(res.At(0).Type(), "github.com/ipfs/go-ipld-format", "Node") || !an.IsErrorType(res.At(1).Type()) {
		return nil, false
	}
	return call, true
}
